"""Deterministic cooperative scheduler for real threads (K3).

Every database statement and every value-file operation of diskcache is a yield
point (through the shims), so is the invocation of every call.  Exactly one
client runs at a time; the schedule (a list of client ids) decides who performs
the next action.  Connections use timeout=0, so BEGIN IMMEDIATE against a held
lock fails at once (BEGIN_BUSY) instead of blocking inside SQLite.
"""
import threading

import shims


class Done(Exception):
    pass


class Scheduler:
    def __init__(self, rec, post_yield=False):
        self.rec = rec
        # also yield right after a COMMIT / ROLLBACK returned (only for runs judged by call/return
        # times: checks that read the order of events off the commit order must not use it)
        self.post_yield = post_yield
        self.cond = threading.Condition()
        self.current = None          # cid allowed to run, or None (scheduler's turn)
        self.tl = threading.local()
        self.at = {}                 # cid -> (kind, detail) the client is blocked before
        self.finished = set()
        self.step_no = 0
        self.trace = []              # (step, cid, kind, detail)
        self.events = []             # (step, cid, 'call'|'ret', op index, result)
        self.abort = False

    # ---- client side ---------------------------------------------------------
    def on_action(self, kind, detail):
        cid = getattr(self.tl, 'cid', None)
        if cid is None:
            return
        self.yield_point(cid, kind, detail)

    def yield_point(self, cid, kind, detail):
        with self.cond:
            self.at[cid] = (kind, detail)
            self.current = None
            self.cond.notify_all()
            while self.current != cid:
                if self.abort:
                    raise Done()
                self.cond.wait(timeout=5)
            self.trace.append((self.step_no, cid, kind, detail))

    def client_main(self, cid, prepare, ops, execute):
        self.tl.cid = None
        try:
            prepare()
            self.tl.cid = cid
            for i, op in enumerate(ops):
                self.yield_point(cid, 'call', i)
                with self.cond:
                    self.events.append((self.step_no, cid, 'call', i, None))
                res = execute(op)
                with self.cond:
                    self.events.append((self.step_no, cid, 'ret', i, res))
        except Done:
            pass
        finally:
            self.tl.cid = None
            with self.cond:
                self.finished.add(cid)
                self.at.pop(cid, None)
                self.current = None
                self.cond.notify_all()

    # ---- scheduler side ---------------------------------------------------------
    def wait_idle(self):
        with self.cond:
            while self.current is not None:
                self.cond.wait(timeout=5)

    def grant(self, cid):
        """let `cid` perform the action it is blocked before, up to its next yield point"""
        with self.cond:
            if cid in self.finished or cid not in self.at:
                return False
            self.step_no += 1
            self.current = cid
            self.cond.notify_all()
            while self.current is not None:
                self.cond.wait(timeout=5)
        return True

    def run(self, programs, schedule, max_steps=4000):
        """programs: {cid: (prepare, ops, execute)}; schedule: iterable of cids (cycled)"""
        self.rec.on_action = self.on_action
        self.rec.on_post = self.on_action if self.post_yield else None
        threads = {}
        try:
            for cid, (prepare, ops, execute) in programs.items():
                t = threading.Thread(target=self.client_main, args=(cid, prepare, ops, execute), daemon=True)
                threads[cid] = t
                with self.cond:
                    self.current = cid      # thread runs its prepare() then blocks at the first call
                t.start()
                with self.cond:
                    while self.current is not None:
                        self.cond.wait(timeout=5)
            steps = 0
            sched = list(schedule)
            i = 0
            cids = sorted(programs)
            while len(self.finished) < len(programs) and steps < max_steps:
                # the given schedule once, then round-robin over everybody (fair: a holder that
                # the schedule happens not to mention must still get to release)
                cid = sched[i] if i < len(sched) else cids[(i - len(sched)) % len(cids)]
                i += 1
                if cid in self.finished:
                    continue
                self.grant(cid)
                steps += 1
            stuck = len(self.finished) < len(programs)
            if stuck:
                with self.cond:
                    self.abort = True
                    self.cond.notify_all()
            for t in threads.values():
                t.join(timeout=10)
            return not stuck
        finally:
            self.rec.on_action = None
            self.rec.on_post = None
