"""Interception of everything diskcache.core does to the outside world.

No source hook: `diskcache.core` reaches SQLite, the clock and the file system
only through module globals (`sqlite3`, `time`, `os`, builtin `open`), so
assigning `core.sqlite3 = SqlShim(...)` etc. sees every statement and file
operation, in order.  The log is a list of abstract actions (Appendix A/C of
DESIGN.md) that the K2 check compares with the model's micro-step trace.
"""
import builtins
import os as real_os
import re
import sqlite3 as real_sqlite3
import types

# --------------------------------------------------------------------------
# statement table: normalised SQL text -> abstract statement id

_WS = re.compile(r'\s+')


def norm(sql):
    return _WS.sub(' ', sql.strip())


_COLS = r'[a-z_, ]+'
TABLE = [
    (r'^BEGIN IMMEDIATE$', 'BEGIN'),
    (r'^COMMIT$', 'COMMIT'),
    (r'^ROLLBACK$', 'ROLLBACK'),
    (r'^SELECT ' + _COLS + r' FROM Cache WHERE key = \? AND raw = \?$', 'selKey'),
    (r'^SELECT ' + _COLS + r' FROM Cache WHERE key = \? AND raw = \? AND \(expire_time IS NULL OR expire_time > \?\)$', 'selLive'),
    (r'^UPDATE Cache SET store_time = \?, expire_time = \?, access_time = \?, access_count = \?, tag = \?, size = \?, mode = \?, filename = \?, value = \? WHERE rowid = \?$', 'updRow'),
    (r'^INSERT INTO Cache\( key, raw, store_time, expire_time, access_time, access_count, tag, size, mode, filename, value\) VALUES \(\?, \?, \?, \?, \?, \?, \?, \?, \?, \?, \?\)$', 'insRow'),
    (r'^UPDATE Cache SET expire_time = \? WHERE rowid = \?$', 'updExp'),
    (r'^UPDATE Cache SET store_time = \?, value = \?(, access_time = [-0-9.e+]+|, access_count = access_count \+ 1)? WHERE rowid = \?$', 'updIncr'),
    (r'^UPDATE Cache SET (access_time = [-0-9.e+]+|access_count = access_count \+ 1) WHERE rowid = \?$', 'updGet'),
    (r'^UPDATE Settings SET value = value \+ 1 WHERE key = "hits"$', 'hit'),
    (r'^UPDATE Settings SET value = value \+ 1 WHERE key = "misses"$', 'miss'),
    (r'^DELETE FROM Cache WHERE rowid = \?$', 'delRow'),
    (r'^SELECT filename FROM Cache WHERE expire_time IS NOT NULL AND expire_time < \? ORDER BY expire_time LIMIT \?$', 'selExpired'),
    (r'^DELETE FROM Cache WHERE rowid IN \(SELECT rowid FROM Cache WHERE expire_time IS NOT NULL AND expire_time < \? ORDER BY expire_time LIMIT \?\)$', 'delExpired'),
    (r'^SELECT filename FROM Cache ORDER BY (store_time|access_time|access_count) LIMIT \?$', 'selPolicy'),
    (r'^DELETE FROM Cache WHERE rowid IN \(SELECT rowid FROM Cache ORDER BY (store_time|access_time|access_count) LIMIT \?\)$', 'delPolicy'),
    (r'^PRAGMA page_count$', 'pageCount'),
    (r'^SELECT key FROM Cache WHERE \? < key AND key < \? AND raw = \?( AND length\(key\) = [0-9]+)? ORDER BY key (ASC|DESC) LIMIT 1$', 'selQueueEnd'),
    (r'^SELECT rowid, key, expire_time, tag, mode, filename, value FROM Cache WHERE \? < key AND key < \? AND raw = 1( AND length\(key\) = [0-9]+)? ORDER BY key (ASC|DESC) LIMIT 1$', 'selQueueHead'),
    (r'^SELECT rowid, key, raw, expire_time, tag, mode, filename, value FROM Cache ORDER BY rowid (ASC|DESC) LIMIT 1$', 'selEdge'),
    (r'^SELECT rowid, filename FROM Cache WHERE tag = \? AND rowid > \? ORDER BY rowid LIMIT \?$', 'pageTag'),
    (r'^SELECT rowid, expire_time, filename FROM Cache WHERE \? <= expire_time AND expire_time < \? ORDER BY expire_time LIMIT \?$', 'pageExpire'),
    (r'^SELECT rowid, filename FROM Cache WHERE rowid > \? ORDER BY rowid LIMIT \?$', 'pageRowid'),
    (r'^DELETE FROM Cache WHERE rowid IN \([0-9,]*\)$', 'delList'),
    (r'^SELECT key, raw FROM Cache ORDER BY key (ASC, raw ASC|DESC, raw DESC) LIMIT 1$', 'firstKey'),
    (r'^SELECT key, raw FROM Cache WHERE key = \? AND raw [<>] \? OR key [<>] \? ORDER BY key (ASC, raw ASC|DESC, raw DESC) LIMIT \?$', 'pageKey'),
    (r'^SELECT MAX\(rowid\) FROM Cache$', 'maxRowid'),
    (r'^SELECT rowid, key, raw FROM Cache WHERE \? < rowid AND rowid < \? ORDER BY rowid (ASC|DESC) LIMIT \?$', 'pageIter'),
    (r'^SELECT rowid, size, filename FROM Cache WHERE filename IS NOT NULL$', 'chkFiles'),
    (r'^UPDATE Cache SET size = \? WHERE rowid = \?$', 'chkFixSize'),
    (r'^SELECT COUNT\(key\) FROM Cache$', 'chkCount'),
    (r'^SELECT COALESCE\(SUM\(size\), 0\) FROM Cache$', 'chkSize'),
    (r'^PRAGMA integrity_check$', 'integrity'),
    (r'^VACUUM$', 'vacuum'),
]
TABLE = [(re.compile(p), i) for p, i in TABLE]

# connection set-up and schema statements: never part of a trace
TRANSPARENT = [
    re.compile(r'^SELECT key, value FROM Settings$'),
    re.compile(r'^PRAGMA (?!page_count$|integrity_check$)'),
    re.compile(r'^CREATE '),
    re.compile(r'^DROP '),
    re.compile(r'^INSERT OR (REPLACE|IGNORE) INTO Settings'),
]

_CACHE = {}


def classify(sql, params=()):
    """-> statement id, or None for transparent statements"""
    key = sql
    hit = _CACHE.get(key)
    if hit is None:
        n = norm(sql)
        hit = False
        for rx in TRANSPARENT:
            if rx.search(n):
                hit = None
                break
        if hit is False:
            for rx, sid in TABLE:
                if rx.match(n):
                    hit = sid
                    break
        if hit is False:
            if n == 'SELECT value FROM Settings WHERE key = ?':
                hit = '@get'
            elif n in ('UPDATE Settings SET value = ? WHERE key = ?',
                       'UPDATE Settings SET value = ? WHERE key =?'):
                hit = '@set'
            else:
                hit = 'unk:' + n.replace(' ', '_').replace(',', ';')
        _CACHE[key] = hit
    if hit == '@get':
        return 'get' + str(params[0]).title().replace('_', '')
    if hit == '@set':
        return 'set' + str(params[1]).title().replace('_', '')
    return hit


# --------------------------------------------------------------------------

class Recorder:
    """Collects the action log of the current call (one log per thread)."""

    def __init__(self):
        import threading
        self._tl = threading.local()
        self.file_ids = {}         # relative value-file name -> id (first appearance)
        self.on_action = None      # hook(kind, detail) called BEFORE the action runs
        self.on_post = None        # hook(kind, detail) called AFTER a COMMIT / ROLLBACK returned (scheduler only)
        self.on_raw = None         # hook(sql) called before EVERY statement, set-up statements included
        self.enabled = True

    @property
    def actions(self):             # abstract ids
        try:
            return self._tl.actions
        except AttributeError:
            self._tl.actions = []
            return self._tl.actions

    @property
    def page_counts(self):         # results of PRAGMA page_count
        try:
            return self._tl.page_counts
        except AttributeError:
            self._tl.page_counts = []
            return self._tl.page_counts

    def reset(self):
        self._tl.actions = []
        self._tl.page_counts = []

    def fid(self, path):
        rel = path
        m = re.search(r'([0-9a-f]{2})[/\\]([0-9a-f]{2})[/\\]([0-9a-f]{28}\.val)$', path)
        if m:
            rel = '/'.join(m.groups())
        if rel not in self.file_ids:
            self.file_ids[rel] = len(self.file_ids)
            self.__dict__.setdefault('file_paths', {})[rel] = path
        return self.file_ids[rel]

    def before(self, kind, detail):
        if self.on_action is not None:
            self.on_action(kind, detail)

    def add(self, act):
        if self.enabled:
            self.actions.append(act)


class _Cursor:
    def __init__(self, rows, rowcount=-1):
        self._rows = rows
        self.rowcount = rowcount

    def fetchall(self):
        return self._rows

    def fetchone(self):
        return self._rows[0] if self._rows else None

    def __iter__(self):
        return iter(self._rows)


class ConnProxy:
    def __init__(self, con, rec):
        self._con = con
        self._rec = rec

    def execute(self, sql, *args):
        rec = self._rec
        if rec.on_raw is not None:
            rec.on_raw(sql)
        params = args[0] if args else ()
        sid = classify(sql, params)
        if sid is None or not rec.enabled:
            return self._con.execute(sql, *args)
        rec.before('sql', sid)
        try:
            cur = self._con.execute(sql, *args)
            rows = cur.fetchall()
        except real_sqlite3.OperationalError:
            if sid == 'BEGIN':
                rec.add('BEGIN_BUSY')
            else:
                rec.add(sid + '!')
            raise
        except Exception:
            rec.add(sid + '!')
            raise
        rec.add(sid)
        if rec.on_post is not None and sid in ('COMMIT', 'ROLLBACK'):
            # the write lock has just been released: another client may get in before this
            # one runs its next line of Python
            rec.on_post('post', sid)
        if sid == 'pageCount':
            rec.page_counts.append(rows[0][0])
        return _Cursor(rows, cur.rowcount)

    def close(self):
        return self._con.close()

    def __getattr__(self, name):
        return getattr(self._con, name)


class SqlShim(types.ModuleType):
    """stands in for the `sqlite3` module inside diskcache.core"""

    def __init__(self, rec, timeout=None):
        super().__init__('sqlite3')
        self._rec = rec
        self._timeout = timeout
        for name in dir(real_sqlite3):
            if not name.startswith('__') and name != 'connect':
                setattr(self, name, getattr(real_sqlite3, name))

    def connect(self, *args, **kwargs):
        if self._timeout is not None:
            kwargs['timeout'] = self._timeout
        kwargs.setdefault('check_same_thread', True)
        return ConnProxy(real_sqlite3.connect(*args, **kwargs), self._rec)


class OsShim(types.ModuleType):
    def __init__(self, rec):
        super().__init__('os')
        self._rec = rec
        for name in dir(real_os):
            if not name.startswith('__') and name not in ('remove',):
                setattr(self, name, getattr(real_os, name))

    def remove(self, path):
        rec = self._rec
        if rec.enabled and str(path).endswith('.val'):
            f = rec.fid(str(path))
            rec.before('frm', f)
            rec.add('FRM%d' % f)
        return real_os.remove(path)


class _WriteProxy:
    """value file being written: every chunk and the close are yield / kill points"""

    def __init__(self, h, rec, f):
        self._h, self._rec, self._f = h, rec, f

    def write(self, data):
        self._rec.before('fchunk', self._f)
        return self._h.write(data)

    def close(self):
        self._rec.before('fclose', self._f)
        return self._h.close()

    def __enter__(self):
        self._h.__enter__()
        return self

    def __exit__(self, *exc):
        if exc[0] is None:
            self._rec.before('fclose', self._f)
        return self._h.__exit__(*exc)

    def __getattr__(self, name):
        return getattr(self._h, name)


def make_open(rec):
    def shim_open(path, mode='r', *args, **kwargs):
        p = str(path)
        if rec.enabled and p.endswith('.val'):
            f = rec.fid(p)
            if 'x' in mode or 'w' in mode:
                rec.before('fw', f)
                try:
                    h = builtins.open(path, mode, *args, **kwargs)
                except OSError:
                    rec.add('FW%d!' % f)
                    raise
                rec.add('FW%d' % f)
                if rec.on_action is not None:
                    return _WriteProxy(h, rec, f)
                return h
            rec.before('fr', f)
            rec.add('FR%d' % f)
        return builtins.open(path, mode, *args, **kwargs)
    return shim_open


class Clock:
    """stands in for the `time` module: integer-valued, advanced by the harness"""

    def __init__(self, t=1000):
        self.t = t
        self.on_sleep = None

    def time(self):
        return float(self.t)

    def sleep(self, x):
        if self.on_sleep is not None:
            self.on_sleep(x)

    def monotonic(self):
        return float(self.t)


def install(rec, clock, timeout=None):
    """Patch diskcache's module globals. Returns the modules patched."""
    import diskcache
    import diskcache.core as core
    import diskcache.fanout as fanout
    import diskcache.recipes as recipes
    assert real_os.path.realpath(diskcache.__file__).startswith(
        real_os.path.realpath(real_os.environ.get('VERIF_REPO', '/repo'))), diskcache.__file__
    core.sqlite3 = SqlShim(rec, timeout)
    core.time = clock
    core.os = OsShim(rec)
    core.open = make_open(rec)
    fanout.time = clock
    fanout.sqlite3 = core.sqlite3
    recipes.time = clock
    return core
