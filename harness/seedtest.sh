#!/bin/sh
# harness/seedtest.sh <id> <mutation-worktree> <checks...>
# Confirm a seeded change (demo fails with it, passes without, test suite passes with it), store it
# under /verif/seeded/<id>/, apply it to /repo, run the named checks, undo it, record what happened.
set -u
ID="$1"; WT="$2"; shift 2
DEST=/verif/seeded/$ID
mkdir -p "$DEST"
cp "$WT/MUTATION/patch.diff" "$DEST/patch.diff"
cp "$WT/MUTATION/demo.py" "$DEST/demo.py"
[ -f "$WT/MUTATION/notes.md" ] && cp "$WT/MUTATION/notes.md" "$DEST/notes.md"
SCR=$(mktemp -d /tmp/seedscr.XXXXXX)
git -C /repo worktree add -f "$SCR/wt" HEAD >/dev/null 2>&1
cd "$SCR/wt"
OUT_CLEAN=$(PYTHONPATH="$SCR/wt" /venv/bin/python "$DEST/demo.py" 2>&1 | grep -v conda | tail -3); RC_CLEAN=$?
PYTHONPATH="$SCR/wt" /venv/bin/python "$DEST/demo.py" >/dev/null 2>&1; RC_CLEAN=$?
git apply "$DEST/patch.diff"; RC_APPLY=$?
PYTHONPATH="$SCR/wt" /venv/bin/python "$DEST/demo.py" > "$SCR/demo_mut.out" 2>&1; RC_MUT=$?
/venv/bin/python -m pytest -q -p no:cacheprovider --timeout=900 -p no:xdist -o addopts="" tests/ > "$SCR/tests.out" 2>&1
TESTS=$(grep -E "passed|failed" "$SCR/tests.out" | tail -1)
FAILED=$(grep -E "^FAILED" "$SCR/tests.out" | grep -v test_cache_write_for_model_instance_with_deferred | head -5)
cd /verif
git -C /repo worktree remove --force "$SCR/wt"
# run the checks against /repo with the change applied
git -C /repo apply "$DEST/patch.diff"
RES=""
for C in "$@"; do
  bin/check "$C" > "$SCR/check_$C.out" 2>&1; RC=$?
  V=$(grep -c "^VIOLATION" "$SCR/check_$C.out")
  NF=$(grep "^VIOLATION" "$SCR/check_$C.out" | grep -c "no-failing-input-found")
  FIRST=$(grep -B1 "^VIOLATION" "$SCR/check_$C.out" | head -1 | cut -c1-300 | sed 's/"/'"'"'/g')
  RES="$RES{\"check\":\"$C\",\"rc\":$RC,\"violations\":$V,\"no_failing_input\":$NF,\"first\":\"$FIRST\"},"
done
git -C /repo checkout -- .
RES="[${RES%,}]"
python3 - "$ID" "$DEST" "$RC_CLEAN" "$RC_MUT" "$RC_APPLY" "$TESTS" "$FAILED" "$RES" <<'PY' 2>/dev/null
import json, sys
i, dest, rc_clean, rc_mut, rc_apply, tests, failed, res = sys.argv[1:9]
meta = {'id': i, 'demo_rc_unchanged': int(rc_clean), 'demo_rc_with_change': int(rc_mut), 'patch_applies': int(rc_apply) == 0,
        'test_suite_with_change': tests, 'tests_failed_other_than_the_always_failing_one': failed,
        'confirmed': int(rc_clean) == 0 and int(rc_mut) != 0 and not failed,
        'checks_run': json.loads(res)}
try:
    old = json.load(open(dest + '/meta.json'))
    old.update(meta)
    meta = old
except Exception:
    pass
json.dump(meta, open(dest + '/meta.json', 'w'), indent=1)
print(json.dumps(meta, indent=1))
PY
rm -rf "$SCR"
