"""Runners for the classes built on Cache (FanoutCache, Deque, Index, DjangoCache):
execute protocol operations on the real objects and produce `lcfg` / `lop` /
`lstate` lines for the Lean driver (DC.Model.Layers)."""
import os
import shutil
import sqlite3
import tempfile
import zlib

from common import Codec, kv_line, render_sql, cps
from impl import Env, scratch_root, POLICY, DEFAULT, _t, db_page_size


def dir_state(directory, local_ids, con=None, depth=0):
    """digest of one cache directory; `local_ids`: relative file name -> id"""
    close = False
    if con is None:
        con = sqlite3.connect(os.path.join(directory, 'cache.db'), timeout=5)
        close = True
    try:
        rows = con.execute(
            'SELECT rowid, key, raw, store_time, expire_time, access_time, access_count,'
            ' tag, size, mode, filename, value FROM Cache ORDER BY rowid').fetchall()
        sets = dict(con.execute('SELECT key, value FROM Settings').fetchall())
    finally:
        if close:
            con.close()
    out = []
    for (rowid, key, raw, st, et, at, an, tag, size, mode, fn, val) in rows:
        rel = None if fn is None else fn.replace(os.sep, '/')
        fid = 'n' if fn is None else (str(local_ids[rel]) if rel in local_ids else '?' + fn)
        out.append(':'.join([
            str(rowid), render_sql(key), str(int(raw)), _t(st), 'n' if et is None else _t(et), _t(at),
            str(an), render_sql(tag), str(size), str(mode), fid, render_sql(val)]))
    files = []
    for dp, _, fs in os.walk(directory):
        for name in fs:
            if name.endswith('.val'):
                full = os.path.join(dp, name)
                rel = os.path.relpath(full, directory).replace(os.sep, '/')
                with open(full, 'rb') as h:
                    data = h.read()
                fid = local_ids.get(rel)
                files.append((fid if fid is not None else 10 ** 9, '%s:%d:%d' % (
                    fid if fid is not None else '?' + rel, len(data), zlib.adler32(data) & 0xffffffff)))
    files.sort()
    return 'c=%d z=%d h=%d m=%d st=%d d=%d rows=%s files=%s' % (
        sets['count'], sets['size'], sets['hits'], sets['misses'], int(bool(sets['statistics'])),
        depth, ';'.join(out), ';'.join(x[1] for x in files))


class LayerRunner:
    cls = None

    def __init__(self, cfg, directory=None):
        self.env = Env.get()
        self.rec = self.env.rec
        self.clock = self.env.clock
        c = dict(cfg)
        c.setdefault('policy', 'lrs')
        c.setdefault('cull', 10)
        c.setdefault('limN', 2 ** 30)
        c.setdefault('limD', 1)
        c.setdefault('mfs', 32768)
        c.setdefault('disk', 'pickle')
        c.setdefault('proto', 5)
        c.setdefault('stats', 0)
        c.setdefault('shards', 1)
        self.cfg = c
        self.codec = Codec(c['disk'], c['proto'])
        self.owns_dir = directory is None
        self.dir = directory or tempfile.mkdtemp(prefix='l-', dir=scratch_root())
        self.rec.enabled = False
        if self.owns_dir:
            self.rec.file_ids = {}
            self.rec.file_paths = {}
        self.obj = self.make()
        self.rec.enabled = True
        self.blocks = []

    def cdir_of(self):
        """the directory of the underlying cache (a second handle of a fanout-made object goes to the
        same subdirectory)"""
        c = self.cfg
        if c.get('via') == 'fanout':
            return os.path.join(self.dir, 'deque', 'd') if self.cls == 'deque' else os.path.join(self.dir, 'index', 'x')
        return self.dir

    def settings(self):
        c = self.cfg
        return dict(eviction_policy=POLICY[c['policy']], cull_limit=c['cull'], disk_min_file_size=c['mfs'],
                    statistics=c['stats'], disk_pickle_protocol=c['proto'])

    def cfg_line(self, **extra):
        c = self.cfg
        f = dict(cls=self.cls, policy=c['policy'], cull=c['cull'], limN=c['limN'], limD=c['limD'], mfs=c['mfs'],
                 disk=c['disk'], stats=c['stats'], shards=c['shards'], page=100, batch=10, qorigin=500000000000000)
        f.update(extra)
        return kv_line('lcfg', f)

    def local_ids(self, directory):
        ids = {}
        n = 0
        real = os.path.realpath(directory)
        for rel, path in getattr(self.rec, 'file_paths', {}).items():
            if os.path.realpath(path).startswith(real + os.sep):
                ids[rel] = n
                n += 1
        return ids

    def close(self):
        try:
            self.obj.close()
        except Exception:
            try:
                self.obj.cache.close()
            except Exception:
                pass
        if self.owns_dir:
            shutil.rmtree(self.dir, ignore_errors=True)

    # shared field encoders -------------------------------------------------------
    def enc_key(self, f, k):
        codec = self.codec
        f['k'] = codec.render_key(k)
        kp = codec.key_pickle(k) if (codec.disk == 'json' or codec.native(k, True) is None) else None
        f['kp'] = kp.hex() if kp is not None else '-'

    def enc_val(self, f, v):
        f['v'], vp = self.val_token(v)
        f['vp'] = vp or '-'

    def val_token(self, v):
        """(value token, hex of its pickle or None)"""
        codec = self.codec
        if codec.disk == 'json':
            vp = codec.val_pickle(v)
            return 'o' + vp.hex(), vp.hex()
        nat = codec.native(v, False)
        if nat is not None:
            return nat, None
        vp = codec.val_pickle(v)
        return (('i%d' % v) if type(v) is int else 'o' + vp.hex()), vp.hex()

    def enc_vals(self, f, vs):
        toks = [self.val_token(v) for v in vs]
        f['vs'] = ';'.join(t for t, _ in toks) or '-'
        f['vps'] = ';'.join(p or '_' for _, p in toks) or '-'

    def enc_keys(self, f, ks):
        codec = self.codec
        toks = []
        for k in ks:
            kp = codec.key_pickle(k) if (codec.disk == 'json' or codec.native(k, True) is None) else None
            toks.append((codec.render_key(k), kp.hex() if kp is not None else '_'))
        f['ks'] = ';'.join(t for t, _ in toks) or '-'
        f['kps'] = ';'.join(p for _, p in toks) or '-'

    def finish(self, f, res):
        f['env'] = ','.join(str(pc * self.page_size()) for pc in self.rec.page_counts) or '-'
        return kv_line('lop', f), res

    def page_size(self):
        return 4096

    def run(self, op):
        self.clock.t = op.get('now', self.clock.t)
        self.rec.reset()
        f = {'cls': self.cls, 'm': op['m'], 'now': self.clock.t}
        try:
            res = self.call(op, f)
        except self.env.core.Timeout:
            res = '!Timeout'
        except Exception as e:
            res = '!' + type(e).__name__
        return self.finish(f, res)


def route_of(fc, key, shards):
    """shard index of a key: the FanoutCache's own routing function; if its private name changes, the
    documented rule (the Disk's hash of the key modulo the number of shards)"""
    try:
        return fc._hash(key) % fc._count
    except AttributeError:
        import diskcache
        probe = diskcache.Cache(os.path.join(fc.directory, '000'))
        try:
            return probe.disk.hash(key) % shards
        finally:
            probe.close()


def tf(x):
    return 'T' if x is True else 'F' if x is False else repr(x)


class FanoutRunner(LayerRunner):
    cls = 'fanout'

    def make(self):
        c = self.cfg
        s = self.settings()
        if c['disk'] == 'json':
            s['disk'] = self.env.diskcache.JSONDisk
            s.pop('disk_pickle_protocol', None)
        return self.env.diskcache.FanoutCache(self.dir, shards=c['shards'], size_limit=c['limN'], **s)

    def page_size(self):
        return db_page_size(os.path.join(self.dir, '000'))

    def state(self):
        parts = []
        for i in range(self.cfg['shards']):
            d = os.path.join(self.dir, '%03d' % i)
            # inside an open block only the owner's connections see the working state
            con = self.obj._shards[i]._con._con if self.blocks else None
            parts.append(dir_state(d, self.local_ids(d), con=con, depth=len(self.blocks)))
        return ' || '.join(parts)

    def state_line(self):
        return 'lstate cls=fanout'

    def flags(self, r, et, tg):
        v = lambda x: 'D' if x is DEFAULT else self.codec.render_val(x)
        from common import render_time
        if et and tg:
            return '(%s,%s,%s)' % (v(r[0]), render_time(r[1]), render_sql(r[2]))
        if et:
            return '(%s,%s)' % (v(r[0]), render_time(r[1]))
        if tg:
            return '(%s,%s)' % (v(r[0]), render_sql(r[1]))
        return v(r)

    def call(self, op, f):
        c = self.obj
        m = op['m']
        if 'k' in op:
            self.enc_key(f, op['k'])
        if 'v' in op and not op.get('read'):
            self.enc_val(f, op['v'])
        if 'ttl' in op:
            f['ttl'] = 'n' if op['ttl'] is None else op['ttl']
        if 'tag' in op:
            f['tag'] = render_sql(op['tag'])
        et, tg = int(op.get('et', 0)), int(op.get('tg', 0))
        if et:
            f['et'] = 1
        if tg:
            f['tg'] = 1
        k = op.get('k')
        if m in ('set', 'add') and op.get('read'):
            # the value is given as a readable binary stream
            import io
            f['v'], f['vp'], f['read'] = 'y' + op['v'].hex(), '-', 1
            fn = c.set if m == 'set' else c.add
            return tf(fn(k, io.BytesIO(op['v']), expire=op.get('ttl'), read=True, tag=op.get('tag')))
        if m == 'set':
            return tf(c.set(k, op['v'], expire=op.get('ttl'), tag=op.get('tag')))
        if m == 'add':
            return tf(c.add(k, op['v'], expire=op.get('ttl'), tag=op.get('tag')))
        if m == 'touch':
            return tf(c.touch(k, expire=op.get('ttl')))
        if m == 'incr':
            f['delta'] = op.get('delta', 1)
            d = op.get('default', 0)
            f['default'] = 'n' if d is None else d
            if op.get('via') == 'decr':
                f['m'] = 'decr'
                f['delta'] = -f['delta']
                return 'i%d' % c.decr(k, f['delta'], d)
            return 'i%d' % c.incr(k, f['delta'], d)
        if m == 'read':
            return self.codec.render_val(c.read(k))
        if m == 'reset':
            f['key'] = op['key']
            f['value'] = op['value']
            return 'i%d' % c.reset(op['key'], op['value'])
        if m == 'tbegin':
            cm = c.transact()
            cm.__enter__()
            self.blocks.append(cm)
            return 'n'
        if m == 'tend':
            self.blocks.pop().__exit__(None, None, None)
            return 'n'
        if m == 'traise':
            n = int(op.get('n', 1))
            f['n'] = n
            cls_ = {'RuntimeError': RuntimeError, 'KeyboardInterrupt': KeyboardInterrupt, 'SystemExit': SystemExit}[op.get('exc', 'RuntimeError')]
            exc = cls_('abort')
            for _ in range(min(n, len(self.blocks))):
                try:
                    self.blocks.pop().__exit__(cls_, exc, None)
                except BaseException as e_:      # noqa
                    if e_ is not exc:
                        raise
            return 'n'
        if m == 'get':
            return self.flags(c.get(k, default=DEFAULT, expire_time=bool(et), tag=bool(tg)), et, tg)
        if m == 'getitem':
            return self.codec.render_val(c[k])
        if m == 'contains':
            return tf(k in c)
        if m == 'pop':
            return self.flags(c.pop(k, default=DEFAULT, expire_time=bool(et), tag=bool(tg)), et, tg)
        if m == 'delete':
            return tf(c.delete(k))
        if m == 'delitem':
            del c[k]
            return 'T'
        if m == 'len':
            return 'i%d' % len(c)
        if m == 'volume':
            return 'i%d' % c.volume()
        if m == 'clear':
            return 'i%d' % c.clear()
        if m == 'expire':
            return 'i%d' % c.expire()
        if m == 'evict':
            return 'i%d' % c.evict(op.get('tag'))
        if m == 'cull':
            return 'i%d' % c.cull()
        if m == 'iter':
            return '[' + ','.join(self.codec.render_key(x) for x in c) + ']'
        if m == 'riter':
            return '[' + ','.join(self.codec.render_key(x) for x in reversed(c)) + ']'
        if m == 'stats':
            f['enable'] = int(op.get('enable', 1))
            f['reset'] = int(op.get('reset', 0))
            return '(i%d,i%d)' % c.stats(enable=bool(f['enable']), reset=bool(f['reset']))
        if m == 'check':
            ws = [str(w.message) for w in c.check()]
            ws = [w for w in ws if not w.startswith('empty directory')]
            return '[]' if not ws else '!Inconsistent'
        if m == 'route':
            return 'i%d' % route_of(c, k, self.cfg['shards'])
        raise ValueError(m)


class DequeRunner(LayerRunner):
    cls = 'deque'

    def make(self):
        c = self.cfg
        self.cfg['policy'] = 'none'
        via = c.get('via')
        if via == 'fanout' and self.owns_dir:
            # the Deque a FanoutCache hands out (fanout.deque(name)): its own cache in a subdirectory,
            # which must never evict; brought to the history's settings afterwards
            self.fc = self.env.diskcache.FanoutCache(self.dir, shards=2)
            obj = self.fc.deque('d', maxlen=c.get('maxlen'))
            cache = obj.cache
            cache.reset('disk_min_file_size', c['mfs'])
            cache.reset('disk_pickle_protocol', c['proto'])
        else:
            cache = self.env.diskcache.Cache(self.cdir_of(), eviction_policy='none', disk_min_file_size=c['mfs'],
                                             disk_pickle_protocol=c['proto'])
            obj = self.env.diskcache.Deque.fromcache(cache, maxlen=c.get('maxlen'))
        if c.get('limN', 2 ** 30) != 2 ** 30:
            cache.reset('size_limit', c['limN'])        # a tiny limit: a Deque must still never evict
        self.cache = cache
        self.cdir = cache.directory
        return obj

    def page_size(self):
        return db_page_size(self.cache.directory)

    def cfg_line(self):
        ml = self.cfg.get('maxlen')
        return LayerRunner.cfg_line(self, maxlen='n' if ml is None else ml)

    def state(self):
        return dir_state(self.cdir, self.local_ids(self.cdir))

    def state_line(self):
        return 'lstate cls=deque'

    def close(self):
        try:
            self.cache.close()
        except Exception:
            pass
        if self.owns_dir:
            shutil.rmtree(self.dir, ignore_errors=True)

    def call(self, op, f):
        d = self.obj
        m = op['m']
        rv = self.codec.render_val
        if 'v' in op and not op.get('read'):
            self.enc_val(f, op['v'])
        if 'i' in op:
            f['i'] = op['i']
        if m == 'append':
            d.append(op['v'])
            return 'n'
        if m == 'appendleft':
            d.appendleft(op['v'])
            return 'n'
        if m == 'pop':
            return rv(d.pop())
        if m == 'popleft':
            return rv(d.popleft())
        if m == 'peek':
            return rv(d.peek())
        if m == 'peekleft':
            return rv(d.peekleft())
        if m == 'len':
            return 'i%d' % len(d)
        if m == 'getitem':
            return rv(d[op['i']])
        if m == 'setitem':
            d[op['i']] = op['v']
            return 'n'
        if m == 'delitem':
            del d[op['i']]
            return 'n'
        if m == 'iter':
            return '[' + ','.join(rv(x) for x in d) + ']'
        if m == 'riter':
            return '[' + ','.join(rv(x) for x in reversed(d)) + ']'
        if m == 'clear':
            d.clear()
            return 'n'
        if m == 'rotate':
            d.rotate(op['i'])
            return 'n'
        if m == 'reverse':
            d.reverse()     # (the temporary Deque lives in another directory: its files get no local id)
            return 'n'
        if m == 'maxlen':
            d.maxlen = op['i']
            return 'n'
        if m in ('extend', 'extendleft', 'iadd'):
            self.enc_vals(f, op['vs'])
            if m == 'extend':
                d.extend(iter(op['vs']))
            elif m == 'extendleft':
                d.extendleft(iter(op['vs']))
            else:
                d += list(op['vs'])
                if d is not self.obj:
                    return '!NotSameObject'
            return 'n'
        if m == 'count':
            return 'i%d' % d.count(op['v'])
        if m == 'remove':
            d.remove(op['v'])
            return 'n'
        if m == 'cmp':
            import collections
            import operator
            self.enc_vals(f, op['vs'])
            f['op'] = op['op']
            that = collections.deque(op['vs']) if op.get('that') == 'deque' else list(op['vs'])
            r = getattr(operator, op['op'])(d, that)
            return 'T' if r is True else 'F' if r is False else '!' + repr(r)
        if m in ('copy', 'pickle', 'reopen'):
            # a second handle on the same directory takes over (the first stays open, as in a program
            # that keeps both); `reopen` closes the first one before
            self.rec.enabled = False
            try:
                if m == 'copy':
                    new = d.copy()
                elif m == 'pickle':
                    import pickle
                    new = pickle.loads(pickle.dumps(d))
                else:
                    ml = d.maxlen
                    d.cache.close()
                    new = self.env.diskcache.Deque(directory=self.cdir, maxlen=ml)
            finally:
                self.rec.enabled = True
            if type(new) is not type(d) or new.directory != d.directory:
                return '!NotSameDirectory'
            self.obj = new
            self.cache = new.cache
            return 'n'
        raise ValueError(m)


class IndexRunner(LayerRunner):
    cls = 'index'

    def make(self):
        c = self.cfg
        self.cfg['policy'] = 'none'
        via = c.get('via')
        if via == 'fanout' and self.owns_dir:
            self.fc = self.env.diskcache.FanoutCache(self.dir, shards=2)
            obj = self.fc.index('x')
            cache = obj.cache
            cache.reset('disk_min_file_size', c['mfs'])
            cache.reset('disk_pickle_protocol', c['proto'])
        else:
            cache = self.env.diskcache.Cache(self.cdir_of(), eviction_policy='none', disk_min_file_size=c['mfs'],
                                             disk_pickle_protocol=c['proto'])
            obj = self.env.diskcache.Index.fromcache(cache)
        if c.get('limN', 2 ** 30) != 2 ** 30:
            cache.reset('size_limit', c['limN'])        # a tiny limit: an Index must still never evict
        self.cache = cache
        self.cdir = cache.directory
        return obj

    def page_size(self):
        return db_page_size(self.cache.directory)

    def state(self):
        return dir_state(self.cdir, self.local_ids(self.cdir))

    def state_line(self):
        return 'lstate cls=index'

    def close(self):
        try:
            self.cache.close()
        except Exception:
            pass
        if self.owns_dir:
            shutil.rmtree(self.dir, ignore_errors=True)

    def pair(self, kv):
        return '(%s,%s)' % (self.codec.render_key(kv[0]), self.codec.render_val(kv[1]))

    def call(self, op, f):
        x = self.obj
        m = op['m']
        rv = self.codec.render_val
        if 'k' in op:
            self.enc_key(f, op['k'])
        if 'v' in op and not op.get('read'):
            self.enc_val(f, op['v'])
        k = op.get('k')
        if m == 'getitem':
            return rv(x[k])
        if m == 'setitem':
            x[k] = op['v']
            return 'n'
        if m == 'delitem':
            del x[k]
            return 'n'
        if m == 'setdefault':
            return rv(x.setdefault(k, op['v']))
        if m == 'pop':
            f['hasdefault'] = int(op.get('hasdefault', 0))
            if f['hasdefault']:
                r = x.pop(k, DEFAULT)
                return 'D' if r is DEFAULT else rv(r)
            return rv(x.pop(k))
        if m == 'popitem':
            f['last'] = int(op.get('last', 1))
            return self.pair(x.popitem(last=bool(f['last'])))
        if m == 'peekitem':
            f['last'] = int(op.get('last', 1))
            return self.pair(x.peekitem(last=bool(f['last'])))
        if m == 'len':
            return 'i%d' % len(x)
        if m == 'iter':
            return '[' + ','.join(self.codec.render_key(y) for y in x) + ']'
        if m == 'riter':
            return '[' + ','.join(self.codec.render_key(y) for y in reversed(x)) + ']'
        if m == 'items':
            return '[' + ','.join(self.pair(kv) for kv in x.items()) + ']'
        if m == 'clear':
            x.clear()
            return 'n'
        if m == 'update':
            self.enc_keys(f, [kv[0] for kv in op['pairs']])
            self.enc_vals(f, [kv[1] for kv in op['pairs']])
            how = op.get('how', 'pairs')
            if how == 'dict':
                x.update(dict(op['pairs']))
            elif how == 'kwargs':
                x.update(**dict(op['pairs']))
            else:
                x.update(list(op['pairs']))
            return 'n'
        if m == 'keys':
            return '[' + ','.join(self.codec.render_key(y) for y in x.keys()) + ']'
        if m == 'values':
            return '[' + ','.join(rv(y) for y in x.values()) + ']'
        if m in ('eq', 'ne'):
            import collections
            self.enc_keys(f, [kv[0] for kv in op['pairs']])
            self.enc_vals(f, [kv[1] for kv in op['pairs']])
            f['ordered'] = int(op.get('ordered', 0))
            other = collections.OrderedDict(op['pairs']) if f['ordered'] else dict(op['pairs'])
            r = (x == other) if m == 'eq' else (x != other)
            return 'T' if r is True else 'F' if r is False else '!' + repr(r)
        if m in ('pickle', 'reopen'):
            self.rec.enabled = False
            try:
                if m == 'pickle':
                    import pickle
                    new = pickle.loads(pickle.dumps(x))
                else:
                    x.cache.close()
                    new = self.env.diskcache.Index(self.cdir)
            finally:
                self.rec.enabled = True
            if type(new) is not type(x) or new.directory != x.directory:
                return '!NotSameDirectory'
            self.obj = new
            self.cache = new.cache
            return 'n'
        raise ValueError(m)


class DjangoRunner(LayerRunner):
    cls = 'django'

    def make(self):
        from diskcache.djangocache import DjangoCache
        c = self.cfg
        params = {'SHARDS': c['shards'], 'KEY_PREFIX': c.get('prefix', ''), 'VERSION': c.get('version', 1),
                  'OPTIONS': {'disk_min_file_size': c['mfs'], 'size_limit': c['limN'],
                              'eviction_policy': POLICY[c['policy']], 'cull_limit': c['cull']}}
        if 'deftimeout' in c:
            params['TIMEOUT'] = c['deftimeout']
        return DjangoCache(self.dir, params)

    def page_size(self):
        return db_page_size(os.path.join(self.dir, '000'))

    def cfg_line(self):
        c = self.cfg
        dt = c.get('deftimeout', 300)
        return LayerRunner.cfg_line(self, prefix='s' + cps(c.get('prefix', '')), version=c.get('version', 1),
                                    deftimeout='n' if dt is None else dt)

    def state(self):
        return ' || '.join(dir_state(os.path.join(self.dir, '%03d' % i), self.local_ids(os.path.join(self.dir, '%03d' % i)))
                           for i in range(self.cfg['shards']))

    def state_line(self):
        return 'lstate cls=django'

    def call(self, op, f):
        from django.core.cache.backends.base import DEFAULT_TIMEOUT
        c = self.obj
        m = op['m']
        rv = self.codec.render_val
        key = op.get('key')
        version = op.get('version')
        f['version'] = 'n' if version is None else version
        if key is not None:
            f['key'] = 's' + cps(key)
        t = op.get('timeout', 'd')
        f['timeout'] = t if t in ('d', 'n') else t
        timeout = DEFAULT_TIMEOUT if t == 'd' else None if t == 'n' else t
        if 'v' in op and not op.get('read'):
            self.enc_val(f, op['v'])
        if 'tag' in op:
            f['tag'] = render_sql(op['tag'])
        if m in ('set', 'add') and op.get('read'):
            import io
            f['v'], f['vp'], f['read'] = 'y' + op['v'].hex(), '-', 1
            fn = c.set if m == 'set' else c.add
            return tf(fn(key, io.BytesIO(op['v']), timeout=timeout, version=version, read=True, tag=op.get('tag')))
        if m == 'set':
            return tf(c.set(key, op['v'], timeout=timeout, version=version, tag=op.get('tag')))
        if m == 'add':
            return tf(c.add(key, op['v'], timeout=timeout, version=version, tag=op.get('tag')))
        if m == 'get':
            r = c.get(key, DEFAULT, version=version)
            return 'D' if r is DEFAULT else rv(r)
        if m == 'touch':
            return tf(c.touch(key, timeout=timeout, version=version))
        if m == 'delete':
            return tf(c.delete(key, version=version))
        if m == 'pop':
            r = c.pop(key, DEFAULT, version=version)
            return 'D' if r is DEFAULT else rv(r)
        if m == 'has_key':
            return tf(c.has_key(key, version=version))
        if m == 'incr':
            f['delta'] = op.get('delta', 1)
            if op.get('via') == 'decr':
                f['m'] = 'decr'
                f['delta'] = -f['delta']
                return 'i%d' % c.decr(key, f['delta'], version=version)
            return 'i%d' % c.incr(key, f['delta'], version=version)
        if m == 'read':
            return rv(c.read(key, version=version))
        if m == 'clear':
            return 'i%d' % c.clear()
        if m == 'expire':
            return 'i%d' % c.expire()
        if m == 'cull':
            return 'i%d' % c.cull()
        if m == 'evict':
            f['tag'] = render_sql(op.get('tag'))
            return 'i%d' % c.evict(op.get('tag'))
        if m == 'stats':
            f['enable'] = int(op.get('enable', 1))
            f['reset'] = int(op.get('reset', 0))
            return '(i%d,i%d)' % c.stats(enable=bool(f['enable']), reset=bool(f['reset']))
        if m == 'backend_timeout':
            r = c.get_backend_timeout(timeout)
            return 'n' if r is None else 'i%d' % r
        if m == 'make_key':
            return 's' + cps(c.make_key(key, version=version))
        raise ValueError(m)


RUNNERS = {'fanout': FanoutRunner, 'deque': DequeRunner, 'index': IndexRunner, 'django': DjangoRunner}


def run_layer_history(hist):
    """-> list of (line, expected answer)"""
    r = RUNNERS[hist['cls']](hist['cfg'])
    out = []
    try:
        out.append((r.cfg_line(), 'ok'))
        every = hist.get('state_every', 1)
        for i, op in enumerate(hist['ops']):
            line, res = r.run(op)
            out.append((line, 'ret ' + res))
            if every and (i % every == every - 1 or i == len(hist['ops']) - 1):
                out.append((r.state_line(), 'state ' + r.state()))
    finally:
        r.close()
    return out


def layer_chunk(hists):
    import faulthandler
    import sys
    sys.path.insert(0, os.path.dirname(os.path.abspath(__file__)))
    faulthandler.dump_traceback_later(int(os.environ.get('VERIF_WORKER_TIMEOUT', '600')), exit=True)
    try:
        return [run_layer_history(h) for h in hists]
    finally:
        faulthandler.cancel_dump_traceback_later()
