"""Write the reference directories of C18 with the PINNED version of diskcache
(run once, from a git worktree of the pinned commit):

    VERIF_REPO=<worktree> PYTHONPATH=<worktree>:harness /venv/bin/python harness/mkgolden.py golden

For every serializer setting one Cache directory holding every key / value
representation, plus one 8-shard FanoutCache; next to each directory the op
lines that produced it and the digest of the resulting directory."""
import json
import os
import shutil
import sys

sys.path.insert(0, os.path.dirname(os.path.abspath(__file__)))
import gen  # noqa: E402
from impl import CacheRunner  # noqa: E402
import layers  # noqa: E402


def golden_ops(disk):
    import random
    rng = random.Random(18)
    keys = gen.c02_keys(disk)
    vals = [v for v in gen.c01_values(rng, 16, disk, bom=False) if not (isinstance(v, str) and any(0xD800 <= ord(c) <= 0xDFFF for c in v))]
    # NaN is left out: the pinned version stored it as NULL (defect D2), which is no format to preserve
    vals = [v for v in vals if not (isinstance(v, float) and v != v)]
    if disk == 'json':
        ok = []
        for v in vals:
            try:
                json.dumps(v)
                if not isinstance(v, (tuple, bytes)):
                    ok.append(v)
            except Exception:
                pass
        vals = ok
    ops = []
    now = 1000
    for i, k in enumerate(keys):
        if isinstance(k, float) and k == k and abs(k) != float('inf') and k == int(k):
            continue        # aliases of int keys
        ops.append({'m': 'set', 'now': now, 'k': k, 'v': vals[i % len(vals)], 'ttl': [None, 10 ** 9][i % 2], 'tag': [None, 't'][i % 3 == 0]})
    for j, v in enumerate(vals):
        ops.append({'m': 'set', 'now': now, 'k': 'v%d' % j, 'v': v, 'ttl': None, 'tag': None})
    ops.append({'m': 'push', 'now': now, 'v': 'queued', 'prefix': 'q', 'ttl': None, 'tag': None})
    ops.append({'m': 'push', 'now': now, 'v': b'Q' * 40, 'prefix': 'big', 'ttl': None, 'tag': None})
    return ops


def main(out):
    os.makedirs(out, exist_ok=True)
    index = []
    for disk, protos in (('pickle', [0, 1, 2, 3, 4, 5]), ('json', [5])):
        for proto in protos:
            name = '%s-p%d' % (disk, proto)
            d = os.path.join(out, name)
            shutil.rmtree(d, ignore_errors=True)
            cfg = {'mfs': 16, 'disk': disk, 'proto': proto, 'policy': 'lrs', 'cull': 10, 'stats': 0}
            r = CacheRunner(cfg, directory=d)
            r.keep_dir = True
            lines = [r.cfg_line()]
            reads = []
            for op in golden_ops(disk):
                line, res, _ = r.run(op)
                lines.append(line)
                if op['m'] == 'set':
                    gl, gres, _ = r.run({'m': 'get', 'now': op['now'], 'k': op['k'], 'et': 1, 'tg': 1})
                    reads.append([gl, gres])
            state = r.state()
            r.close()
            with open(os.path.join(out, name + '.lines'), 'w') as f:
                f.write('\n'.join(lines) + '\n')
            with open(os.path.join(out, name + '.state'), 'w') as f:
                f.write(state + '\n')
            with open(os.path.join(out, name + '.reads.json'), 'w') as f:
                json.dump(reads, f)
            index.append({'name': name, 'cfg': cfg})
    # sharded
    d = os.path.join(out, 'fanout-8')
    shutil.rmtree(d, ignore_errors=True)
    fr = layers.FanoutRunner.__new__(layers.FanoutRunner)
    fr.__class__.__init__(fr, {'mfs': 16, 'shards': 8, 'proto': 5})
    shutil.rmtree(fr.dir)
    # FanoutRunner creates its own directory; rebuild it at the golden location
    import diskcache
    fr.obj.close()
    fr.dir = d
    fr.rec.enabled = False
    fr.rec.file_ids = {}
    fr.rec.file_paths = {}
    fr.obj = diskcache.FanoutCache(d, shards=8, disk_min_file_size=16)
    fr.rec.enabled = True
    lines = [fr.cfg_line()]
    routes = []
    for i, k in enumerate(gen.c02_keys('pickle')):
        if isinstance(k, float) and k == k and abs(k) != float('inf') and k == int(k):
            continue
        line, res = fr.run({'m': 'set', 'now': 1000, 'k': k, 'v': ['val', b'B' * 30, i][i % 3], 'ttl': None, 'tag': None})
        lines.append(line)
        line, res = fr.run({'m': 'route', 'now': 1000, 'k': k})
        lines.append(line)
        routes.append(res)
    state = fr.state()
    fr.obj.close()
    with open(os.path.join(out, 'fanout-8.lines'), 'w') as f:
        f.write('\n'.join(lines) + '\n')
    with open(os.path.join(out, 'fanout-8.state'), 'w') as f:
        f.write(state + '\n')
    with open(os.path.join(out, 'index.json'), 'w') as f:
        json.dump({'caches': index, 'fanout': {'name': 'fanout-8', 'routes': routes}}, f, indent=1)
    print('golden written:', out)


def _tagged(x):
    from props.base import tag
    return tag(x)


if __name__ == '__main__':
    main(sys.argv[1])
