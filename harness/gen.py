"""Seeded generators of cache configurations and call histories.

Every random choice comes from the `random.Random` passed in, which the check
derives from VERIF_SEED, so a divergence replays exactly.
"""
import random

KEYS = ['a', 'b', b'a', -1, -1.0, 2, (1, 2), None, True, 2 ** 64, -0.0, 0, 'c', -2.5]
COUNTER_KEYS = ['n1', -7]
TAGS = [None, 'red', 'blue', b'red', 7]
TTLS = [None, None, None, 0, -1, 1, 3, 10, 10 ** 9, -5000]
PREFIXES = [None, 'q', 'q-5', 'r']


def values(mfs):
    big = max(mfs, 1)
    return [
        'x', '', 'y' * (big - 1) if big > 1 else 'z', 'w' * big, 'long\r\n\ru ' * (big // 4 + 1),
        b'', b'p', b'q' * big, b'\x00\xff' * big,
        7, -3, 2 ** 63 - 1, -2 ** 63, 2 ** 70,
        3.5, -0.0, float('inf'), float('nan'),
        None, True, {'a': 1}, [1, 2, 3] * (big // 3 + 1), (1, 'a', None),
    ]


def gen_cfg(rng, profile='full'):
    mfs = rng.choice([0, 1, 8, 8, 16, 32768])
    cfg = {
        'policy': rng.choice(['lrs', 'lru', 'lfu', 'none']),
        'cull': rng.choice([0, 1, 2, 10, 10]),
        'mfs': mfs,
        'stats': rng.choice([0, 0, 1]),
        'tagidx': rng.choice([0, 1]),
        'proto': rng.choice([0, 1, 2, 3, 4, 5, 5]),
        'disk': 'pickle',
        'limN': 2 ** 30, 'limD': 1,
    }
    if profile == 'evict':
        cfg['mfs'] = rng.choice([8, 16])
        # the database file itself is 32768 bytes (8 pages) for small tables
        cfg['limN'] = 32768 + rng.choice([0, 40, 100, 300, 1000])
        cfg['policy'] = rng.choice(['lrs', 'lru', 'lfu'])
    return cfg


def gen_op(rng, cfg, st, profile):
    """one op dict; `st` carries the clock and block depth"""
    vals = st['vals']
    keys = KEYS + COUNTER_KEYS
    w = {
        'set': 14, 'add': 5, 'get': 10, 'getitem': 3, 'read': 1, 'contains': 4, 'touch': 3,
        'incr': 4, 'pop': 4, 'delitem': 2, 'delete': 3, 'push': 5, 'pull': 3, 'peek': 2,
        'peekitem': 2, 'clear': 0.3, 'evict': 1, 'expire': 1, 'cull': 0.7, 'iter': 1,
        'riter': 0.5, 'iterkeys': 1, 'riterkeys': 0.5, 'len': 1, 'stats': 0.5, 'volume': 0.3,
        'tbegin': 1.0, 'tend': 1.5, 'traise': 0.7, 'reset': 0.3,
    }
    if profile == 'ttl':
        for m in ('touch', 'expire', 'add', 'incr', 'pull', 'peek', 'peekitem'):
            w[m] *= 2
    if profile == 'noblocks':
        w['tbegin'] = w['tend'] = w['traise'] = 0
    if st['depth'] == 0:
        w['tend'] = w['traise'] = 0
    else:
        # bulk removals and cull inside a block behave the same but make long traces
        w['tbegin'] *= 0.5
        # settings changed inside a block that rolls back leave the object's
        # cached attribute and the Settings table apart; not modelled
        w['stats'] = w['reset'] = 0
    ms = list(w)
    m = rng.choices(ms, [w[x] for x in ms])[0]
    st['now'] += rng.choice([0, 0, 1, 1, 2, 5])
    op = {'m': m, 'now': st['now']}
    if m in ('set', 'add'):
        k = rng.choice(keys)
        op['k'] = k
        if k in COUNTER_KEYS:
            op['v'] = rng.choice([7, -3, 'x', 2 ** 63 - 1, b'p'])
        elif rng.random() < 0.08:
            op['v'] = rng.choice([b'stream', b'', b's' * 40])
            op['read'] = 1
        else:
            op['v'] = rng.choice(vals)
        op['ttl'] = rng.choice(TTLS)
        op['tag'] = rng.choice(TAGS)
    elif m in ('get', 'pop'):
        op['k'] = rng.choice(keys)
        op['et'] = rng.choice([0, 0, 1])
        op['tg'] = rng.choice([0, 0, 1])
        if m == 'get' and rng.random() < 0.1:
            op['read'] = 1
    elif m in ('getitem', 'read', 'contains', 'delitem', 'delete'):
        op['k'] = rng.choice(keys)
    elif m == 'touch':
        op['k'] = rng.choice(keys)
        op['ttl'] = rng.choice(TTLS)
    elif m == 'incr':
        op['k'] = rng.choice(COUNTER_KEYS)
        op['delta'] = rng.choice([1, 1, -1, 5, 2 ** 62])
        op['default'] = rng.choice([0, 0, 10, None])
        if rng.random() < 0.35:
            op['via'] = 'decr'      # the same step spelled decr(key, -delta)
    elif m == 'push':
        op['v'] = rng.choice(vals)
        op['prefix'] = rng.choice(PREFIXES)
        op['side'] = rng.choice(['back', 'back', 'front'])
        op['ttl'] = rng.choice(TTLS)
        op['tag'] = rng.choice(TAGS)
    elif m in ('pull', 'peek'):
        op['prefix'] = rng.choice(PREFIXES)
        op['side'] = rng.choice(['front', 'front', 'back'])
        op['et'] = rng.choice([0, 0, 1])
        op['tg'] = rng.choice([0, 0, 1])
    elif m == 'peekitem':
        op['last'] = rng.choice([0, 1])
        op['et'] = rng.choice([0, 0, 1])
        op['tg'] = rng.choice([0, 0, 1])
    elif m == 'evict':
        op['tag'] = rng.choice(TAGS)
    elif m == 'stats':
        op['enable'] = rng.choice([0, 1])
        op['reset'] = rng.choice([0, 1])
    elif m == 'tbegin':
        st['depth'] += 1
    elif m == 'tend':
        st['depth'] -= 1
    elif m == 'traise':
        n = rng.randint(1, st['depth'])
        op['n'] = n
        st['depth'] -= n
        # what leaves the block: an ordinary exception, or one that is not an Exception subclass
        op['exc'] = rng.choice(['RuntimeError', 'RuntimeError', 'RuntimeError', 'KeyboardInterrupt', 'SystemExit'])
    elif m == 'reset':
        key = rng.choice(['cull_limit', 'size_limit'])
        op['key'] = key
        op['value'] = rng.choice([0, 1, 2, 10]) if key == 'cull_limit' else rng.choice(
            [2 ** 30, 32768, 33000, 40000])
    return op


def gen_history(rng, length, profile='full', cfg=None):
    cfg = cfg or gen_cfg(rng, profile)
    st = {'now': 1000, 'depth': 0, 'vals': values(cfg['mfs'] if cfg['mfs'] <= 64 else 4)}
    if cfg['mfs'] > 64 and rng.random() < 0.5:
        # a few values on both sides of the real 32 KiB threshold
        m = cfg['mfs']
        st['vals'] = st['vals'] + ['t' * (m - 1), 't' * m, b'b' * (m - 1), b'b' * m, list(range(m // 3))]
    ops = [gen_op(rng, cfg, st, profile) for _ in range(length)]
    while st['depth'] > 0:
        ops.append({'m': 'tend', 'now': st['now']})
        st['depth'] -= 1
    return {'cfg': cfg, 'ops': ops, 'state_every': 1 if length <= 60 else 7}


def bulk_history(rng, n_items, profile='full'):
    """a table larger than one 100-row page, then paging operations"""
    cfg = gen_cfg(rng, profile)
    cfg['cull'] = rng.choice([0, 10])
    ops = []
    now = 1000
    exp = rng.choice([5, 5, 9])
    # one dominant tag in most tables, so that more than one 100-row page carries it
    tags = rng.choice([['red', 'red', 'red', 'red', 'blue', None], ['red', 'blue', None], ['blue'] * 5 + ['red']])
    for i in range(n_items):
        r = rng.random()
        ttl = exp if r < 0.5 else (None if r < 0.8 else rng.choice([1, 20, -7]))
        ops.append({'m': 'set', 'now': now, 'k': rng.choice([i, 'k%d' % i, (i,)]), 'v': rng.choice(
            ['v', b'b' * 20, i]), 'ttl': ttl, 'tag': rng.choice(tags)})
        if rng.random() < 0.1:
            now += 1
    tail = [{'m': 'iter'}, {'m': 'riter'}, {'m': 'iterkeys'}, {'m': 'riterkeys'}, {'m': 'len'},
            {'m': rng.choice(['expire', 'evict', 'cull', 'clear']), 'tag': 'red'},
            {'m': 'iter'}, {'m': 'len'},
            {'m': rng.choice(['expire', 'evict', 'clear']), 'tag': 'blue'}, {'m': 'iter'}, {'m': 'clear'}]
    now += rng.choice([0, 3, 6, 30])
    for t in tail:
        t['now'] = now
        now += rng.choice([0, 1, 10])
    return {'cfg': cfg, 'ops': ops + tail, 'state_every': 50}


# ---------------------------------------------------------------------------
# C01: value round trips

ALPHA = ['a', '\r', '\n', '\0', '\x85', ' ', '\U0001F600', '\ud800']


def c01_values(rng, mfs, disk, n_random=6, bom=True):
    """bom=False gives the list as it was when golden/ was recorded (mkgolden relies on it)"""
    alpha = ALPHA[:-1] + (['\ufeff'] if bom else [])
    m = max(mfs, 1)
    lens = sorted({0, 1, max(m - 1, 0), m, m + 1, 2 * m})
    vals = []
    for L in lens:
        if L > 70000:
            continue
        vals.append('a' * L)
        vals.append(''.join(rng.choice(alpha) for _ in range(L)))
        if disk == 'pickle':
            vals.append(b'\x00\xff\r\n'[:1] * L)
            vals.append(bytes(rng.randrange(256) for _ in range(min(L, 300))) + b'z' * max(0, L - 300))
        vals.append(list(range(L // 3)))
    vals += ['\ud800', 'x\ud800' * m, 'ok' * m + '\udfff']      # lone surrogates: inline and file-sized
    if bom:
        vals += ['\ufeff', '\ufeff' + 'b' * m, '\ufeff\ufeff' + 'c' * (2 * m), 'd' * m + '\ufeff']      # a BOM is a character like any other
    vals += [0, -1, 2 ** 63 - 1, -2 ** 63, 2 ** 63, -2 ** 63 - 1, 2 ** 200,
             0.0, -0.0, 1.5, float('inf'), float('-inf'), float('nan'), 5e-324, 1.7976931348623157e308,
             None, True, False, [], {}, {'k': [1, 2.5, None, 'x']}, [[1, [2, [3]]]] * 3]
    if disk == 'pickle':
        vals += [(1, 'a', None), (), ((1, 2), (3, (4,))), frozenset([1]), b'', bytearray(b'ab'), 1 + 2j,
                 {'a': (1, 2)}, struct_nan()]
        vals += subclass_values(m)
    return vals


class StrSub(str):
    """a str subclass carrying state: must come back as StrSub, not as plain text"""
    def __new__(cls, s='', extra=None):
        o = str.__new__(cls, s)
        o.extra = extra
        return o

    def __reduce__(self):
        return (StrSub, (str.__str__(self), self.extra))

    def __eq__(self, other):
        return type(other) is StrSub and str.__eq__(self, other) and self.extra == other.extra

    def __ne__(self, other):
        return not self.__eq__(other)

    __hash__ = str.__hash__

    def __repr__(self):
        return 'StrSub(%r, %r)' % (str.__str__(self), self.extra)


class BytesSub(bytes):
    pass


class IntSub(int):
    pass


class FloatSub(float):
    pass


import enum  # noqa: E402


class Colour(str, enum.Enum):
    RED = 'red'
    LONG = 'l' * 40


class Level(enum.IntEnum):
    LOW = 1
    HIGH = 2 ** 40


SUBCLASSES = {'StrSub': StrSub, 'BytesSub': BytesSub, 'IntSub': IntSub, 'FloatSub': FloatSub}
ENUMS = {'Colour': Colour, 'Level': Level}


def subclass_values(m):
    """instances of subclasses of the natively stored types: the exact-type tests of Disk.store
    must send them through pickle (both sides of the file threshold)"""
    return [StrSub('ab', extra=7), StrSub('s' * (m + 1), extra='x'), BytesSub(b'xy'), BytesSub(b'b' * (m + 1)),
            IntSub(5), IntSub(2 ** 70), FloatSub(2.5), Colour.RED, Colour.LONG, Level.LOW, Level.HIGH]


def struct_nan():
    import struct
    # a NaN with a payload and the sign bit set
    return struct.unpack('>d', bytes.fromhex('fff8000000000123'))[0]


def c01_history(rng, cfg, v, stream=False):
    now = 1000
    ops = []
    k = rng.choice(['k', 7, b'kb', (1, 'x'), None]) if cfg['disk'] == 'pickle' else rng.choice(['k', 7, 'zz'])
    st = {'m': rng.choice(['set', 'add']), 'now': now, 'k': k, 'v': v, 'ttl': rng.choice([None, 100]),
          'tag': rng.choice([None, 't'])}
    if stream:
        st['read'] = 1
    ops.append(st)
    if not (stream and cfg['disk'] == 'json'):
        # (a raw stream stored under JSONDisk is only meant to be read back as a stream)
        ops.append({'m': 'get', 'now': now, 'k': k, 'et': rng.choice([0, 1]), 'tg': rng.choice([0, 1])})
        ops.append({'m': 'getitem', 'now': now, 'k': k})
    if stream or (cfg['disk'] == 'pickle' and isinstance(v, bytes)):
        ops.append({'m': 'read', 'now': now, 'k': k})
        ops.append({'m': 'get', 'now': now, 'k': k, 'read': 1})
    if not stream or cfg['disk'] == 'pickle':
        ops.append({'m': 'peekitem', 'now': now, 'last': 1})
        ops.append({'m': 'pop', 'now': now, 'k': k})
        ops.append({'m': 'get', 'now': now, 'k': k})
        pfx = rng.choice([None, 'q'])
        p = {'m': 'push', 'now': now, 'v': v, 'prefix': pfx, 'ttl': None, 'tag': None}
        if stream:
            p['read'] = 1
        ops.append(p)
        ops.append({'m': 'peek', 'now': now, 'prefix': pfx})
        ops.append({'m': 'pull', 'now': now, 'prefix': pfx})
        ops.append({'m': 'pull', 'now': now, 'prefix': pfx})
    ops.append({'m': 'len', 'now': now})
    return {'cfg': cfg, 'ops': ops, 'state_every': 1}


def c01_histories(rng, tier):
    hists = []
    cfgs = []
    mfss = [0, 1, 16, 32768] if tier == 'thorough' else [0, 1, 16]
    protos = [0, 1, 2, 3, 4, 5]
    for mfs in mfss:
        for disk in ('pickle', 'json'):
            ps = protos if (disk == 'pickle' and (tier == 'thorough' or mfs == 16)) else [rng.choice(protos)]
            for proto in ps:
                cfgs.append({'mfs': mfs, 'disk': disk, 'proto': proto, 'policy': 'lrs', 'cull': 10, 'stats': 0})
    if tier == 'quick':
        cfgs.append({'mfs': 32768, 'disk': 'pickle', 'proto': 5, 'policy': 'lrs', 'cull': 10, 'stats': 0})
    for cfg in cfgs:
        vals = c01_values(rng, cfg['mfs'], cfg['disk'])
        if tier == 'quick' and cfg['mfs'] > 1000:
            vals = rng.sample(vals, 12) + ['t' * 32767, 't' * 32768, '\r\n' * 16384]
        for v in vals:
            if cfg['disk'] == 'json':
                try:
                    import json
                    json.dumps(v)
                except Exception:
                    continue
                if isinstance(v, (tuple, bytes)):
                    continue
            hists.append(c01_history(rng, dict(cfg), v))
        for b in (b'', b'stream-bytes', b'\r\n\x00' * 30):
            hists.append(c01_history(rng, dict(cfg), b, stream=True))
    return hists


# ---------------------------------------------------------------------------
# C02: pairs of keys

def c02_keys(disk):
    import struct
    sub = struct.unpack('>d', bytes.fromhex('0000000000000001'))[0]
    ks = [
        0, 1, -1, 2 ** 53, 2 ** 53 + 1, 2 ** 63 - 1, -2 ** 63, 2 ** 63, -2 ** 63 - 1, 2 ** 64,
        0.0, -0.0, 1.0, -1.0, 1.5, float(2 ** 53), float(2 ** 53 + 2), float(2 ** 63), -float(2 ** 63),
        float('inf'), float('-inf'), sub, 1e300,
        '', 'a', 'b', 'a\x00', '1', 'é', '\U0001F600',
        None, True, False,
    ]
    if disk == 'pickle':
        ks += [b'', b'a', b'1', b'\x80', (), (1,), (1.0,), (1, 2), ('a', b'a'), ((1, 2), (3,)), (None,),
               frozenset([1])]
    else:
        ks += [[1], [1.0], [1, 2], {'a': 1}, 'a b']
    return ks


def c02_history(cfg, k1, k2, codec_extra=None, second='set'):
    now = 1000
    ops = [
        {'m': 'set', 'now': now, 'k': k1, 'v': 'A', 'ttl': None, 'tag': None},
        {'m': second, 'now': now, 'k': k2, 'v': 'B', 'ttl': None, 'tag': None},
        {'m': 'len', 'now': now},
        {'m': 'get', 'now': now, 'k': k1},
        {'m': 'get', 'now': now, 'k': k2},
        {'m': 'contains', 'now': now, 'k': k1},
        {'m': 'iter', 'now': now}, {'m': 'riter', 'now': now},
        {'m': 'iterkeys', 'now': now}, {'m': 'riterkeys', 'now': now},
        {'m': 'peekitem', 'now': now, 'last': 1},
        {'m': 'delete', 'now': now, 'k': k1},
        {'m': 'contains', 'now': now, 'k': k2},
        {'m': 'len', 'now': now},
    ]
    return {'cfg': cfg, 'ops': ops, 'state_every': 1}


def c02_histories(rng, tier):
    hists = []
    for disk in ('pickle', 'json'):
        ks = c02_keys(disk)
        protos = [0, 1, 2, 3, 4, 5] if disk == 'pickle' else [5]
        pairs = [(a, b) for a in ks for b in ks]
        if tier == 'quick':
            # every pair once, protocol varied over the pairs
            for i, (a, b) in enumerate(pairs):
                cfg = {'mfs': 32768, 'disk': disk, 'proto': protos[i % len(protos)], 'policy': 'lrs', 'cull': 10, 'stats': 0}
                hists.append(c02_history(cfg, a, b, second=('set', 'add')[(i // len(protos)) % 2]))
        else:
            for proto in protos:
                for (a, b) in pairs:
                    cfg = {'mfs': 32768, 'disk': disk, 'proto': proto, 'policy': 'lrs', 'cull': 10, 'stats': 0}
                    hists.append(c02_history(cfg, a, b))
                    hists.append(c02_history(cfg, a, b, second='add'))
    # a bytes key equal to the serialized form of another key
    import pickle, pickletools
    for proto in range(6):
        for other in (None, (1, 2), True, 2 ** 64):
            pk = pickletools.optimize(pickle.dumps(other, protocol=proto))
            cfg = {'mfs': 32768, 'disk': 'pickle', 'proto': proto, 'policy': 'lrs', 'cull': 10, 'stats': 0}
            for second in ('set', 'add'):
                hists.append(c02_history(cfg, other, pk, second=second))
                hists.append(c02_history(cfg, pk, other, second=second))
    return hists
