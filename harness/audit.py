"""Proof audit: build the Lean library, make sure no proof is missing, and list
the axioms every property theorem depends on.

The result is cached under lean/.lake/audit-<hash>.json keyed by a hash of all
Lean sources, so the twenty property checks of one run pay for it once.
"""
import hashlib
import json
import os
import re
import subprocess
import time

HERE = os.path.dirname(os.path.abspath(__file__))
VERIF = os.path.dirname(HERE)
LEAN_DIR = os.path.join(VERIF, 'lean')
ALLOWED_AXIOMS = {'propext', 'Classical.choice', 'Quot.sound'}
FORBIDDEN = re.compile(r'\b(sorry|admit|native_decide|bv_decide|implemented_by)\b|^\s*axiom\s|unsafe |maxHeartbeats 0', re.M)


def lean_sources():
    out = []
    for dp, dn, fs in os.walk(LEAN_DIR):
        if '.lake' in dp:
            continue
        for f in fs:
            if f.endswith('.lean') or f in ('lakefile.toml', 'properties.json', 'statements.lock'):
                out.append(os.path.join(dp, f))
    return sorted(out)


def source_hash():
    h = hashlib.sha256()
    for p in lean_sources():
        h.update(p.encode())
        with open(p, 'rb') as f:
            h.update(f.read())
    return h.hexdigest()[:16]


def strip_comments(src):
    # block comments (nested) and line comments
    out = []
    depth = 0
    i = 0
    while i < len(src):
        if src.startswith('/-', i):
            depth += 1
            i += 2
        elif src.startswith('-/', i) and depth > 0:
            depth -= 1
            i += 2
        elif depth > 0:
            i += 1
        elif src.startswith('--', i):
            j = src.find('\n', i)
            i = len(src) if j < 0 else j
        else:
            out.append(src[i])
            i += 1
    return ''.join(out)


def grep_forbidden():
    hits = []
    for p in lean_sources():
        if not p.endswith('.lean'):
            continue
        with open(p) as f:
            code = strip_comments(f.read())
        for m in FORBIDDEN.finditer(code):
            line = code[:m.start()].count('\n') + 1
            hits.append('%s:%d:%s' % (os.path.relpath(p, LEAN_DIR), line, m.group(0).strip()))
    return hits


def load_properties():
    with open(os.path.join(LEAN_DIR, 'properties.json')) as f:
        return json.load(f)


def run(cmd, **kw):
    return subprocess.run(cmd, cwd=LEAN_DIR, capture_output=True, text=True, **kw)


def build():
    t0 = time.time()
    p = run(['lake', 'build', 'DC', 'dcdriver'])
    ok = p.returncode == 0
    return ok, (p.stdout + p.stderr)[-4000:], time.time() - t0


def audit(force=False):
    """-> dict(build_ok, forbidden, theorems: name -> {axioms, ok, statement}, ...)"""
    h = source_hash()
    cache = os.path.join(LEAN_DIR, '.lake', 'audit-%s.json' % h)
    if not force and os.path.exists(cache):
        with open(cache) as f:
            return json.load(f)
    res = {'hash': h}
    ok, log, secs = build()
    res['build_ok'] = ok
    res['build_s'] = round(secs, 1)
    res['build_log'] = '' if ok else log
    res['forbidden'] = grep_forbidden()
    res['theorems'] = {}
    if ok:
        props = load_properties()
        names = sorted({t for p in props.values() for t in p['theorems']})
        mods = sorted({m for p in props.values() for m in p['modules']})
        src = ''.join('import %s\n' % m for m in mods)
        src += 'set_option pp.width 100000\n'
        for n in names:
            src += '#print axioms %s\n#check @%s\n' % (n, n)
        path = os.path.join(LEAN_DIR, '.lake', 'AuditGen.lean')
        with open(path, 'w') as f:
            f.write(src)
        p = run(['lake', 'env', 'lean', path])
        out = p.stdout + p.stderr
        res['audit_rc'] = p.returncode
        # parse
        blocks = re.split(r"(?m)^(?=')", out)
        for n in names:
            m = re.search(r"'%s' depends on axioms: \[([^\]]*)\]" % re.escape(n), out)
            m0 = re.search(r"'%s' does not depend on any axioms" % re.escape(n), out)
            if m:
                ax = [a.strip() for a in m.group(1).replace('\n', ' ').split(',') if a.strip()]
            elif m0:
                ax = []
            else:
                ax = None
            st = re.search(r"(?m)^@?%s : (.*(?:\n  .*)*)" % re.escape(n), out)
            res['theorems'][n] = {
                'axioms': ax,
                'ok': ax is not None and set(ax) <= ALLOWED_AXIOMS,
                'statement': st.group(1).strip() if st else None,
            }
        if p.returncode != 0:
            res['audit_log'] = out[-3000:]
    os.makedirs(os.path.dirname(cache), exist_ok=True)
    with open(cache, 'w') as f:
        json.dump(res, f)
    return res


def lock_path():
    return os.path.join(LEAN_DIR, 'statements.lock')


def load_lock():
    try:
        with open(lock_path()) as f:
            return json.load(f)
    except FileNotFoundError:
        return {}


def property_audit(pid):
    """Obligations and discharge status for one property."""
    a = audit()
    props = load_properties()
    spec = props.get(pid, {'theorems': [], 'modules': []})
    lock = load_lock()
    rows = []
    for n in spec['theorems']:
        t = a['theorems'].get(n, {'axioms': None, 'ok': False, 'statement': None})
        locked = lock.get(n)
        stmt_ok = locked is None or locked == t['statement']
        rows.append({'theorem': n, 'axioms': t['axioms'], 'ok': bool(t['ok'] and stmt_ok),
                     'statement_locked': locked is not None, 'statement_matches_lock': stmt_ok})
    return {
        'build_ok': a['build_ok'], 'build_log': a.get('build_log', ''), 'forbidden': a['forbidden'],
        'obligations': len(rows), 'discharged': sum(1 for r in rows if r['ok']), 'theorems': rows,
        'source_hash': a['hash'],
    }


if __name__ == '__main__':
    import sys
    if len(sys.argv) > 1 and sys.argv[1] == 'lock':
        a = audit(force=True)
        lock = {n: t['statement'] for n, t in a['theorems'].items() if t['ok']}
        with open(lock_path(), 'w') as f:
            json.dump(lock, f, indent=1, sort_keys=True)
        print('locked', len(lock), 'statements')
    else:
        a = audit(force=True)
        bad = [n for n, t in a['theorems'].items() if not t['ok']]
        print(json.dumps({'build_ok': a['build_ok'], 'forbidden': a['forbidden'], 'n': len(a['theorems']), 'bad': bad}, indent=1))
