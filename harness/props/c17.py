"""C17 — check(fix=True) repairs any out-of-band damage; plain check() only reports.

A real cache directory is damaged behind the library's back (value files
deleted, truncated (also to zero bytes), extended, added; empty directories at both levels; wrong
Settings counters), then check(), check(fix=True), check() are run for real and
on DC.Model.Check with the same observed directory; warnings and the repaired
directory are compared.  Acceptor: second check silent, undamaged items
untouched and readable."""
import os
import random
import re
import shutil
import sqlite3
import sys
import tempfile

import corr
from props import base


def observe(directory):
    """the directory as DC.Check.St sees it"""
    con = sqlite3.connect(os.path.join(directory, 'cache.db'), timeout=5)
    try:
        rows = con.execute('SELECT rowid, size, filename FROM Cache ORDER BY rowid').fetchall()
        sets = dict(con.execute('SELECT key, value FROM Settings').fetchall())
    finally:
        con.close()
    d1s, d2s, files = set(), set(), {}
    top, mid = {}, {}
    for name in sorted(os.listdir(directory)):
        p1 = os.path.join(directory, name)
        if os.path.isdir(p1):
            d1s.add(name)
            for n2 in sorted(os.listdir(p1)):
                p2 = os.path.join(p1, n2)
                if os.path.isdir(p2):
                    d2s.add((name, n2))
                    for fn in sorted(os.listdir(p2)):
                        files['%s/%s/%s' % (name, n2, fn)] = os.path.getsize(os.path.join(p2, fn))
                else:
                    mid['%s/%s' % (name, n2)] = os.path.getsize(p2)      # a file directly in a first-level directory
        elif name not in DB_FILES:
            top[name] = os.path.getsize(p1)                              # a file directly in the cache directory
    return Obs((rows, sets, sorted(d1s), sorted(d2s), files), top, mid)


# the database files themselves: sizes change while check runs; skipped by check, they influence nothing
DB_FILES = ('cache.db', 'cache.db-wal', 'cache.db-shm', 'cache.db-journal')


class Obs(tuple):
    """(rows, settings, dirs1, dirs2, value-tree files) + .top / .mid: files directly in the cache
    directory / in a first-level directory, as os.walk sees them"""
    def __new__(cls, five, top, mid):
        o = tuple.__new__(cls, five)
        o.top, o.mid = top, mid
        return o


class Namer:
    def __init__(self):
        self.f, self.d1, self.d2 = {}, {}, {}

    def fid(self, rel):
        return self.f.setdefault(rel, len(self.f))

    def did1(self, n):
        return self.d1.setdefault(n, len(self.d1) + 1)

    def did2(self, n):
        return self.d2.setdefault(n, len(self.d2) + 1)


def state_line(obs, nm, fix=None):
    rows, sets, d1s, d2s, files = obs
    f = []
    if fix is not None:
        f.append('fix=%d' % fix)
    f.append('rows=' + (';'.join('%d:%d:%s' % (r, s, 'n' if fn is None else nm.fid(fn.replace(os.sep, '/'))) for r, s, fn in rows) or '-'))
    f.append('count=%d size=%d' % (sets['count'], sets['size']))
    f.append('files=' + (';'.join('%d:%d:%d:%d' % (i, a, b, z) for i, a, b, z in sorted(
        (nm.fid(rel), nm.did1(rel.split('/')[0]), nm.did2(tuple(rel.split('/')[:2])), size) for rel, size in files.items())) or '-'))
    f.append('dirs1=' + (','.join(str(x) for x in sorted(nm.did1(n) for n in d1s)) or '-'))
    f.append('dirs2=' + (','.join('%d:%d' % x for x in sorted((nm.did1(a), nm.did2((a, b))) for a, b in d2s)) or '-'))
    top, mid = getattr(obs, 'top', {}), getattr(obs, 'mid', {})
    if top or mid or getattr(nm, 'wide', False):
        # the wider observation of DC.Check (files outside the two-level value tree); once a case uses it, every line of the case does
        nm.wide = True
        f.append('top=' + (';'.join('%d:%d' % x for x in sorted((nm.fid(rel), z) for rel, z in top.items())) or '-'))
        f.append('mid=' + (';'.join('%d:%d:%d' % x for x in sorted((nm.fid(rel), nm.did1(rel.split('/')[0]), z) for rel, z in mid.items())) or '-'))
        # skipped by check: the files in the cache directory itself whose names start with the database name
        f.append('skip=' + (','.join(str(i) for i in sorted(nm.fid(rel) for rel in top if rel.startswith('cache.db'))) or '-'))
    return ' '.join(f)


def canon_warnings(ws, directory, rows, nm):
    by_file = {fn.replace(os.sep, '/'): r for r, _, fn in rows if fn is not None}
    out = []
    for w in ws:
        msg = str(w.message)
        m = re.match(r'wrong file size: (.*), (\d+) != (\d+)$', msg)
        if m:
            rel = os.path.relpath(m.group(1), directory).replace(os.sep, '/')
            out.append('W%d:%s:%s' % (by_file[rel], m.group(2), m.group(3)))
            continue
        m = re.match(r'file not found: (.*)$', msg)
        if m:
            rel = os.path.relpath(m.group(1), directory).replace(os.sep, '/')
            out.append('N%d' % by_file[rel])
            continue
        m = re.match(r'unknown file: (.*)$', msg)
        if m:
            rel = os.path.relpath(m.group(1), directory).replace(os.sep, '/')
            out.append('U%d' % nm.fid(rel))
            continue
        m = re.match(r'empty directory: (.*)$', msg)
        if m:
            parts = os.path.relpath(m.group(1), directory).replace(os.sep, '/').split('/')
            if len(parts) == 2:
                out.append('E2:%d:%d' % (nm.did1(parts[0]), nm.did2(tuple(parts))))
            else:
                out.append('E1:%d' % nm.did1(parts[0]))
            continue
        m = re.match(r'Settings.count != COUNT\(Cache.key\); (-?\d+) != (-?\d+)$', msg)
        if m:
            out.append('C%s:%s' % m.groups())
            continue
        m = re.match(r'Settings.size != SUM\(Cache.size\); (-?\d+) != (-?\d+)$', msg)
        if m:
            out.append('Z%s:%s' % m.groups())
            continue
        out.append('?' + msg[:60])
    return sorted(out)


def stray_top_probe():
    """a value file added directly IN the cache directory (and in a FanoutCache shard directory), not in
    the two-level value tree: no item refers to it, so check() reports it, check(fix=True) removes it and
    a second check is silent (the Lean model of check covers the value tree only; this corner is judged by
    the statement)"""
    import shutil
    import tempfile
    import warnings
    import diskcache
    root = os.environ.get('VERIF_SCRATCH') or tempfile.gettempdir()
    bad = []
    for kind in ('cache', 'shard'):
        d = tempfile.mkdtemp(prefix='c17top-', dir=root)
        try:
            if kind == 'cache':
                c = diskcache.Cache(d, disk_min_file_size=8)
                where = d
            else:
                c = diskcache.FanoutCache(d, shards=2, disk_min_file_size=8)
                where = os.path.join(d, '001')
            c.set('k', b'V' * 40)
            stray = os.path.join(where, '0123456789abcdef0123456789ab.val')
            with open(stray, 'wb') as f:
                f.write(b'stray')

            def run_check(fix):
                return [str(w.message) for w in c.check(fix=fix) if 'empty directory' not in str(w.message)]
            w1 = run_check(False)
            if not any('unknown file' in m and m.endswith(os.path.basename(stray)) for m in w1) or len(w1) != 1:
                bad.append('%s: a value file added directly in the directory: check() reports %r (one "unknown file" expected)' % (kind, w1[:3]))
            if not os.path.exists(stray):
                bad.append('%s: plain check() removed the added file' % kind)
            w2 = run_check(True)
            if w2 != w1:
                bad.append('%s: check(fix=True) reports %r, plain check() reported %r' % (kind, w2[:3], w1[:3]))
            w3 = run_check(False)
            if w3 or os.path.exists(stray):
                bad.append('%s: after check(fix=True) the added file is %s and a second check reports %r' % (
                    kind, 'still there' if os.path.exists(stray) else 'gone', w3[:3]))
            if c.get('k') != b'V' * 40:
                bad.append('%s: the undamaged item is no longer readable after the repair' % kind)
            c.close()
        except Exception as e:  # noqa
            bad.append('%s: stray-file probe raised %s: %s' % (kind, type(e).__name__, str(e)[:100]))
        finally:
            shutil.rmtree(d, ignore_errors=True)
    return bad


def dbname_dir_probe():
    """a cache whose DIRECTORY PATH contains the text 'cache.db' (finding D22, fixed): unknown files are
    reported and removed there like anywhere else; and a file in the cache directory that is merely NAMED
    like a database file (cache.db.bak) is left alone"""
    import shutil
    import tempfile
    import diskcache
    root = os.environ.get('VERIF_SCRATCH') or tempfile.gettempdir()
    base_dir = tempfile.mkdtemp(prefix='c17db-', dir=root)
    bad = []
    try:
        d = os.path.join(base_dir, 'my-cache.db.dir')
        c = diskcache.Cache(d, disk_min_file_size=8)
        c.set('k', b'V' * 40)
        sub = [dp for dp, dn, fs in os.walk(d) if any(f.endswith('.val') for f in fs)][0]
        orphan = os.path.join(sub, '0123456789abcdef0123456789ab.val')
        with open(orphan, 'wb') as f:
            f.write(b'orphan')
        bak = os.path.join(d, 'cache.db.bak')
        with open(bak, 'wb') as f:
            f.write(b'backup')
        w1 = [str(w.message).split(':')[0] for w in c.check()]
        w2 = [str(w.message).split(':')[0] for w in c.check(fix=True)]
        w3 = [str(w.message).split(':')[0] for w in c.check()]
        if w1 != ['unknown file'] or w2 != ['unknown file'] or w3 or os.path.exists(orphan):
            bad.append("a cache directory whose path contains 'cache.db': an orphan value file gives check() %r, check(fix=True) %r, then %r; the file is %s" % (
                w1, w2, w3, 'still there' if os.path.exists(orphan) else 'gone'))
        if not os.path.exists(bak):
            bad.append("check(fix=True) removed cache.db.bak from the cache directory")
        if c.get('k') != b'V' * 40:
            bad.append('the undamaged item is no longer readable')
        c.close()
    except Exception as e:  # noqa
        bad.append('dbname-directory probe raised %s: %s' % (type(e).__name__, str(e)[:100]))
    finally:
        shutil.rmtree(base_dir, ignore_errors=True)
    return bad


def concurrent_check_probe():
    """check(fix=True) running while ANOTHER client stores a file-backed item (every schedule with one
    preemption of the check, under the deterministic scheduler): the repair must leave undamaged items
    untouched - the new item stays readable and a later check reports nothing"""
    import shutil
    import tempfile
    import warnings
    import diskcache
    from impl import Env, scratch_root
    from sched import Scheduler
    env = Env.get()
    bad = []
    n = 1
    total = None
    while total is None or n <= total:
        d = tempfile.mkdtemp(prefix='c17cc-', dir=scratch_root())
        env.core.sqlite3._timeout = 0
        try:
            env.rec.enabled = False
            a = diskcache.Cache(d, disk_min_file_size=8, timeout=0)
            b = diskcache.Cache(d, disk_min_file_size=8, timeout=0)
            a.set('old', b'O' * 40)
            env.rec.enabled = True
            sch = Scheduler(env.rec)
            out = {}

            def mk(cid):
                cache = a if cid == 0 else b

                def prepare():
                    len(cache)

                def execute(op):
                    try:
                        if op == 'check':
                            out[cid] = [str(w.message) for w in cache.check(fix=True, retry=True)]
                        else:
                            out[cid] = [cache.set('new', b'N' * 50, retry=True)]
                    except Exception as e:  # noqa
                        out[cid] = '!' + type(e).__name__
                        return 'x'
                    return 'n'
                return prepare, ['check' if cid == 0 else 'set'], execute
            ok = sch.run({0: mk(0), 1: mk(1)}, [0] * n + [1] * 400, max_steps=3000)
            if total is None:
                env.core.sqlite3._timeout = None
                # length of the check alone, in actions: the bound of the enumeration
                total = sum(1 for t in sch.trace if t[1] == 0) + 2
            env.core.sqlite3._timeout = None
            env.rec.enabled = False
            got_new, got_old = a.get('new'), a.get('old')
            left = [str(w.message) for w in a.check() if 'empty directory' not in str(w.message)]
            left = [m.split(':')[0] for m in left]
            waited = sum(1 for t in sch.trace if t[1] == 1 and t[2] == 'sql' and t[3] == 'BEGIN') > 1
            if not ok:
                bad.append('check(fix=True) preempted after %d actions by a set: the two calls did not both finish' % n)
            elif isinstance(out.get(0), str) or isinstance(out.get(1), str):
                bad.append('check(fix=True) preempted after %d actions by a set: outcomes %r' % (n, out))
            elif got_new != b'N' * 50 or got_old != b'O' * 40 or left:
                how = ('while the set was WAITING for the write lock held by the check (its value file, written before the lock is taken, was removed as unknown)'
                       if waited else 'although the set had COMPLETED before the check took the write lock')
                bad.append('check(fix=True) preempted after %d actions by a set of a file-backed item, %s: afterwards get(new) = %s, get(old) = %s, check() reports %r' % (
                    n, how, 'the value' if got_new == b'N' * 50 else repr(got_new)[:30], 'the value' if got_old == b'O' * 40 else repr(got_old)[:30], left[:3]))
            a.close()
            b.close()
        except Exception as e:  # noqa
            bad.append('concurrent-check probe (n=%d) raised %s: %s' % (n, type(e).__name__, str(e)[:100]))
        finally:
            env.core.sqlite3._timeout = None
            env.rec.enabled = True
            shutil.rmtree(d, ignore_errors=True)
        if len(bad) >= 40:
            break
        n += 1
    return bad, (total or 0)


def damage(rng, directory):
    """apply a random combination of damage kinds; returns the list applied"""
    applied = []
    vals = []
    for dp, _, fs in os.walk(directory):
        for fn in fs:
            if fn.endswith('.val'):
                vals.append(os.path.join(dp, fn))
    vals.sort()
    kinds = ['delete', 'truncate', 'extend', 'add_known_dir', 'add_new_dir', 'empty2', 'empty1', 'empty12', 'count', 'size',
             'move_known_dir', 'move_new_dir', 'cancel_count', 'cancel_size', 'truncate_zero',
             'add_top', 'add_mid', 'add_mid_new', 'add_dbnamed']
    for kind in rng.sample(kinds, rng.randint(0, 6)):
        if kind == 'truncate_zero' and vals:
            # emptied, not deleted: the file exists with length 0
            p = vals.pop(rng.randrange(len(vals)))
            with open(p, 'r+b') as f:
                f.truncate(0)
        elif kind in ('delete', 'truncate', 'extend') and vals:
            p = vals.pop(rng.randrange(len(vals)))
            if kind == 'delete':
                os.remove(p)
            elif kind == 'truncate':
                with open(p, 'r+b') as f:
                    f.truncate(max(0, os.path.getsize(p) - rng.randint(1, 5)))
            else:
                with open(p, 'ab') as f:
                    f.write(b'x' * rng.randint(1, 9))
        elif kind in ('move_known_dir', 'move_new_dir') and vals:
            # a value file moved elsewhere in the tree: the row's file is missing AND an unknown file
            # with the same base name exists
            p = vals.pop(rng.randrange(len(vals)))
            if kind == 'move_known_dir' and vals:
                d = os.path.dirname(rng.choice(vals))
            else:
                d = os.path.join(directory, '%02x' % rng.randrange(256), '%02x' % rng.randrange(256))
            if os.path.dirname(p) == d:
                continue
            os.makedirs(d, exist_ok=True)
            os.replace(p, os.path.join(d, os.path.basename(p)))
        elif kind == 'add_known_dir' and vals:
            d = os.path.dirname(rng.choice(vals))
            with open(os.path.join(d, '%028x.val' % rng.getrandbits(100)), 'wb') as f:
                f.write(b'u' * rng.randint(0, 20))
        elif kind == 'add_new_dir':
            d = os.path.join(directory, '%02x' % rng.randrange(256), '%02x' % rng.randrange(256))
            os.makedirs(d, exist_ok=True)
            with open(os.path.join(d, '%028x.val' % rng.getrandbits(100)), 'wb') as f:
                f.write(b'u' * rng.randint(0, 20))
        elif kind == 'add_top':
            # a stray value file directly in the cache directory
            with open(os.path.join(directory, '%028x.val' % rng.getrandbits(100)), 'wb') as f:
                f.write(b't' * rng.randint(0, 20))
        elif kind == 'add_mid' and vals:
            # a file directly in an existing first-level directory
            d = os.path.dirname(os.path.dirname(rng.choice(vals)))
            with open(os.path.join(d, '%028x.val' % rng.getrandbits(100)), 'wb') as f:
                f.write(b'm' * rng.randint(0, 20))
        elif kind == 'add_mid_new':
            # a file alone in a new first-level directory: the repair empties and removes the directory
            d = os.path.join(directory, '%02x' % rng.randrange(256))
            os.makedirs(d, exist_ok=True)
            with open(os.path.join(d, '%028x.val' % rng.getrandbits(100)), 'wb') as f:
                f.write(b'n' * rng.randint(0, 20))
        elif kind == 'add_dbnamed':
            # named like a database file, in the cache directory: skipped by check, must survive
            with open(os.path.join(directory, 'cache.db.bak'), 'wb') as f:
                f.write(b'b' * rng.randint(0, 20))
        elif kind == 'empty2':
            os.makedirs(os.path.join(directory, '%02x' % rng.randrange(256), '%02x' % rng.randrange(256)), exist_ok=True)
        elif kind == 'empty1':
            os.makedirs(os.path.join(directory, '%02x' % rng.randrange(256)), exist_ok=True)
        elif kind == 'empty12':
            a = '%02x' % rng.randrange(256)
            os.makedirs(os.path.join(directory, a, '%02x' % rng.randrange(256)), exist_ok=True)
            os.makedirs(os.path.join(directory, a, '%02x' % rng.randrange(256)), exist_ok=True)
        elif kind == 'cancel_count' and vals:
            # k value files deleted AND Settings.count too low by k: the row repairs bring the real
            # count down to exactly the stale counter
            k = rng.randint(1, min(3, len(vals)))
            for _ in range(k):
                os.remove(vals.pop(rng.randrange(len(vals))))
            con = sqlite3.connect(os.path.join(directory, 'cache.db'), timeout=5)
            con.execute('UPDATE Settings SET value = value - ? WHERE key = ?', (k, 'count'))
            con.commit()
            con.close()
        elif kind == 'cancel_size' and vals:
            # a file resized by d AND Settings.size already off by d in the same direction
            p = vals.pop(rng.randrange(len(vals)))
            old = os.path.getsize(p)
            if rng.random() < 0.5 and old > 1:
                dlt = -rng.randint(1, min(5, old - 1))
                with open(p, 'r+b') as f:
                    f.truncate(old + dlt)
            else:
                dlt = rng.randint(1, 9)
                with open(p, 'ab') as f:
                    f.write(b'x' * dlt)
            con = sqlite3.connect(os.path.join(directory, 'cache.db'), timeout=5)
            con.execute('UPDATE Settings SET value = value + ? WHERE key = ?', (dlt, 'size'))
            con.commit()
            con.close()
        elif kind in ('count', 'size'):
            con = sqlite3.connect(os.path.join(directory, 'cache.db'), timeout=5)
            con.execute('UPDATE Settings SET value = value + ? WHERE key = ?', (rng.choice([-2, -1, 1, 5]), kind))
            con.commit()
            con.close()
        else:
            continue
        applied.append(kind)
    return applied


def one_case(seed):
    """runs in a worker: build, damage, check x3; returns (lines, expected, acceptor verdict, sample)"""
    import diskcache
    rng = random.Random(seed)
    root = os.environ.get('VERIF_SCRATCH') or tempfile.gettempdir()
    d = tempfile.mkdtemp(prefix='ck-', dir=root)
    try:
        shards = rng.choice([0, 0, 3])
        if shards:
            fc = diskcache.FanoutCache(d, shards=shards, disk_min_file_size=8)
            for i in range(rng.randint(3, 24)):
                fc[rng.choice([i, 'k%d' % i])] = rng.choice([i, 'v', b'b' * rng.randint(8, 40), 'text' * rng.randint(2, 9), [1] * 9])
            fc.close()
            target = os.path.join(d, '%03d' % rng.randrange(shards))
        else:
            target = d
            c = diskcache.Cache(d, disk_min_file_size=8, eviction_policy=rng.choice(['least-recently-stored', 'none']))
            for i in range(rng.randint(0, 14)):
                c[rng.choice([i, 'k%d' % i])] = rng.choice([i, 'v', b'b' * rng.randint(8, 40), 'text' * rng.randint(2, 9), [1] * 9])
            if rng.random() < 0.3:
                import io
                c.set('empty-stream', io.BytesIO(b''), read=True)      # a legal value file of length 0
            c.close()
        applied = damage(rng, target)
        nm = Namer()
        cache = diskcache.Cache(target)
        lines, expect = [], []
        verdict = None
        # 1: plain check reports and changes nothing
        obs0 = observe(target)
        ws = cache.check()
        w0 = canon_warnings(ws, target, obs0[0], nm)
        obs1 = observe(target)
        lines.append('ck ' + state_line(obs0, nm, 0))
        expect.append('ck ' + ','.join(w0) + ' | ' + state_line(obs1, nm))
        if state_line(obs0, nm) != state_line(obs1, nm):
            verdict = 'check() without fix changed the directory'
        # 2: check(fix=True)
        ws = cache.check(fix=True)
        w1 = canon_warnings(ws, target, obs1[0], nm)
        obs2 = observe(target)
        lines.append('ck ' + state_line(obs1, nm, 1))
        expect.append('ck ' + ','.join(w1) + ' | ' + state_line(obs2, nm))
        # same inconsistencies: counter warnings by kind (the numbers move with the repairs made
        # before them), and fix mode may add directories emptied by its own repairs
        k0 = [w[0] if w[0] in 'CZ' else w for w in w0]
        k1 = [w[0] if w[0] in 'CZ' else w for w in w1]
        derived = [w for w in k1 if w not in k0]
        if any(not w.startswith('E') for w in derived) or [w for w in k0 if w not in k1]:
            verdict = verdict or 'check() and check(fix=True) report different inconsistencies: %s vs %s' % (w0, w1)
        # 3: second check is silent
        ws = cache.check()
        w2 = canon_warnings(ws, target, obs2[0], nm)
        lines.append('ck ' + state_line(obs2, nm, 0))
        expect.append('ck ' + ','.join(w2) + ' | ' + state_line(observe(target), nm))
        if w2:
            verdict = verdict or 'a second check after check(fix=True) still reports %s' % w2
        # undamaged items untouched
        before = {r: (s, f) for r, s, f in obs0[0]}
        damaged_files = set()
        for w in w0:
            if w[0] in 'WN':
                damaged_files.add(int(w[1:].split(':')[0]))
        for r, s, f in obs2[0]:
            if r not in damaged_files and before.get(r) != (s, f):
                verdict = verdict or 'an undamaged item (rowid %d) was altered by the repair' % r
        for r in before:
            if r not in damaged_files and r not in {x[0] for x in obs2[0]}:
                verdict = verdict or 'an undamaged item (rowid %d) was removed by the repair' % r
        # every remaining item readable (truncated pickle/text files: known finding D15)
        unreadable = 0
        try:
            for k in list(cache):
                try:
                    cache[k]
                except KeyError:
                    pass
                except Exception:
                    unreadable += 1
        except Exception:
            unreadable += 1
        cache.close()
        sample = {'seed': seed, 'shards': shards, 'damage': applied, 'warnings_nofix': w0, 'warnings_fix': w1, 'second_check': w2}
        return lines, expect, verdict, sample, unreadable
    finally:
        shutil.rmtree(d, ignore_errors=True)


def _chunk(seeds):
    sys.path.insert(0, os.path.dirname(os.path.dirname(os.path.abspath(__file__))))
    return [one_case(s) for s in seeds]


def run(tier, seed, rng, known, replay):
    from concurrent.futures import ProcessPoolExecutor
    n = 400 if tier == 'quick' else 6000
    if replay:
        import json
        with open(replay) as f:
            seeds = [json.load(f)['case_seed']]
    else:
        seeds = [rng.getrandbits(48) for _ in range(n)]
    parts = corr.chunks(seeds, 16)
    results = []
    with ProcessPoolExecutor(max_workers=16) as ex:
        for part in ex.map(_chunk, parts):
            results.extend(part)
    lines = [l for r in results for l in r[0]]
    answers = corr.run_driver(lines)
    violations, known_hits = [], []
    pos = 0
    kinds = {}
    distinct = set()
    unreadable_total = 0
    for s, (ls, exp, verdict, sample, unreadable) in zip(seeds, results):
        got = answers[pos:pos + len(ls)]
        pos += len(ls)
        for k in sample['damage']:
            kinds[k] = kinds.get(k, 0) + 1
        distinct.add((tuple(sorted(sample['damage'])), tuple(w[:1] for w in sample['warnings_fix'])))
        unreadable_total += unreadable
        div = None
        for l, e, g in zip(ls, exp, got):
            if canon(e) != canon(g):
                div = {'line': l, 'impl': e, 'model': g}
                break
        if unreadable:
            k = base.match_known(known, {'cfg': {}}, None, 'D15-probe unreadable item after repair')
            if k is not None:
                if k['what'] not in known_hits:
                    known_hits.append(k['what'])
            elif len(violations) < 3:
                violations.append({'replay': {'property': 'C17', 'case_seed': s, 'sample': sample, 'acceptor': 'item unreadable after repair'},
                                   'found_input': True, 'what': 'an item is unreadable after check(fix=True)'})
        if (verdict or div) and len(violations) < 3:
            violations.append({'replay': {'property': 'C17', 'case_seed': s, 'sample': sample, 'first_divergence': div,
                                          'acceptor': verdict, 'model_part': 'DC.Check.check'},
                               'found_input': bool(verdict),
                               'what': verdict or 'model/implementation correspondence broke in check: %s' % (div or {}).get('impl', '')[:120]})
    cc_total = 0
    if not replay:
        for v_ in (stray_top_probe() + dbname_dir_probe())[:3]:
            violations.append({'replay': {'property': 'C17', 'kind': 'stray-top-probe', 'acceptor': v_}, 'found_input': True, 'what': v_})
        cc_bad, cc_total = concurrent_check_probe()
        cc_new = 0
        for v_ in cc_bad:
            k_ = base.match_known(known, {'cfg': {}}, None, v_)
            if k_ is not None:
                if k_['what'] not in known_hits:
                    known_hits.append(k_['what'])
            elif cc_new < 2:
                cc_new += 1
                violations.append({'replay': {'property': 'C17', 'kind': 'concurrent-check-probe', 'acceptor': v_}, 'found_input': True, 'what': v_})
    return {
        'evaluations': len(seeds) * 3 + cc_total, 'distinct_nontrivial': len(distinct),
        'rule': 'seeded damage combinations (0-6 of: delete/truncate/extend a value file, add an unknown file in a known or new directory, empty '
                'directories at level 2 / level 1 / both, wrong Settings.count / Settings.size) on Cache and on one FanoutCache shard; each case runs '
                'check(), check(fix=True), check(); distinct = distinct (damage set, warning kinds) pairs',
        'samples': [r[3] for r in results[:3]],
        'traces': len(seeds) * 3,
        'dist': {'damage_kinds': kinds, 'cases': len(seeds), 'unreadable_after_repair': unreadable_total, 'check_preemption_points': cc_total},
        'violations': violations, 'known': known_hits,
    }


def canon(ans):
    """warnings are compared as a sorted multiset"""
    if not ans.startswith('ck '):
        return ans
    w, st = ans[3:].split(' | ', 1)
    st = ' '.join(t[:-1] if t.endswith('=-') else t for t in st.split(' '))
    return ','.join(sorted(x for x in w.split(',') if x)) + ' | ' + st
