"""Shared machinery of the per-property checks: run histories through the real
code and the Lean model, compare the fields the property's theorems rest on,
shrink a divergence, ask the property's acceptor whether the implementation's
behaviour violates the property itself, and search for a failing input."""
import copy
import os
import sys

HERE = os.path.dirname(os.path.abspath(__file__))
sys.path.insert(0, os.path.dirname(HERE))

import corr  # noqa: E402


def project(ans, fields):
    """reduce an answer line to the compared fields"""
    if ans.startswith('ret '):
        parts = ans.split(' | ')
        keep = []
        if 'result' in fields:
            keep.append(parts[0])
        if 'trace' in fields:
            keep.append(' | '.join([coarse_trace(parts[1])] + parts[2:]) if len(parts) > 1 else '')
        return ' | '.join(keep)
    if ans.startswith('state '):
        return ans if 'state' in fields else 'state'
    return ans


_VERB = {'sel': 'S', 'pag': 'S', 'fir': 'S', 'max': 'S', 'chk': 'S', 'get': 'S', 'ins': 'I', 'upd': 'U', 'hit': 'U', 'mis': 'U',
         'del': 'D', 'set': 'U'}


def coarse_trace(tr):
    """What a micro-step trace is compared on: transaction boundaries, value-file operations (with
    their file ids) and the KIND of each statement on the tables (select / insert / update / delete,
    failed or not) in order — not the spelling of the SQL.  An equivalent re-spelling of a statement
    (which the statement table does not know) then compares equal; a missing BEGIN, a file removed
    before COMMIT, a statement moved out of its transaction or an extra write do not."""
    out = []
    for a in tr.split(','):
        if not a:
            continue
        bang = a.endswith('!')
        core = a[:-1] if bang else a
        if core in ('BEGIN', 'BEGIN_BUSY', 'COMMIT', 'ROLLBACK') or core[:2] in ('FW', 'FR'):
            out.append(a)
            continue
        if core == 'pageCount' or core.startswith('unk:PRAGMA'):
            out.append('P')
            continue
        if core.startswith('unk:'):
            w = core[4:].split('_', 1)[0].upper()
            v = {'SELECT': 'S', 'INSERT': 'I', 'UPDATE': 'U', 'DELETE': 'D'}.get(w, '?' + w)
        else:
            v = _VERB.get(core[:3].lower(), '?' + core)
        out.append(v + ('!' if bang else ''))
    return ','.join(out)


def diverge(impl_out, model_out, fields):
    for j, ((line, exp), got) in enumerate(zip(impl_out, model_out + [''] * len(impl_out))):
        if project(exp, fields) != project(got, fields):
            return {'line_no': j, 'line': line, 'impl': exp, 'model': got,
                    'field': corr.first_diff_field(exp, got)}
    return None


def run_pair(hists, runner=None, workers=None):
    """-> (first divergences on all fields, stats, impl_out, model_out) per history"""
    kw = {}
    if runner is not None:
        kw['runner'] = runner
    return corr.run_histories(hists, workers=workers, **kw)


def op_index(impl_out, line_no):
    """index of the op a line belongs to (ops and state lines interleave after the cfg line)"""
    n = -1
    for j, (line, _) in enumerate(impl_out[:line_no + 1]):
        if line.startswith('op ') or line.startswith('lop '):
            n += 1
    return max(n, 0)


def shrink(hist, still_fails, budget=60):
    """delta-debug the op list: drop chunks while the predicate still fails"""
    ops = list(hist['ops'])
    n = 2
    tries = 0
    while len(ops) >= 2 and tries < budget:
        size = max(1, len(ops) // n)
        removed = False
        for i in range(0, len(ops), size):
            cand = ops[:i] + ops[i + size:]
            if not cand:
                continue
            tries += 1
            h2 = dict(hist, ops=cand, state_every=1)
            if blocks_balanced(cand) and still_fails(h2):
                ops = cand
                n = max(n - 1, 2)
                removed = True
                break
            if tries >= budget:
                break
        if not removed:
            if size == 1:
                break
            n = min(len(ops), n * 2)
    return dict(hist, ops=ops, state_every=1)


def blocks_balanced(ops):
    d = 0
    for op in ops:
        m = op.get('m')
        if m == 'tbegin':
            d += 1
        elif m == 'tend':
            d -= 1
        elif m == 'traise':
            d -= op.get('n', 1)
        if d < 0:
            return False
    return d == 0


def results_of(hist, impl_out):
    """[(op, result string)] aligned with hist['ops']"""
    out = []
    ops = iter(hist['ops'])
    for line, ans in impl_out:
        if line.startswith('op ') or line.startswith('lop '):
            out.append((next(ops), ans.split(' | ')[0][4:]))
    return out


def check_histories(pid, hists, fields, acceptor=None, known=(), max_report=3, workers=None, runner=None,
                    describe=None, search=None):
    """Run, compare, classify.  Returns a result dict for check.py."""
    res, stats, impl_out, model_out = run_pair(hists, runner=runner, workers=workers)
    violations = []
    known_hits = []
    divergent = []
    for i, h in enumerate(hists):
        if res[i] is None:
            continue
        dv = diverge(impl_out[i], model_out[i], fields)
        if dv is None:
            continue
        v0 = acceptor(h, impl_out[i]) if acceptor else None
        divergent.append((0 if v0 else 1, i, dv, v0))
    n_div = len(divergent)
    divergent.sort(key=lambda t: (t[0], len(hists[t[1]]['ops'])))
    reported_rejecting = set()
    unreproduced = []      # rejected in the batch run, not when re-run alone in a fresh process
    tries = 0
    for rank, i, dv, v0 in divergent:
        if len(violations) >= max_report or tries >= 4 * max_report + 8:
            break
        tries += 1
        h = hists[i]

        def still_fails(h2, need_reject=bool(v0)):
            try:
                _, _, io2, mo2 = run_pair([h2], runner=runner, workers=1)
                if need_reject:
                    return acceptor(h2, io2[0]) is not None
                return diverge(io2[0], mo2[0], fields) is not None
            except Exception:
                return False
        hs = shrink(h, still_fails)
        _, _, io, mo = run_pair([hs], runner=runner, workers=1)
        dv = diverge(io[0], mo[0], fields) or dv
        verdict = acceptor(hs, io[0]) if acceptor else None
        payload = {
            'property': pid, 'kind': 'correspondence', 'cfg': hs['cfg'], 'cls': hs.get('cls'), 'ops': tag(hs['ops']),
            'first_divergence': dv,
            'model_part': 'DC.Model.Cache (line protocol driver); field=' + str(dv.get('field')),
            'acceptor': verdict,
            'how_to_replay': 'bin/check %s --replay <this file>' % pid,
        }
        k = match_known(known, hs, dv, verdict)
        if k is not None:
            known_hits.append(k['what'])
            continue
        if verdict:
            reported_rejecting.add(i)
            violations.append({'replay': payload, 'found_input': True,
                               'what': 'property violated on the implementation: ' + verdict})
        elif v0 and len(unreproduced) < 40:
            # the acceptor rejected this history in the batch run but accepts it re-run on its own:
            # the failure depends on what the worker process did before (process-wide state in the
            # library).  Keep looking for a history that fails by itself; remember this one.
            payload['note'] = ('rejected in the batch run (%s); not reproduced when the history runs alone in a fresh process: '
                               'the failure depends on earlier calls of the same process' % v0[:200])
            unreproduced.append((payload, dv, v0))
        else:
            found = None
            if search is not None:
                found = search(hs, dv)
            if found:
                payload['search_found'] = found
                violations.append({'replay': payload, 'found_input': True,
                                   'what': 'correspondence broke; search found a failing input: ' + found['why']})
            else:
                violations.append({'replay': payload, 'found_input': False,
                                   'what': 'model/implementation correspondence broke at %s (%s); acceptor satisfied on the shrunk case'
                                           % (dv['line'][:80], dv.get('field'))})
    if unreproduced and not any(v.get('found_input') for v in violations):
        for payload, dv, v0 in unreproduced[:max(1, max_report - len(violations))]:
            violations.append({'replay': payload, 'found_input': False,
                               'what': 'property violated in the batch run (%s) but not when the history runs alone: the failure '
                                       'depends on earlier calls of the same process' % v0[:160]})
    # acceptor runs on every history as well (cheap): an implementation that agrees with the
    # model but violates the property would mean the model itself violates it
    acc_fail = 0
    if acceptor:
        for i, (h, io) in enumerate(zip(hists, impl_out)):
            if i in reported_rejecting:
                continue
            v = acceptor(h, io)
            if v:
                k = match_known(known, h, None, v)
                if k is not None:
                    if k['what'] not in known_hits:
                        known_hits.append(k['what'])
                    continue
                acc_fail += 1
                if len(violations) < max_report:
                    violations.append({'replay': {'property': pid, 'kind': 'acceptor', 'cfg': h['cfg'], 'ops': tag(h['ops']),
                                                  'acceptor': v}, 'found_input': True,
                                       'what': 'property violated on the implementation: ' + v})
    return {
        'violations': violations, 'known': known_hits, 'divergent': n_div, 'acceptor_failures': acc_fail,
        'stats': stats, 'impl_out': impl_out,
    }


def rerun_model(io):
    lines = [l for l, _ in io]
    return corr.run_driver(lines)


def match_known(known, hist, dv, verdict):
    """a known finding suppresses only the failing cases its matcher describes"""
    import re
    text = ' '.join([str(verdict or ''), str((dv or {}).get('line', '')), str((dv or {}).get('field', ''))])
    for k in known:
        if k.get('status') != 'known':
            continue
        m = k.get('matcher', {})
        if not m:
            continue
        if 'cfg' in m and any(hist.get('cfg', {}).get(a) != b for a, b in m['cfg'].items()):
            continue
        if 'verdict_contains' in m and m['verdict_contains'] not in text:
            continue
        if 'verdict_regex' in m and not re.search(m['verdict_regex'], text):
            continue
        return k
    return None


def op_distribution(hists, impl_out):
    """input distribution for the evidence: methods, result kinds, trace actions"""
    methods = {}
    kinds = {}
    acts = {}
    distinct = set()
    for h, io in zip(hists, impl_out):
        for (line, ans) in io:
            if not (line.startswith('op ') or line.startswith('lop ')):
                continue
            m = line.split(' ')[1][2:]
            methods[m] = methods.get(m, 0) + 1
            r = ans.split(' | ')
            res = r[0][4:]
            kind = res[:1] if not res.startswith('!') else res
            kinds[kind] = kinds.get(kind, 0) + 1
            if len(r) > 1:
                for a in r[1].split(','):
                    a = a.rstrip('0123456789')
                    if a:
                        acts[a] = acts.get(a, 0) + 1
            distinct.add((m, res, r[1] if len(r) > 1 else ''))
    return {'methods': methods, 'result_kinds': kinds, 'actions': acts}, len(distinct)


def sample(hist, io, n=6):
    """a short excerpt of one explored case for the evidence file"""
    return {'cfg': hist['cfg'], 'first_lines': [[l[:160], a[:160]] for l, a in io[1:1 + n]]}


def replay_file(path, pid, fields, acceptor):
    import json
    with open(path) as f:
        payload = json.load(f)
    hist = {'cfg': payload['cfg'], 'ops': fix_ops(payload['ops']), 'state_every': 1}
    runner = None
    if payload.get('cls'):
        import layers
        hist['cls'] = payload['cls']
        runner = layers.layer_chunk
    r = check_histories(pid, [hist], fields, acceptor=acceptor, runner=runner)
    return {'evaluations': len(hist['ops']), 'distinct_nontrivial': len(hist['ops']), 'rule': 'replay of ' + path,
            'samples': [sample(hist, r['impl_out'][0])], 'traces': 1, 'violations': r['violations'], 'known': r['known']}


def fix_ops(ops):
    """JSON round trip loses bytes/tuples; replays store them tagged"""
    return [untag(o) for o in ops]


def untag(x):
    if isinstance(x, dict):
        if set(x) == {'__bytes__'}:
            return bytes.fromhex(x['__bytes__'])
        if set(x) == {'__tuple__'}:
            return tuple(untag(v) for v in x['__tuple__'])
        if set(x) == {'__float__'}:
            return float(x['__float__'])
        if set(x) == {'__sub__'}:
            import gen
            name, args = x['__sub__']
            return gen.SUBCLASSES[name](*untag(args))
        if set(x) == {'__enum__'}:
            import gen
            return getattr(gen.ENUMS[x['__enum__'][0]], x['__enum__'][1])
        return {k: untag(v) for k, v in x.items()}
    if isinstance(x, list):
        return [untag(v) for v in x]
    return x


def tag(x):
    if type(x).__module__ == 'gen':
        import enum
        if isinstance(x, enum.Enum):
            return {'__enum__': [type(x).__name__, x.name]}
        name = type(x).__name__
        if name == 'StrSub':
            return {'__sub__': [name, [str.__str__(x), tag(x.extra)]]}
        basecls = type(x).__mro__[1]
        return {'__sub__': [name, [tag(basecls(x))]]}
    if isinstance(x, bytes):
        return {'__bytes__': x.hex()}
    if isinstance(x, tuple):
        return {'__tuple__': [tag(v) for v in x]}
    if isinstance(x, float) and (x != x or x in (float('inf'), float('-inf'))):
        return {'__float__': repr(x)}
    if isinstance(x, dict):
        return {k: tag(v) for k, v in x.items()}
    if isinstance(x, list):
        return [tag(v) for v in x]
    return x


def line_field(line, name):
    for tok in line.split(' '):
        if tok.startswith(name + '='):
            return tok[len(name) + 1:]
    return None



def against_lean_spec(impl_out, head, cfg_head='lcfg', undetermined=()):
    """the results of the REAL code against an executable Lean specification: every `lop` (or `op`)
    line is re-sent with the head `head` (same fields), the configuration line with `cfg_head`;
    methods in `undetermined` are executed on the specification but their results not compared.
    -> (number of results compared, [disagreement])"""
    import corr
    lines, index = [], []
    for i, io in enumerate(impl_out):
        for j, (line, ans) in enumerate(io):
            if line.startswith('lcfg ') or line.startswith('cfg '):
                lines.append(cfg_head + ' ' + line.split(' ', 1)[1])
                index.append(None)
            elif line.startswith('lop ') or line.startswith('op '):
                lines.append(head + ' ' + line.split(' ', 1)[1])
                index.append((i, j))
    got = corr.run_driver(lines)
    out, compared, seen = [], 0, set()
    for ij, l, g in zip(index, lines, got):
        if ij is None or ij[0] in seen:
            continue
        i, j = ij
        if line_field(l, 'm') in undetermined:
            continue
        want = impl_out[i][j][1].split(' | ')[0]
        compared += 1
        if g != want:
            seen.add(i)
            nth = sum(1 for (l2, _) in impl_out[i][:j] if l2.startswith('lop ') or l2.startswith('op '))
            out.append({'history': i, 'op_index': nth, 'line': l, 'impl': want, 'spec': g})
    return compared, out
