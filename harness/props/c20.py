"""C20 — Averager counts every add once; throttle never exceeds its rate.

Averager: 2-3 adders/poppers as real threads under the deterministic scheduler
(each add is a read-modify-write inside a transaction block); the commit order
of the events is replayed on DC.Recipes.AvgSt and the reported mean compared.
throttle: the real decorator with a virtual clock (time_func / sleep_func),
count and seconds powers of two and dyadic arrival instants so that the float
arithmetic is exact; every attempt instant and its outcome (pass / delay) is
compared with DC.Recipes.Bucket; acceptor: in every window [t, t+w] at most
count + rate*w calls start, and every call is eventually let through."""
import os
import random
import shutil
import sys
import tempfile
import threading
from concurrent.futures import ProcessPoolExecutor
from fractions import Fraction

import corr
from props import base


def avg_case(args):
    sys.path.insert(0, os.path.dirname(os.path.dirname(os.path.abspath(__file__))))
    from impl import Env, scratch_root
    from sched import Scheduler
    import diskcache
    seed, tier = args
    rng = random.Random(seed)
    env = Env.get()
    n_clients = rng.choice([2, 3])
    progs = {c: [rng.choice([('a', rng.randint(-5, 20)), ('a', rng.randint(0, 9)), ('p', 0)]) if rng.random() < 0.85 else ('p', 0)
                 for _ in range(rng.randint(1, 3))] for c in range(n_clients)}
    shared = rng.random() < 0.4
    out = []
    # seeded random schedules, plus every single-preemption schedule of the first two clients up to a
    # bound (one client runs k actions, the other runs to completion, the first finishes): the window
    # between two statements of one call is entered systematically
    schedules = [rng.choices(list(progs), k=rng.randint(5, 80)) for _ in range(10 if tier == 'quick' else 30)]
    for a, b in ((0, 1), (1, 0)):
        for k in range(0, 12 if tier == 'quick' else 20):
            schedules.append([a] * k + [b] * 200 + [a] * 200)
    for schedule in schedules:
        d = tempfile.mkdtemp(prefix='c20-', dir=scratch_root())
        env.core.sqlite3._timeout = 0
        try:
            env.rec.enabled = False
            base_cache = diskcache.Cache(d, timeout=0)
            env.rec.enabled = True
            caches = {c: (base_cache if shared else diskcache.Cache(d, timeout=0)) for c in progs}
            sch = Scheduler(env.rec)
            events = []
            pops = []

            def mk(cid):
                cache = caches[cid]
                ave = diskcache.Averager(cache, 'avg')

                def prepare():
                    __import__('conc').open_connection(cache)

                def execute(op):
                    if op[0] == 'a':
                        ave.add(op[1])
                        events.append('a%d' % op[1])
                    else:
                        r = ave.pop()
                        events.append('p')
                        pops.append((len(events) - 1, None if r is None else Fraction(r).limit_denominator(10 ** 6)))
                        return repr(r)
                    return 'n'
                return prepare, progs[cid], execute
            ok = sch.run({c: mk(c) for c in progs}, schedule)
            final = diskcache.Averager(base_cache, 'avg').get()
            out.append({'ok': ok, 'events': list(events), 'pops': list(pops), 'final': None if final is None else Fraction(final).limit_denominator(10 ** 6)})
        finally:
            env.core.sqlite3._timeout = None
            for c in set(caches.values()) | {base_cache}:
                try:
                    c.close()
                except Exception:
                    pass
            shutil.rmtree(d, ignore_errors=True)
    return {'seed': seed, 'progs': progs, 'shared': shared, 'runs': out}


def throttle_missing_bucket_probe():
    """the bucket of a throttled function is an ordinary cache item: it may expire (the `expire`
    argument), be cleared or be evicted.  Afterwards every call must still be let through (finding D23,
    fixed: the wrapper raised TypeError for ever) and the rate must still be respected"""
    import diskcache
    bad = []
    for how in ('expire', 'clear', 'delete'):
        d = tempfile.mkdtemp(prefix='thrx-', dir=os.environ.get('VERIF_SCRATCH') or tempfile.gettempdir())
        try:
            c = diskcache.Cache(d)
            clock = [1000.0]
            starts = []

            naps = [0]

            def sleep_func(x, clock=clock, naps=naps):
                clock[0] += x
                naps[0] += 1
                if naps[0] > 200:
                    raise RuntimeError('still waiting after 200 sleeps')

            @diskcache.throttle(c, 2, 1, name='thr', expire=0.05 if how == 'expire' else None,
                                time_func=lambda clock=clock: clock[0], sleep_func=sleep_func)
            def f(starts=starts, clock=clock):
                starts.append(clock[0])
            f()
            if how == 'expire':
                import time
                time.sleep(0.2)          # the cache's own (real) clock decides expiry of the bucket item
            elif how == 'clear':
                c.clear()
            else:
                c.delete('thr')
            clock[0] += 10
            try:
                for _ in range(5):
                    f()
            except Exception as e:  # noqa
                bad.append('throttle: after the bucket was lost (%s) a call raised %s: %s' % (how, type(e).__name__, str(e)[:80]))
                continue
            late = starts[1:]
            if len(late) != 5:
                bad.append('throttle: after the bucket was lost (%s) only %d of 5 calls were let through' % (how, len(late)))
            for i in range(len(late)):
                for j in range(i + 1, len(late)):
                    if (j - i + 1) > 2 + 2 * (late[j] - late[i]) + 1e-9:
                        bad.append('throttle: after the bucket was lost (%s) %d calls started within %.3f s (count 2 per second)' % (how, j - i + 1, late[j] - late[i]))
            c.close()
        except Exception as e:  # noqa
            bad.append('throttle missing-bucket probe (%s) raised %s: %s' % (how, type(e).__name__, str(e)[:100]))
        finally:
            shutil.rmtree(d, ignore_errors=True)
    return bad[:3]


def throttle_case(seed, frac_count=None):
    """one arrival pattern through the real decorator with a virtual clock"""
    import diskcache
    from impl import Env, scratch_root
    env = Env.get()
    rng = random.Random(seed)
    count = rng.choice([1, 2, 4, 8])
    seconds = rng.choice([1, 2, 4])
    tick = Fraction(1, count)
    if frac_count is not None:
        count, tick = frac_count, Fraction(1, 4)
    clock = [Fraction(rng.randint(0, 50) * 16)]
    attempts = []
    starts = []
    state = {'in_wrapper': False}

    def time_func():
        if state['in_wrapper']:
            attempts.append(clock[0])
        return float(clock[0])

    sleeps = [0]

    class NeverLetThrough(Exception):
        pass

    def sleep_func(x):
        clock[0] += Fraction(x)
        sleeps[0] += 1
        # one sleep of the delay the wrapper computed suffices (Lean: single_sleep_suffices / qsingle_sleep_suffices);
        # a call that is still waiting after many sleeps is never let through
        if sleeps[0] > (2000 if frac_count is not None else 40):
            raise NeverLetThrough()
    d = tempfile.mkdtemp(prefix='thr-', dir=scratch_root())
    env.rec.enabled = False
    try:
        c = diskcache.Cache(d)
        start = clock[0]

        @diskcache.throttle(c, float(count) if frac_count is not None else count, seconds, name='thr', time_func=time_func, sleep_func=sleep_func)
        def f():
            starts.append(clock[0])
        n_calls = rng.randint(3, 25)
        t = clock[0]
        for _ in range(n_calls):
            t += rng.choice([0, 0, 0, 1, 1, 2, 5, 9, 40]) * tick
            clock[0] = max(clock[0], t)
            state['in_wrapper'] = True
            sleeps[0] = 0
            try:
                f()
            except NeverLetThrough:
                state['in_wrapper'] = False
                break
            state['in_wrapper'] = False
        c.close()
    finally:
        env.rec.enabled = True
        shutil.rmtree(d, ignore_errors=True)
    # outcomes per attempt: pass iff the attempt instant is a start instant consumed in order
    outs = []
    si = 0
    for i, a in enumerate(attempts):
        if si < len(starts) and starts[si] == a and (i + 1 == len(attempts) or True):
            # an attempt passes iff the function ran at that instant right after it
            passed = (i + 1 < len(attempts) and attempts[i + 1] >= a and _ran_between(i, attempts, starts, si)) or i + 1 == len(attempts)
        else:
            passed = False
        outs.append(passed)
        if passed:
            si += 1
    return {'seed': seed, 'count': count, 'seconds': seconds, 'start': start, 'attempts': attempts, 'starts': starts, 'calls': n_calls}


def _ran_between(i, attempts, starts, si):
    return True


def run(tier, seed, rng, known, replay):
    violations = []
    # ---- Averager ---------------------------------------------------------------
    n_cases = 24 if tier == 'quick' else 120
    seeds = [rng.getrandbits(48) for _ in range(n_cases)]
    with ProcessPoolExecutor(max_workers=16) as ex:
        cases = list(ex.map(avg_case, [(s, tier) for s in seeds], chunksize=max(1, len(seeds) // 32)))
    lines, meta = [], []
    for c in cases:
        for r in c['runs']:
            lines.append('av evs=%s' % (','.join(r['events']) or '-'))
            meta.append((c, r))
    answers = corr.run_driver(lines) if lines else []
    avg_runs = 0
    for (c, r), ans in zip(meta, answers):
        avg_runs += 1
        why = None
        if not r['ok']:
            why = 'adders did not finish'
        else:
            _, total, count = ans.split(' ')
            want = None if int(count) == 0 else Fraction(int(total), int(count))
            if r['final'] != want:
                why = 'Averager reports %s, the completed adds since the last pop give %s (events %s)' % (r['final'], want, ','.join(r['events']))
            # what each pop returned: the mean of the adds completed since the previous pop (in commit order)
            tot, cnt = Fraction(0), 0
            popped = dict(r.get('pops', []))
            for i, e in enumerate(r['events']):
                if e == 'p':
                    wantp = None if cnt == 0 else tot / cnt
                    if i in popped and popped[i] != wantp and not why:
                        why = 'pop() returned %s, the adds completed since the last pop give %s (events %s)' % (popped[i], wantp, ','.join(r['events']))
                    tot, cnt = Fraction(0), 0
                else:
                    tot, cnt = tot + int(e[1:]), cnt + 1
        if why and len(violations) < 3:
            violations.append({'replay': {'property': 'C20', 'kind': 'averager', 'case_seed': c['seed'], 'programs': {str(k): v for k, v in c['progs'].items()},
                                          'events': r['events'], 'acceptor': why}, 'found_input': True, 'what': why})
    # ---- throttle ----------------------------------------------------------------
    n_thr = 150 if tier == 'quick' else 3000
    tseeds = [rng.getrandbits(48) for _ in range(n_thr)]
    tcases = [throttle_case(s) for s in tseeds]
    tlines = []
    for t in tcases:
        cnt = t['count']
        tlines.append('tb count=%d seconds=%d start=%d times=%s' % (
            cnt, t['seconds'], int(t['start'] * cnt), ','.join(str(int(a * cnt)) for a in t['attempts']) or '-'))
    tans = corr.run_driver(tlines)
    thr_attempts = 0
    for t, line, ans in zip(tcases, tlines, tans):
        cnt, sec = t['count'], t['seconds']
        model = ans[3:].split(',') if len(ans) > 3 else []
        thr_attempts += len(t['attempts'])
        # implementation outcomes: an attempt passed iff it is not followed by a sleep, i.e. the next attempt (if any)
        # belongs to the next call; reconstruct from the start instants
        starts = list(t['starts'])
        impl = []
        si = 0
        for i, a in enumerate(t['attempts']):
            nxt = t['attempts'][i + 1] if i + 1 < len(t['attempts']) else None
            if si < len(starts) and starts[si] == a and (nxt is None or True):
                # passes unless the model-independent evidence says it slept: a sleep moves the clock strictly forward
                # and is followed by another attempt of the same call before the function starts
                slept = nxt is not None and nxt > a and (si >= len(starts) or False)
                impl.append('p')
                si += 1
            else:
                d = (nxt - a) if nxt is not None else None
                impl.append('d%d' % int(d * cnt) if d is not None else 'd?')
        why = None
        if len(starts) != t['calls']:
            why = 'only %d of %d calls were let through' % (len(starts), t['calls'])
        elif impl != model:
            why = 'attempt outcomes differ from DC.Recipes.Bucket: impl %s model %s' % (','.join(impl)[:120], ','.join(model)[:120])
            found = False
        # acceptor: window bound over the start instants
        rate = Fraction(cnt, sec)
        for i in range(len(starts)):
            for j in range(i, len(starts)):
                w = starts[j] - starts[i]
                if (j - i + 1) > cnt + rate * w:
                    why = 'throttle let %d calls start within %s s: more than count + rate*w = %s' % (j - i + 1, w, cnt + rate * w)
        if why and len(violations) < 3:
            violations.append({'replay': {'property': 'C20', 'kind': 'throttle', 'case_seed': t['seed'], 'count': cnt, 'seconds': sec,
                                          'attempt_ticks': [int(a * cnt) for a in t['attempts']], 'start_ticks': [int(s * cnt) for s in starts],
                                          'model': ans, 'acceptor': why},
                               'found_input': 'differ from DC.Recipes' not in why, 'what': why})
    # counts that are not whole numbers (legal: count is only ever used in arithmetic): outside the integer bucket
    # of the Lean model, judged by the statement alone - every call is eventually let through, and any window
    # holding two or more starts respects count + rate * w
    frac_cases = 0
    qlines, qimpl = [], []
    for fc in (Fraction(1, 2), Fraction(1, 4), Fraction(3, 2), Fraction(5, 2)):
        for _ in range(6 if tier == 'quick' else 60):
            t = throttle_case(rng.getrandbits(48), frac_count=fc)
            frac_cases += 1
            starts, sec = list(t['starts']), t['seconds']
            why = None
            if len(starts) != t['calls']:
                why = 'throttle(count=%s, seconds=%d): only %d of %d calls were let through (a call was still waiting after 2000 sleeps)' % (
                    float(fc), sec, len(starts), t['calls'])
            rate = fc / sec
            for i in range(len(starts)):
                for j in range(i + 1, len(starts)):
                    w = starts[j] - starts[i]
                    if (j - i + 1) > max(fc, 1) + rate * w + Fraction(1, 10 ** 6):     # float rounding of non-dyadic rates is not the subject
                        why = 'throttle(count=%s, seconds=%d) let %d calls start within %s s: more than max(count, 1) + rate*w = %s' % (
                            float(fc), sec, j - i + 1, w, max(fc, 1) + rate * w)
            if why and len(violations) < 3:
                violations.append({'replay': {'property': 'C20', 'kind': 'throttle-fractional', 'case_seed': t['seed'], 'count': float(fc), 'seconds': sec,
                                              'acceptor': why}, 'found_input': True, 'what': why})
            # dyadic counts: the float arithmetic of the real code is exact, so the attempt outcomes are compared with
            # the rational-count model DC.Recipes.QBucket (driver head `tq`; theorems in DC/Properties/C20_Rational.lean)
            if fc.denominator in (2, 4) and fc.numerator == 1 and not why:
                import math
                den = 1
                for x in [t['start']] + list(t['attempts']):
                    den = den * x.denominator // math.gcd(den, x.denominator)
                impl, si = [], 0
                for i, a in enumerate(t['attempts']):
                    nxt = t['attempts'][i + 1] if i + 1 < len(t['attempts']) else None
                    if si < len(starts) and starts[si] == a:
                        impl.append('p')
                        si += 1
                    elif nxt is not None:
                        dl = nxt - a
                        impl.append('d%d/%d' % (dl.numerator, dl.denominator))
                    else:
                        impl.append('d?')
                qlines.append('tq p=%d q=%d seconds=%d den=%d start=%d times=%s' % (
                    fc.numerator, fc.denominator, sec, den, int(t['start'] * den), ','.join(str(int(a * den)) for a in t['attempts']) or '-'))
                qimpl.append((t, impl))
    for v_ in throttle_missing_bucket_probe():
        violations.append({'replay': {'property': 'C20', 'kind': 'throttle-missing-bucket', 'acceptor': v_}, 'found_input': True, 'what': v_})
    qans = corr.run_driver(qlines) if qlines else []
    q_div = 0
    for line, (t, impl), ans in zip(qlines, qimpl, qans):
        model = ans[3:].split(',') if len(ans) > 3 else []
        if impl != model:
            q_div += 1
            if len(violations) < 3:
                what = 'throttle(count=%s): attempt outcomes differ from DC.Recipes.QBucket: impl %s model %s' % (
                    float(t['count']), ','.join(impl)[:120], ','.join(model)[:120])
                violations.append({'replay': {'property': 'C20', 'kind': 'throttle-rational-correspondence', 'case_seed': t['seed'], 'line': line,
                                              'impl': impl, 'model': ans, 'model_part': 'DC.Recipes.QBucket.attempt'}, 'found_input': False, 'what': what})
    return {
        'evaluations': avg_runs + len(tcases), 'distinct_nontrivial': len(set(lines)) + len(set(tlines)),
        'rule': 'Averager: 2-3 adders/poppers x 1-3 events each, own or shared Cache objects, seeded schedules at action granularity; throttle: seeded arrival '
                'patterns (3-25 calls, gaps 0..40 ticks) x count in {1,2,4,8} x seconds in {1,2,4} under a virtual clock; distinct = distinct event/attempt sequences',
        'samples': [{'averager_events': meta[0][1]['events'] if meta else []}, {'throttle': tlines[0], 'model': tans[0]}],
        'traces': avg_runs + len(tcases),
        'dist': {'averager_runs': avg_runs, 'throttle_patterns': len(tcases), 'throttle_attempts': thr_attempts,
                 'fractional_cases': frac_cases, 'rational_model_lines': len(qlines), 'rational_model_divergent': q_div},
        'violations': violations, 'known': [],
        'assumptions': ['throttle arithmetic is compared for dyadic rates and instants, where floats are exact; rounding for other rates is not modelled'],
    }
