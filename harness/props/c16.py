"""C16 — memoized functions return what the function returns and never share entries.

(1) `args_to_key` of the real code against DC.Memo.argsToKey for every pair of
call signatures up to arity 2+2 over an alphabet with None, numerically equal
values of different types and keyword names as string values, x typed x ignore.
(2) the real decorators (Cache/FanoutCache/Index/DjangoCache.memoize,
memoize_stampede) with a counting function under the controlled clock against
DC.Memo.call: same results, same "function ran" flags.
Acceptor: distinct signatures never share a key (D14 is the known exception)."""
import itertools
import os
import shutil
import sys
import tempfile

import corr
from props import base

ALPHA = [(None, 'N', 0), (1, 'V1', 1), (1.0, 'V2', 2), ('a', 'V3', 3), ('b', 'V4', 3), (True, 'V5', 4)]
NAMES = [('a', 3), ('b', 4)]
TOK = {(type(v), v): (t, ty) for v, t, ty in ALPHA}
TYPES = {type(None): 0, int: 1, float: 2, str: 3, bool: 4}


def signatures(max_pos=2):
    sigs = []
    for n in range(max_pos + 1):
        for args in itertools.product(range(len(ALPHA)), repeat=n):
            for kwn in range(len(NAMES) + 1):
                # keyword arguments in EVERY call order (the key must not depend on it)
                for names in itertools.permutations(range(len(NAMES)), kwn):
                    for vals in itertools.product(range(len(ALPHA)), repeat=kwn):
                        sigs.append((args, tuple(zip(names, vals))))
    return sigs


def render_real_key(key, nbase):
    out = []
    for i, x in enumerate(key):
        if i < nbase:
            out.append('V9')
        elif x is None:
            out.append('N')
        elif isinstance(x, type):
            out.append('T%d' % TYPES[x])
        else:
            out.append(TOK[(type(x), x)][0])
    return ','.join(out)


def sig_line(head, sig, typed, ignp, ignk, extra=''):
    args, kw = sig
    a = ','.join('%s:%d' % (ALPHA[i][1], ALPHA[i][2]) for i in args) or '-'
    k = ','.join('%d:%s:%d' % (NAMES[n][1], ALPHA[v][1], ALPHA[v][2]) for n, v in kw) or '-'
    return '%s base=V9 args=%s kw=%s typed=%d ignp=%s ignk=%s%s' % (
        head, a, k, typed, ','.join(map(str, ignp)) or '-', ','.join(map(str, ignk)) or '-', extra)


def real_call_args(sig):
    args, kw = sig
    return tuple(ALPHA[i][0] for i in args), {NAMES[n][0]: ALPHA[v][0] for n, v in kw}


def equivalent(s1, s2, ignp, ignk):
    """same call up to ignored arguments"""
    def norm(s):
        a, kw = s
        return (tuple(x for i, x in enumerate(a) if i not in ignp),
                tuple(sorted((n, v) for n, v in kw if NAMES[n][1] not in ignk)))
    return norm(s1) == norm(s2)


class _Circle:
    def area(self, r):
        return ('circle', 3 * r * r)


class _Square:
    def area(self, r):
        return ('square', r * r)


def _factory(tagv):
    def compute(x):
        return (tagv, x)
    return compute


def name_probe():
    """memoized functions never share entries: decorators used without `name=` derive the key prefix
    from the function — two different functions with the same simple name (methods of two classes,
    closures from two factories calls aside) must not answer for one another"""
    import diskcache
    from diskcache.core import full_name
    bad = []
    for fn in (_Circle.area, _Square.area, _factory, name_probe):
        want = fn.__module__ + '.' + fn.__qualname__
        if full_name(fn) != want:
            bad.append('full_name(%s) is %r, the qualified name is %r' % (fn.__qualname__, full_name(fn), want))
    root = os.environ.get('VERIF_SCRATCH') or tempfile.gettempdir()
    d = tempfile.mkdtemp(prefix='memoname-', dir=root)
    try:
        for kind in ('cache', 'fanout', 'index', 'stampede'):
            dd = os.path.join(d, kind)
            if kind == 'cache':
                c = diskcache.Cache(dd)
                deco = lambda f, c=c: c.memoize()(f)
            elif kind == 'fanout':
                c = diskcache.FanoutCache(dd, shards=2)
                deco = lambda f, c=c: c.memoize()(f)
            elif kind == 'index':
                c = diskcache.Index(dd)
                deco = lambda f, c=c: c.memoize()(f)
            else:
                c = diskcache.Cache(dd)
                deco = lambda f, c=c: diskcache.memoize_stampede(c, 100)(f)
            f1, f2 = deco(_Circle.area), deco(_Square.area)
            a, b = f1(None, 2), f2(None, 2)
            if a != ('circle', 12) or b != ('square', 4):
                bad.append('%s.memoize without name=: Circle.area(2) -> %r, Square.area(2) -> %r: two functions share one entry' % (kind, a, b))
            try:
                c.close()
            except Exception:
                pass
        # DjangoCache.memoize(version=N): look-up and store must use the same version, so that two
        # functions memoized under different versions never answer for one another
        from diskcache.djangocache import DjangoCache
        dj = DjangoCache(os.path.join(d, 'dj'), {'SHARDS': 2})

        def f1(x):
            return ('v1', x)

        def f2(x):
            return ('v2', x)
        g2 = dj.memoize(name='g', version=2)(f2)
        g1 = dj.memoize(name='g', version=1)(f1)
        ran = []

        def f3(x):
            ran.append(x)
            return ('v3', x)
        g3 = dj.memoize(name='h', version=3)(f3)
        a2, a1 = g2(7), g1(7)
        g3(1), g3(1)
        if a1 != ('v1', 7) or a2 != ('v2', 7):
            bad.append('DjangoCache.memoize(version=1) and (version=2) under one name share an entry: g1(7) -> %r, g2(7) -> %r' % (a1, a2))
        if ran != [1]:
            bad.append('DjangoCache.memoize(version=3): the repeated call ran the function again (%r): stored and looked up under different versions' % (ran,))
        dj.close()
    finally:
        shutil.rmtree(d, ignore_errors=True)
    return bad


def separator_probe():
    """(1) calls with MANY positional arguments against calls whose keyword items spell the same values: their
    keys must differ (the positional / keyword separator is always there) - beyond the exhaustive table,
    which stops at two positional arguments; the one known exception is finding D14 (a positional None
    followed by what looks like the separator's continuation).  (2) results that are None or falsy are
    results like any other: the repeated call is served from the cache by every decorator"""
    import diskcache
    from diskcache.core import args_to_key
    bad = []
    pairs = [(((1, None, 'a', 2), {}), ((1,), {'a': 2})),
             (((1, 'a', 2), {}), ((1,), {'a': 2})),
             (((None,), {}), ((), {})),
             (((1, None), {}), ((1,), {})),
             (((None, 'a', 1), {}), ((), {'a': 1})),
             (((1, 2, None, 'b', 3), {}), ((1, 2), {'b': 3}))]
    for (a1, k1), (a2, k2) in pairs:
        for typed in (False, True):
            x, y = args_to_key(('f',), a1, k1, typed, ()), args_to_key(('f',), a2, k2, typed, ())
            if x == y:
                msg = 'D14-probe ' if any(v is None for v in a1[:-1]) and not k1 and a1[-1] is None else ''
                bad.append(msg + 'args_to_key gives f%r %r and f%r %r one key %r (typed=%s): two different calls share a cache entry' % (a1, k1, a2, k2, x, typed))
    root = os.environ.get('VERIF_SCRATCH') or tempfile.gettempdir()
    d = tempfile.mkdtemp(prefix='memofalsy-', dir=root)
    try:
        from diskcache.djangocache import DjangoCache
        kinds = [('Cache.memoize', lambda dd: diskcache.Cache(dd), lambda c, f: c.memoize(name='f')(f)),
                 ('FanoutCache.memoize', lambda dd: diskcache.FanoutCache(dd, shards=2), lambda c, f: c.memoize(name='f')(f)),
                 ('Index.memoize', lambda dd: diskcache.Index(dd), lambda c, f: c.memoize(name='f')(f)),
                 ('DjangoCache.memoize', lambda dd: DjangoCache(dd, {'SHARDS': 2}), lambda c, f: c.memoize(name='f')(f)),
                 ('memoize_stampede', lambda dd: diskcache.Cache(dd), lambda c, f: diskcache.memoize_stampede(c, 100, name='f')(f))]
        for name, make, deco in kinds:
            c = make(os.path.join(d, name))
            for result in (None, 0, '', False, [], 0.0):
                ran = []

                def f(x, result=result, ran=ran):
                    ran.append(x)
                    return result
                w = deco(c, f)
                key = repr(result)
                got = [w(key), w(key), w(key)]
                if got != [result] * 3 or [type(g) for g in got] != [type(result)] * 3:
                    bad.append('%s: a function returning %r gives %r through the decorator' % (name, result, got))
                if len(ran) != 1:
                    bad.append('%s: a function returning %r was run %d times for three identical calls (the result is a result like any other)' % (name, result, len(ran)))
            try:
                (c.close if hasattr(c, 'close') else c.cache.close)()
            except Exception:
                pass
    except Exception as e:  # noqa
        bad.append('falsy-result probe raised %s: %s' % (type(e).__name__, str(e)[:100]))
    finally:
        shutil.rmtree(d, ignore_errors=True)
    return bad


def stampede_probe():
    """memoize_stampede with early recomputation forced (huge beta, a function that takes one tick of
    the controlled clock): the wrapper still returns what the function returns, the recomputation
    runs the function exactly once more, the "recomputation in progress" marker neither starts a
    second recomputation nor answers for ANY other call, whatever its arguments"""
    import threading
    import diskcache
    from impl import Env
    env = Env.get()
    root = os.environ.get('VERIF_SCRATCH') or tempfile.gettempdir()
    bad = []
    was = env.rec.enabled
    env.rec.enabled = False
    for kind in ('cache', 'fanout'):
        d = tempfile.mkdtemp(prefix='stampede-', dir=root)
        try:
            c = diskcache.Cache(d) if kind == 'cache' else diskcache.FanoutCache(d, shards=2)
            env.clock.t = 1000
            ran = []

            def f(*a, **k):
                ran.append((a, tuple(sorted(k.items()))))
                env.clock.t += 1          # the function takes one tick: delta = 1
                return ('r', a, tuple(sorted(k.items())))
            w = diskcache.memoize_stampede(c, 60, name='f', beta=1e12)(f)

            def settle():
                for t in threading.enumerate():
                    if t is not threading.current_thread() and t.daemon and t.name.startswith('Thread-'):
                        t.join(5)
            r1 = w(1)
            n1 = len(ran)
            r2 = w(1)                     # a hit that starts the early recomputation
            settle()
            n2 = len(ran)
            env.clock.t = 1001            # marker stored at 1001 with expire 1: alive until 1002
            r3 = w(1)                     # marker alive: no second recomputation
            settle()
            n3 = len(ran)
            if (r1, r2, r3) != (('r', (1,), ()),) * 3:
                bad.append('%s: memoize_stampede f(1) returned %r, %r, %r; the function returns %r' % (kind, r1, r2, r3, ('r', (1,), ())))
            if (n1, n2) != (1, 2):
                bad.append('%s: memoize_stampede ran the function %d time(s) for the first call and %d in all after one early recomputation (1 and 2 expected)' % (kind, n1, n2))
            if n3 != n2:
                bad.append('%s: memoize_stampede started a second recomputation while the first one\'s marker was alive' % kind)
            # calls with other arguments while the marker is alive: every one is a plain miss answered by the function
            for a, k in (((1, None), {}), ((1, 0), {}), ((1,), {'x': None}), ((1, ()), {}), ((None,), {}), ((1, 1), {})):
                try:
                    got = w(*a, **k)
                except Exception as e:  # noqa
                    bad.append('%s: memoize_stampede f%r %r raised %s: %s while a recomputation of f(1) was marked' % (kind, a, k, type(e).__name__, str(e)[:80]))
                    continue
                want = ('r', a, tuple(sorted(k.items())))
                if got != want:
                    bad.append('%s: memoize_stampede f%r %r returned %r while a recomputation of f(1) was marked; the function returns %r' % (kind, a, k, got, want))
            settle()
            c.close()
        except Exception as e:  # noqa
            bad.append('%s: stampede probe raised %s: %s' % (kind, type(e).__name__, str(e)[:100]))
        finally:
            shutil.rmtree(d, ignore_errors=True)
    env.rec.enabled = was
    return bad


def run(tier, seed, rng, known, replay):
    from diskcache.core import args_to_key
    import diskcache
    sigs = signatures(2)
    violations, known_hits = [], []
    # --- (1) key construction ------------------------------------------------
    cases = []
    for typed in (0, 1):
        for ignp, ignk in (((), ()), ((0,), ()), ((), (3,)), ((1,), (4,))):
            for sig in sigs:
                cases.append((sig, typed, ignp, ignk))
    lines, expect = [], []
    for sig, typed, ignp, ignk in cases:
        a, kw = real_call_args(sig)
        ignore = set(ignp) | {n for n, t in NAMES if t in ignk}
        key = args_to_key(('f',), a, kw, bool(typed), ignore)
        lines.append(sig_line('mk', sig, typed, ignp, ignk))
        expect.append('mk ' + render_real_key(key, 1))
    got = corr.run_driver(lines)
    n_div = 0
    for (sig, typed, ignp, ignk), l, e, g in zip(cases, lines, expect, got):
        if e != g:
            n_div += 1
            if len(violations) < 2:
                violations.append({'replay': {'property': 'C16', 'kind': 'correspondence', 'line': l, 'impl': e, 'model': g,
                                              'model_part': 'DC.Memo.argsToKey'}, 'found_input': False,
                                   'what': 'args_to_key differs from the model on %s: %s vs %s' % (l[:80], e, g)})
    # acceptor on the real keys: distinct calls must not share a key
    collisions = 0

    def same_call(s1, s2):
        return s1[0] == s2[0] and sorted(s1[1]) == sorted(s2[1])
    for typed in (0, 1):
        seen = {}
        by_call = {}
        for sig in sigs:
            a, kw = real_call_args(sig)
            key = args_to_key(('f',), a, kw, bool(typed), ())
            rk = (render_real_key(key, 1))
            canon = (sig[0], tuple(sorted(sig[1])))
            if canon in by_call and by_call[canon][0] != rk and len(violations) < 3:
                msg = 'the same call f%r gets two different keys depending on the order its keyword arguments are written in: %s vs %s (typed=%d) - a repeated call re-runs the function' % (
                    (a, kw), by_call[canon][0], rk, typed)
                violations.append({'replay': {'property': 'C16', 'kind': 'acceptor', 'acceptor': msg}, 'found_input': True, 'what': msg})
            by_call.setdefault(canon, (rk, sig))
            if rk in seen and not same_call(seen[rk], sig):
                collisions += 1
                msg = 'calls f%r and f%r share the cache key %s (typed=%d)' % (real_call_args(seen[rk]), (a, kw), rk, typed)
                k = base.match_known(known, {'cfg': {}}, None, 'D14-probe ' + msg) if (
                    any(ALPHA[i][0] is None for i in sig[0]) or any(ALPHA[i][0] is None for i in seen[rk][0])) else None
                if k is not None:
                    if k['what'] not in known_hits:
                        known_hits.append(k['what'])
                elif len(violations) < 3:
                    violations.append({'replay': {'property': 'C16', 'kind': 'acceptor', 'acceptor': msg}, 'found_input': True, 'what': msg})
            else:
                seen.setdefault(rk, sig)
    # --- (2) wrappers -------------------------------------------------------
    from impl import Env
    env = Env.get()
    root = os.environ.get('VERIF_SCRATCH') or tempfile.gettempdir()
    n_seq = 60 if tier == 'quick' else 600
    small = [s for s in sigs if len(s[0]) <= 1 and len(s[1]) <= 1]
    wlines, wexpect, wmeta = [], [], []
    kinds = ['cache', 'fanout', 'index', 'stampede', 'django']
    for n in range(n_seq):
        kind = kinds[n % len(kinds)]
        typed = rng.choice([0, 1])
        expire = rng.choice([None, 0, 5]) if kind not in ('index',) else None
        if kind == 'stampede' and expire in (None, 0):
            expire = 5
        d = tempfile.mkdtemp(prefix='memo-', dir=root)
        try:
            ran = []

            def f(*a, **k):
                ran.append(1)
                return ('r', a, tuple(sorted(k.items())))
            env.rec.enabled = False
            if kind == 'cache':
                c = diskcache.Cache(d)
                wrapped = c.memoize(name='f', typed=bool(typed), expire=expire)(f)
            elif kind == 'fanout':
                c = diskcache.FanoutCache(d, shards=3)
                wrapped = c.memoize(name='f', typed=bool(typed), expire=expire)(f)
            elif kind == 'index':
                c = diskcache.Index(d)
                wrapped = c.memoize(name='f', typed=bool(typed))(f)
            elif kind == 'stampede':
                c = diskcache.Cache(d)
                wrapped = diskcache.memoize_stampede(c, expire, name='f', typed=bool(typed))(f)
            else:
                from diskcache.djangocache import DjangoCache
                c = DjangoCache(d, {'SHARDS': 2})
                wrapped = c.memoize(name='f', typed=bool(typed), timeout=(expire if expire is not None else None))(f)
            wlines.append('mreset')
            wexpect.append('ok')
            wmeta.append(None)
            now = 1000
            results = {}
            pool = rng.sample(small, 3)
            for j in range(rng.randint(4, 9)):
                now += rng.choice([0, 1, 3, 6])
                env.clock.t = now
                sig = rng.choice(pool)
                a, kw = real_call_args(sig)
                ran.clear()
                r = wrapped(*a, **kw)
                did = 1 if ran else 0
                want = ('r', a, tuple(sorted(kw.items())))
                if r != want or type(r) is not type(want):
                    # a stale/shared entry: the value returned is not f(args)
                    msg = 'D14-probe ' if any(x is None for x in a) else ''
                    msg += '%s.memoize: f%r returned %r, the function returns %r' % (kind, (a, kw), r, want)
                    k = base.match_known(known, {'cfg': {}}, None, msg)
                    if k is not None:
                        if k['what'] not in known_hits:
                            known_hits.append(k['what'])
                    elif len(violations) < 3:
                        violations.append({'replay': {'property': 'C16', 'kind': 'acceptor', 'acceptor': msg}, 'found_input': True, 'what': msg})
                rid = results.setdefault(repr(r), len(results) + 1)
                wlines.append(sig_line('mc', sig, typed, (), (), ' res=%d now=%d expire=%s' % (
                    results.setdefault(repr(want), len(results) + 1), now, 'n' if expire is None else expire)))
                wexpect.append('mc %d %d' % (rid, did))
                wmeta.append((kind, typed, expire, sig))
            try:
                c.close()
            except Exception:
                pass
        finally:
            env.rec.enabled = True
            shutil.rmtree(d, ignore_errors=True)
    wgot = corr.run_driver(wlines)
    w_div = 0
    for l, e, g, meta in zip(wlines, wexpect, wgot, wmeta):
        if e != g:
            w_div += 1
            if len(violations) < 3:
                violations.append({'replay': {'property': 'C16', 'kind': 'correspondence', 'line': l, 'impl': e, 'model': g, 'meta': repr(meta),
                                              'model_part': 'DC.Memo.call'}, 'found_input': False,
                                   'what': 'memoize wrapper differs from the model at %s: impl %s model %s (%r)' % (l[:90], e, g, meta)})
    for v in separator_probe():
        k = base.match_known(known, {'cfg': {}}, None, v)
        if k is not None:
            if k['what'] not in known_hits:
                known_hits.append(k['what'])
        elif len([x for x in violations if x['replay'].get('kind') == 'separator-probe']) < 2:
            violations.append({'replay': {'property': 'C16', 'kind': 'separator-probe', 'acceptor': v}, 'found_input': True, 'what': v})
    for v in stampede_probe()[:2]:
        violations.append({'replay': {'property': 'C16', 'kind': 'stampede-probe', 'acceptor': v}, 'found_input': True, 'what': v})
    for v in name_probe()[:2]:
        violations.append({'replay': {'property': 'C16', 'kind': 'name-probe', 'acceptor': v}, 'found_input': True, 'what': v})
    return {
        'evaluations': len(cases) + len(wlines), 'distinct_nontrivial': len(set(expect)) + len(set(wexpect)),
        'rule': 'args_to_key on every call signature with <=2 positional and <=2 keyword arguments over {None,1,1.0,"a","b",True} (names a,b) x typed x 4 ignore sets, '
                'exhaustive; plus seeded call sequences through the five real decorators with a counting function; plus functions with the same simple name memoized without name= (derived key prefix = module + qualified name); distinct = distinct keys / outcomes',
        'samples': [[lines[5], expect[5]], [lines[-1], expect[-1]], wlines[1:4]],
        'traces': len(cases) + len(wlines), 'exhaustive': True,
        'dist': {'signatures': len(sigs), 'key_cases': len(cases), 'key_divergent': n_div, 'key_collisions': collisions,
                 'wrapper_calls': len(wlines), 'wrapper_divergent': w_div},
        'violations': violations, 'known': known_hits,
    }
