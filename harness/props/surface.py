"""Probes of the API surface that the call-history generators do not reach: objects handed out by
FanoutCache / DjangoCache, constructors with initial contents, tag indexes, SQLite pragma settings,
Index queues.  Each probe states what the documentation promises, runs the real code and returns a
list of violated promises (empty = fine).  They are called from the check of the property the
promise belongs to."""
import os
import pickle
import shutil
import sqlite3
import tempfile


def _root():
    return os.environ.get('VERIF_SCRATCH') or tempfile.gettempdir()


def _master(directory, kind, name):
    con = sqlite3.connect(os.path.join(directory, 'cache.db'))
    try:
        return con.execute('SELECT COUNT(*) FROM sqlite_master WHERE type = ? AND name = ?', (kind, name)).fetchone()[0]
    finally:
        con.close()


def fanout_subobjects():
    """C13: settings and aggregates reach every shard; cache()/deque()/index() hand out persistent
    objects in sub-directories; a pickled FanoutCache is the same cache"""
    import diskcache
    bad = []
    d = tempfile.mkdtemp(prefix='surf-f-', dir=_root())
    try:
        fc = diskcache.FanoutCache(d, shards=3, cull_limit=7)
        shard_dirs = [os.path.join(d, '%03d' % i) for i in range(3)]

        def per_shard(name):
            """the stored setting of every shard, read through fresh public handles"""
            out = []
            for x in shard_dirs:
                h = diskcache.Cache(x)
                out.append(getattr(h, name))
                h.close()
            return out
        if fc.cull_limit != 7 or per_shard('cull_limit') != [7, 7, 7]:
            bad.append('a setting given to FanoutCache does not reach every shard / is not readable through the FanoutCache')
        if fc.reset('cull_limit', 5) != 5 or per_shard('cull_limit') != [5, 5, 5]:
            bad.append('FanoutCache.reset does not set the value on every shard')
        for i in range(12):
            fc.set(i, i, tag='t' if i % 2 else None)
        fc.create_tag_index()
        if per_shard('tag_index') != [1, 1, 1] or [_master(x, 'index', 'Cache_tag_rowid') for x in shard_dirs] != [1, 1, 1]:
            bad.append('FanoutCache.create_tag_index did not create the index on every shard')
        if fc.evict('t') != 6 or len(fc) != 6:
            bad.append('evict by tag on a FanoutCache with a tag index did not remove exactly the tagged items')
        fc.drop_tag_index()
        if per_shard('tag_index') != [0, 0, 0] or [_master(x, 'index', 'Cache_tag_rowid') for x in shard_dirs] != [0, 0, 0]:
            bad.append('FanoutCache.drop_tag_index did not drop the index on every shard')
        # sub-objects
        sub = fc.cache('a/b', cull_limit=3)
        if sub is not fc.cache('a/b') or os.path.realpath(sub.directory) != os.path.realpath(os.path.join(d, 'cache', 'a', 'b')) or sub.cull_limit != 3:
            bad.append('FanoutCache.cache(name) is not one persistent Cache per name in <directory>/cache/<name> with the given settings')
        sub['x'] = 1
        dq = fc.deque('q', maxlen=2)
        dq.extend([1, 2, 3])
        ix = fc.index('i')
        ix.update({'a': 1, 'b': 2})
        if dq is not fc.deque('q') or list(dq) != [2, 3] or ix is not fc.index('i') or dict(ix) != {'a': 1, 'b': 2}:
            bad.append('FanoutCache.deque / index do not hand out one persistent object per name')
        if dq.cache.eviction_policy != 'none' or ix.cache.eviction_policy != 'none':
            bad.append('the Deque / Index handed out by a FanoutCache may evict items (eviction policy is not none)')
        clone = pickle.loads(pickle.dumps(fc))
        if clone.directory != fc.directory or len(clone) != 6 or [clone.get(i) for i in range(0, 12, 2)] != list(range(0, 12, 2)) \
                or sorted(clone) != list(range(0, 12, 2)):
            bad.append('an unpickled FanoutCache is not the same cache (directory, contents)')
        clone.close()
        fc.close()
        fc2 = diskcache.FanoutCache(d, shards=3)
        if fc2.cache('a/b').get('x') != 1 or list(fc2.deque('q')) != [2, 3] or dict(fc2.index('i')) != {'a': 1, 'b': 2} or len(fc2) != 6:
            bad.append('the contents of a FanoutCache and of its sub-objects do not persist across reopening')
        fc2.close()
        if per_shard('cull_limit') != [5, 5, 5]:
            bad.append('a setting changed with FanoutCache.reset does not persist across reopening')
        fc2.close()
    except Exception as e:  # noqa
        bad.append('FanoutCache surface probe raised %s: %s' % (type(e).__name__, str(e)[:120]))
    finally:
        shutil.rmtree(d, ignore_errors=True)
    return bad


def django_subobjects():
    """C19 (and C13): DjangoCache hands out the FanoutCache's sub-objects and passes tag-index calls on"""
    from diskcache.djangocache import DjangoCache
    bad = []
    d = tempfile.mkdtemp(prefix='surf-d-', dir=_root())
    try:
        dj = DjangoCache(d, {'SHARDS': 2})
        if os.path.realpath(dj.directory) != os.path.realpath(d):
            bad.append('DjangoCache.directory is not the configured directory')
        c = dj.cache('sub')
        c['x'] = 1
        q = dj.deque('q', maxlen=2)
        q.extend('abc')
        i = dj.index('i')
        i['k'] = 'v'
        if dj.cache('sub') is not c or dj.cache('sub').get('x') != 1 or list(dj.deque('q')) != ['b', 'c'] or dict(dj.index('i')) != {'k': 'v'}:
            bad.append('DjangoCache.cache / deque / index do not hand out the persistent sub-objects of its FanoutCache')
        dj.set('a', 1, tag='t')
        dj.set('b', 2)
        dj.create_tag_index()
        shards = [os.path.join(d, '%03d' % n) for n in range(2)]
        if [_master(x, 'index', 'Cache_tag_rowid') for x in shards] != [1, 1]:
            bad.append('DjangoCache.create_tag_index did not reach every shard')
        if dj.evict('t') != 1 or dj.get('a') is not None or dj.get('b') != 2:
            bad.append('DjangoCache.evict(tag) did not remove exactly the tagged item')
        dj.drop_tag_index()
        if [_master(x, 'index', 'Cache_tag_rowid') for x in shards] != [0, 0]:
            bad.append('DjangoCache.drop_tag_index did not reach every shard')
        dj.close()
    except Exception as e:  # noqa
        bad.append('DjangoCache surface probe raised %s: %s' % (type(e).__name__, str(e)[:120]))
    finally:
        shutil.rmtree(d, ignore_errors=True)
    return bad


def constructors():
    """C11 / C12: constructors with initial contents; fromcache; the queue calls of Index"""
    import collections
    import diskcache
    bad = []
    d = tempfile.mkdtemp(prefix='surf-c-', dir=_root())
    try:
        dq = diskcache.Deque([1, 2, 3, 4], directory=os.path.join(d, 'dq'), maxlen=3)
        if list(dq) != list(collections.deque([1, 2, 3, 4], maxlen=3)) or dq.maxlen != 3:
            bad.append('Deque(iterable, maxlen=3) does not hold what collections.deque(iterable, maxlen=3) holds')
        dq2 = diskcache.Deque('xy', directory=os.path.join(d, 'dq'))
        if list(dq2) != [2, 3, 4, 'x', 'y']:
            bad.append('Deque(iterable, directory=existing) does not extend the persisted contents')
        # opening a directory never alters what it holds: a handle with a SMALLER maxlen than the persisted length
        # (constructor, unpickled bounded handle, copy) sees every item; only later appends trim
        full = diskcache.Deque([1, 2, 3, 4, 5, 6], directory=os.path.join(d, 'dqlong'))
        small = diskcache.Deque(directory=os.path.join(d, 'dqlong'), maxlen=3)
        blob = pickle.dumps(small)
        again = pickle.loads(blob)
        copied = small.copy()
        if list(small) != [1, 2, 3, 4, 5, 6] or list(full) != [1, 2, 3, 4, 5, 6] or list(again) != [1, 2, 3, 4, 5, 6] or list(copied) != [1, 2, 3, 4, 5, 6] \
                or small.maxlen != 3 or again.maxlen != 3:
            bad.append('opening a Deque directory with a smaller maxlen (constructor / unpickling / copy) altered the persisted items: %r %r %r' % (
                list(full), list(again), list(copied)))
        ix = diskcache.Index(os.path.join(d, 'ix'), {'a': 1, 'b': 2}, c=3)
        if list(ix.items()) != [('a', 1), ('b', 2), ('c', 3)]:
            bad.append("Index(directory, {'a': 1, 'b': 2}, c=3) does not hold those items in that order")
        ix2 = diskcache.Index(os.path.join(d, 'ix'), [('b', 20), ('d', 4)])
        if list(ix2.items()) != [('a', 1), ('b', 20), ('c', 3), ('d', 4)]:
            bad.append('Index(directory=existing, pairs) does not update the persisted contents in place')
        # two Index objects compare like ordered mappings: same items in another order are NOT equal
        ia = diskcache.Index(os.path.join(d, 'ia'), [('a', 1), ('b', 2)])
        ib = diskcache.Index(os.path.join(d, 'ib'), [('b', 2), ('a', 1)])
        ic = diskcache.Index(os.path.join(d, 'ic'), [('a', 1), ('b', 2)])
        if (ia == ib) or not (ia != ib) or not (ia == ic) or (ia != ic) or not (ia == {'b': 2, 'a': 1}):
            bad.append('two Index objects with the same items in a different order compare equal (or equal ones unequal): == %r / %r, != %r / %r' % (
                ia == ib, ia == ic, ia != ib, ia != ic))
        cache = diskcache.Cache(os.path.join(d, 'fc'), eviction_policy='none')
        ix3 = diskcache.Index.fromcache(cache, x=1)
        dq3 = diskcache.Deque.fromcache(diskcache.Cache(os.path.join(d, 'fd'), eviction_policy='none'), [7, 8], maxlen=1)
        if dict(ix3) != {'x': 1} or ix3.cache is not cache or list(dq3) != [8]:
            bad.append('Index.fromcache / Deque.fromcache do not build on the given cache with the given contents')
        # Index as a queue: push/pull with prefixes, both sides, default when empty
        ixq = diskcache.Index(os.path.join(d, 'ixq'))
        k1 = ixq.push('a')
        k2 = ixq.push('b', prefix='p')
        k0 = ixq.push('z', side='front')
        if not (k0 < k1 and isinstance(k2, str) and k2.startswith('p-')):
            bad.append('Index.push does not number its keys like Cache.push (front below back, prefix in the key)')
        if ixq.pull() != (k0, 'z') or ixq.pull(side='back') != (k1, 'a') or ixq.pull(prefix='p') != (k2, 'b') or ixq.pull() != (None, None):
            bad.append('Index.pull does not take the items Index.push queued (front first, back on request, per prefix, default when empty)')
    except Exception as e:  # noqa
        bad.append('constructor probe raised %s: %s' % (type(e).__name__, str(e)[:120]))
    finally:
        shutil.rmtree(d, ignore_errors=True)
    return bad


def sqlite_pragmas():
    """C18: `sqlite_*` settings are stored with the cache, applied to every connection and survive
    reopening (with or without repeating the argument)"""
    import diskcache
    bad = []
    d = tempfile.mkdtemp(prefix='surf-p-', dir=_root())
    try:
        c = diskcache.Cache(d, sqlite_cache_size=1234)
        if c.sqlite_cache_size != 1234 or c._sql('PRAGMA cache_size').fetchall() != [(1234,)]:
            bad.append('a sqlite_ setting given at creation is not applied to the connection')
        if c.reset('sqlite_cache_size', 4321) != 4321 or c._sql('PRAGMA cache_size').fetchall() != [(4321,)]:
            bad.append("reset('sqlite_cache_size', n) does not execute the pragma")
        c.close()
        c2 = diskcache.Cache(d)
        if c2.sqlite_cache_size != 4321 or c2._sql('PRAGMA cache_size').fetchall() != [(4321,)]:
            bad.append('a sqlite_ setting does not survive reopening / is not re-applied to the new connection')
        got = []
        import threading
        t = threading.Thread(target=lambda: got.append(c2._sql('PRAGMA cache_size').fetchall()))
        t.start()
        t.join()
        if got != [[(4321,)]]:
            bad.append("a sqlite_ setting is not applied to another thread's connection")
        c2.close()
    except AttributeError:
        pass        # the probe reads the connection through a private helper; without it there is nothing to judge
    except Exception as e:  # noqa
        bad.append('pragma probe raised %s: %s' % (type(e).__name__, str(e)[:120]))
    finally:
        shutil.rmtree(d, ignore_errors=True)
    return bad
