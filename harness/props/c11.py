"""C11 — Deque is a persistent collections.deque.

Operation sequences on the real Deque (values inline and file-backed, maxlen in
{None,0,1,3}, indices over the full negative/positive/out-of-range span,
rotate/reverse/maxlen changes, extend/extendleft/+=, count/remove under ==,
the six comparisons against near misses of the contents, copy/pickle/reopen
handles) against DC.Model.Layers.Deque (result + the whole
underlying table); the real results of the calls DC.DSpec covers are also
compared with that Lean bounded list (theorem drun_refines); Deques made by
FanoutCache.deque() and a size limit of 0 included; producers and consumers as real threads with own handles on
one bounded deque under the deterministic scheduler, linearized on that model; acceptor: collections.deque with the same maxlen executes
the same operations and must give the same results and contents."""
import collections

import layers
from props import base
from common import Codec

VALS = [0, 1, 2, 'a', 'b' * 12, b'y' * 20, None, (1, 2), 3.5, [1] * 9]
UNSTORABLE = 'x\ud800'       # text SQLite / UTF-8 cannot hold: must be rejected, never altered (C01)
EQUAL_SPELLINGS = [1.0, 2.0, 0.0, 'zz', 7]     # equal to a stored value under ==, or absent


def gen_history(rng, length):
    maxlen = rng.choice([None, None, 0, 1, 3, 5])
    cfg = {'mfs': rng.choice([8, 16]), 'maxlen': maxlen, 'proto': rng.choice([2, 4, 5])}
    cfg['via'] = rng.choice([None, None, 'fanout'])          # the object FanoutCache.deque()/index() hands out
    cfg['limN'] = rng.choice([2 ** 30, 2 ** 30, 0])          # a size limit of 0: still nothing may be evicted
    ops = []
    mirror = collections.deque(maxlen=maxlen)
    for _ in range(length):
        m = rng.choices(['append', 'appendleft', 'pop', 'popleft', 'peek', 'peekleft', 'len', 'getitem', 'setitem', 'delitem',
                         'iter', 'riter', 'rotate', 'reverse', 'clear', 'maxlen',
                         'extend', 'extendleft', 'iadd', 'count', 'remove', 'cmp', 'copy', 'pickle', 'reopen'],
                        [8, 5, 4, 4, 2, 2, 2, 4, 3, 2, 2, 1, 2, 1, 0.5, 0.7,
                         2, 2, 1, 2, 2, 3, 0.5, 0.5, 0.5])[0]
        op = {'m': m, 'now': 1000}
        if m in ('append', 'appendleft', 'setitem'):
            op['v'] = rng.choice(VALS) if rng.random() > 0.04 else UNSTORABLE
        if m in ('count', 'remove'):
            op['v'] = rng.choice(VALS + EQUAL_SPELLINGS)
        if m in ('extend', 'extendleft', 'iadd'):
            op['vs'] = [(rng.choice(VALS) if rng.random() > 0.03 else UNSTORABLE) for _ in range(rng.randint(0, 4))]
        if m == 'cmp':
            # mostly the deque's own contents with one element / the length perturbed
            op['op'] = rng.choice(['eq', 'ne', 'lt', 'gt', 'le', 'ge'])
            op['that'] = rng.choice(['list', 'deque'])
            op['vs'] = None      # filled in by the mirror below
        if m in ('getitem', 'setitem', 'delitem'):
            op['i'] = rng.randint(-7, 7)
        if m == 'rotate':
            op['i'] = rng.randint(-9, 9)
        if m == 'maxlen':
            op['i'] = rng.choice([0, 1, 2, 4, 10])
        mirror = apply_mirror(mirror, op, rng)
        ops.append(op)
    ops.append({'m': 'iter', 'now': 1000})
    return {'cls': 'deque', 'cfg': cfg, 'ops': ops, 'state_every': 4}


def storable_prefix(vs):
    """the values before the first one that cannot be stored (the loop stops there)"""
    out = []
    for v in vs:
        if v == UNSTORABLE:
            break
        out.append(v)
    return out


def apply_mirror(d, op, rng):
    """keep a collections.deque in step while generating, so that comparison operands can be near
    misses of the current contents (equal, one element changed, a prefix, one longer)"""
    m = op['m']
    if op.get('v') == UNSTORABLE and m in ('append', 'appendleft', 'setitem'):
        return d
    try:
        if m == 'append':
            d.append(op['v'])
        elif m == 'appendleft':
            d.appendleft(op['v'])
        elif m == 'pop':
            d.pop()
        elif m == 'popleft':
            d.popleft()
        elif m == 'setitem':
            d[op['i']] = op['v']
        elif m == 'delitem':
            del d[op['i']]
        elif m == 'rotate':
            d.rotate(op['i'])
        elif m == 'reverse':
            d.reverse()
        elif m == 'clear':
            d.clear()
        elif m == 'maxlen':
            d = collections.deque(d, maxlen=op['i'])
        elif m in ('extend', 'iadd'):
            d.extend(storable_prefix(op['vs']))
        elif m == 'extendleft':
            d.extendleft(storable_prefix(op['vs']))
        elif m == 'remove':
            d.remove(op['v'])
        elif m == 'cmp':
            vs = list(d)
            how = rng.choice(['same', 'same', 'change', 'prefix', 'longer', 'random'])
            if how == 'change' and vs:
                vs[rng.randrange(len(vs))] = rng.choice(VALS + EQUAL_SPELLINGS)
            elif how == 'prefix' and vs:
                vs = vs[:rng.randrange(len(vs))]
            elif how == 'longer':
                vs = vs + [rng.choice(VALS)]
            elif how == 'random':
                vs = [rng.choice(VALS) for _ in range(rng.randint(0, 3))]
            op['vs'] = vs
    except (IndexError, ValueError):
        pass
    return d


def acceptor(hist, io):
    codec = Codec('pickle', hist['cfg'].get('proto', 5))
    rv = codec.render_val
    ml = hist['cfg'].get('maxlen')
    d = collections.deque(maxlen=ml)
    for idx, (op, res) in enumerate(base.results_of(hist, io)):
        m = op['m']
        if op.get('v') == UNSTORABLE and m in ('append', 'appendleft', 'setitem'):
            # a value that cannot be stored is rejected with an exception and nothing changes
            if m == 'setitem' and not (-len(d) <= op['i'] < len(d)):
                want = '!IndexError'
            else:
                want = '!UnicodeEncodeError'
            if res != want:
                return 'op #%d %s of an unstorable text: Deque gave %s, expected %s and no change' % (idx, m, res[:60], want)
            continue
        try:
            if m == 'append':
                d.append(op['v']); want = 'n'
            elif m == 'appendleft':
                d.appendleft(op['v']); want = 'n'
            elif m == 'pop':
                want = rv(d.pop())
            elif m == 'popleft':
                want = rv(d.popleft())
            elif m == 'peek':
                want = rv(d[-1])
            elif m == 'peekleft':
                want = rv(d[0])
            elif m == 'len':
                want = 'i%d' % len(d)
            elif m == 'getitem':
                want = rv(d[op['i']])
            elif m == 'setitem':
                d[op['i']] = op['v']; want = 'n'
            elif m == 'delitem':
                del d[op['i']]; want = 'n'
            elif m == 'iter':
                want = '[' + ','.join(rv(x) for x in d) + ']'
            elif m == 'riter':
                want = '[' + ','.join(rv(x) for x in reversed(d)) + ']'
            elif m == 'rotate':
                d.rotate(op['i']); want = 'n'
            elif m == 'reverse':
                d.reverse(); want = 'n'
            elif m == 'clear':
                d.clear(); want = 'n'
            elif m == 'maxlen':
                d = collections.deque(d, maxlen=op['i']); want = 'n'
            elif m in ('extend', 'iadd', 'extendleft'):
                pre = storable_prefix(op['vs'])
                if m == 'extendleft':
                    d.extendleft(pre)
                else:
                    d.extend(pre)
                # the loop stops at a value that cannot be stored: the exception propagates, the
                # values before it stay
                want = 'n' if len(pre) == len(op['vs']) else '!UnicodeEncodeError'
            elif m == 'count':
                want = 'i%d' % d.count(op['v'])
            elif m == 'remove':
                d.remove(op['v']); want = 'n'
            elif m == 'cmp':
                import operator
                want = 'T' if getattr(operator, op['op'])(d, collections.deque(op['vs'])) else 'F'
            elif m in ('copy', 'pickle', 'reopen'):
                want = 'n'
            else:
                continue
        except IndexError:
            want = '!IndexError'
        except ValueError:
            want = '!ValueError'
        except TypeError:
            want = '!TypeError'
        if res != want:
            return 'op #%d %s: Deque gave %s, collections.deque(maxlen=%r) gives %s' % (idx, m, res[:60], ml, want[:60])
    return None


def probe_d17():
    """Deque on a JSONDisk cache (FanoutCache(disk=JSONDisk).deque)"""
    import shutil
    import tempfile
    import diskcache
    d = tempfile.mkdtemp(prefix='d17-')
    try:
        fc = diskcache.FanoutCache(d, shards=2, disk=diskcache.JSONDisk)
        dq = fc.deque('x')
        dq.append(1)
        dq.append(2)
        try:
            got = list(dq)
        except Exception as e:
            got = type(e).__name__
        fc.close()
        if got != [1, 2]:
            return 'D17-probe: a Deque from FanoutCache(disk=JSONDisk).deque() holding [1, 2] iterates as %r' % (got,)
        return None
    finally:
        shutil.rmtree(d, ignore_errors=True)




def against_lean_spec(hists, impl_out, head):
    """the results of the REAL code against the executable Lean specification (`dsop` lines: the same
    fields as the `lop` lines, answered by the reference structure of the refinement theorem).
    -> (number of results compared, [disagreement])"""
    import corr
    lines, index = [], []
    for i, io in enumerate(impl_out):
        for j, (line, ans) in enumerate(io):
            if line.startswith('lcfg '):
                lines.append(line)
                index.append(None)
            elif line.startswith('lop '):
                lines.append(head + ' ' + line[4:])
                index.append((i, j))
    got = corr.run_driver(lines)
    out, compared, seen = [], 0, set()
    for ij, l, g in zip(index, lines, got):
        if ij is None or ij[0] in seen:
            continue
        i, j = ij
        want = impl_out[i][j][1].split(' | ')[0]
        compared += 1
        if g != want:
            seen.add(i)
            nth = sum(1 for (l2, _) in impl_out[i][:j] if l2.startswith('lop '))
            out.append({'history': i, 'op_index': nth, 'line': l, 'impl': want, 'spec': g})
    return compared, out


DSPEC_OPS = {'append', 'appendleft', 'pop', 'popleft', 'peek', 'peekleft', 'len', 'clear', 'getitem', 'iter', 'riter',
             'setitem', 'delitem', 'rotate', 'reverse', 'maxlen', 'extend', 'iadd', 'extendleft', 'count', 'remove', 'cmp'}


def spec_history(rng, length):
    """a history of the calls the bounded-list specification DC.DSpec covers (theorem drun_refines)"""
    h = gen_history(rng, length * 2)
    h['ops'] = [op for op in h['ops'] if op['m'] in DSPEC_OPS][:length] + [{'m': 'iter', 'now': 1000}]
    h['state_every'] = 0
    return h


def conc_case(args):
    """producers and consumers on one bounded Deque directory, each with its own handle, under the
    deterministic scheduler; acceptor: linearizable on DC.Model.Layers.Deque (so every item that
    maxlen does not discard is popped exactly once, and the contents are what some order gives)"""
    import os
    import random
    import sys
    sys.path.insert(0, os.path.dirname(os.path.dirname(os.path.abspath(__file__))))
    import conc
    seed, tier = args
    rng = random.Random(seed)
    maxlen = rng.choice([None, 2, 3, 3])
    cfg = {'mfs': 8, 'maxlen': maxlen, 'proto': 5}
    fill = rng.randint(0, 3) if maxlen is None else rng.choice([maxlen, maxlen, maxlen - 1])
    items = ['p%d' % i for i in range(fill)]
    preset = [{'m': 'append', 'now': 1000, 'v': x} for x in items]
    big = b'B' * 20

    def producer(tagc):
        return [{'m': rng.choice(['append', 'append', 'appendleft']), 'now': 1000, 'v': rng.choice(['%s%d' % (tagc, i), big])}
                for i in range(rng.randint(1, 2))]

    def consumer():
        return [{'m': rng.choice(['popleft', 'popleft', 'pop']), 'now': 1000} for _ in range(rng.randint(1, 2))]
    def deleter():
        # deletion by index goes through the key of the i-th item, which a consumer may take away meanwhile
        # (assignment by index is left out: `deque[i] = v` racing a pop of that item stores v under the popped item's
        # key again - an observation outside C11's concurrent clause, which speaks of producers and consumers)
        return [{'m': 'delitem', 'now': 1000, 'i': rng.choice([0, 0, -1])}]
    shape = rng.choice(['pc', 'pc', 'pp', 'cc', 'pcc', 'dc', 'dc'])
    progs = {'pc': [producer('a'), consumer()], 'pp': [producer('a'), producer('b')], 'cc': [consumer(), consumer()],
             'pcc': [producer('a'), consumer(), consumer()], 'dc': [deleter(), consumer()]}[shape]
    programs = {i: p for i, p in enumerate(progs)}
    scheds = []
    bound = 26 if tier == 'quick' else 40
    n = len(programs)
    for a in range(n):
        for b in range(n):
            if a != b:
                for k in range(0, bound):
                    scheds.append([a] * k + [b] * 300 + [a] * 300)
    for _ in range(6 if tier == 'quick' else 20):
        scheds.append(rng.choices(range(n), k=rng.randint(5, 80)))
    out = []
    for sch in scheds:
        run = conc.run_concurrent_layer('deque', cfg, preset, programs, sch)
        why = conc.explain(run, programs, cfg)
        out.append({'why': why, 'steps': run['steps'], 'sched': sch[:90] if why else None})
    return {'seed': seed, 'programs': programs, 'maxlen': maxlen, 'preset': items, 'shape': shape, 'results': out}


def run(tier, seed, rng, known, replay):
    if replay:
        return base.replay_file(replay, 'C11', ('result', 'state'), acceptor)
    n = 300 if tier == 'quick' else 4000
    hists = [gen_history(rng, rng.choice([10, 25, 60])) for _ in range(n)]
    r = base.check_histories('C11', hists, ('result', 'state'), acceptor=acceptor, known=known, runner=layers.layer_chunk)
    dist, distinct = base.op_distribution(hists, r['impl_out'])
    # the real Deque against the Lean bounded list (the specification side of drun_refines)
    n_spec = 150 if tier == 'quick' else 2500
    shists = [spec_history(rng, rng.choice([10, 30, 60])) for _ in range(n_spec)]
    rs = base.check_histories('C11', shists, ('result', 'state'), acceptor=acceptor, known=known, runner=layers.layer_chunk)
    compared, bad = against_lean_spec(shists, rs['impl_out'], 'dsop')
    r['violations'] = list(r['violations']) + list(rs['violations'])
    for b in bad[:2]:
        h = shists[b['history']]
        what = 'call #%d %s returns %s, the bounded list DC.DSpec returns %s' % (b['op_index'], b['line'][:90], b['impl'][:60], b['spec'][:60])
        r['violations'].append({'replay': {'property': 'C11', 'kind': 'spec-disagreement', 'cls': 'deque', 'cfg': h['cfg'],
                                           'ops': base.tag(h['ops'][:b['op_index'] + 1]), 'line': b['line'], 'impl': b['impl'], 'spec': b['spec'],
                                           'acceptor': what, 'spec_part': 'DC.DSpec.step (lean/DC/Model/DSpec.lean); refinement theorem DC.Deque.drun_refines'},
                                'found_input': True, 'what': 'property violated on the implementation: ' + what})
    r['divergent'] += rs['divergent']
    # concurrent producers / consumers
    from concurrent.futures import ProcessPoolExecutor
    n_cases = 16 if tier == 'quick' else 64
    jobs = [(rng.getrandbits(48), tier) for _ in range(n_cases)]
    with ProcessPoolExecutor(max_workers=16) as ex:
        cases = list(ex.map(conc_case, jobs, chunksize=1))
    conc_runs = 0
    for c in cases:
        for x in c['results']:
            conc_runs += 1
            if x['why'] and len(r['violations']) < 3:
                what = 'Deque(maxlen=%r) holding %r: concurrent %s not linearizable: %s' % (c['maxlen'], c['preset'], c['shape'], x['why'])
                r['violations'].append({'replay': {'property': 'C11', 'kind': 'concurrent-deque', 'case_seed': c['seed'], 'maxlen': c['maxlen'],
                                                   'preset': c['preset'], 'programs': base.tag(c['programs']), 'schedule': x['sched'],
                                                   'acceptor': x['why']}, 'found_input': True, 'what': what})
    from props import surface
    for v_ in surface.constructors()[:2]:
        r['violations'].append({'replay': {'property': 'C11', 'kind': 'surface-probe', 'probe': 'constructors', 'acceptor': v_}, 'found_input': True, 'what': v_})
    v = probe_d17()
    if v:
        k = base.match_known(known, {'cfg': {}}, None, v)
        if k is not None:
            r['known'].append(k['what'])
        else:
            r['violations'].append({'replay': {'property': 'C11', 'kind': 'probe', 'acceptor': v}, 'found_input': True, 'what': v})
    return {
        'evaluations': sum(len(h['ops']) for h in hists) + conc_runs, 'distinct_nontrivial': distinct + n_cases,
        'rule': 'seeded Deque operation sequences (lengths 10-60) over inline and file-backed values, maxlen in {None,0,1,3,5} and changed on the fly, '
                'indices in [-7,7], rotate in [-9,9]; scheduled producers/consumers (own handles on one bounded deque, every single-preemption schedule up to the bound + random ones) linearized on the Lean model; distinct = distinct (method, result) pairs',
        'samples': [base.sample(hists[0], r['impl_out'][0])], 'traces': len(hists),
        'dist': dict(dist, histories=len(hists), divergent=r['divergent'], concurrent_cases=n_cases, concurrent_runs=conc_runs, spec_histories=n_spec, results_compared_with_lean_spec=compared, spec_disagreements=len(bad)),
        'violations': r['violations'], 'known': r['known'],
    }
