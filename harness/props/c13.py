"""C13 — a sharded cache is observably one cache with a fixed key-to-shard mapping.

(1) call histories on the real FanoutCache (shards in {1,2,3,8,13}) against
DC.Model.Layers.Fanout (result + every shard's table): every key-addressed call
(set/add/get/[]/in/touch/incr/decr/pop/delete/read), the aggregates (len,
volume, clear, expire, evict, cull, stats, iteration, check, reset) and
`with fanout.transact()` blocks that commit or raise.
(1b) the same with JSONDisk shards and list/dict keys (routing goes through the
Disk subclass's own key encoding); stream writes (read=True) through the shards.
(2b) policy-none histories whose results are also compared with the ONE Lean
reference dictionary DC.Spec (theorem frun_refines).
(3) aggregates over DAMAGED shards (value files deleted/added/resized, counters
offset, in a random subset of shards) against the shards asked one by one, in
shard order; the divided size limit; check(fix=True) converging on every shard.
(2) routing: `hash(key) % shards` of the real code against DC.hashDb / diskHash
(the `route` op) and across fresh interpreters with different PYTHONHASHSEED.
Acceptor: the reference dictionary of C03 (the unsharded behaviour), and
equal keys must be found whatever spelling is used (D11 is the known exception)."""
import json
import os
import subprocess
import sys

import gen
import layers
from props import base, refdict

SCOPE = {'set', 'add', 'get', 'getitem', 'contains', 'touch', 'incr', 'pop', 'delete', 'delitem', 'clear', 'evict',
         'expire', 'len', 'iter', 'riter', 'stats', 'cull', 'volume', 'read', 'reset', 'check', 'tbegin', 'tend', 'traise'}
ROUTE_KEYS = [0, 1, -1, 2 ** 31, 2 ** 32 - 1, 2 ** 32, 2 ** 63 - 1, -2 ** 63, 2 ** 64, 1.0, 0.0, -0.0, 2.5, 1e300, float('inf'),
              '', 'a', 'abc', 'é', '\U0001F600', b'', b'a', b'\x00\xff', None, True, (1, 2), ('a', (1,)), frozenset([1])]


def fan_history(rng, length):
    h = gen.gen_history(rng, length, rng.choice(['noblocks', 'noblocks', 'full']))
    h['cls'] = 'fanout'
    h['cfg']['shards'] = rng.choice([1, 2, 3, 8, 13])
    h['cfg']['disk'] = 'pickle'
    ops = []
    depth = 0
    for op in h['ops']:
        if op['m'] not in SCOPE or (op.get('read') and op['m'] not in ('set', 'add')):
            continue
        if type(op.get('k')) is float and op['k'] == int(op['k']):
            # numerically equal int/float keys are routed apart (known finding D11, probed separately)
            continue
        ops.append(op)
        depth = depth + 1 if op['m'] == 'tbegin' else max(0, depth - 1) if op['m'] == 'tend' else \
            max(0, depth - op.get('n', 1)) if op['m'] == 'traise' else depth
        if rng.random() < 0.03 and depth == 0:
            # (inside an open block the files awaiting the commit are, correctly, reported as unknown)
            ops.append({'m': 'check', 'now': op['now']})
        if rng.random() < 0.15 and 'k' in op:
            ops.append({'m': 'route', 'now': op['now'], 'k': op['k']})
    h['ops'] = ops
    h['state_every'] = 5
    return h


JSON_KEYS = ['a', 'b', 7, -3, 2.5, [1, 'x'], (1, 'x'), [0, 'x'], {'a': 1}, {'b': [1, 2]}, None, True, 'é', [[1], [2]]]
JSON_VALS = [1, 'v', [1, 2], {'k': 'v'}, None, 2.5, 'long' * 20, list(range(30))]


def json_fan_history(rng, length):
    """a FanoutCache whose shards use JSONDisk: the key is identified by its JSON text, so a tuple and
    the equal list are one key; equal keys must land in one shard (route ops) and be found"""
    cfg = {'shards': rng.choice([2, 3, 8, 13]), 'mfs': rng.choice([8, 32768]), 'disk': 'json', 'policy': 'lrs', 'cull': 10,
           'stats': 0, 'proto': 5, 'limN': 2 ** 30, 'limD': 1}
    ops = []
    now = 1000
    for _ in range(length):
        now += rng.choice([0, 1])
        m = rng.choices(['set', 'get', 'contains', 'delete', 'pop', 'add', 'route', 'len', 'iter'], [6, 6, 2, 2, 1, 2, 4, 1, 1])[0]
        op = {'m': m, 'now': now}
        if m not in ('len', 'iter'):
            op['k'] = rng.choice(JSON_KEYS)
        if m in ('set', 'add'):
            op.update(v=rng.choice(JSON_VALS), ttl=None, tag=None)
        if m in ('get', 'pop'):
            op.update(et=0, tg=0)
        ops.append(op)
    return {'cls': 'fanout', 'cfg': cfg, 'ops': ops, 'state_every': 5}


def json_acceptor(hist, io):
    """equal keys (same JSON text) are one entry and one shard"""
    import json
    store = {}
    routes = {}
    for op, res in base.results_of(hist, io):
        m = op['m']
        if 'k' not in op:
            continue
        kk = json.dumps(op['k'])
        if m == 'route':
            if kk in routes and routes[kk] != res:
                return 'two spellings of the key %s are routed to different shards (%s, %s)' % (kk, routes[kk], res)
            routes[kk] = res
        elif m == 'set':
            store[kk] = True
        elif m == 'add':
            store.setdefault(kk, True)
        elif m in ('delete', 'pop'):
            store.pop(kk, None)
        elif m == 'contains':
            if res != ('T' if kk in store else 'F'):
                return 'membership of the key %s is %s, but it was %s' % (kk, res, 'stored' if kk in store else 'not stored / removed')
        elif m == 'get':
            if (res == 'D') != (kk not in store):
                return 'get of the key %s returned %s, but it was %s' % (kk, res[:30], 'stored' if kk in store else 'not stored / removed')
    return None


def acceptor(hist, io):
    return refdict.accept(hist, io, scope=SCOPE - {'cull', 'volume', 'stats'})


def cross_interpreter_routes(keys, shards):
    """routing computed in fresh interpreters with different hash seeds"""
    prog = (
        "import sys, json, pickle\n"
        "sys.path.insert(0, %r)\n"
        "import diskcache, tempfile, shutil\n"
        "keys = pickle.loads(bytes.fromhex(sys.argv[1]))\n"
        "d = tempfile.mkdtemp()\n"
        "out = []\n"
        "for n in %r:\n"
        "    c = diskcache.FanoutCache(d + '/' + str(n), shards=n)\n"
        "    out.append([c._hash(k) %% n for k in keys])\n"
        "    c.close()\n"
        "shutil.rmtree(d)\n"
        "print(json.dumps(out))\n" % (os.environ.get('VERIF_REPO', '/repo'), shards))
    import pickle
    arg = pickle.dumps(keys).hex()
    outs = []
    for seed in ('0', '1', '12345', 'random'):
        env = dict(os.environ, PYTHONHASHSEED=seed, PYTHONDONTWRITEBYTECODE='1')
        p = subprocess.run([sys.executable, '-c', prog, arg], capture_output=True, text=True, env=env)
        if p.returncode != 0:
            return None, p.stderr[-300:]
        outs.append(json.loads(p.stdout.strip().split('\n')[-1]))
    return outs, None


def probe_d11():
    import shutil
    import tempfile
    import diskcache
    d = tempfile.mkdtemp(prefix='d11-')
    try:
        c = diskcache.FanoutCache(d, shards=8)
        bad = []
        for a, b in ((1, 1.0), (0, 0.0), (0.0, -0.0), (7, 7.0)):
            c.clear()
            c.set(a, 'x')
            if c.get(b) != 'x':
                bad.append((a, b))
        c.close()
        if bad:
            return 'D11-probe: keys the cache treats as equal are routed to different shards: %r (set(a); get(b) misses)' % bad
        return None
    finally:
        shutil.rmtree(d, ignore_errors=True)


SPEC_OPS = {'set', 'add', 'get', 'getitem', 'read', 'contains', 'touch', 'incr', 'pop', 'delete', 'delitem', 'clear', 'evict', 'expire', 'cull'}


def spec_fan_history(rng, length):
    """a history inside the regime of DC.Fanout.frun_refines: policy 'none', key-addressed calls and bulk
    removals, non-decreasing clocks, no key that is numerically equal to a key of another type (D11)"""
    h = fan_history(rng, length * 2)
    h['cfg']['policy'] = 'none'
    h['ops'] = [op for op in h['ops'] if op['m'] in SPEC_OPS and type(op.get('k')) is not float][:length]
    h['state_every'] = 0
    return h


def aggregate_probe(seed):
    """aggregates cover every shard exactly once: damage some shards behind the library's back and
    compare FanoutCache.check / len / volume / iteration with the per-shard answers, in shard order"""
    import random
    import shutil
    import tempfile
    import diskcache
    from props import c17
    rng = random.Random(seed)
    root = os.environ.get('VERIF_SCRATCH') or tempfile.gettempdir()
    d = tempfile.mkdtemp(prefix='agg-', dir=root)
    try:
        n = rng.choice([2, 3, 5, 8])
        fc = diskcache.FanoutCache(d, shards=n, disk_min_file_size=8, size_limit=n * 2 ** 20)
        for i in range(rng.randint(n, 6 * n)):
            fc.set(rng.choice([i, 'k%d' % i, (i,)]), rng.choice([i, b'b' * rng.randint(8, 40), 't' * rng.randint(8, 30)]),
                   tag=rng.choice(['red', None]), expire=rng.choice([None, 1000]))
        dirs = [os.path.join(d, '%03d' % i) for i in range(n)]
        limits = [diskcache.Cache(x).size_limit for x in dirs]
        if limits != [2 ** 20] * n:
            return 'the size limit %d of a %d-shard cache is not divided evenly among the shards: %r' % (n * 2 ** 20, n, limits)
        damaged = [i for i in range(n) if rng.random() < 0.5]
        for i in damaged:
            c17.damage(rng, dirs[i])

        def norm(ws):
            return [str(w.message).replace(d, '') for w in ws]
        per = []
        for x in dirs:
            c = diskcache.Cache(x)
            per.append((norm(c.check()), c.reset('count'), c.volume(), [k for k in c], [k for k in reversed(c)]))
            c.close()
        got = norm(fc.check())
        want = [w for p in per for w in p[0]]
        if got != want:
            return 'FanoutCache.check() over %d shards (damaged: %r) reports %r, the shards one by one report %r' % (n, damaged, got[:6], want[:6])
        if all(p[1] >= 0 for p in per) and len(fc) != sum(p[1] for p in per):
            return 'len(FanoutCache) = %d, the shards sum to %d' % (len(fc), sum(p[1] for p in per))
        if fc.volume() != sum(p[2] for p in per):
            return 'FanoutCache.volume() = %d, the shards sum to %d' % (fc.volume(), sum(p[2] for p in per))
        if [k for k in fc] != [k for p in per for k in p[3]]:
            return 'iteration over the FanoutCache is not the shards\' iterations in shard order'
        if [k for k in reversed(fc)] != [k for p in reversed(per) for k in p[4]]:
            return 'reversed iteration over the FanoutCache is not the reversed shards in reverse order'
        fixed = norm(fc.check(fix=True))
        again = [w for w in norm(fc.check()) if not w.startswith('empty directory')]
        if again:
            return 'FanoutCache.check(fix=True) left %r in shards damaged %r' % (again[:4], damaged)
        # the removal aggregates return the sum over the shards
        reds = 0
        for x in dirs:
            con = __import__('sqlite3').connect(os.path.join(x, 'cache.db'))
            reds += con.execute("SELECT COUNT(*) FROM Cache WHERE tag = 'red'").fetchone()[0]
            con.close()
        total = len(fc)
        if fc.evict('red') != reds:
            return 'FanoutCache.evict did not report the number of tagged items in all shards (%d)' % reds
        if len(fc) != total - reds:
            return 'FanoutCache.evict did not remove the tagged items of every shard'
        if fc.clear() != total - reds or len(fc) != 0:
            return 'FanoutCache.clear did not remove / count the items of every shard'
        fc.close()
        return None
    finally:
        shutil.rmtree(d, ignore_errors=True)


def interrupted_total_probe():
    """a removal aggregate that is interrupted (another client takes a shard's write lock after the
    first committed batch and keeps it for a few attempts) resumes and returns the TOTAL number of
    items removed over all attempts and shards"""
    import shutil
    import sqlite3
    import tempfile
    import diskcache
    from impl import Env
    env = Env.get()
    root = os.environ.get('VERIF_SCRATCH') or tempfile.gettempdir()
    bad = []
    for meth in ('clear', 'evict', 'expire', 'cull'):
        for busy in (1, 3):
            d = tempfile.mkdtemp(prefix='agg2-', dir=root)
            try:
                env.rec.enabled = False
                env.clock.t = 1000
                fc = diskcache.FanoutCache(d, shards=2, timeout=0, cull_limit=0)
                for i in range(320):
                    fc.set(i, i, tag='t', expire=5)
                env.clock.t = 2000
                env.rec.enabled = True
                first = os.path.join(d, '000')
                n0 = sqlite3.connect(os.path.join(first, 'cache.db')).execute('SELECT COUNT(*) FROM Cache').fetchone()[0]
                seen = {'commits': 0, 'con': None, 'busy': 0}

                def hook(kind, detail, seen=seen, first=first, busy=busy, n0=n0):
                    if kind == 'sql' and detail == 'COMMIT':
                        seen['commits'] += 1
                    elif kind == 'sql' and detail == 'BEGIN':
                        if seen['commits'] == 1 and seen['con'] is None and n0 > 100:
                            con = sqlite3.connect(os.path.join(first, 'cache.db'), timeout=0, isolation_level=None)
                            con.execute('BEGIN IMMEDIATE')
                            seen['con'] = con
                        elif seen['con'] is not None and seen['busy'] < busy:
                            seen['busy'] += 1
                            if seen['busy'] == busy:
                                seen['con'].execute('ROLLBACK')
                env.rec.on_action = hook
                try:
                    got = fc.evict('t') if meth == 'evict' else getattr(fc, meth)()
                finally:
                    env.rec.on_action = None
                    if seen['con'] is not None:
                        try:
                            seen['con'].execute('ROLLBACK')
                        except sqlite3.OperationalError:
                            pass
                        seen['con'].close()
                left = len(fc)
                if got != 320 or left != 0:
                    bad.append('FanoutCache.%s() of 320 removable items in 2 shards, interrupted after the first batch for %d attempt(s): returned %r, %d items left '
                               '(the counts of interrupted attempts must be included)' % (meth, busy, got, left))
                fc.close()
            finally:
                env.rec.on_action = None
                env.rec.enabled = True
                shutil.rmtree(d, ignore_errors=True)
    return bad


def run(tier, seed, rng, known, replay):
    if replay:
        return base.replay_file(replay, 'C13', ('result', 'state'), acceptor)
    n = 200 if tier == 'quick' else 3000
    hists = [fan_history(rng, rng.choice([15, 40, 80])) for _ in range(n)]
    # routing table of the boundary keys for every shard count, against the model
    for shards in (1, 2, 3, 8, 13):
        hists.append({'cls': 'fanout', 'cfg': {'shards': shards, 'mfs': 32768, 'proto': rng.choice([0, 2, 5])},
                      'ops': [{'m': 'route', 'now': 1000, 'k': k} for k in ROUTE_KEYS], 'state_every': 0})
    r = base.check_histories('C13', hists, ('result', 'state'), acceptor=acceptor, known=known, runner=layers.layer_chunk)
    dist, distinct = base.op_distribution(hists, r['impl_out'])
    violations = list(r['violations'])
    known_hits = list(r['known'])
    outs, err = cross_interpreter_routes(ROUTE_KEYS[:-1], [1, 2, 3, 8, 13])
    if outs is None:
        violations.append({'replay': {'property': 'C13', 'kind': 'routing', 'error': err}, 'found_input': False,
                           'what': 'routing could not be computed in a fresh interpreter: ' + str(err)})
    elif any(o != outs[0] for o in outs[1:]):
        violations.append({'replay': {'property': 'C13', 'kind': 'routing', 'routes': outs}, 'found_input': True,
                           'what': 'the shard of a key depends on the interpreter (hash seed)'})
    # the real FanoutCache against the ONE Lean reference dictionary (specification side of frun_refines)
    n_spec = 150 if tier == 'quick' else 2500
    shists = [spec_fan_history(rng, rng.choice([12, 30, 60])) for _ in range(n_spec)]
    rs = base.check_histories('C13', shists, ('result', 'state'), acceptor=acceptor, known=known, runner=layers.layer_chunk)
    compared, bad = base.against_lean_spec(rs['impl_out'], 'sop', cfg_head='cfg', undetermined=('clear', 'evict', 'expire', 'cull'))
    violations += list(rs['violations'])
    for b in bad[:2]:
        h = shists[b['history']]
        what = 'call #%d %s returns %s on %d shards, the reference dictionary DC.Spec returns %s' % (
            b['op_index'], b['line'][:90], b['impl'][:60], h['cfg']['shards'], b['spec'][:60])
        violations.append({'replay': {'property': 'C13', 'kind': 'spec-disagreement', 'cls': 'fanout', 'cfg': h['cfg'],
                                      'ops': base.tag(h['ops'][:b['op_index'] + 1]), 'line': b['line'], 'impl': b['impl'], 'spec': b['spec'],
                                      'acceptor': what, 'spec_part': 'DC.Spec.step; refinement theorem DC.Fanout.frun_refines'},
                           'found_input': True, 'what': 'property violated on the implementation: ' + what})
    # shards with JSONDisk: equal keys (one JSON text) in one shard
    jhists = [json_fan_history(rng, rng.choice([15, 40])) for _ in range(60 if tier == 'quick' else 800)]
    rj = base.check_histories('C13', jhists, ('result', 'state'), acceptor=json_acceptor, known=known, runner=layers.layer_chunk)
    violations += list(rj['violations'])
    n_agg = 40 if tier == 'quick' else 600
    for s_ in [rng.getrandbits(40) for _ in range(n_agg)]:
        v = aggregate_probe(s_)
        if v and len(violations) < 3:
            violations.append({'replay': {'property': 'C13', 'kind': 'aggregate-probe', 'probe_seed': s_, 'acceptor': v},
                               'found_input': True, 'what': v})
    for v in interrupted_total_probe()[:2]:
        violations.append({'replay': {'property': 'C13', 'kind': 'interrupted-aggregate-probe', 'acceptor': v}, 'found_input': True, 'what': v})
    from props import surface
    for v_ in surface.fanout_subobjects()[:2]:
        violations.append({'replay': {'property': 'C13', 'kind': 'surface-probe', 'probe': 'fanout_subobjects', 'acceptor': v_}, 'found_input': True, 'what': v_})
    v = probe_d11()
    if v:
        k = base.match_known(known, {'cfg': {}}, None, v)
        if k is not None:
            known_hits.append(k['what'])
        else:
            violations.append({'replay': {'property': 'C13', 'kind': 'probe', 'acceptor': v}, 'found_input': True, 'what': v})
    return {
        'evaluations': sum(len(h['ops']) for h in hists) + 4 * len(ROUTE_KEYS), 'distinct_nontrivial': distinct,
        'rule': 'seeded call histories over the C03 alphabet on FanoutCache with shards in {1,2,3,8,13}; routing of %d boundary keys per shard count '
                'against the model and across 4 interpreters with different PYTHONHASHSEED; aggregates (check, len, volume, iteration, evict, clear, the divided size limit) of caches with damaged shards against the shards one by one; distinct = distinct (method, result) pairs' % len(ROUTE_KEYS),
        'samples': [base.sample(hists[0], r['impl_out'][0]), base.sample(hists[-1], r['impl_out'][-1])], 'traces': len(hists),
        'dist': dict(dist, histories=len(hists), divergent=r['divergent'], interpreters=4, aggregate_probes=n_agg, spec_histories=n_spec, results_compared_with_lean_spec=compared, spec_disagreements=len(bad)),
        'violations': violations, 'known': known_hits,
    }
