"""C13 — a sharded cache is observably one cache with a fixed key-to-shard mapping.

(1) call histories on the real FanoutCache (shards in {1,2,3,8,13}) against
DC.Model.Layers.Fanout (result + every shard's table), incl. the aggregates.
(2) routing: `hash(key) % shards` of the real code against DC.hashDb / diskHash
(the `route` op) and across fresh interpreters with different PYTHONHASHSEED.
Acceptor: the reference dictionary of C03 (the unsharded behaviour), and
equal keys must be found whatever spelling is used (D11 is the known exception)."""
import json
import os
import subprocess
import sys

import gen
import layers
from props import base, refdict

SCOPE = {'set', 'add', 'get', 'getitem', 'contains', 'touch', 'incr', 'pop', 'delete', 'delitem', 'clear', 'evict',
         'expire', 'len', 'iter', 'riter', 'stats', 'cull', 'volume'}
ROUTE_KEYS = [0, 1, -1, 2 ** 31, 2 ** 32 - 1, 2 ** 32, 2 ** 63 - 1, -2 ** 63, 2 ** 64, 1.0, 0.0, -0.0, 2.5, 1e300, float('inf'),
              '', 'a', 'abc', 'é', '\U0001F600', b'', b'a', b'\x00\xff', None, True, (1, 2), ('a', (1,)), frozenset([1])]


def fan_history(rng, length):
    h = gen.gen_history(rng, length, 'noblocks')
    h['cls'] = 'fanout'
    h['cfg']['shards'] = rng.choice([1, 2, 3, 8, 13])
    h['cfg']['disk'] = 'pickle'
    ops = []
    for op in h['ops']:
        if op['m'] not in SCOPE or op.get('read'):
            continue
        if type(op.get('k')) is float and op['k'] == int(op['k']):
            # numerically equal int/float keys are routed apart (known finding D11, probed separately)
            continue
        ops.append(op)
        if rng.random() < 0.15 and 'k' in op:
            ops.append({'m': 'route', 'now': op['now'], 'k': op['k']})
    h['ops'] = ops
    h['state_every'] = 5
    return h


def acceptor(hist, io):
    return refdict.accept(hist, io, scope=SCOPE - {'cull', 'volume', 'stats'})


def cross_interpreter_routes(keys, shards):
    """routing computed in fresh interpreters with different hash seeds"""
    prog = (
        "import sys, json, pickle\n"
        "sys.path.insert(0, %r)\n"
        "import diskcache, tempfile, shutil\n"
        "keys = pickle.loads(bytes.fromhex(sys.argv[1]))\n"
        "d = tempfile.mkdtemp()\n"
        "out = []\n"
        "for n in %r:\n"
        "    c = diskcache.FanoutCache(d + '/' + str(n), shards=n)\n"
        "    out.append([c._hash(k) %% n for k in keys])\n"
        "    c.close()\n"
        "shutil.rmtree(d)\n"
        "print(json.dumps(out))\n" % (os.environ.get('VERIF_REPO', '/repo'), shards))
    import pickle
    arg = pickle.dumps(keys).hex()
    outs = []
    for seed in ('0', '1', '12345', 'random'):
        env = dict(os.environ, PYTHONHASHSEED=seed, PYTHONDONTWRITEBYTECODE='1')
        p = subprocess.run([sys.executable, '-c', prog, arg], capture_output=True, text=True, env=env)
        if p.returncode != 0:
            return None, p.stderr[-300:]
        outs.append(json.loads(p.stdout.strip().split('\n')[-1]))
    return outs, None


def probe_d11():
    import shutil
    import tempfile
    import diskcache
    d = tempfile.mkdtemp(prefix='d11-')
    try:
        c = diskcache.FanoutCache(d, shards=8)
        bad = []
        for a, b in ((1, 1.0), (0, 0.0), (0.0, -0.0), (7, 7.0)):
            c.clear()
            c.set(a, 'x')
            if c.get(b) != 'x':
                bad.append((a, b))
        c.close()
        if bad:
            return 'D11-probe: keys the cache treats as equal are routed to different shards: %r (set(a); get(b) misses)' % bad
        return None
    finally:
        shutil.rmtree(d, ignore_errors=True)


def run(tier, seed, rng, known, replay):
    if replay:
        return base.replay_file(replay, 'C13', ('result', 'state'), acceptor)
    n = 200 if tier == 'quick' else 3000
    hists = [fan_history(rng, rng.choice([15, 40, 80])) for _ in range(n)]
    # routing table of the boundary keys for every shard count, against the model
    for shards in (1, 2, 3, 8, 13):
        hists.append({'cls': 'fanout', 'cfg': {'shards': shards, 'mfs': 32768, 'proto': rng.choice([0, 2, 5])},
                      'ops': [{'m': 'route', 'now': 1000, 'k': k} for k in ROUTE_KEYS], 'state_every': 0})
    r = base.check_histories('C13', hists, ('result', 'state'), acceptor=acceptor, known=known, runner=layers.layer_chunk)
    dist, distinct = base.op_distribution(hists, r['impl_out'])
    violations = list(r['violations'])
    known_hits = list(r['known'])
    outs, err = cross_interpreter_routes(ROUTE_KEYS[:-1], [1, 2, 3, 8, 13])
    if outs is None:
        violations.append({'replay': {'property': 'C13', 'kind': 'routing', 'error': err}, 'found_input': False,
                           'what': 'routing could not be computed in a fresh interpreter: ' + str(err)})
    elif any(o != outs[0] for o in outs[1:]):
        violations.append({'replay': {'property': 'C13', 'kind': 'routing', 'routes': outs}, 'found_input': True,
                           'what': 'the shard of a key depends on the interpreter (hash seed)'})
    v = probe_d11()
    if v:
        k = base.match_known(known, {'cfg': {}}, None, v)
        if k is not None:
            known_hits.append(k['what'])
        else:
            violations.append({'replay': {'property': 'C13', 'kind': 'probe', 'acceptor': v}, 'found_input': True, 'what': v})
    return {
        'evaluations': sum(len(h['ops']) for h in hists) + 4 * len(ROUTE_KEYS), 'distinct_nontrivial': distinct,
        'rule': 'seeded call histories over the C03 alphabet on FanoutCache with shards in {1,2,3,8,13}; routing of %d boundary keys per shard count '
                'against the model and across 4 interpreters with different PYTHONHASHSEED; distinct = distinct (method, result) pairs' % len(ROUTE_KEYS),
        'samples': [base.sample(hists[0], r['impl_out'][0]), base.sample(hists[-1], r['impl_out'][-1])], 'traces': len(hists),
        'dist': dict(dist, histories=len(hists), divergent=r['divergent'], interpreters=4),
        'violations': violations, 'known': known_hits,
    }
