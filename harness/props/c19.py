"""C19 — DjangoCache honours the Django cache-backend contract.

Call histories over keys x versions x timeouts {default, None, 0, negative,
positive} under the controlled clock, x TIMEOUT / KEY_PREFIX / VERSION / SHARDS,
against DC.Model.Layers.Django (set/add with tags, get, touch, delete, pop,
has_key, incr, decr, read, clear, expire, cull, evict, stats,
get_backend_timeout, make_key); the BaseCache composites (get_many, set_many,
delete_many, get_or_set, incr_version) are executed for real and judged by the
acceptor: the Lean contract specification DC.DjSpec (theorem djrun_refines;
the real results are compared with it directly) and a dictionary written from the Django cache contract (namespacing by
prefix and version; None = forever, <= 0 = already expired, default otherwise;
incr/decr on a missing or expired key raise ValueError)."""
import layers
from props import base
from common import Codec

KEYS = ['k', 'k2', 'a:b']
VERSIONS = [None, None, 1, 2, 5]
TIMEOUTS = ['d', 'd', 'n', 0, -5, 7, 100]
VALS = [1, 5, 'v', b'y' * 20, None, [1, 2]]


def gen_history(rng, length):
    cfg = {'mfs': 8, 'shards': rng.choice([1, 2, 8]), 'prefix': rng.choice(['', 'p', 'a:b']), 'version': rng.choice([1, 2]),
           'deftimeout': rng.choice([300, 300, 10, None, 0])}
    now = 1000
    ops = []
    for _ in range(length):
        now += rng.choice([0, 1, 3, 9])
        m = rng.choices(['set', 'add', 'get', 'touch', 'delete', 'pop', 'has_key', 'incr', 'clear', 'make_key',
                         'read', 'expire', 'cull', 'evict', 'stats', 'backend_timeout'],
                        [8, 4, 8, 3, 3, 2, 3, 4, 0.3, 1, 1, 0.7, 0.5, 0.7, 0.5, 1])[0]
        op = {'m': m, 'now': now, 'key': rng.choice(KEYS), 'version': rng.choice(VERSIONS)}
        if m in ('set', 'add') and rng.random() < 0.3:
            op['tag'] = rng.choice(['red', 'blue'])
        if m == 'evict':
            op['tag'] = rng.choice(['red', 'blue', None])
        if m == 'stats':
            op['enable'] = rng.choice([0, 1])
            op['reset'] = rng.choice([0, 1])
        if m == 'backend_timeout':
            op['timeout'] = rng.choice(TIMEOUTS)
        if m == 'incr' and rng.random() < 0.4:
            op['via'] = 'decr'
        if m in ('expire', 'cull', 'evict', 'stats', 'backend_timeout'):
            op.pop('key')
            op.pop('version')
        if m in ('set', 'add'):
            op['v'] = rng.choice(VALS)
            op['timeout'] = rng.choice(TIMEOUTS)
        if m == 'touch':
            op['timeout'] = rng.choice(TIMEOUTS)
        if m == 'incr':
            op['delta'] = rng.choice([1, -1, 5])
        if m == 'clear':
            op.pop('key')
            op.pop('version')
        ops.append(op)
    return {'cls': 'django', 'cfg': cfg, 'ops': ops, 'state_every': 6}


def exhaustive_small(n_ops):
    """every sequence of n_ops calls over a small alphabet (one key, two versions, every timeout
    class), the clock advancing 3 s per call, followed by the look-ups for both versions"""
    import itertools
    alpha = []
    for t in ('d', 'n', 0, -5, 4):
        alpha.append({'m': 'set', 'key': 'k', 'version': None, 'v': 5, 'timeout': t})
    alpha += [
        {'m': 'set', 'key': 'k', 'version': 2, 'v': 'two', 'timeout': 'n'},
        {'m': 'add', 'key': 'k', 'version': None, 'v': 9, 'timeout': 'd'}, {'m': 'add', 'key': 'k', 'version': None, 'v': 9, 'timeout': 0},
        {'m': 'touch', 'key': 'k', 'version': None, 'timeout': 'n'}, {'m': 'touch', 'key': 'k', 'version': None, 'timeout': 0},
        {'m': 'touch', 'key': 'k', 'version': None, 'timeout': 4},
        {'m': 'incr', 'key': 'k', 'version': None, 'delta': 1}, {'m': 'incr', 'key': 'k', 'version': None, 'delta': 2, 'via': 'decr'},
        {'m': 'delete', 'key': 'k', 'version': None}, {'m': 'pop', 'key': 'k', 'version': None}, {'m': 'clear'}, {'m': 'expire'},
    ]
    hists = []
    for deft in (300, 2, None):
        for combo in itertools.product(range(len(alpha)), repeat=n_ops):
            now = 1000
            ops = []
            for i in combo:
                ops.append(dict(alpha[i], now=now))
                now += 3
            for ver in (None, 2):
                ops.append({'m': 'get', 'now': now, 'key': 'k', 'version': ver})
                ops.append({'m': 'has_key', 'now': now, 'key': 'k', 'version': ver})
            ops.append({'m': 'incr', 'now': now, 'key': 'k', 'version': None, 'delta': 1})
            hists.append({'cls': 'django', 'cfg': {'mfs': 8, 'shards': 2, 'prefix': 'p', 'version': 1, 'deftimeout': deft},
                          'ops': ops, 'state_every': 0})
    return hists


DJSPEC_OPS = {'set', 'add', 'get', 'touch', 'delete', 'pop', 'has_key', 'incr', 'clear'}


def spec_dj_history(rng, length):
    """a history of the ten calls the Django-level specification DC.DjSpec covers (theorem djrun_refines)"""
    h = gen_history(rng, length * 2)
    h['ops'] = [op for op in h['ops'] if op['m'] in DJSPEC_OPS][:length]
    h['state_every'] = 0
    return h


def acceptor(hist, io):
    """reference from the contract text; the instant now == expiry is left open"""
    cfg = hist['cfg']
    rv = Codec('pickle', 5).render_val
    store = {}        # (version, key) -> [value, expiry or None]

    def exp(t, now):
        if t == 'd':
            t = cfg.get('deftimeout', 300)
            return None if t is None else now + t
        if t == 'n':
            return None
        return now + (t if t != 0 else -1)
    for idx, (op, res) in enumerate(base.results_of(hist, io)):
        m = op['m']
        now = op.get('now', 0)
        if m == 'clear':
            store.clear()
            continue
        if m in ('expire', 'cull'):
            for kk in [kk for kk, it in store.items() if it[1] is not None and it[1] < now]:
                del store[kk]
            continue
        if m == 'evict':
            for kk in [kk for kk, it in store.items() if op.get('tag') is not None and it[2] == op.get('tag')]:
                del store[kk]
            continue
        if m == 'stats':
            continue
        if m == 'backend_timeout':
            t = op.get('timeout', 'd')
            if t == 'd':
                t = cfg.get('deftimeout', 300)
                t = 'n' if t is None else t
            if t == 'n':
                ok = res == 'n'
            elif t > 0:
                ok = res == 'i%d' % t
            else:
                ok = res.startswith('i-') or res == 'i0'     # not positive: the item is expired as soon as it is stored
            if not ok:
                return 'op #%d get_backend_timeout(%r) gave %s' % (idx, op.get('timeout'), res)
            continue
        ver = op.get('version') if op.get('version') is not None else cfg.get('version', 1)
        key = (ver, op.get('key'))
        if m == 'make_key':
            want = 's' + '.'.join(str(ord(c)) for c in '%s:%s:%s' % (cfg.get('prefix', ''), ver, op['key']))
            if res != want:
                return 'op #%d make_key gave %s' % (idx, res)
            continue
        it = store.get(key)
        state = 'absent' if it is None else 'live' if (it[1] is None or now < it[1]) else 'dead' if it[1] < now else 'edge'
        if m == 'set':
            store[key] = [op['v'], exp(op['timeout'], now), op.get('tag')]
            if res != 'T':
                return 'op #%d set must report success' % idx
        elif m == 'add':
            if state == 'live':
                if res != 'F':
                    return 'op #%d add on a live key must return False' % idx
            elif state in ('absent', 'dead'):
                if res != 'T':
                    return 'op #%d add on a missing/expired key must return True' % idx
                store[key] = [op['v'], exp(op['timeout'], now), op.get('tag')]
            elif res == 'T':
                store[key] = [op['v'], exp(op['timeout'], now), op.get('tag')]
        elif m == 'get':
            if state == 'live' and res != rv(it[0]):
                return 'op #%d get returned %s, stored %s' % (idx, res[:40], rv(it[0])[:40])
            if state in ('absent', 'dead') and res != 'D':
                return 'op #%d get of a missing/expired key must return the default (got %s)' % (idx, res[:40])
        elif m == 'read':
            if state == 'live' and res not in (rv(it[0]), 'h' + (it[0].hex() if isinstance(it[0], bytes) else '?')):
                return 'op #%d read returned %s, stored %s' % (idx, res[:40], rv(it[0])[:40])
            if state in ('absent', 'dead') and res != '!KeyError':
                return 'op #%d read of a missing/expired key must raise KeyError (got %s)' % (idx, res[:40])
        elif m == 'has_key':
            if state == 'live' and res != 'T' or state in ('absent', 'dead') and res != 'F':
                return 'op #%d has_key wrong (%s, key is %s)' % (idx, res, state)
        elif m == 'touch':
            if state == 'live':
                if res != 'T':
                    return 'op #%d touch of a live key must return True' % idx
                it[1] = exp(op['timeout'], now)
            elif state in ('absent', 'dead') and res != 'F':
                return 'op #%d touch of a missing/expired key must return False' % idx
            elif state == 'edge' and res == 'T':
                it[1] = exp(op['timeout'], now)
        elif m == 'delete':
            if state == 'live' and res != 'T':
                return 'op #%d delete of a live key must return True' % idx
            if state == 'absent' and res != 'F':
                return 'op #%d delete of a missing key must return False' % idx
            if res == 'T' or state == 'live':
                store.pop(key, None)
        elif m == 'pop':
            if state == 'live':
                if res != rv(it[0]):
                    return 'op #%d pop returned %s, stored %s' % (idx, res[:40], rv(it[0])[:40])
                del store[key]
            elif state in ('absent', 'dead') and res != 'D':
                return 'op #%d pop of a missing/expired key must return the default' % idx
            elif state == 'edge' and res != 'D':
                store.pop(key, None)
        elif m == 'incr':
            if state in ('absent', 'dead'):
                if res != '!ValueError':
                    return 'op #%d incr of a missing/expired key must raise ValueError (got %s)' % (idx, res)
            elif state == 'live':
                if type(it[0]) is int:
                    want = 'i%d' % (it[0] + op.get('delta', 1))
                    if res != want:
                        return 'op #%d incr gave %s, want %s' % (idx, res, want)
                    it[0] += op.get('delta', 1)
            elif res.startswith('i'):
                it[0] = int(res[1:])
    return None


def composites(rng):
    """BaseCache composites executed for real on a DjangoCache, judged against a plain dict"""
    import shutil
    import tempfile
    from diskcache.djangocache import DjangoCache
    d = tempfile.mkdtemp(prefix='dj-')
    try:
        c = DjangoCache(d, {'SHARDS': 2, 'VERSION': 1})
        c.set_many({'a': 1, 'b': 2}, timeout=None)
        if c.get_many(['a', 'b', 'zz']) != {'a': 1, 'b': 2}:
            return 'get_many after set_many returned %r' % (c.get_many(['a', 'b', 'zz']),)
        if c.set_many({'c': 3}) not in ([], None):
            return 'set_many must return the list of keys that failed (none)'
        c.delete_many(['a', 'zz'])
        if c.get('a') is not None or c.get('b') != 2:
            return 'delete_many removed the wrong keys'
        if c.get_or_set('g', 5) != 5 or c.get_or_set('g', 6) != 5:
            return 'get_or_set did not store / return the first value'
        if c.get_or_set('h', lambda: 7) != 7:
            return 'get_or_set with a callable default'
        c.set('v', 10, version=1)
        if c.incr_version('v') != 2 or c.get('v', version=2) != 10 or c.get('v', version=1) is not None:
            return 'incr_version did not move the value to the next version'
        if c.decr_version('v', version=2) != 1 or c.get('v', version=1) != 10:
            return 'decr_version did not move the value back'
        try:
            c.incr('missing')
            return 'incr of a missing key must raise ValueError'
        except ValueError:
            pass
        try:
            c.decr('missing')
            return 'decr of a missing key must raise ValueError'
        except ValueError:
            pass
        if c.decr('b') != 1:
            return 'decr gave the wrong value'
        c.close()
        return None
    finally:
        shutil.rmtree(d, ignore_errors=True)


def run(tier, seed, rng, known, replay):
    if replay:
        return base.replay_file(replay, 'C19', ('result', 'state'), acceptor)
    n = 300 if tier == 'quick' else 4000
    hists = exhaustive_small(2 if tier == 'quick' else 3) + [gen_history(rng, rng.choice([10, 30, 60])) for _ in range(n)]
    r = base.check_histories('C19', hists, ('result', 'state'), acceptor=acceptor, known=known, runner=layers.layer_chunk)
    # the real DjangoCache against the Lean contract specification (specification side of djrun_refines)
    n_spec = 150 if tier == 'quick' else 2500
    shists = [spec_dj_history(rng, rng.choice([10, 30, 60])) for _ in range(n_spec)]
    rs = base.check_histories('C19', shists, ('result', 'state'), acceptor=acceptor, known=known, runner=layers.layer_chunk)
    compared, bad = base.against_lean_spec(rs['impl_out'], 'jsop', undetermined=('clear',))
    r['violations'] = list(r['violations']) + list(rs['violations'])
    for b in bad[:2]:
        h = shists[b['history']]
        what = 'call #%d %s returns %s, the Django contract specification DC.DjSpec returns %s' % (b['op_index'], b['line'][:100], b['impl'][:60], b['spec'][:60])
        r['violations'].append({'replay': {'property': 'C19', 'kind': 'spec-disagreement', 'cls': 'django', 'cfg': h['cfg'],
                                           'ops': base.tag(h['ops'][:b['op_index'] + 1]), 'line': b['line'], 'impl': b['impl'], 'spec': b['spec'],
                                           'acceptor': what, 'spec_part': 'DC.DjSpec.step; refinement theorem DC.Django.djrun_refines'},
                                'found_input': True, 'what': 'property violated on the implementation: ' + what})
    from props import surface
    for v_ in surface.django_subobjects()[:2]:
        r['violations'].append({'replay': {'property': 'C19', 'kind': 'surface-probe', 'probe': 'django_subobjects', 'acceptor': v_}, 'found_input': True, 'what': v_})
    spec_stats = {'spec_histories': n_spec, 'results_compared_with_lean_spec': compared, 'spec_disagreements': len(bad)}
    dist, distinct = base.op_distribution(hists, r['impl_out'])
    violations = list(r['violations'])
    v = composites(rng)
    if v:
        violations.append({'replay': {'property': 'C19', 'kind': 'composites', 'acceptor': v}, 'found_input': True, 'what': v})
    return {
        'evaluations': sum(len(h['ops']) for h in hists) + 12, 'distinct_nontrivial': distinct,
        'rule': 'seeded Django call histories over 3 keys x versions {default,1,2,5} x timeouts {default,None,0,-5,7,100}, backend TIMEOUT in {300,10,None,0}, '
                'KEY_PREFIX in {"","p","a:b"}, VERSION in {1,2}, SHARDS in {1,2,8}, clock steps 0/1/3/9; plus the BaseCache composites once; '
                'distinct = distinct (method, result) pairs',
        'samples': [base.sample(hists[0], r['impl_out'][0])], 'traces': len(hists),
        'dist': dict(dist, **spec_stats, histories=len(hists), divergent=r['divergent']),
        'violations': violations, 'known': r['known'],
    }
