"""C02 — keys address entries by documented equality and never alias one another.

Every ordered pair of keys from a boundary-heavy alphabet is stored in one
cache and observed through len, both look-ups, membership, all four iteration
orders and peekitem; compared with DC.Model (Disk.put/get, SqlVal comparison,
the (key, raw) order).  Keys that differ only in the raw flag are also placed
across the 100-row page boundaries of the sorted iteration.  Theorems:
lean/properties.json."""
import gen
from props import base, refdict


def same_key(a, b):
    return refdict.key_canon(a)[0] == refdict.key_canon(b)[0] and (
        refdict.key_canon(a) == refdict.key_canon(b) or (refdict.key_canon(a)[0] == 'num' and a == b))


LAYOUT = ['set', None, 'len', 'get', 'get', 'contains', 'iter', 'riter', 'iterkeys', 'riterkeys', 'peekitem', 'delete', 'contains', 'len']


def acceptor(hist, io):
    ops = hist['ops']
    # the verdict reads the fixed pair-history layout: anything else (a shrunk history) is not judged
    if len(ops) != len(LAYOUT) or any(w is not None and o['m'] != w for o, w in zip(ops, LAYOUT)) or ops[1]['m'] not in ('set', 'add'):
        return None
    k1, k2 = ops[0]['k'], ops[1]['k']
    res = [r for _, r in base.results_of(hist, io)]
    if hist['cfg'].get('disk') == 'json':
        # JSONDisk identifies keys by their JSON text; documented equality of 1 and 1.0 is D13
        import json
        eq = json.dumps(k1) == json.dumps(k2)
        doc = same_key(k1, k2) if not isinstance(k1, (list, dict)) and not isinstance(k2, (list, dict)) else eq
    else:
        eq = doc = same_key(k1, k2)
    n = res[2]
    want_n = 'i1' if doc else 'i2'
    if n != want_n:
        return 'len after storing %r and %r is %s, documented equality says %s' % (k1, k2, n, want_n)
    codec = refdict.Ref(hist['cfg']).codec
    a, b = codec.render_val('A'), codec.render_val('B')
    # the keys as the run itself rendered them (object sharing, hence the pickle of a
    # composite key, can differ between processes: D12)
    oplines = [l for l, _ in io if l.startswith('op ')]
    rk1, rk2 = base.line_field(oplines[0], 'k'), base.line_field(oplines[1], 'k')
    added = ops[1]['m'] == 'add'
    if added and res[1] != ('F' if doc else 'T'):
        return 'add(%r) with %r present returned %s (documented equality: %s)' % (k2, k1, res[1], 'equal' if doc else 'different keys')
    second_val = a if (doc and added) else b
    if res[3] != (second_val if doc else a):
        return 'get(%r) returned %s' % (k1, res[3][:40])
    if res[4] != second_val:
        return 'get(%r) returned %s' % (k2, res[4][:40])
    for j in (6, 7, 8, 9):
        got = res[j][1:-1].split(',') if len(res[j]) > 2 else []
        want = {rk1} if doc else {rk1, rk2}
        if set(got) != want or len(got) != len(want):
            return 'iteration returned %s, stored keys are %s (equal value and type required)' % (res[j][:80], sorted(want))
    if res[12] != ('F' if doc else 'T'):
        return 'deleting %r %s %r' % (k1, 'did not remove' if doc else 'removed', k2)
    return None


def paged_histories(rng, tier):
    """two keys that differ only in the raw flag (a bytes key equal to the serialized form of a
    composite key) inside a table larger than one 100-row page of the sorted iteration, placed so
    that the pair straddles a page boundary in either direction"""
    import pickle
    import pickletools
    hists = []
    counts = [(a, b) for a in (0, 98, 99, 100, 199) for b in (0, 98, 99, 100)] if tier == 'thorough' else \
        [(99, 0), (98, 0), (100, 0), (0, 99), (0, 98), (199, 0), (99, 99), (0, 0)]
    for proto in ((0, 2, 5) if tier == 'quick' else range(6)):
        for other in ((1, 'a'), None):
            pk = pickletools.optimize(pickle.dumps(other, protocol=proto))
            for below, above in counts:
                cfg = {'mfs': 32768, 'disk': 'pickle', 'proto': proto, 'policy': 'lrs', 'cull': 10, 'stats': 0}
                keys = [i for i in range(below)] + [other, pk] + [b'\xff\xff' + bytes([i]) for i in range(above)]
                rng.shuffle(keys)
                ops = [{'m': 'set', 'now': 1000, 'k': k, 'v': 1, 'ttl': None, 'tag': None} for k in keys]
                ops += [{'m': m, 'now': 1000} for m in ('len', 'iterkeys', 'riterkeys', 'iter', 'riter')]
                hists.append({'cfg': cfg, 'ops': ops, 'state_every': 0})
    return hists


def paged_acceptor(hist, io):
    """every stored key is listed exactly once by each of the four iteration orders"""
    oplines = [l for l, _ in io if l.startswith('op ')]
    stored = [base.line_field(l, 'k') for l in oplines if base.line_field(l, 'm') == 'set']
    for (op, res) in base.results_of(hist, io):
        if op['m'] in ('iterkeys', 'riterkeys', 'iter', 'riter'):
            got = res[1:-1].split(',') if len(res) > 2 else []
            if sorted(got) != sorted(stored):
                missing = sorted(set(stored) - set(got))
                return '%s listed %d keys, %d are stored (missing %s, listed twice %s)' % (
                    op['m'], len(got), len(stored), missing[:3], sorted({g for g in got if got.count(g) > 1})[:3])
        if op['m'] == 'len' and res != 'i%d' % len(stored):
            return 'len is %s with %d different keys stored' % (res, len(stored))
    return None


def probe_d12():
    """equal composite keys whose sub-objects are shared differently (upstream issue #54)"""
    import shutil
    import tempfile
    import diskcache
    d = tempfile.mkdtemp(prefix='d12-')
    try:
        c = diskcache.Cache(d)
        a = ''.join(['x', 'y', 'z'])
        b = ''.join(['x', 'y', 'z'])
        assert a == b and a is not b
        c[(a, a)] = 1
        c[(a, b)] = 2
        n = len(c)
        c.close()
        if n != 1:
            return 'D12-probe: equal keys (a, a) and (a, b) with a == b are %d entries (pickle memoizes by identity)' % n
        return None
    finally:
        shutil.rmtree(d, ignore_errors=True)


def run(tier, seed, rng, known, replay):
    if replay:
        return base.replay_file(replay, 'C02', ('result', 'state'), acceptor)
    hists = gen.c02_histories(rng, tier)
    r = base.check_histories('C02', hists, ('result', 'state'), acceptor=acceptor, known=known)
    phists = paged_histories(rng, tier)
    rp = base.check_histories('C02', phists, ('result', 'state'), acceptor=paged_acceptor, known=known)
    r['violations'] = (list(r['violations']) + list(rp['violations']))[:4]
    r['divergent'] += rp['divergent']
    v = probe_d12()
    if v:
        k = base.match_known(known, {'cfg': {}}, None, v)
        if k is not None:
            r['known'].append(k['what'])
        else:
            r['violations'].append({'replay': {'property': 'C02', 'kind': 'probe', 'probe': 'probe_d12', 'acceptor': v},
                                    'found_input': True, 'what': v})
    dist, distinct = base.op_distribution(hists, r['impl_out'])
    return {
        'evaluations': len(hists) + len(phists),
        'distinct_nontrivial': len({(h['cfg']['disk'], h['cfg']['proto'], repr(h['ops'][0]['k']), repr(h['ops'][1]['k'])) for h in hists}),
        'rule': 'every ordered pair of keys from the boundary alphabet (ints at +-2^53, +-2^63, beyond 64 bits; floats incl. -0.0, inf, subnormal, '
                'integral near 2^53/2^63; str/bytes with equal content; None/bool; tuples; bytes equal to the pickle of another key), Disk and JSONDisk, '
                'protocols 0-5; exhaustive over the alphabet; plus tables of 2-300 keys in which a raw/non-raw pair with the same database key straddles a 100-row page boundary of the sorted iteration in either direction; distinct = distinct (disk, protocol, k1, k2)',
        'samples': [base.sample(hists[1], r['impl_out'][1]), base.sample(hists[-1], r['impl_out'][-1])],
        'traces': len(hists), 'exhaustive': True,
        'dist': dict(dist, histories=len(hists), divergent=r['divergent'], timing=r['stats']),
        'violations': r['violations'], 'known': r['known'],
    }
