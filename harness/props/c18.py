"""C18 — data and settings persist and are shared by every handle on the directory.

(1) reference directories written by the PINNED version (golden/, one per pickle
protocol and JSONDisk, one 8-shard FanoutCache: every key/value representation):
 a. DC.Model run on the recorded op lines must produce exactly the recorded
    directory digest — the model's encoders ARE the released on-disk format;
 b. the current code opens a copy and must read back every item as recorded
    (value, expiry, tag) and see the same digest; routing must equal the
    recorded routing and the model's.
(2) call histories with close/reopen, pickle round trips of the object and
second handles inserted at arbitrary points, against DC.Model.Cache where those
events are the identity on the directory; settings survive reopening.
(3) a forked child and a freshly started process see and extend the data.
(4) the key bytes Disk / JSONDisk store for a table of keys against the documented
encoding; a pickled FanoutCache finds every key; sqlite_ pragmas persist."""
import json
import os
import shutil
import subprocess
import sys
import tempfile

import corr
import gen
from props import base, refdict

HERE = os.path.dirname(os.path.abspath(__file__))
GOLDEN = os.path.join(os.path.dirname(os.path.dirname(HERE)), 'golden')

SCOPE = {'set', 'add', 'get', 'getitem', 'contains', 'touch', 'incr', 'pop', 'delete', 'push', 'pull', 'peek', 'len', 'iter',
         'iterkeys', 'expire', 'settings', 'reopen', 'pickle', 'second'}


def history(rng, length):
    h = gen.gen_history(rng, length, 'noblocks')
    ops = []
    for op in h['ops']:
        if op['m'] not in SCOPE:
            continue
        ops.append(op)
        r = rng.random()
        if r < 0.10:
            ops.append({'m': rng.choice(['reopen', 'pickle', 'second']), 'now': op['now']})
        elif r < 0.14:
            ops.append({'m': 'settings', 'now': op['now']})
    ops.append({'m': 'reopen', 'now': ops[-1]['now'] if ops else 1000})
    ops.append({'m': 'settings', 'now': ops[-1]['now']})
    ops.append({'m': 'iter', 'now': ops[-1]['now']})
    h['ops'] = ops
    h['state_every'] = 4
    return h


def acceptor(hist, io):
    return refdict.accept(hist, io, scope=SCOPE - {'settings', 'reopen', 'pickle', 'second', 'push', 'pull', 'peek'})


def golden_check():
    """-> (violations, evaluations, samples)"""
    from impl import CacheRunner, scratch_root
    import mkgolden
    with open(os.path.join(GOLDEN, 'index.json')) as f:
        index = json.load(f)
    out = []
    n = 0
    samples = []
    for ent in index['caches']:
        name = ent['name']
        with open(os.path.join(GOLDEN, name + '.lines')) as f:
            lines = f.read().split('\n')[:-1]
        with open(os.path.join(GOLDEN, name + '.state')) as f:
            want_state = f.read().strip()
        with open(os.path.join(GOLDEN, name + '.reads.json')) as f:
            reads = json.load(f)
        # a. the model reproduces the released directory
        ans = corr.run_driver(lines + ['state'])
        n += len(lines)
        if ans[-1] != 'state ' + want_state:
            out.append({'replay': {'property': 'C18', 'kind': 'format', 'golden': name, 'model_part': 'DC.Model.Disk / Cache encoders',
                                   'field': corr.first_diff_field('state ' + want_state, ans[-1])},
                        'found_input': False,
                        'what': 'the model no longer reproduces the released on-disk format of %s: %s' % (
                            name, corr.first_diff_field('state ' + want_state, ans[-1])[:200])})
        # b. the current code reads the released directory
        d = tempfile.mkdtemp(prefix='gold-', dir=scratch_root())
        try:
            shutil.rmtree(d)
            shutil.copytree(os.path.join(GOLDEN, name), d)
            r = CacheRunner(ent['cfg'], directory=d)
            r.keep_dir = True
            # file ids as the writer numbered them: creation order = row order
            import sqlite3
            con = sqlite3.connect(os.path.join(d, 'cache.db'))
            fns = [x[0] for x in con.execute('SELECT filename FROM Cache WHERE filename IS NOT NULL ORDER BY rowid').fetchall()]
            con.close()
            r.rec.file_ids = {fn.replace(os.sep, '/'): i for i, fn in enumerate(fns)}
            sets = [op for op in mkgolden.golden_ops(ent['cfg']['disk']) if op['m'] == 'set']
            bad = None
            from common import render_sql, render_time
            for op, (gl, gres) in zip(sets, reads):
                v = op['v']
                if isinstance(v, float) and v != v:
                    continue      # the pinned version could not store NaN (defect D2, fixed): that row was lost at write time
                line, res, _ = r.run({'m': 'get', 'now': op['now'], 'k': op['k'], 'et': 1, 'tg': 1})
                n += 1
                # expectation: what was stored (the pinned version's own read-back had defect D1)
                want = '(%s,%s,%s)' % (r.codec.render_val(v), render_time(None if op['ttl'] is None else op['now'] + op['ttl']),
                                       render_sql(op['tag']))
                if res != want:
                    bad = (repr(op['k'])[:60], want[:80], res[:80])
                    break
            if bad:
                out.append({'replay': {'property': 'C18', 'kind': 'golden-read', 'golden': name, 'key': bad[0], 'recorded': bad[1], 'now': bad[2]},
                            'found_input': True,
                            'what': 'an item of the reference directory %s written by the released version is no longer read back: key %s recorded %s now %s' % (
                                name, bad[0], bad[1], bad[2])})
            got_state = r.state()
            if got_state != want_state and not bad:
                out.append({'replay': {'property': 'C18', 'kind': 'golden-state', 'golden': name,
                                       'field': corr.first_diff_field('state ' + want_state, 'state ' + got_state)}, 'found_input': True,
                            'what': 'opening the reference directory %s altered it: %s' % (name, corr.first_diff_field('state ' + want_state, 'state ' + got_state)[:200])})
            r.close()
            if len(samples) < 2:
                samples.append({'golden': name, 'items': len(reads), 'first_read': reads[0]})
        finally:
            shutil.rmtree(d, ignore_errors=True)
    # sharded reference directory
    import diskcache
    name = index['fanout']['name']
    with open(os.path.join(GOLDEN, name + '.lines')) as f:
        lines = f.read().split('\n')[:-1]
    with open(os.path.join(GOLDEN, name + '.state')) as f:
        want_state = f.read().strip()
    ans = corr.run_driver(lines + ['lstate cls=fanout'])
    n += len(lines)
    model_routes = [a[4:] for l, a in zip(lines, ans) if ' m=route ' in l]
    if model_routes != index['fanout']['routes']:
        out.append({'replay': {'property': 'C18', 'kind': 'routing', 'recorded': index['fanout']['routes'], 'model': model_routes}, 'found_input': False,
                    'what': 'the model no longer reproduces the released shard routing'})
    if ans[-1] != 'state ' + want_state:
        out.append({'replay': {'property': 'C18', 'kind': 'format', 'golden': name,
                               'field': corr.first_diff_field('state ' + want_state, ans[-1])}, 'found_input': False,
                    'what': 'the model no longer reproduces the released sharded directory: %s' % corr.first_diff_field('state ' + want_state, ans[-1])[:200]})
    d = tempfile.mkdtemp(prefix='goldf-', dir=scratch_root())
    try:
        shutil.rmtree(d)
        shutil.copytree(os.path.join(GOLDEN, name), d)
        c = diskcache.FanoutCache(d, shards=8)
        keys = [(i, k) for i, k in enumerate(gen.c02_keys('pickle'))
                if not (isinstance(k, float) and k == k and abs(k) != float('inf') and k == int(k))]
        for (i, k), rt in zip(keys, index['fanout']['routes']):
            n += 1
            want = ['val', b'B' * 30, i][i % 3]
            got = c.get(k, 'MISSING')
            route = 'i%d' % (c._hash(k) % 8)
            if got != want or route != rt:
                out.append({'replay': {'property': 'C18', 'kind': 'golden-fanout', 'key': repr(k), 'recorded_route': rt, 'route_now': route},
                            'found_input': True,
                            'what': 'data written by the released version to shard %s is not found: key %r now routed to %s, get gave %r' % (rt, k, route, got)})
                break
        c.close()
    finally:
        shutil.rmtree(d, ignore_errors=True)
    return out, n, samples


def probe_d16():
    import diskcache
    d = tempfile.mkdtemp(prefix='d16-')
    try:
        c = diskcache.FanoutCache(d, shards=4, size_limit=4000)
        a = diskcache.Cache(os.path.join(d, '000')).size_limit
        c.close()
        c2 = diskcache.FanoutCache(d, shards=4)
        b = diskcache.Cache(os.path.join(d, '000')).size_limit
        c2.close()
        if a != b:
            return 'D16-probe: FanoutCache created with size_limit=4000 (shard limit %r) reopens with shard limit %r' % (a, b)
        return None
    finally:
        shutil.rmtree(d, ignore_errors=True)


def probe_busy_reopen():
    """reopening a directory while another connection briefly shuts everybody out (a commit in a
    rollback-journal mode, an exclusive holder) must wait and then find the stored settings and items,
    never start over with defaults"""
    import sqlite3
    import threading
    import time
    import diskcache
    out = []
    for mode in ('wal', 'delete', 'truncate'):
        d = tempfile.mkdtemp(prefix='c18b-')
        try:
            made = dict(eviction_policy='none', cull_limit=7, disk_min_file_size=123, disk_pickle_protocol=2, statistics=1,
                        size_limit=5 * 2 ** 20, sqlite_journal_mode=mode)
            c = diskcache.Cache(d, **made)
            c[(1, 'a')] = 'tuple-key'
            c[2 ** 70] = 'big'
            c.close()
            started, release = threading.Event(), threading.Event()

            def hold():
                con = sqlite3.connect(os.path.join(d, 'cache.db'), timeout=5, isolation_level=None)
                con.execute('BEGIN EXCLUSIVE')
                started.set()
                release.wait(2)
                con.execute('COMMIT')
                con.close()
            t = threading.Thread(target=hold)
            t.start()
            started.wait(5)
            threading.Timer(0.3, release.set).start()
            try:
                c2 = diskcache.Cache(d)            # default timeout: waits for the holder
                got = {k: getattr(c2, k) for k in made}
                items = (c2.get((1, 'a')), c2.get(2 ** 70))
                c2.close()
            except Exception as e:
                got, items = 'raised %s' % type(e).__name__, None
            finally:
                release.set()
                t.join()
            want = dict(made, statistics=1)
            if got != want or items != ('tuple-key', 'big'):
                diff = {k: (want[k], got.get(k)) for k in want if not isinstance(got, str) and got.get(k) != want[k]} if not isinstance(got, str) else got
                out.append('reopening a %s-mode cache while another connection held the database for 0.3 s: settings %r, items %r '
                           '(created with %r)' % (mode, diff, items, made))
        finally:
            shutil.rmtree(d, ignore_errors=True)
    return '; '.join(out) if out else None


def probe_key_format():
    """the on-disk key format, against the documented rule written out independently: Disk stores
    int/float/str/bytes keys as they are and everything else as the optimized pickle of the key under
    the cache's protocol; JSONDisk stores zlib-compressed JSON text of the key, the JSON written in the
    key's own order (no sorting, default separators).  A cache written under this rule by any release
    stays readable only if the current code still produces exactly these bytes."""
    import json
    import pickle
    import pickletools
    import sqlite3
    import zlib
    import diskcache
    bad = []
    d = tempfile.mkdtemp(prefix='c18f-')
    try:
        keys_json = ['a', 1, 2.5, None, True, [1, 'x'], {'user': 'alice', 'id': 7}, {'b': 1, 'a': {'z': 0, 'y': [1, 2]}}, 'é', [[], {}]]
        c = diskcache.Cache(os.path.join(d, 'j'), disk=diskcache.JSONDisk, disk_compress_level=3)
        for i, k in enumerate(keys_json):
            c[k] = i
        con = sqlite3.connect(os.path.join(d, 'j', 'cache.db'))
        stored = [bytes(r[0]) for r in con.execute('SELECT key FROM Cache ORDER BY rowid')]
        con.close()
        want = [zlib.compress(json.dumps(k).encode('utf-8'), 3) for k in keys_json]
        for k, a, b in zip(keys_json, stored, want):
            if a != b:
                bad.append('JSONDisk stores the key %r as %r, the documented format is %r' % (k, zlib.decompress(a)[:60], json.dumps(k)[:60]))
                break
        c.close()
        for proto in (0, 2, 5):
            keys = [(1, 'a'), None, True, 2 ** 70, (1, (2, 3)), frozenset([1])]
            c = diskcache.Cache(os.path.join(d, 'p%d' % proto), disk_pickle_protocol=proto)
            for i, k in enumerate(keys):
                c[k] = i
            con = sqlite3.connect(os.path.join(d, 'p%d' % proto, 'cache.db'))
            rows = [(bytes(r[0]), r[1]) for r in con.execute('SELECT key, raw FROM Cache ORDER BY rowid')]
            con.close()
            for k, (a, raw) in zip(keys, rows):
                b = pickletools.optimize(pickle.dumps(k, protocol=proto))
                if a != b or raw != 0:
                    bad.append('Disk (protocol %d) stores the key %r as %r raw=%r, the documented format is %r raw=0' % (proto, k, a[:40], raw, b[:40]))
                    break
            c.close()
    except Exception as e:  # noqa
        bad.append('key format probe raised %s: %s' % (type(e).__name__, str(e)[:100]))
    finally:
        shutil.rmtree(d, ignore_errors=True)
    return '; '.join(bad[:2]) if bad else None


def probe_processes():
    """a forked child and a freshly started interpreter share the directory"""
    import diskcache
    d = tempfile.mkdtemp(prefix='c18p-')
    try:
        c = diskcache.Cache(d, disk_min_file_size=8, eviction_policy='least-recently-used', cull_limit=3)
        c['parent'] = b'P' * 30
        pid = os.fork()
        if pid == 0:
            try:
                ok = c['parent'] == b'P' * 30
                c['child'] = 'from-child' if ok else 'bad'
            finally:
                os._exit(0)
        os.waitpid(pid, 0)
        if c.get('child') != 'from-child':
            return 'a forked child did not see the parent\'s data or its write is not visible to the parent'
        prog = ("import sys; sys.path.insert(0, %r); import diskcache; c = diskcache.Cache(%r); "
                "assert c['parent'] == b'P' * 30 and c['child'] == 'from-child'; "
                "assert c.eviction_policy == 'least-recently-used' and c.cull_limit == 3 and c.disk_min_file_size == 8; "
                "c['proc'] = [1, 2]; c.close()" % (os.environ.get('VERIF_REPO', '/repo'), d))
        p = subprocess.run([sys.executable, '-c', prog], capture_output=True, text=True)
        if p.returncode != 0:
            return 'a new process does not find the data or the settings: ' + p.stderr[-200:]
        if c.get('proc') != [1, 2]:
            return 'data written by another process is not visible'
        c.close()
        c2 = diskcache.Cache(d)
        if len(c2) != 3 or c2.cull_limit != 3:
            return 'reopening lost items or settings'
        c2.close()
        return None
    finally:
        shutil.rmtree(d, ignore_errors=True)


def run(tier, seed, rng, known, replay):
    if replay:
        return base.replay_file(replay, 'C18', ('result', 'state'), acceptor)
    n = 200 if tier == 'quick' else 3000
    hists = [history(rng, rng.choice([15, 40, 80])) for _ in range(n)]
    r = base.check_histories('C18', hists, ('result', 'state'), acceptor=acceptor, known=known)
    dist, distinct = base.op_distribution(hists, r['impl_out'])
    violations = list(r['violations'])
    known_hits = list(r['known'])
    gv, gn, gs = golden_check()
    violations.extend(gv[:3])
    from props import surface
    for probe in (probe_d16, probe_processes, probe_busy_reopen, probe_key_format, lambda: '; '.join(surface.sqlite_pragmas()) or None,
                  lambda: '; '.join(m_ for m_ in surface.fanout_subobjects() if 'unpickled' in m_ or 'persist' in m_) or None,
                  lambda: '; '.join(m_ for m_ in surface.constructors() if 'opening a Deque directory' in m_ or 'persisted' in m_) or None):
        v = probe()
        if v:
            k = base.match_known(known, {'cfg': {}}, None, v)
            if k is not None:
                known_hits.append(k['what'])
            else:
                violations.append({'replay': {'property': 'C18', 'kind': 'probe', 'probe': probe.__name__, 'acceptor': v},
                                   'found_input': True, 'what': v})
    return {
        'evaluations': sum(len(h['ops']) for h in hists) + gn, 'distinct_nontrivial': distinct + gn,
        'rule': 'seeded call histories with reopen / pickle round trip / second handle inserted after ~10% of the calls; the 7 reference directories '
                '(pickle protocols 0-5, JSONDisk) and the 8-shard reference written by the pinned version replayed on the model and read by the current code; '
                'fork and new-process probes; distinct = distinct (method, result) pairs + golden items',
        'samples': [base.sample(hists[0], r['impl_out'][0])] + gs, 'traces': len(hists) + 8,
        'dist': dict(dist, histories=len(hists), divergent=r['divergent'], golden_lines=gn),
        'violations': violations, 'known': known_hits,
    }
