"""C08 — counters, rows and value files always agree once no operation is in flight.

(a) seeded histories of the full API (replace, add-on-present, incr, bulk
removal, eviction, queues, blocks that commit or abort, values that cannot be
stored) with `check()` interleaved, plus every call on a row whose file-backed
value has expired (before / on / after the expiry instant): results + whole-state digest against
DC.Model.Cache, whose every method provably keeps `Good` (C08_Seq) and
`TableInv` for all histories (run_inv).
(b) single injected failures: the n-th database statement raises
sqlite3.OperationalError / the n-th value-file create or write chunk raises
OSError, for EVERY n of a workload; afterwards the table must be the state
before or after the failed call and check() must be silent.
(c) quiescent states of scheduled concurrent runs (C05's runs) pass check()."""
import os
import random
import shutil
import sqlite3
import sys
import tempfile
from concurrent.futures import ProcessPoolExecutor

import gen
from props import base, refdict
from props.c07 import gen_workload, execute, open_all, table


def history(rng, length):
    h = gen.gen_history(rng, length, 'full')
    h['cfg']['mfs'] = rng.choice([8, 16])
    # unstorable values and unbindable tags: failed writes must leave nothing behind
    ops = []
    for op in h['ops']:
        ops.append(op)
        if op['m'] in ('set', 'add') and rng.random() < 0.08:
            # (inline-sized: a file-sized unencodable string consumes a file name that the
            # harness numbering cannot follow; that path is covered by C01)
            bad = dict(op)
            bad.pop('read', None)
            bad['v'] = rng.choice(['\udfff', 'x\ud800'])
            ops.append(bad)
        if rng.random() < 0.12:
            ops.append({'m': 'check', 'now': op.get('now', 1000)})
    # check() only outside blocks (it takes the write lock itself)
    depth = 0
    out = []
    for op in ops:
        if op['m'] == 'tbegin':
            depth += 1
        elif op['m'] == 'tend':
            depth -= 1
        elif op['m'] == 'traise':
            depth -= op.get('n', 1)
        if op['m'] == 'check' and depth > 0:
            continue
        out.append(op)
    out.append({'m': 'check', 'now': out[-1].get('now', 1000) if out else 1000})
    h['ops'] = out
    h['state_every'] = 3
    return h


def stale_file_histories():
    """every call that can meet a row whose FILE-BACKED value has expired (the row is still there, its
    file too): afterwards rows, counters and files must agree - systematically, not by luck of the
    random histories.  One history per (call, cull_limit, policy, gap): store a file-backed value with
    a ttl, let it expire, make the call, check()."""
    big, big2 = b'F' * 40, b'G' * 33
    calls = [
        {'m': 'incr', 'k': 'k', 'delta': 1, 'default': 0}, {'m': 'incr', 'k': 'k', 'delta': 1, 'default': None},
        {'m': 'incr', 'k': 'k', 'delta': 2, 'default': 5, 'via': 'decr'},
        {'m': 'add', 'k': 'k', 'v': big2, 'ttl': None, 'tag': None}, {'m': 'add', 'k': 'k', 'v': 7, 'ttl': 3, 'tag': 't'},
        {'m': 'set', 'k': 'k', 'v': big2, 'ttl': None, 'tag': None}, {'m': 'set', 'k': 'k', 'v': 'small', 'ttl': None, 'tag': None},
        {'m': 'touch', 'k': 'k', 'ttl': 50}, {'m': 'pop', 'k': 'k'}, {'m': 'get', 'k': 'k'}, {'m': 'delete', 'k': 'k'},
        {'m': 'delitem', 'k': 'k'}, {'m': 'contains', 'k': 'k'}, {'m': 'expire'}, {'m': 'cull'}, {'m': 'evict', 'tag': 'old'},
        {'m': 'clear'}, {'m': 'peekitem', 'last': 1}, {'m': 'set', 'k': 'other', 'v': big2, 'ttl': None, 'tag': None},
    ]
    hists = []
    for call in calls:
        for cull in (0, 10):
            for policy in ('lrs', 'none'):
                for gap in (5, 6, 7):        # before, on and after the expiry instant
                    ops = [{'m': 'set', 'now': 1000, 'k': 'k', 'v': big, 'ttl': 6, 'tag': 'old'},
                           dict(call, now=1000 + gap), {'m': 'check', 'now': 1000 + gap},
                           {'m': 'get', 'now': 1000 + gap, 'k': 'k'}, {'m': 'len', 'now': 1000 + gap}]
                    hists.append({'cfg': {'mfs': 8, 'policy': policy, 'cull': cull, 'stats': 0, 'proto': 5, 'disk': 'pickle',
                                          'limN': 2 ** 30, 'limD': 1, 'tagidx': 0},
                                  'ops': ops, 'state_every': 1})
    return hists


_WD = []


def _writing_disk():
    """module-level (picklable) Disk subclass whose constructor runs a one-shot hook"""
    if not _WD:
        import diskcache

        class WritingDisk(diskcache.Disk):
            hook = None

            def __init__(self, directory, **kw):
                super().__init__(directory, **kw)
                h, WritingDisk.hook = WritingDisk.hook, None
                if h:
                    h()
        WritingDisk.__module__ = __name__
        WritingDisk.__qualname__ = 'WritingDisk'
        globals()['WritingDisk'] = WritingDisk
        _WD.append(WritingDisk)
    return _WD[0]


def bad_argument_probe():
    """calls that fail on a bad ARGUMENT with a file-sized value in hand (an unknown queue side, a tag or
    key that cannot be bound): the call raises and counters, rows and files still agree - nothing is left
    behind (finding D25, fixed: push looked its side up after writing the value file)"""
    import shutil
    import tempfile
    import diskcache
    root = os.environ.get('VERIF_SCRATCH') or tempfile.gettempdir()
    bad = []
    big = b'x' * 40000
    calls = [
        ('push(big, side="bak")', lambda c: c.push(big, side='bak')),
        ('push(big, tag=[1])', lambda c: c.push(big, tag=[1])),
        ('set(k, big, tag=[1])', lambda c: c.set('k', big, tag=[1])),
        ('add(k, big, tag={})', lambda c: c.add('k2', big, tag={})),
        ('set(k, big, expire="x")', lambda c: c.set('k3', big, expire='x')),
        ('push(big, expire="x")', lambda c: c.push(big, expire='x')),
        ('pull(side="bak")', lambda c: c.pull(side='bak')),
        ('pop of an item whose pickle file was truncated behind the library\'s back', 'corrupt_pop'),
        ('pull of such an item', 'corrupt_pull'),
    ]
    for name, fn in calls:
        d = tempfile.mkdtemp(prefix='c8arg-', dir=root)
        try:
            c = diskcache.Cache(d)
            c.push('q')
            if fn in ('corrupt_pop', 'corrupt_pull'):
                # the row goes (the removal commits), the load of the value fails: the file must go too
                if fn == 'corrupt_pop':
                    c.set('p', list(range(30000)))
                else:
                    c.pull()
                    c.push(list(range(30000)))
                vals = [os.path.join(dp, f) for dp, dn, fs in os.walk(d) for f in fs if f.endswith('.val')]
                with open(vals[0], 'r+b') as fh:
                    fh.truncate(100)
                fn = (lambda c: c.pop('p')) if fn == 'corrupt_pop' else (lambda c: c.pull())
            raised = None
            try:
                fn(c)
            except Exception as e:  # noqa
                raised = type(e).__name__
            warns = [str(w.message).split(':')[0] for w in c.check() if 'empty directory' not in str(w.message)]
            if warns:
                bad.append('%s %s and left an inconsistency behind: check() reports %r' % (
                    name, 'raised ' + raised if raised else 'returned', warns[:3]))
            c.close()
        except Exception as e:  # noqa
            bad.append('bad-argument probe (%s) raised %s: %s' % (name, type(e).__name__, str(e)[:100]))
        finally:
            shutil.rmtree(d, ignore_errors=True)
    return bad


def relative_dir_probe():
    """a cache opened by a RELATIVE path: writes that fail part-way (text with a lone surrogate on the file
    path, a stream whose read() raises) leave nothing behind there either - partial files are removed by the
    path they were written to, not by a path joined onto the directory a second time"""
    import io
    import shutil
    import tempfile
    import diskcache
    root = os.environ.get('VERIF_SCRATCH') or tempfile.gettempdir()
    base_dir = tempfile.mkdtemp(prefix='c8rel-', dir=root)
    bad = []
    cwd = os.getcwd()

    class Flaky(io.RawIOBase):
        def __init__(self):
            self.n = 0

        def readable(self):
            return True

        def read(self, size=-1):
            self.n += 1
            if self.n > 1:
                raise IOError('stream broke')
            return b'z' * 5000
    try:
        os.chdir(base_dir)
        c = diskcache.Cache('rel-cache', disk_min_file_size=8)
        c.set('ok', b'V' * 40)
        for name, fn in (('text with a lone surrogate', lambda: c.set('t', 'ab\ud800' * 20000)),
                         ('stream that breaks', lambda: c.set('s', Flaky(), read=True)),
                         ('push of such a text', lambda: c.push('cd\udfff' * 20000))):
            raised = None
            try:
                fn()
            except Exception as e:  # noqa
                raised = type(e).__name__
            warns = [str(w.message).split(':')[0] for w in c.check() if 'empty directory' not in str(w.message)]
            if warns or not raised:
                bad.append("cache opened by a relative path, %s: %s; check() afterwards reports %r" % (name, 'raised ' + raised if raised else 'did not raise', warns[:3]))
        if c.get('ok') != b'V' * 40:
            bad.append('cache opened by a relative path: an undamaged item is no longer readable')
        c.close()
    except Exception as e:  # noqa
        bad.append('relative-directory probe raised %s: %s' % (type(e).__name__, str(e)[:100]))
    finally:
        os.chdir(cwd)
        shutil.rmtree(base_dir, ignore_errors=True)
    return bad


def open_race_probe():
    """a handle being opened (Cache(directory), unpickling, a FanoutCache shard) while ANOTHER client
    commits writes: afterwards counters, rows and files must agree.  The write is made to happen in the
    middle of the open, right after the stored settings were read, through the constructor of the Disk
    class the new handle is given (a documented extension point)."""
    import pickle
    import shutil
    import tempfile
    import diskcache
    root = os.environ.get('VERIF_SCRATCH') or tempfile.gettempdir()
    bad = []

    WritingDisk = _writing_disk()
    for how in ('open', 'unpickle'):
        d = tempfile.mkdtemp(prefix='openrace-', dir=root)
        try:
            first = diskcache.Cache(d, disk=WritingDisk, disk_min_file_size=8)
            first['a'] = b'A' * 30
            first['b'] = 1
            blob = pickle.dumps(first)

            def write_more(first=first):
                first['c'] = b'C' * 50
                first['d'] = 2
                del first['b']
            WritingDisk.hook = write_more
            second = diskcache.Cache(d, disk=WritingDisk) if how == 'open' else pickle.loads(blob)
            WritingDisk.hook = None
            keys = sorted(second)
            problems = [str(w.message) for w in second.check() if not str(w.message).startswith('empty directory')]
            if len(second) != len(keys) or problems:
                bad.append('a handle %s while another client wrote: len() = %d with keys %r; check() reports %r' % (
                    'opened' if how == 'open' else 'unpickled', len(second), keys, problems[:3]))
            second.close()
            first.close()
        finally:
            WritingDisk.hook = None
            shutil.rmtree(d, ignore_errors=True)
    return bad


def acceptor(hist, io):
    for idx, (op, res) in enumerate(base.results_of(hist, io)):
        if op['m'] == 'check' and res != '[]':
            return 'op #%d: check() reports an inconsistency at quiescence (%s)' % (idx, res)
    return None


class Fault(Exception):
    pass


def fault_case(args):
    sys.path.insert(0, os.path.dirname(os.path.dirname(os.path.abspath(__file__))))
    from impl import Env, scratch_root
    import conc
    seed, tier = args
    rng = random.Random(seed)
    env = Env.get()
    cfg = {'mfs': 8, 'policy': rng.choice(['none', 'lrs']), 'cull': 10, 'stats': 0}
    units = gen_workload(rng)
    root = scratch_root()
    # count actions and record which are injectable
    d0 = tempfile.mkdtemp(prefix='c8ref-', dir=root)
    acts = []
    env.rec.on_action = lambda kind, detail: acts.append((kind, detail))
    ref_states = []
    try:
        r, extra = open_all(cfg, d0)
        ref_states.append(table(conc.canon_state(r.state())))
        for u in units:
            for op in u:
                execute(r, op, extra)
            ref_states.append(table(conc.canon_state(r.state())))
        r.cache.close()
    finally:
        env.rec.on_action = None
        shutil.rmtree(d0, ignore_errors=True)
    inject = [i for i, (k, dt) in enumerate(acts)
              if (k == 'sql' and dt not in ('COMMIT', 'ROLLBACK', 'BEGIN')) or k in ('fw', 'fchunk')]
    if tier == 'quick' and len(inject) > 30:
        inject = sorted(rng.sample(inject, 30))
    results = []
    # a PERSISTENT fault as well: from a chosen file-creation on, the next twelve attempts to create a value file all fail
    # (the library retries a failing open up to ten times; when it gives up the call must raise and nothing may be stored)
    fw_points = [i for i in inject if acts[i][0] == 'fw']
    persist_points = set(fw_points if tier != 'quick' else fw_points[:4])
    for n, persist in [(n, False) for n in inject] + [(n, True) for n in sorted(persist_points)]:
        d = tempfile.mkdtemp(prefix='c8-', dir=root)
        cnt = [-1]
        fired = [False]
        left = [12]

        def hook(kind, detail, n=n, persist=persist):
            cnt[0] += 1
            if persist and fired[0] and kind == 'fw' and left[0] > 0:
                left[0] -= 1
                raise OSError(24, 'injected persistent fault')
            if cnt[0] == n and not fired[0]:
                fired[0] = True
                if kind == 'sql':
                    raise sqlite3.OperationalError('injected fault')
                raise OSError(28, 'injected fault')
        why = None
        try:
            env.rec.on_action = hook
            r, extra = open_all(cfg, d)
            before = None
            fired_unit = [None]
            for ui, u in enumerate(units):
                if fired[0] and fired_unit[0] is None:
                    fired_unit[0] = ui - 1
                st0 = table(conc.canon_state(r.state())) if not fired[0] else None
                errs = []
                for op in u:
                    res = execute(r, op, extra) if op['m'] not in ('dq_append', 'ix_popitem') else _guard(r, op, extra)
                    errs.append(res)
                if fired[0] and before is None:
                    before = st0
                    # the failed call is all-or-nothing: the table (with the bytes of every file-backed value) is the
                    # reference state before or after this unit (a block whose inner call failed and was caught may
                    # commit the rest of its body: not compared)
                    if u[0]['m'] != 'tbegin' and why is None:
                        now_t = table(conc.canon_state(r.state()))
                        if now_t not in (ref_states[ui], ref_states[ui + 1]):
                            why = 'after a failure injected at action %d (%s %s) the call is neither undone nor complete: %s' % (
                                n, acts[n][0], acts[n][1], now_t[:300])
            env.rec.on_action = None
            ws = [str(w.message) for w in r.cache.check() if not str(w.message).startswith('empty directory')]
            if fired[0] and fired_unit[0] is None:
                fired_unit[0] = len(units) - 1
            in_block = fired_unit[0] is not None and units[fired_unit[0]][0]['m'] == 'tbegin'
            if why:
                pass
            elif ws:
                why = 'after a failure injected at action %d (%s %s) check() reports %s' % (n, acts[n][0], acts[n][1], ws[:2])
                if in_block and all(w.startswith('unknown file') for w in ws):
                    why = 'D9b-probe (failed call inside a block that then commits) ' + why
            else:
                try:
                    r.cache.set('__after__', 1)
                    if r.cache.get('__after__') != 1:
                        why = 'cache unusable after the injected failure'
                except Exception as e:
                    why = 'cache unusable after the injected failure: %s' % type(e).__name__
            r.cache.close()
        except Exception as e:
            why = 'harness error %s: %s' % (type(e).__name__, e)
        finally:
            env.rec.on_action = None
            shutil.rmtree(d, ignore_errors=True)
        if why and persist:
            why = 'with the fault persisting for the next 12 file creations: ' + why
        results.append({'n': n, 'act': acts[n], 'why': why})
    return {'seed': seed, 'units': units, 'results': results}


def _guard(r, op, extra):
    try:
        return execute(r, op, extra)
    except Exception as e:
        return '!' + type(e).__name__


def run(tier, seed, rng, known, replay):
    if replay:
        return base.replay_file(replay, 'C08', ('result', 'state'), acceptor)
    n = 160 if tier == 'quick' else 2400
    from props import c09
    lim = c09.limit_histories()
    for h in lim:
        # eviction at the size limit with expired items around cull_limit: afterwards no value file
        # without a row, no row without its file, counters right
        h['ops'] = h['ops'] + [{'m': 'check', 'now': 1040}]
    hists = stale_file_histories() + lim + [history(rng, rng.choice([20, 50, 90])) for _ in range(n)]
    r = base.check_histories('C08', hists, ('result', 'state'), acceptor=acceptor, known=known)
    dist, distinct = base.op_distribution(hists, r['impl_out'])
    violations = list(r['violations'])
    from props import c06 as _c06
    for v in _c06.incr_block_probe()[:2]:
        violations.append({'replay': {'property': 'C08', 'kind': 'incr-block-probe', 'acceptor': v}, 'found_input': True, 'what': v})
    for v in (bad_argument_probe() + relative_dir_probe())[:3]:
        violations.append({'replay': {'property': 'C08', 'kind': 'bad-argument-probe', 'acceptor': v}, 'found_input': True, 'what': v})
    for v in open_race_probe()[:2]:
        violations.append({'replay': {'property': 'C08', 'kind': 'open-race-probe', 'acceptor': v}, 'found_input': True, 'what': v})
    n_cases = 32 if tier == 'quick' else 300
    seeds = [rng.getrandbits(48) for _ in range(n_cases)]
    with ProcessPoolExecutor(max_workers=16) as ex:
        cases = list(ex.map(fault_case, [(s, tier) for s in seeds], chunksize=max(1, len(seeds) // 32)))
    faults = 0
    kinds = {}
    for c in cases:
        for x in c['results']:
            faults += 1
            kinds[x['act'][0]] = kinds.get(x['act'][0], 0) + 1
            if x['why']:
                k = base.match_known(known, {'cfg': {}}, None, x['why'])
                if k is not None:
                    if k['what'] not in r['known']:
                        r['known'].append(k['what'])
                    continue
            if x['why'] and len(violations) < 3:
                violations.append({'replay': {'property': 'C08', 'kind': 'fault', 'case_seed': c['seed'], 'workload': base.tag(c['units']),
                                              'fault_at_action': x['n'], 'action': list(x['act']), 'acceptor': x['why']},
                                   'found_input': True, 'what': x['why']})
    return {
        'evaluations': sum(len(h['ops']) for h in hists) + faults, 'distinct_nontrivial': distinct + faults,
        'rule': 'seeded full-API histories with check() interleaved and unstorable values mixed in; plus workloads re-run with one failure injected at '
                'the n-th statement (OperationalError) / value-file create or write chunk (OSError) for every n (quick: at most 30 sampled n per workload); '
                'distinct = distinct (method, result, trace) triples + fault points',
        'samples': [base.sample(hists[0], r['impl_out'][0]), {'fault_workload': base.tag(cases[0]['units']), 'fault_points': len(cases[0]['results'])}],
        'traces': len(hists) + faults,
        'dist': dict(dist, histories=len(hists), divergent=r['divergent'], fault_runs=faults, fault_kinds=kinds),
        'violations': violations, 'known': r['known'],
        'assumptions': ['failures of os.remove are outside the fault model (Disk.remove suppresses them by design and the file stays as debris)',
                        'a failing COMMIT/ROLLBACK statement is outside the fault model'],
    }
