"""C14 — lock timeouts fail cleanly: Cache raises, sharded caches report, nothing changes.

A foreign connection holds the write lock (taken before the call, or between the
value-file write and BEGIN, or released after k busy retries); every public data
operation of Cache / FanoutCache / DjangoCache / Deque / Index is called.  The
observed outcome, the micro-step trace (FW?, BEGIN_BUSY, FRM?) and the unchanged
table + file set are compared with what DC.Conc.step prescribes for a call that
finds the lock held (theorems timeout_no_effect / timeout_removes_file /
retry_waits / reads_need_no_lock).  Every method that takes `retry` is also
called with the lock held for three attempts and must return what the
uncontended call returns; bulk removals are interrupted after 1-2 committed
batches and must report exactly the number removed."""
import os
import shutil
import sqlite3
import tempfile

from impl import CacheRunner, Env, scratch_root, DEFAULT
from props import base

BIG = b'B' * 40


def cache_calls():
    """(name, callable(cache), expectation) — expectation: 'timeout' | 'timeout0' | ('ok', value-check)"""
    return [
        ('set inline', lambda c: c.set('k', 1), 'timeout'),
        ('set file', lambda c: c.set('k', BIG), 'timeout'),
        ('add file', lambda c: c.add('new', BIG), 'timeout'),
        ('add stream', lambda c: c.add('new', __import__('io').BytesIO(BIG), read=True), 'timeout'),
        ('incr', lambda c: c.incr('n'), 'timeout'),
        ('decr', lambda c: c.decr('n'), 'timeout'),
        ('touch', lambda c: c.touch('k', 5), 'timeout'),
        ('pop', lambda c: c.pop('k'), 'timeout'),
        ('delete', lambda c: c.delete('k'), 'timeout'),
        ('push file', lambda c: c.push(BIG), 'timeout'),
        ('pull', lambda c: c.pull(), 'timeout'),
        ('peek', lambda c: c.peek(), 'timeout'),
        ('peekitem', lambda c: c.peekitem(), 'timeout'),
        ('clear', lambda c: c.clear(), 'timeout0'),
        ('expire', lambda c: c.expire(), 'timeout0'),
        ('evict', lambda c: c.evict('t'), 'timeout0'),
        ('cull', lambda c: c.cull(), 'timeout0'),
        ('check', lambda c: c.check(), 'timeout'),
        ('transact', lambda c: c.transact().__enter__(), 'timeout'),
        # look-ups that need no write keep working
        ('get', lambda c: c.get('k'), ('ok', BIG)),
        ('getitem', lambda c: c['k'], ('ok', BIG)),
        ('contains', lambda c: 'k' in c, ('ok', True)),
        ('len', lambda c: len(c), ('ok', 3)),
        ('iter', lambda c: sorted(map(str, c)), ('ok', ['500000000000000', 'k', 'n'])),
        ('iterkeys', lambda c: len(list(c.iterkeys())), ('ok', 3)),
        ('volume', lambda c: c.volume() > 0, ('ok', True)),
        ('read', lambda c: c.read('k').read(), ('ok', BIG)),
    ]


def fanout_calls():
    return [
        ('set', lambda c: c.set('k', BIG), ('ok', False)),
        ('add', lambda c: c.add('new', BIG), ('ok', False)),
        ('incr', lambda c: c.incr('n'), ('ok', None)),
        ('decr', lambda c: c.decr('n'), ('ok', None)),
        ('touch', lambda c: c.touch('k', 5), ('ok', False)),
        ('pop', lambda c: c.pop('k', 'dflt'), ('ok', 'dflt')),
        ('delete', lambda c: c.delete('k'), ('ok', False)),
        ('get', lambda c: c.get('k'), ('ok', BIG)),
        ('contains', lambda c: 'k' in c, ('ok', True)),
        ('len', lambda c: len(c), ('ok', 2)),
    ]


def django_calls():
    # DjangoCache defaults retry=True for writes (it would wait); retry=False reports through the return value
    return [
        ('set', lambda c: c.set('k', BIG, retry=False), ('ok', False)),
        ('add', lambda c: c.add('new', BIG, retry=False), ('ok', False)),
        ('touch', lambda c: c.touch('k', 5, retry=False), ('ok', False)),
        ('pop', lambda c: c.pop('k', 'dflt', retry=False), ('ok', 'dflt')),
        ('delete', lambda c: c.delete('k', retry=False), ('ok', False)),
        ('incr', lambda c: c.incr('n', retry=False), ('ok', None)),
        ('get', lambda c: c.get('k'), ('ok', BIG)),
        ('has_key', lambda c: c.has_key('k'), ('ok', True)),
    ]


def retry_calls():
    """(class, name, callable(obj), expected result once the lock is free) — every method that takes
    `retry`, called with retry=True (DjangoCache: its default) while a foreign connection holds the
    write lock for a few attempts: the call must wait and then do what the uncontended call does"""
    return [
        ('Cache', 'set', lambda c: c.set('k', BIG, retry=True), True),
        ('Cache', 'add', lambda c: c.add('new', BIG, retry=True), True),
        ('Cache', 'incr', lambda c: c.incr('n', retry=True), 2),
        ('Cache', 'decr', lambda c: c.decr('n', retry=True), 0),
        ('Cache', 'touch', lambda c: c.touch('k', 5, retry=True), True),
        ('Cache', 'pop', lambda c: c.pop('k', retry=True), BIG),
        ('Cache', 'delete', lambda c: c.delete('k', retry=True), True),
        ('Cache', 'push', lambda c: c.push('x', retry=True), 500000000000001),
        ('Cache', 'pull', lambda c: c.pull(retry=True), (500000000000000, 'q')),
        ('Cache', 'clear', lambda c: c.clear(retry=True), 3),
        ('Cache', 'expire', lambda c: c.expire(retry=True), 0),
        ('Cache', 'evict', lambda c: c.evict('t', retry=True), 0),
        ('Cache', 'cull', lambda c: c.cull(retry=True), 0),
        ('FanoutCache', 'set', lambda c: c.set('k', BIG, retry=True), True),
        ('FanoutCache', 'add', lambda c: c.add('new', BIG, retry=True), True),
        ('FanoutCache', 'incr', lambda c: c.incr('n', retry=True), 2),
        ('FanoutCache', 'decr', lambda c: c.decr('n', retry=True), 0),
        ('FanoutCache', 'touch', lambda c: c.touch('k', 5, retry=True), True),
        ('FanoutCache', 'pop', lambda c: c.pop('k', retry=True), BIG),
        ('FanoutCache', 'delete', lambda c: c.delete('k', retry=True), True),
        ('FanoutCache', 'setitem', lambda c: c.__setitem__('k', 'v'), None),
        ('FanoutCache', 'delitem', lambda c: c.__delitem__('k'), None),
        ('DjangoCache', 'set', lambda c: c.set('k', BIG), True),
        ('DjangoCache', 'add', lambda c: c.add('new', BIG), True),
        ('DjangoCache', 'incr', lambda c: c.incr('n'), 2),
        ('DjangoCache', 'decr', lambda c: c.decr('n'), 0),
        ('DjangoCache', 'touch', lambda c: c.touch('k', 5), True),
        ('DjangoCache', 'pop', lambda c: c.pop('k'), BIG),
        ('DjangoCache', 'delete', lambda c: c.delete('k'), True),
        # Index / Deque: their methods ask for retry themselves ("waits instead and then succeeds")
        ('Index', 'setitem', lambda c: c.__setitem__('k', 'v'), None),
        ('Index', 'delitem', lambda c: c.__delitem__('k'), None),
        ('Index', 'pop', lambda c: c.pop('k'), BIG),
        ('Index', 'popitem', lambda c: c.popitem(), ('n', 1)),
        ('Index', 'popitem first', lambda c: c.popitem(last=False), ('k', BIG)),
        ('Index', 'setdefault', lambda c: c.setdefault('new', 5), 5),
        ('Index', 'update', lambda c: c.update({'z': 1}), None),
        ('Index', 'push', lambda c: c.push('x'), 500000000000000),
        ('Index', 'clear', lambda c: c.clear(), None),
        ('Deque', 'append', lambda c: c.append(4), None),
        ('Deque', 'appendleft', lambda c: c.appendleft(0), None),
        ('Deque', 'pop', lambda c: c.pop(), 3),
        ('Deque', 'popleft', lambda c: c.popleft(), 1),
        ('Deque', 'extend', lambda c: c.extend([7]), None),
        ('Deque', 'setitem', lambda c: c.__setitem__(0, 9), None),
        ('Deque', 'delitem', lambda c: c.__delitem__(0), None),
        ('Deque', 'remove', lambda c: c.remove(2), None),
        ('Deque', 'rotate', lambda c: c.rotate(1), None),
        ('Deque', 'reverse', lambda c: c.reverse(), None),
        ('Deque', 'clear', lambda c: c.clear(), None),
        # memoized functions ask for retry in both the look-up and the store: a repeated call whose look-up
        # needs the write lock (statistics on) waits and is then served from the cache (result, runs)
        ('Memo-Cache', 'repeated call', lambda f: f(1), (2, 1)),
        ('Memo-FanoutCache', 'repeated call', lambda f: f(1), (2, 1)),
        ('Memo-Cache', 'first call', lambda f: f(5), (6, 2)),
        # read() asks for retry itself; under LRU the look-up refreshes the item and needs the write lock
        ('FanoutCache-LRU', 'read', lambda c: c.read('k').read(), BIG),
        ('FanoutCache-LRU', 'getitem', lambda c: c['k'], BIG),
        ('DjangoCache-LRU', 'read', lambda c: c.read('k').read(), BIG),
    ]


def snapshot(directory):
    out = []
    for dp, dn, fs in os.walk(directory):
        dn.sort()
        for fn in sorted(fs):
            p = os.path.join(dp, fn)
            if fn.endswith('.val'):
                out.append((os.path.relpath(p, directory), os.path.getsize(p)))
            elif fn == 'cache.db':
                con = sqlite3.connect(p, timeout=5)
                try:
                    out.append((os.path.relpath(p, directory), con.execute('SELECT * FROM Cache ORDER BY rowid').fetchall(),
                                con.execute("SELECT key, value FROM Settings WHERE key IN ('count','size')").fetchall()))
                finally:
                    con.close()
    return out


def holder(directory):
    con = sqlite3.connect(os.path.join(directory, 'cache.db'), timeout=0, isolation_level=None)
    con.execute('BEGIN IMMEDIATE')
    return con


def run(tier, seed, rng, known, replay):
    import diskcache
    from diskcache.djangocache import DjangoCache
    env = Env.get()
    violations = []
    samples = []
    evaluations = 0
    traces_ok = 0
    root = scratch_root()

    def judge(kind, name, fn, expect, obj, dirs, settings=None):
        nonlocal evaluations, traces_ok
        evaluations += 1
        before = [snapshot(d) for d in dirs]
        cons = [holder(d) for d in dirs]
        env.rec.reset()
        try:
            try:
                got = ('ok', fn(obj))
            except diskcache.Timeout as e:
                got = ('timeout', e.args)
            except Exception as e:
                got = ('exc', type(e).__name__)
        finally:
            for con in cons:
                con.execute('ROLLBACK')
                con.close()
        if got[0] == 'ok' and hasattr(got[1], 'close'):
            got[1].close()
        after = [snapshot(d) for d in dirs]
        trace = ','.join(env.rec.actions)
        why = None
        if expect == 'timeout':
            if got[0] != 'timeout':
                why = 'expected Timeout, got %r' % (got,)
        elif expect == 'timeout0':
            if got != ('timeout', (0,)):
                why = 'expected Timeout(0) (number of items already removed), got %r' % (got,)
        else:
            if got != expect:
                why = 'expected %r, got %r' % (expect, got)
        if before != after:
            why = (why + '; ' if why else '') + 'the operation had an effect although it could not get the lock'
        # model shape of a timed-out call: [FWn] BEGIN_BUSY [FRMn] (DC.Conc: wrote -> undo -> finish none)
        if expect in ('timeout', 'timeout0') and kind == 'Cache' and name not in ('check',):
            acts = [a for a in trace.split(',') if a]
            fw = [a for a in acts if a.startswith('FW')]
            frm = [a for a in acts if a.startswith('FRM')]
            shape_ok = 'BEGIN_BUSY' in acts and len(fw) == len(frm) and all('FRM' + a[2:] in frm for a in fw) and \
                not any(a in ('COMMIT', 'insRow', 'updRow', 'delRow') for a in acts)
            if shape_ok:
                traces_ok += 1
            else:
                why = (why + '; ' if why else '') + 'trace %s is not [FW] BEGIN_BUSY [FRM]' % trace
        if len(samples) < 6:
            samples.append({'class': kind, 'call': name, 'outcome': repr(got)[:60], 'trace': trace})
        if why and len(violations) < 3:
            violations.append({'replay': {'property': 'C14', 'class': kind, 'call': name, 'settings': settings, 'trace': trace, 'acceptor': why},
                               'found_input': True, 'what': '%s.%s with the lock held elsewhere: %s' % (kind, name, why)})

    for settings in ({}, {'statistics': 1}, {'eviction_policy': 'least-recently-used'}):
        # statistics / LRU turn look-ups into writes: they then time out like writes
        for name, fn, expect in cache_calls():
            d = tempfile.mkdtemp(prefix='c14-', dir=root)
            try:
                env.rec.enabled = False
                c = diskcache.Cache(d, timeout=0, disk_min_file_size=8, **settings)
                c['k'] = BIG
                c['n'] = 1
                c.push('q')
                env.rec.enabled = True
                exp = expect
                if settings and name in ('get', 'getitem', 'read'):
                    exp = 'timeout' if name != 'getitem' else None
                if exp is None:
                    continue        # cache[key] retries forever by design (operator forms use retry=True)
                judge('Cache', name, fn, exp, c, [d], settings)
                c.close()
            finally:
                env.rec.enabled = True
                shutil.rmtree(d, ignore_errors=True)
    for name, fn, expect in fanout_calls():
        d = tempfile.mkdtemp(prefix='c14f-', dir=root)
        try:
            env.rec.enabled = False
            c = diskcache.FanoutCache(d, shards=3, timeout=0, disk_min_file_size=8)
            c['k'] = BIG
            c['n'] = 1
            env.rec.enabled = True
            judge('FanoutCache', name, fn, expect, c, [os.path.join(d, '%03d' % i) for i in range(3)])
            c.close()
        finally:
            env.rec.enabled = True
            shutil.rmtree(d, ignore_errors=True)
    for name, fn, expect in django_calls():
        d = tempfile.mkdtemp(prefix='c14d-', dir=root)
        try:
            env.rec.enabled = False
            c = DjangoCache(d, {'SHARDS': 2, 'DATABASE_TIMEOUT': 0, 'OPTIONS': {'disk_min_file_size': 8}})
            c.set('k', BIG)
            c.set('n', 1)
            env.rec.enabled = True
            if name == 'incr':
                # a timed-out incr reports None through FanoutCache; DjangoCache passes it on
                pass
            judge('DjangoCache', name, fn, expect, c, [os.path.join(d, '%03d' % i) for i in range(2)])
            c.close()
        finally:
            env.rec.enabled = True
            shutil.rmtree(d, ignore_errors=True)
    # membership under LRU + statistics: get() needs the write lock there (it refreshes the item and counts the hit),
    # a membership test never does - `in` / has_key keep answering while another client holds the lock
    for cls_name in ('Cache', 'FanoutCache', 'DjangoCache'):
        d = tempfile.mkdtemp(prefix='c14m-', dir=root)
        try:
            env.rec.enabled = False
            if cls_name == 'Cache':
                c = diskcache.Cache(d, timeout=0, disk_min_file_size=8, eviction_policy='least-recently-used', statistics=True)
                dirs = [d]
            elif cls_name == 'FanoutCache':
                c = diskcache.FanoutCache(d, shards=2, timeout=0, disk_min_file_size=8, eviction_policy='least-recently-used', statistics=True)
                dirs = [os.path.join(d, '%03d' % i) for i in range(2)]
            else:
                c = DjangoCache(d, {'SHARDS': 2, 'DATABASE_TIMEOUT': 0, 'OPTIONS': {'disk_min_file_size': 8, 'eviction_policy': 'least-recently-used', 'statistics': True}})
                dirs = [os.path.join(d, '%03d' % i) for i in range(2)]
            c.set('k', BIG)
            env.rec.enabled = True
            fn = (lambda c: c.has_key('k')) if cls_name == 'DjangoCache' else (lambda c: 'k' in c)
            judge(cls_name, 'membership under LRU and statistics', fn, ('ok', True), c, dirs)
            c.close()
        finally:
            env.rec.enabled = True
            shutil.rmtree(d, ignore_errors=True)
    # retry: the call waits and then succeeds once the lock is released after k busy BEGINs
    for k in (1, 3, 7):
        evaluations += 1
        d = tempfile.mkdtemp(prefix='c14r-', dir=root)
        try:
            env.rec.enabled = False
            c = diskcache.Cache(d, timeout=0, disk_min_file_size=8)
            env.rec.enabled = True
            con = holder(d)
            n = [0]

            def hook(kind, detail, con=con, n=n, k=k):
                if kind == 'sql' and detail == 'BEGIN':
                    n[0] += 1
                    if n[0] == k + 1:
                        con.execute('ROLLBACK')
            env.rec.on_action = hook
            env.rec.reset()
            try:
                if k == 1:
                    ok = c.set('k', BIG, retry=True)
                elif k == 3:
                    c['k'] = BIG            # operator form: retry=True by design
                    ok = True
                else:
                    ok = c.add('k', BIG, retry=True)
            finally:
                env.rec.on_action = None
                try:
                    con.close()
                except Exception:
                    pass
            trace = ','.join(env.rec.actions)
            try:
                stored = c.get('k', 'MISSING')
                clean = not [w for w in c.check() if not str(w.message).startswith('empty directory')]
            except Exception as e:
                stored, clean = 'raised %s' % type(e).__name__, False
            if not (ok is True and stored == BIG and clean and trace.count('BEGIN_BUSY') == k):
                violations.append({'replay': {'property': 'C14', 'call': 'set retry=True', 'released_after': k, 'trace': trace},
                                   'found_input': True,
                                   'what': 'retry=True did not wait and then succeed (lock released after %d busy attempts): returned %r, value read back %s, check clean %s, trace %s'
                                           % (k, ok, 'ok' if stored == BIG else repr(stored)[:40], clean, trace)})
            else:
                traces_ok += 1
            c.close()
        finally:
            env.rec.on_action = None
            shutil.rmtree(d, ignore_errors=True)
    # retry: every method that takes `retry` waits for the lock and then behaves like the uncontended call
    for cls_name, name, fn, want in retry_calls():
        evaluations += 1
        d = tempfile.mkdtemp(prefix='c14q-', dir=root)
        try:
            env.rec.enabled = False
            if cls_name == 'Cache':
                c = diskcache.Cache(d, timeout=0, disk_min_file_size=8)
                targets = [d]
            elif cls_name == 'FanoutCache':
                c = diskcache.FanoutCache(d, shards=2, timeout=0, disk_min_file_size=8)
                targets = [os.path.join(d, '%03d' % i) for i in range(2)]
            elif cls_name == 'FanoutCache-LRU':
                c = diskcache.FanoutCache(d, shards=2, timeout=0, disk_min_file_size=8, eviction_policy='least-recently-used')
                targets = [os.path.join(d, '%03d' % i) for i in range(2)]
                c.set('k', BIG)
            elif cls_name == 'DjangoCache-LRU':
                c = DjangoCache(d, {'SHARDS': 2, 'DATABASE_TIMEOUT': 0, 'OPTIONS': {'disk_min_file_size': 8, 'eviction_policy': 'least-recently-used'}})
                targets = [os.path.join(d, '%03d' % i) for i in range(2)]
                c.set('k', BIG)
            elif cls_name == 'Index':
                c = diskcache.Index.fromcache(diskcache.Cache(d, timeout=0, disk_min_file_size=8, eviction_policy='none'))
                targets = [d]
            elif cls_name == 'Deque':
                c = diskcache.Deque.fromcache(diskcache.Cache(d, timeout=0, disk_min_file_size=8, eviction_policy='none'), [1, 2, 3])
                targets = [d]
            elif cls_name.startswith('Memo-'):
                if cls_name == 'Memo-Cache':
                    base_c = diskcache.Cache(d, timeout=0, statistics=True)
                    targets = [d]
                else:
                    base_c = diskcache.FanoutCache(d, shards=2, timeout=0, statistics=True)
                    targets = [os.path.join(d, '%03d' % i) for i in range(2)]
                runs = []

                def plus_one(x, runs=runs):
                    runs.append(x)
                    return x + 1
                memo = base_c.memoize(name='f')(plus_one)
                memo(1)
                c = lambda x, memo=memo, runs=runs: (memo(x), len(runs))
                c.close = base_c.close
            else:
                c = DjangoCache(d, {'SHARDS': 2, 'DATABASE_TIMEOUT': 0, 'OPTIONS': {'disk_min_file_size': 8}})
                targets = [os.path.join(d, '%03d' % i) for i in range(2)]
            if cls_name == 'Index':
                c['k'] = BIG
                c['n'] = 1
            elif cls_name in ('Cache', 'FanoutCache', 'DjangoCache'):
                c.set('k', BIG)
                c.set('n', 1)
            if cls_name == 'Cache':
                c.push('q')
            env.rec.enabled = True
            cons = [holder(t) for t in targets]
            busy = [0]

            def hook(kind, detail, cons=cons, busy=busy):
                if kind == 'sql' and detail == 'BEGIN':
                    busy[0] += 1
                    if busy[0] == 4:
                        for con in cons:
                            con.execute('ROLLBACK')
            env.rec.on_action = hook
            env.rec.reset()
            try:
                try:
                    got = ('ok', fn(c))
                except diskcache.Timeout as e:
                    got = ('timeout', e.args)
                except Exception as e:
                    got = ('exc', type(e).__name__)
            finally:
                env.rec.on_action = None
                for con in cons:
                    try:
                        con.close()
                    except Exception:
                        pass
            if got != ('ok', want) and len(violations) < 3:
                why = 'expected it to wait for the lock (released after 3 busy attempts) and return %r, got %r' % (want, got)
                violations.append({'replay': {'property': 'C14', 'class': cls_name, 'call': name + ' retry=True', 'acceptor': why},
                                   'found_input': True, 'what': '%s.%s with retry while the lock is held elsewhere: %s' % (cls_name, name, why)})
            elif got == ('ok', want):
                traces_ok += 1
            (c.close if hasattr(c, 'close') else c.cache.close)()
        finally:
            env.rec.on_action = None
            env.rec.enabled = True
            shutil.rmtree(d, ignore_errors=True)
    # bulk removals interrupted in the middle: the lock is taken by a foreign connection after the
    # j-th batch has committed; Timeout must carry exactly the number of items already removed
    for name in ('clear', 'evict', 'expire', 'cull', 'fanout-clear', 'fanout-cull'):
        for j in (1, 2):
            evaluations += 1
            d = tempfile.mkdtemp(prefix='c14b-', dir=root)
            try:
                env.rec.enabled = False
                env.clock.t = 1000
                fan = name.startswith('fanout')
                if fan:
                    c = diskcache.FanoutCache(d, shards=1, timeout=0, cull_limit=0)
                    target = os.path.join(d, '000')
                else:
                    c = diskcache.Cache(d, timeout=0, cull_limit=0)
                    target = d
                for i in range(250):
                    c.set(i, i, tag='t', expire=5)
                env.clock.t = 2000            # all of them have expired
                env.rec.enabled = True
                seen = {'commits': 0, 'con': None}

                def hook(kind, detail, seen=seen, j=j, target=target, fan=fan):
                    if kind == 'sql' and detail == 'COMMIT':
                        seen['commits'] += 1
                    elif kind == 'sql' and detail == 'BEGIN' and seen['commits'] == j and seen['con'] is None:
                        seen['con'] = holder(target)
                        seen['busy'] = 0
                    elif kind == 'sql' and detail == 'BEGIN' and seen['con'] is not None and fan:
                        # a sharded cache keeps trying: release after three busy attempts
                        seen['busy'] += 1
                        if seen['busy'] == 3:
                            seen['con'].execute('ROLLBACK')
                env.rec.on_action = hook
                env.rec.reset()
                try:
                    meth = name.split('-')[-1]
                    got = ('ok', (c.evict('t') if meth == 'evict' else getattr(c, meth)()))
                except diskcache.Timeout as e:
                    got = ('timeout', e.args)
                finally:
                    env.rec.on_action = None
                    if seen['con'] is not None:
                        try:
                            seen['con'].execute('ROLLBACK')
                        except sqlite3.OperationalError:
                            pass
                        seen['con'].close()
                con = sqlite3.connect(os.path.join(target, 'cache.db'))
                left = con.execute('SELECT COUNT(*) FROM Cache').fetchone()[0]
                con.close()
                removed = 250 - left
                why = None
                if fan:
                    # a sharded cache never raises: it resumes and reports the total over all attempts
                    if got != ('ok', 250) or removed != 250:
                        why = 'expected all 250 items removed and 250 returned (the counts of the interrupted attempts included), got %r with %d removed' % (got, removed)
                elif got != ('timeout', (removed,)):
                    why = 'expected Timeout(%d) = the number of items already removed, got %r' % (removed, got)
                if not fan and removed != 100 * j:
                    why = (why + '; ' if why else '') + '%d items removed after %d committed batches of 100' % (removed, j)
                if why and len(violations) < 3:
                    violations.append({'replay': {'property': 'C14', 'call': name, 'lock_taken_after_batches': j, 'items': 250, 'acceptor': why},
                                       'found_input': True,
                                       'what': '%s() of 250 removable items, lock taken elsewhere after %d committed batch(es): %s' % (name, j, why)})
                elif not why:
                    traces_ok += 1
                c.close()
            finally:
                env.rec.on_action = None
                env.rec.enabled = True
                shutil.rmtree(d, ignore_errors=True)
    return {
        'evaluations': evaluations, 'distinct_nontrivial': evaluations,
        'rule': 'every public data operation of Cache (x statistics / LRU settings that turn reads into writes), FanoutCache and DjangoCache with the '
                'write lock of every shard held by a foreign connection; retry=True released after k in {1,3,7} busy attempts; every method that takes retry (Cache, FanoutCache, DjangoCache defaults) waits and returns the uncontended result; clear/evict/expire/cull of 250 removable items with the lock taken elsewhere after 1 or 2 committed batches (Cache: Timeout(n); FanoutCache resumes after 3 busy attempts and returns the total); exhaustive over the call list',
        'samples': samples, 'traces': traces_ok, 'exhaustive': True,
        'dist': {'timeout_traces_matching_model_shape': traces_ok},
        'violations': violations, 'known': [],
    }
