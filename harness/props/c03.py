"""C03 — a single client sees an exact dictionary with expiry, tags and statistics.

Correspondence K1 (results + whole-state digest after every call) of the
operations the statement names, against DC.Model.Cache; the theorems about that
model are listed in lean/properties.json under C03 — among them the refinement
`run_refines`: for every history of key-addressed calls the model returns what
the reference dictionary DC.Spec returns.  The REAL code's results are compared
with that Lean dictionary directly as well (`sop` lines), on histories inside
the theorem's regime (policy none, clocks that never go back)."""
import gen
from props import base, refdict

SCOPE = {'set', 'add', 'get', 'getitem', 'read', 'contains', 'touch', 'incr', 'pop', 'delete', 'delitem',
         'clear', 'evict', 'expire', 'len', 'iter', 'riter', 'iterkeys', 'riterkeys', 'peekitem', 'stats'}


def c03_history(rng, length):
    h = gen.gen_history(rng, length, 'noblocks')
    h['ops'] = [op for op in h['ops'] if op['m'] in SCOPE]
    return h


def exhaustive_small(rng, n_ops):
    """every sequence of n_ops calls over a reduced alphabet"""
    import itertools
    alpha = [
        {'m': 'set', 'k': 'a', 'v': 'x', 'ttl': None, 'tag': None},
        {'m': 'set', 'k': 'a', 'v': b'q' * 20, 'ttl': 2, 'tag': 'red'},
        {'m': 'add', 'k': 'a', 'v': 7, 'ttl': None, 'tag': None},
        {'m': 'get', 'k': 'a', 'et': 1, 'tg': 1},
        {'m': 'touch', 'k': 'a', 'ttl': 5},
        {'m': 'incr', 'k': 'a', 'delta': 1, 'default': 0},
        {'m': 'pop', 'k': 'a'},
        {'m': 'delete', 'k': 'a'},
        {'m': 'expire'},
        {'m': 'evict', 'tag': 'red'},
        {'m': 'iter'},
    ]
    hists = []
    for combo in itertools.product(range(len(alpha)), repeat=n_ops):
        now = 1000
        ops = []
        for j, i in enumerate(combo):
            op = dict(alpha[i])
            now += 3 if j else 0
            op['now'] = now
            ops.append(op)
        ops.append({'m': 'len', 'now': now})
        hists.append({'cfg': {'mfs': 8, 'policy': 'lrs', 'cull': 10, 'stats': 0, 'proto': 5}, 'ops': ops,
                      'state_every': 1})
    return hists


SPEC_OPS = {'set', 'add', 'get', 'getitem', 'read', 'contains', 'touch', 'incr', 'pop', 'delete', 'delitem',
            'clear', 'evict', 'expire', 'cull'}
SPEC_UNDETERMINED = {'clear', 'evict', 'expire', 'cull'}      # their integer results count stored rows


def spec_history(rng, length):
    """a history inside the regime of the refinement theorem DC.Cache.run_refines: policy 'none'
    (nothing is evicted by size), key-addressed calls and bulk removals, clocks that never go back"""
    h = gen.gen_history(rng, length, 'noblocks')
    h['cfg']['policy'] = 'none'
    h['ops'] = [op for op in h['ops'] if op['m'] in SPEC_OPS]
    h['state_every'] = 0
    return h


def against_spec(hists, impl_out):
    """the results of the REAL code against the executable reference dictionary DC.Spec (Lean): the
    same lines, `op` -> `sop`.  -> (number of results compared, [violation])"""
    import corr
    lines, index = [], []
    for i, (h, io) in enumerate(zip(hists, impl_out)):
        for j, (line, ans) in enumerate(io):
            if line.startswith('cfg '):
                lines.append(line)
                index.append(None)
            elif line.startswith('op '):
                lines.append('sop ' + line[3:])
                index.append((i, j))
    got = corr.run_driver(lines)
    out, compared = [], 0
    seen = set()
    for (ij, l, g) in zip(index, lines, got):
        if ij is None:
            continue
        i, j = ij
        if i in seen:
            continue
        want = impl_out[i][j][1].split(' | ')[0]
        m = base.line_field(l, 'm')
        if m in SPEC_UNDETERMINED:
            continue
        compared += 1
        if g != want:
            seen.add(i)
            nth = sum(1 for (l2, _) in impl_out[i][:j] if l2.startswith('op '))
            out.append({'history': i, 'op_index': nth, 'line': l, 'impl': want, 'spec': g})
    return compared, out


def run(tier, seed, rng, known, replay):
    if replay:
        return base.replay_file(replay, 'C03', ('result', 'state'), acceptor)
    n_short, n_long, n_bulk = (160, 24, 16) if tier == 'quick' else (2400, 320, 160)
    hists = [c03_history(rng, rng.choice([12, 30, 60])) for _ in range(n_short)]
    hists += [c03_history(rng, 400) for _ in range(n_long)]
    hists += [gen.bulk_history(rng, rng.choice([101, 150, 230, 305])) for _ in range(n_bulk)]
    exhaustive = False
    if tier == 'thorough':
        hists += exhaustive_small(rng, 3)
        exhaustive = True
    else:
        hists += exhaustive_small(rng, 2)
    r = base.check_histories('C03', hists, ('result', 'state'), acceptor=acceptor, known=known)
    dist, distinct = base.op_distribution(hists, r['impl_out'])
    # the real code against the Lean reference dictionary (the specification side of run_refines)
    n_spec = 200 if tier == 'quick' else 3000
    shists = [spec_history(rng, rng.choice([12, 30, 60, 150])) for _ in range(n_spec)]
    rs = base.check_histories('C03', shists, ('result', 'state'), acceptor=acceptor, known=known)
    compared, bad = against_spec(shists, rs['impl_out'])
    violations = list(r['violations']) + list(rs['violations'])
    for b in bad[:2]:
        h = shists[b['history']]
        what = 'call #%d %s returns %s, the reference dictionary DC.Spec returns %s' % (
            b['op_index'], b['line'][:90], b['impl'][:60], b['spec'][:60])
        violations.append({'replay': {'property': 'C03', 'kind': 'spec-disagreement', 'cfg': h['cfg'], 'ops': base.tag(h['ops'][:b['op_index'] + 1]),
                                      'line': b['line'], 'impl': b['impl'], 'spec': b['spec'], 'acceptor': what,
                                      'spec_part': 'DC.Spec.step (lean/DC/Model/Spec.lean); refinement theorem DC.Cache.run_refines'},
                           'found_input': True, 'what': 'property violated on the implementation: ' + what})
    r['violations'] = violations[:4]
    r['known'] = list(r['known']) + [k for k in rs['known'] if k not in r['known']]
    hists = hists + shists
    return {
        'evaluations': sum(len(h['ops']) for h in hists),
        'distinct_nontrivial': distinct,
        'rule': 'seeded random call histories (lengths 12-400, tables beyond the 100-row page) over the methods C03 names, '
                'plus every sequence of %d calls over an 11-call alphabet; plus policy-none histories whose results are also compared with the executable reference dictionary DC.Spec (the specification of theorem run_refines); distinct = distinct (method, result, action trace) triples'
                % (3 if exhaustive else 2),
        'samples': [base.sample(hists[0], r['impl_out'][0]), base.sample(hists[-1], r['impl_out'][-1])],
        'traces': len(hists),
        'dist': dict(dist, histories=len(hists), divergent=r['divergent'] + rs['divergent'], timing=r['stats'], spec_histories=len(shists), results_compared_with_lean_spec=compared, spec_disagreements=len(bad)),
        'violations': r['violations'], 'known': r['known'],
    }


def acceptor(hist, io):
    return refdict.accept(hist, io, scope=SCOPE)
