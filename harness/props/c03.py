"""C03 — a single client sees an exact dictionary with expiry, tags and statistics.

Correspondence K1 (results + whole-state digest after every call) of the
operations the statement names, against DC.Model.Cache; the theorems about that
model are listed in lean/properties.json under C03."""
import gen
from props import base, refdict

SCOPE = {'set', 'add', 'get', 'getitem', 'read', 'contains', 'touch', 'incr', 'pop', 'delete', 'delitem',
         'clear', 'evict', 'expire', 'len', 'iter', 'riter', 'iterkeys', 'riterkeys', 'peekitem', 'stats'}


def c03_history(rng, length):
    h = gen.gen_history(rng, length, 'noblocks')
    h['ops'] = [op for op in h['ops'] if op['m'] in SCOPE]
    return h


def exhaustive_small(rng, n_ops):
    """every sequence of n_ops calls over a reduced alphabet"""
    import itertools
    alpha = [
        {'m': 'set', 'k': 'a', 'v': 'x', 'ttl': None, 'tag': None},
        {'m': 'set', 'k': 'a', 'v': b'q' * 20, 'ttl': 2, 'tag': 'red'},
        {'m': 'add', 'k': 'a', 'v': 7, 'ttl': None, 'tag': None},
        {'m': 'get', 'k': 'a', 'et': 1, 'tg': 1},
        {'m': 'touch', 'k': 'a', 'ttl': 5},
        {'m': 'incr', 'k': 'a', 'delta': 1, 'default': 0},
        {'m': 'pop', 'k': 'a'},
        {'m': 'delete', 'k': 'a'},
        {'m': 'expire'},
        {'m': 'evict', 'tag': 'red'},
        {'m': 'iter'},
    ]
    hists = []
    for combo in itertools.product(range(len(alpha)), repeat=n_ops):
        now = 1000
        ops = []
        for j, i in enumerate(combo):
            op = dict(alpha[i])
            now += 3 if j else 0
            op['now'] = now
            ops.append(op)
        ops.append({'m': 'len', 'now': now})
        hists.append({'cfg': {'mfs': 8, 'policy': 'lrs', 'cull': 10, 'stats': 0, 'proto': 5}, 'ops': ops,
                      'state_every': 1})
    return hists


def run(tier, seed, rng, known, replay):
    if replay:
        return base.replay_file(replay, 'C03', ('result', 'state'), acceptor)
    n_short, n_long, n_bulk = (160, 24, 16) if tier == 'quick' else (2400, 320, 160)
    hists = [c03_history(rng, rng.choice([12, 30, 60])) for _ in range(n_short)]
    hists += [c03_history(rng, 400) for _ in range(n_long)]
    hists += [gen.bulk_history(rng, rng.choice([101, 150, 230, 305])) for _ in range(n_bulk)]
    exhaustive = False
    if tier == 'thorough':
        hists += exhaustive_small(rng, 3)
        exhaustive = True
    else:
        hists += exhaustive_small(rng, 2)
    r = base.check_histories('C03', hists, ('result', 'state'), acceptor=acceptor, known=known)
    dist, distinct = base.op_distribution(hists, r['impl_out'])
    return {
        'evaluations': sum(len(h['ops']) for h in hists),
        'distinct_nontrivial': distinct,
        'rule': 'seeded random call histories (lengths 12-400, tables beyond the 100-row page) over the methods C03 names, '
                'plus every sequence of %d calls over an 11-call alphabet; distinct = distinct (method, result, action trace) triples'
                % (3 if exhaustive else 2),
        'samples': [base.sample(hists[0], r['impl_out'][0]), base.sample(hists[-1], r['impl_out'][-1])],
        'traces': len(hists),
        'dist': dict(dist, histories=len(hists), divergent=r['divergent'], timing=r['stats']),
        'violations': r['violations'], 'known': r['known'],
    }


def acceptor(hist, io):
    return refdict.accept(hist, io, scope=SCOPE)
