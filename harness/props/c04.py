"""C04 — items are visible until their expiry time passes and never afterwards.

ttl-heavy histories (zero/negative/huge ttl, many items on one expiry instant,
more than one 100-row page of expired items, clock steps landing before, on and
after expiry instants) over every operation that reads or writes expiry,
compared with DC.Model.Cache; judged by the reference dictionary, which leaves
the instant now == expire_time open.  A systematic grid (every expiry-reading
call x before / on / after the expiry instant x inline / file-backed x
cull_limit) runs first, then a lazy-cull family (3-25 items on one expiry
instant x cull_limit 0/1/2/10 x every kind of write) judged on consecutive
states: a write removes only expired items and at most cull_limit of them."""
import gen
from props import base, refdict

SCOPE = {'set', 'add', 'touch', 'incr', 'get', 'getitem', 'contains', 'pop', 'delete', 'delitem', 'pull', 'peek',
         'peekitem', 'expire', 'cull', 'len', 'iter', 'push'}


def ttl_history(rng, length):
    h = gen.gen_history(rng, length, 'ttl')
    h['ops'] = [op for op in h['ops'] if op['m'] in SCOPE]
    return h


def mass_expiry(rng, n, page_note=True):
    """> n items on one expiry instant (the shape that broke expire() on the pinned tree)"""
    cfg = gen.gen_cfg(rng)
    cfg['cull'] = rng.choice([0, 0, 10])
    ops = []
    now = 1000
    for i in range(n):
        ttl = rng.choice([5, 5, 5, 5, None, -2000, 0, 9])
        ops.append({'m': 'set', 'now': now, 'k': i, 'v': rng.choice([i, 'v', b'b' * 20]), 'ttl': ttl, 'tag': None})
    for t in rng.sample([1004, 1005, 1006, 1009, 1010], 3):
        ops.append({'m': 'len', 'now': t})
        ops.append({'m': 'get', 'now': t, 'k': rng.randrange(n)})
        ops.append({'m': 'expire', 'now': t})
        ops.append({'m': 'len', 'now': t})
        ops.append({'m': 'iter', 'now': t})
    ops.sort(key=lambda o: o['now'])
    return {'cfg': cfg, 'ops': ops, 'state_every': 60}


def expiry_grid():
    """every expiry-reading call x the instant it is made (before / on / after the expiry time) x
    inline / file-backed value x cull_limit {0, 10}: one item with ttl 6 stored at 1000, the call at
    1000+gap, then the look-ups"""
    calls = [
        {'m': 'get', 'k': 'k', 'et': 1, 'tg': 1}, {'m': 'getitem', 'k': 'k'}, {'m': 'contains', 'k': 'k'},
        {'m': 'touch', 'k': 'k', 'ttl': 50}, {'m': 'touch', 'k': 'k', 'ttl': None},
        {'m': 'add', 'k': 'k', 'v': 'again', 'ttl': None, 'tag': None}, {'m': 'add', 'k': 'k', 'v': 'again', 'ttl': 2, 'tag': None},
        {'m': 'incr', 'k': 'k', 'delta': 1, 'default': 0}, {'m': 'incr', 'k': 'k', 'delta': 1, 'default': None},
        {'m': 'pop', 'k': 'k', 'et': 1}, {'m': 'delete', 'k': 'k'}, {'m': 'delitem', 'k': 'k'},
        {'m': 'peekitem', 'last': 1, 'et': 1}, {'m': 'expire'}, {'m': 'cull'},
        {'m': 'set', 'k': 'other', 'v': 1, 'ttl': None, 'tag': None}, {'m': 'len'}, {'m': 'iter'},
    ]
    hists = []
    for call in calls:
        for gap in (5, 6, 7, 600):
            for v in (5, b'F' * 40):
                for cull in (0, 10):
                    ops = [{'m': 'set', 'now': 1000, 'k': 'k', 'v': v, 'ttl': 6, 'tag': 'old'},
                           {'m': 'set', 'now': 1000, 'k': 'forever', 'v': 1, 'ttl': None, 'tag': None},
                           dict(call, now=1000 + gap),
                           {'m': 'get', 'now': 1000 + gap, 'k': 'k'}, {'m': 'contains', 'now': 1000 + gap, 'k': 'k'},
                           {'m': 'get', 'now': 1000 + gap + 10 ** 9, 'k': 'forever'}, {'m': 'len', 'now': 1000 + gap + 10 ** 9}]
                    hists.append({'cfg': {'mfs': 8, 'policy': 'lrs', 'cull': cull, 'stats': 0, 'proto': 5, 'disk': 'pickle',
                                          'limN': 2 ** 30, 'limD': 1, 'tagidx': 0}, 'ops': ops, 'state_every': 1})
                    if call['m'] in ('expire', 'cull') and cull == 0:
                        # the explicit removals under policy 'none' too (Deque / Index caches): expired items go, the count is returned
                        hists.append({'cfg': {'mfs': 8, 'policy': 'none', 'cull': cull, 'stats': 0, 'proto': 5, 'disk': 'pickle',
                                              'limN': 2 ** 30, 'limD': 1, 'tagidx': 0},
                                      'ops': ops[:3] + [{'m': 'len', 'now': 1000 + gap}, {'m': 'iter', 'now': 1000 + gap}] + ops[3:], 'state_every': 1})
                    if gap == 6 and cull == 0:
                        # the same with a membership test first, at the same instant: whatever it answers at the open
                        # instant now == expiry, the call that follows must agree with it
                        ops2 = ops[:2] + [{'m': 'contains', 'now': 1000 + gap, 'k': 'k'}] + ops[2:]
                        hists.append({'cfg': {'mfs': 8, 'policy': 'lrs', 'cull': cull, 'stats': 0, 'proto': 5, 'disk': 'pickle',
                                              'limN': 2 ** 30, 'limD': 1, 'tagidx': 0}, 'ops': ops2, 'state_every': 1})
    return hists


def lazy_cull_histories():
    """the lazy removal done by writes: n expired items, many of them on ONE expiry instant, some not
    yet expired and some without expiry, then writes of every kind with cull_limit in {0,1,2,10}: each
    write may remove only expired items and at most cull_limit of them"""
    hists = []
    for n_tied, n_other in ((3, 2), (12, 3), (25, 0)):
        for cull in (0, 1, 2, 10):
            for v in (7, b'F' * 40):
                ops = []
                for i in range(n_tied):
                    ops.append({'m': 'set', 'now': 1000, 'k': 't%d' % i, 'v': v, 'ttl': 5, 'tag': None})
                for i in range(n_other):
                    ops.append({'m': 'set', 'now': 1000, 'k': 'o%d' % i, 'v': v, 'ttl': 3 + i, 'tag': None})
                ops.append({'m': 'set', 'now': 1000, 'k': 'later', 'v': v, 'ttl': 500, 'tag': None})
                ops.append({'m': 'set', 'now': 1000, 'k': 'forever', 'v': v, 'ttl': None, 'tag': None})
                ops.append({'m': 'set', 'now': 1000, 'k': 'n', 'v': 1, 'ttl': None, 'tag': None})
                for j, w in enumerate([{'m': 'set', 'k': 'w0', 'v': v, 'ttl': None, 'tag': None},
                                       {'m': 'add', 'k': 'w1', 'v': v, 'ttl': 9, 'tag': None},
                                       {'m': 'incr', 'k': 'n', 'delta': 1, 'default': 0},
                                       {'m': 'push', 'v': v, 'prefix': None, 'side': 'back', 'ttl': None, 'tag': None},
                                       {'m': 'set', 'k': 't0', 'v': v, 'ttl': None, 'tag': None},
                                       {'m': 'touch', 'k': 'forever', 'ttl': 50}]):
                    ops.append(dict(w, now=1010 + j))
                    ops.append({'m': 'len', 'now': 1010 + j})
                ops.append({'m': 'get', 'now': 1020, 'k': 'later'})
                ops.append({'m': 'get', 'now': 1020, 'k': 'forever'})
                hists.append({'cfg': {'mfs': 8, 'policy': 'lrs', 'cull': cull, 'stats': 0, 'proto': 5, 'disk': 'pickle',
                                      'limN': 2 ** 30, 'limD': 1, 'tagidx': 0}, 'ops': ops, 'state_every': 1})
    return hists


def lazy_cull_check(hist, io):
    """on consecutive observed states: a write removes only items whose expiry time has passed, and at
    most cull_limit of them (the size limit of these histories is never reached, so nothing is evicted)"""
    from props.c09 import parse_rows
    cfg = hist['cfg']
    if cfg.get('limN', 2 ** 30) < 2 ** 30 and cfg.get('policy', 'lrs') != 'none':
        return None
    cull = cfg.get('cull', 10)
    prev = None
    lines = list(io)
    for j, (line, ans) in enumerate(lines):
        if line.startswith('op '):
            f = dict(t.split('=', 1) for t in line.split(' ')[1:] if '=' in t)
            m = f.get('m')
            if m == 'reset' and f.get('key') == 'cull_limit':
                cull = int(f['value'])
            if m in ('set', 'add', 'incr', 'push', 'touch') and prev is not None and j > 0 and lines[j - 1][0] == 'state' \
                    and j + 1 < len(lines) and lines[j + 1][0] == 'state':
                try:
                    cur = parse_rows(lines[j + 1][1])
                except Exception:
                    return None
                now = int(f.get('now', 0))
                after = {r['rowid'] for r in cur}
                wk = f.get('k', '')
                gone = [r for r in prev if r['rowid'] not in after
                        and not (r['key'] == wk or (wk[:1] == 'o' and r['key'] == 'y' + wk[1:]) or (wk[:1] in 'if' and r['key'][:1] in 'if'))]
                fresh = [r for r in gone if r['exp'] is None or r['exp'] > now]
                if fresh:
                    return 'a write removed an item whose expiry time had not passed (rowid %d, expiry %s, now %d) at %s' % (
                        fresh[0]['rowid'], fresh[0]['exp'], now, line[:100])
                if len(gone) > cull:
                    return 'one write removed %d expired items, cull_limit is %d, at %s' % (len(gone), cull, line[:100])
        if line == 'state':
            try:
                prev = parse_rows(ans)
            except Exception:
                prev = None
    return None


def expiry_during_wait_probe():
    """an item that expires WHILE a call waits for the write lock (retry=True, the lock held by another
    client, the clock advancing with every busy attempt): when the call finally runs, the item's expiry
    time has passed - and another client may already have seen it expired - so it must be treated as
    expired: not touched back to life, not incremented, not reported present to add, not pulled / peeked /
    popped as a live item."""
    import os
    import shutil
    import sqlite3
    import tempfile
    import diskcache
    from impl import Env, scratch_root
    env = Env.get()
    root = scratch_root()
    calls = [
        ('touch', lambda c: c.touch('e', 50, retry=True), False, 'touch revived'),
        ('add', lambda c: c.add('e', 9, retry=True), True, 'add treated as present'),
        ('incr', lambda c: c.incr('e', retry=True), 1, 'incr incremented'),
        ('pop', lambda c: c.pop('e', retry=True), None, 'pop returned'),
        ('pull', lambda c: c.pull(retry=True), (500000000000001, 'live'), 'pull delivered'),
        ('peek', lambda c: c.peek(retry=True), (500000000000001, 'live'), 'peek showed'),
    ]
    bad = []
    for name, fn, want, verb in calls:
        d = tempfile.mkdtemp(prefix='c4w-', dir=root)
        try:
            env.rec.enabled = False
            env.clock.t = 1000
            c = diskcache.Cache(d, timeout=0)
            c.set('e', 5, expire=2)
            c.push('old', expire=2)
            c.push('live')
            env.rec.enabled = True
            con = sqlite3.connect(os.path.join(d, 'cache.db'), timeout=0, isolation_level=None)
            con.execute('BEGIN IMMEDIATE')
            busy = [0]

            def hook(kind, detail, con=con, busy=busy):
                if kind == 'sql' and detail == 'BEGIN':
                    busy[0] += 1
                    env.clock.t += 1              # time passes while the call waits
                    if busy[0] == 4:
                        con.execute('ROLLBACK')
            env.rec.on_action = hook
            env.rec.reset()
            try:
                try:
                    got = fn(c)
                except Exception as e:  # noqa
                    got = '!' + type(e).__name__
            finally:
                env.rec.on_action = None
                con.close()
            if got != want:
                bad.append('an item stored at 1000 with expire=2; %s(retry=True) waited for the lock until %d and then %s the expired item: returned %r, expected %r' % (
                    name, env.clock.t, verb, got, want))
            c.close()
        except Exception as e:  # noqa
            bad.append('expiry-during-wait probe (%s) raised %s: %s' % (name, type(e).__name__, str(e)[:100]))
        finally:
            env.rec.on_action = None
            env.rec.enabled = True
            shutil.rmtree(d, ignore_errors=True)
    return bad


def acceptor(hist, io):
    err = refdict.accept(hist, io, scope=SCOPE)
    if err:
        return err
    err = lazy_cull_check(hist, io)
    if err:
        return err
    # expire(): afterwards no item whose expiry time has passed may be left (any look-up
    # already says so; here: the row count equals the number of items not yet expired)
    ref_live = None
    for op, res in base.results_of(hist, io):
        pass
    return None


def run(tier, seed, rng, known, replay):
    if replay:
        return base.replay_file(replay, 'C04', ('result', 'state'), acceptor)
    n_short, n_long, n_mass = (160, 16, 12) if tier == 'quick' else (2400, 200, 120)
    hists = expiry_grid() + lazy_cull_histories() + [ttl_history(rng, rng.choice([15, 40, 80])) for _ in range(n_short)]
    hists += [ttl_history(rng, 300) for _ in range(n_long)]
    hists += [mass_expiry(rng, rng.choice([101, 205, 260])) for _ in range(n_mass)]
    r = base.check_histories('C04', hists, ('result', 'state'), acceptor=acceptor, known=known)
    for v_ in expiry_during_wait_probe():
        k_ = base.match_known(known, {'cfg': {}}, None, v_)
        if k_ is not None:
            if k_['what'] not in r['known']:
                r['known'].append(k_['what'])
        elif len(r['violations']) < 4:
            r['violations'].append({'replay': {'property': 'C04', 'kind': 'expiry-during-wait', 'acceptor': v_}, 'found_input': True, 'what': v_})
    dist, distinct = base.op_distribution(hists, r['impl_out'])
    return {
        'evaluations': sum(len(h['ops']) for h in hists), 'distinct_nontrivial': distinct,
        'rule': 'seeded ttl-heavy histories (ttl in {None,0,-1,1,3,10,1e9,-5000}, clock steps 0/1/2/5) over the expiry-reading operations, plus tables '
                'with 101-260 items of which most share one expiry instant, expired in up to 3 rounds; distinct = distinct (method, result, trace) triples',
        'samples': [base.sample(hists[0], r['impl_out'][0]), base.sample(hists[-1], r['impl_out'][-1])],
        'traces': len(hists),
        'dist': dict(dist, histories=len(hists), divergent=r['divergent'], timing=r['stats']),
        'violations': r['violations'], 'known': r['known'],
    }
