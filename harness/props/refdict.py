"""Acceptor for the dictionary-like properties (C01, C03, C04): an
observation-driven reference dictionary written from the property statements,
not from the code.  It judges the *implementation's* observed results.

It insists only on what the statements say and leaves open what they leave
open: the instant now == expire_time, which expired items a write physically
removed, and (when the configuration can evict) which live items were evicted.
Returns None when satisfied, else a description of the violated clause.
"""
import re

from common import Codec, render_sql, render_time

MISSING = object()


def key_canon(k):
    """documented key equality: native numbers by value, text/bytes by content,
    everything else by type and structure"""
    t = type(k)
    if (t is int and -(2 ** 63) <= k <= 2 ** 63 - 1) or t is float:
        return ('num', k)
    if t is str:
        return ('s', k)
    if t is bytes:
        return ('b', k)
    return ('o', t.__name__, repr(k))


class Ref:
    def __init__(self, cfg):
        self.cfg = cfg
        self.codec = Codec(cfg.get('disk', 'pickle'), cfg.get('proto', 5))
        self.items = {}          # canon key -> dict(k, v(rendered), vread, exp, tag)
        self.can_evict = cfg.get('limN', 2 ** 30) < 2 ** 30 and cfg.get('policy', 'lrs') != 'none'
        self.limit_changed = False
        self.depth = 0
        self.snaps = []
        # hit / miss statistics: counted for get / [] / read while enabled (part of the transaction like everything else)
        self.stat_on = bool(cfg.get('stats', 0))
        self.hits = 0
        self.misses = 0
        self.stat_snap = None

    # -- helpers --------------------------------------------------------------
    def find(self, k):
        ck = key_canon(k)
        for c in self.items:
            if c[0] == ck[0] and (c == ck or (c[0] == 'num' and c[1] == ck[1])):
                return c
        return None

    def status(self, c, now, strict_dead_at_boundary):
        """'live' | 'dead' | 'edge' """
        it = self.items[c]
        if it.get('seen_dead') is not None and now >= it['seen_dead'] and not it.get('maybe'):
            # at the open instant now == expiry a look-up already reported this item expired: from then on it IS expired
            return 'dead'
        if it.get('maybe'):
            # possibly evicted by the size limit: present or absent are both acceptable
            return 'edge'
        if it['exp'] is None or now < it['exp']:
            return 'live'
        if it['exp'] < now:
            return 'dead'
        return 'edge'

    def rv(self, v, read=False):
        if read:
            return 'y' + v.hex()
        return self.codec.render_val(v)


def upd(it, new):
    """replace the value of an existing entry; the key first stored keeps its type"""
    k = it['k']
    it.update(new)
    it['k'] = k
    it.pop('maybe', None)
    it.pop('seen_dead', None)


def fmt_flags(val, et, tg, it):
    if et and tg:
        return '(%s,%s,%s)' % (val, render_time(it['exp']), render_sql(it['tag']))
    if et:
        return '(%s,%s)' % (val, render_time(it['exp']))
    if tg:
        return '(%s,%s)' % (val, render_sql(it['tag']))
    return val


def default_flags(et, tg):
    if et and tg:
        return '(D,n,n)'
    if et or tg:
        return '(D,n)'
    return 'D'


def accept(hist, io, scope=None):
    """scope: set of methods this property speaks about (others are followed but not judged)"""
    from props.base import results_of
    ref = Ref(hist['cfg'])
    ops = iter(hist['ops'])
    idx = -1
    for line, ans in io:
        if line.startswith('op ') or line.startswith('lop '):
            op = next(ops)
            res = ans.split(' | ')[0][4:]
            idx += 1
            m = op['m']
            now = op.get('now', 0)
            judge = scope is None or m in scope
            err = step(ref, m, op, res, now, judge)
            if err:
                return 'op #%d %s: %s (got %s)' % (idx, m, err, res[:120])
        elif line == 'state' and (scope is None or 'stats' in scope) and ref.depth == 0:
            # the stored counters (what stats() would return now) must be the look-ups counted so far
            mm = re.match(r'c=-?\d+ z=-?\d+ h=(-?\d+) m=(-?\d+) ', ans)
            if mm and (int(mm.group(1)), int(mm.group(2))) != (ref.hits, ref.misses):
                return 'after op #%d the cache has counted %s hits and %s misses; the look-ups so far were %d hits and %d misses' % (
                    idx, mm.group(1), mm.group(2), ref.hits, ref.misses)
    return None


def step(ref, m, op, res, now, judge):
    items = ref.items
    evictable = ref.can_evict or ref.limit_changed
    if m == 'reset':
        if op.get('key') == 'size_limit':
            ref.limit_changed = True
        return None
    if m == 'tbegin':
        ref.depth += 1
        if ref.depth == 1:
            ref.snaps = [dict((c, dict(v)) for c, v in items.items())]
            ref.stat_snap = (ref.stat_on, ref.hits, ref.misses)
        return None
    if m == 'tend':
        ref.depth -= 1
        return None
    if m == 'traise':
        n = op.get('n', 1)
        if n >= ref.depth and ref.depth > 0:
            ref.items = ref.snaps[0]
            ref.depth = 0
            if ref.stat_snap is not None:
                ref.stat_on, ref.hits, ref.misses = ref.stat_snap
        else:
            ref.depth -= n
        return None
    if res.startswith('!Timeout'):
        return 'Timeout without contention' if judge else None

    if m == 'stats':
        want = '(i%d,i%d)' % (ref.hits, ref.misses)
        err = None
        if judge and res != want and not res.startswith('!'):
            err = 'stats() must report the look-ups counted so far: %d hits and %d misses (%s)' % (ref.hits, ref.misses, want)
        if int(op.get('reset', 0)):
            ref.hits = ref.misses = 0
        ref.stat_on = bool(int(op.get('enable', 1)))
        return err
    if m in ('get', 'getitem', 'read') and ref.stat_on and not res.startswith('!Timeout'):
        # counted from what the call itself reported: a look-up that found the item is a hit, any other a miss
        et_, tg_ = int(op.get('et', 0)), int(op.get('tg', 0))
        miss_ = default_flags(et_, tg_) if m == 'get' else '!KeyError'
        if res == miss_:
            ref.misses += 1
        elif not res.startswith('!'):
            ref.hits += 1

    if m in ('set', 'add'):
        k = op['k']
        c = ref.find(k)
        new = {'k': k, 'v': ref.rv(op['v'], op.get('read')), 'exp': None if op.get('ttl') is None else now + op['ttl'],
               'tag': op.get('tag')}
        if res.startswith('!'):
            # a value that cannot be stored is rejected, nothing changes
            return None
        if m == 'set':
            if res != 'T' and judge:
                return 'set must return True'
            if c is not None:
                upd(items[c], new)
            else:
                items[key_canon(k)] = new
            return None
        st = ref.status(c, now, True) if c is not None else 'absent'
        if st == 'live':
            if res != 'F' and judge and not evictable:
                return 'add on a live key must return False'
            if res == 'T':
                upd(items[c], new)
            return None
        if st == 'edge':
            if res == 'T':
                upd(items[c], new)
            return None
        if res != 'T' and judge:
            return 'add on an absent/expired key must return True'
        if c is not None:
            upd(items[c], new)
        else:
            items[key_canon(k)] = new
        return None

    if m in ('get', 'getitem', 'read', 'contains', 'pop', 'delete', 'delitem', 'touch'):
        k = op['k']
        c = ref.find(k)
        st = ref.status(c, now, True) if c is not None else 'absent'
        et, tg = int(op.get('et', 0)), int(op.get('tg', 0))
        miss = {'get': default_flags(et, tg), 'pop': default_flags(et, tg), 'getitem': '!KeyError',
                'read': '!KeyError', 'contains': 'F', 'delete': 'F', 'delitem': '!KeyError', 'touch': 'F'}[m]
        if st == 'edge' and res == miss and not evictable and c is not None and not items[c].get('maybe') and m in ('get', 'getitem', 'contains'):
            items[c]['seen_dead'] = now
        if st in ('absent', 'dead'):
            if judge and res != miss:
                return 'look-up of an absent or expired key must report a miss'
            if st == 'dead' and m in ('pop', 'delete', 'delitem'):
                pass
            return None
        it = items[c]
        if m in ('get', 'getitem', 'read', 'pop'):
            want_v = it['v']
            if m == 'read' or (m == 'get' and op.get('read')):
                want_v = ('h' + want_v[1:]) if want_v.startswith('y') else want_v
            want = fmt_flags(want_v, et, tg, it) if m in ('get', 'pop') else want_v
            hit = (res == want)
            if not hit and evictable and res != miss and (et or tg) and res.startswith('(' + want_v + ','):
                # after a possible eviction the item may have been re-created (e.g. by incr) with
                # fresh metadata: the value is what the statement pins down
                hit = True
            if not hit and (m == 'read' or (m == 'get' and op.get('read'))) and it['v'].startswith('y'):
                # a bytes value kept inline comes back as bytes, a file-backed one as a handle
                hit = (res == fmt_flags(it['v'], et, tg, it) if m == 'get' else res == it['v'])
                if hit:
                    return None
            if hit and res != want:
                if m == 'pop':
                    del items[c]
                return None
            if not hit and res != miss and judge and not (m in ('read',) and not it['v'].startswith('y')) \
                    and not ((m == 'get' and op.get('read')) and not it['v'].startswith('y')):
                return 'returned value differs from the value stored (want %s)' % want[:80]
            if res == miss and st == 'live' and judge and not evictable:
                return 'a live key was reported missing'
            if m == 'pop' and res != miss:
                del items[c]
            if res == miss and evictable and c in items and st == 'live':
                items[c]['maybe'] = True
            return None
        if m == 'contains':
            if res == 'F' and st == 'live' and judge and not evictable:
                return 'a live key was reported absent'
            if res == 'F' and evictable and st == 'live':
                items[c]['maybe'] = True
            return None
        if m in ('delete', 'delitem'):
            ok = 'T'
            if res != ok and st == 'live' and judge and not evictable:
                return 'delete of a live key must succeed'
            if res == ok:
                del items[c]
            elif evictable and st == 'live':
                items[c]['maybe'] = True
            return None
        if m == 'touch':
            if res == 'F' and st == 'live' and judge and not evictable:
                return 'touch of a live key must succeed'
            if res == 'T':
                it['exp'] = None if op.get('ttl') is None else now + op['ttl']
                it.pop('maybe', None)
                it.pop('seen_dead', None)
            elif evictable and st == 'live':
                it['maybe'] = True
            return None

    if m == 'incr':
        k = op['k']
        c = ref.find(k)
        dead = c is not None and items[c]['exp'] is not None and items[c]['exp'] < now
        if c is None or dead:
            d = op.get('default', 0)
            if d is None:
                if judge and res != '!KeyError':
                    return 'incr of a missing/expired key with default None must raise KeyError'
                return None
            want = 'i%d' % (d + op.get('delta', 1))
            if judge and res != want and not res.startswith('!'):
                return 'incr of a missing/expired key must restart from default'
            if not res.startswith('!'):
                new = {'k': k, 'v': res, 'exp': None, 'tag': None}
                if c is not None:
                    upd(items[c], new)
                else:
                    items[key_canon(k)] = new
            return None
        it = items[c]
        if res.startswith('!'):
            if res == '!KeyError' and evictable:
                items[c]['maybe'] = True
            return None
        if it['v'].startswith('i'):
            want = 'i%d' % (int(it['v'][1:]) + op.get('delta', 1))
            if res != want:
                d = op.get('default', 0)
                if evictable and d is not None and res == 'i%d' % (d + op.get('delta', 1)):
                    it.update({'v': res, 'exp': None, 'tag': None})
                    return None
                return 'incr lost an update (want %s)' % want if judge else None
        it['v'] = res
        return None

    if m == 'clear':
        items.clear()
        return None
    if m == 'evict':
        tag = op.get('tag')
        if tag is not None:
            for c in [c for c, it in items.items() if it['tag'] == tag and type(it['tag']) is type(tag)]:
                del items[c]
        return None
    if m in ('expire', 'cull'):
        for c in [c for c, it in items.items() if it['exp'] is not None and it['exp'] < now]:
            del items[c]
        if m == 'cull':
            ref.limit_changed = ref.limit_changed
        return None
    if m in ('iter', 'riter', 'iterkeys', 'riterkeys'):
        if not judge or res.startswith('!'):
            return None
        got = res[1:-1].split(',') if len(res) > 2 else []
        if len(set(got)) != len(got):
            return 'iteration returned a key twice'
        stored = {ref.codec.render_key(it['k']): c for c, it in items.items()}
        seen = set()
        for g in got:
            c = stored.get(g)
            if c is None and g[:1] in 'if':
                # numerically equal keys are one entry; which spelling the row carries depends
                # on whether an expired row was physically removed before the re-insert
                k = parse_native(g)
                c = ref.find(k) if k is not MISSING else None
            if c is None:
                return 'iteration returned a key that was never stored or was removed (%s)' % g[:60]
            seen.add(c)
        if not evictable:
            for c in items:
                if ref.status(c, now, True) == 'live' and c not in seen:
                    return 'iteration missed a live key (%s)' % ref.codec.render_key(items[c]['k'])[:60]
        return None
    if m == 'len':
        if not judge or res.startswith('!'):
            return None
        n = int(res[1:])
        live = sum(1 for c in items if ref.status(c, now, True) == 'live')
        if n > len(items) or (n < live and not evictable):
            return 'length %d outside [%d live, %d stored]' % (n, live, len(items))
        return None
    if m == 'peekitem':
        return None
    if m in ('push', 'pull', 'peek'):
        return queue_step(ref, m, op, res, now, judge)
    return None


def queue_step(ref, m, op, res, now, judge):
    """queues seen through the dictionary: push stores under the returned key, pull removes"""
    items = ref.items
    if res.startswith('!'):
        return None
    if m == 'push':
        k = parse_native(res)
        if k is MISSING:
            return None
        c = ref.find(k)
        new = {'k': k, 'v': ref.rv(op['v'], op.get('read')), 'exp': None if op.get('ttl') is None else now + op['ttl'],
               'tag': op.get('tag')}
        if c is not None:
            upd(items[c], new)
        else:
            items[key_canon(k)] = new
        return None
    if m == 'pull':
        inner = res
        if res.startswith('((') and (op.get('et') or op.get('tg')):
            inner = res[1:res.index(')') + 1]
        if inner.startswith('('):
            ks = inner[1:inner.index(',')]
            k = parse_native(ks)
            if k is not MISSING:
                c = ref.find(k)
                if c is not None:
                    del items[c]
        # expired heads dropped on the way are removed lazily below
        for c in [c for c, it in items.items() if it['exp'] is not None and it['exp'] < now and False]:
            del items[c]
        return None
    return None


def parse_native(s):
    try:
        if s.startswith('i'):
            return int(s[1:])
        if s.startswith('s'):
            return ''.join(chr(int(x)) for x in s[1:].split('.')) if len(s) > 1 else ''
        if s.startswith('f'):
            import struct
            return struct.unpack('>d', struct.pack('>Q', int(s[1:], 16)))[0]
    except Exception:
        pass
    return MISSING
