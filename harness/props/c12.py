"""C12 — Index is a persistent insertion-ordered dictionary.

Mapping-operation sequences on the real Index (native and composite keys, inline
and file-backed values; update, key/value/item views, == and != with ordered
and unordered mappings that are near misses of the contents, pickle/reopen
handles) against DC.Model.Layers.Index; acceptor:
collections.OrderedDict (keys under the documented key equality)."""
import collections

import layers
from props import base, refdict
from common import Codec

KEYS = ['a', 'b', 1, 1.0, (1, 2), b'a', None, 2 ** 64, 'c']
VALS = [0, 'v', b'y' * 20, None, [1] * 9, 2.5]


def gen_history(rng, length):
    cfg = {'mfs': rng.choice([8, 16]), 'proto': rng.choice([2, 4, 5])}
    ops = []
    mirror = collections.OrderedDict()
    for _ in range(length):
        m = rng.choices(['setitem', 'getitem', 'delitem', 'setdefault', 'pop', 'popitem', 'peekitem', 'len', 'iter', 'riter',
                         'items', 'clear', 'update', 'keys', 'values', 'eq', 'ne', 'pickle', 'reopen'],
                        [8, 6, 3, 3, 3, 2, 2, 2, 2, 1, 2, 0.4, 2, 1, 1, 3, 1.5, 0.5, 0.5])[0]
        op = {'m': m, 'now': 1000}
        if m == 'update':
            op['how'] = rng.choice(['pairs', 'dict'])
            pairs = [(rng.choice(KEYS), rng.choice(VALS)) for _ in range(rng.randint(0, 4))]
            op['pairs'] = list(dict(pairs).items()) if op['how'] == 'dict' else pairs
        if m in ('eq', 'ne'):
            op['ordered'] = rng.choice([0, 1])
            op['pairs'] = None      # filled in from the mirror
        if m in ('setitem', 'getitem', 'delitem', 'setdefault', 'pop'):
            op['k'] = rng.choice(KEYS)
        if m in ('setitem', 'setdefault'):
            op['v'] = rng.choice(VALS)
        if m == 'pop':
            op['hasdefault'] = rng.choice([0, 1])
        if m in ('popitem', 'peekitem'):
            op['last'] = rng.choice([0, 1])
        mirror_step(mirror, op, rng)
        ops.append(op)
    ops.append({'m': 'items', 'now': 1000})
    return {'cls': 'index', 'cfg': cfg, 'ops': ops, 'state_every': 4}


def mirror_step(od, op, rng):
    """keep an OrderedDict in step while generating, so that the operands of == / != are near
    misses of the current contents (equal, re-ordered, one value changed, one key more or fewer)"""
    m, k = op['m'], op.get('k')
    try:
        if m == 'setitem':
            od[k] = op['v']
        elif m == 'delitem':
            del od[k]
        elif m == 'setdefault':
            od.setdefault(k, op['v'])
        elif m == 'pop':
            od.pop(k, None)
        elif m == 'popitem':
            od.popitem(last=bool(op.get('last', 1)))
        elif m == 'clear':
            od.clear()
        elif m == 'update':
            od.update(op['pairs'])
        elif m in ('eq', 'ne'):
            pairs = list(od.items())
            how = rng.choice(['same', 'same', 'reorder', 'value', 'fewer', 'more', 'swapkey'])
            if how == 'reorder' and len(pairs) > 1:
                i = rng.randrange(len(pairs) - 1)
                pairs[i], pairs[i + 1] = pairs[i + 1], pairs[i]
            elif how == 'value' and pairs:
                i = rng.randrange(len(pairs))
                pairs[i] = (pairs[i][0], rng.choice(VALS + [0.0, 'w']))
            elif how == 'fewer' and pairs:
                del pairs[rng.randrange(len(pairs))]
            elif how == 'more':
                pairs.append((rng.choice(['zz', 77, (9,)]), rng.choice(VALS)))
            elif how == 'swapkey' and pairs:
                i = rng.randrange(len(pairs))
                pairs[i] = (rng.choice(['zz', 77, (9,)]), pairs[i][1])
            op['pairs'] = list(dict(pairs).items())
    except KeyError:
        pass


def acceptor(hist, io):
    codec = Codec('pickle', hist['cfg'].get('proto', 5))
    rv, rk = codec.render_val, codec.render_key
    od = collections.OrderedDict()     # canon key -> (key as first stored, value)

    def ck(k):
        c = refdict.key_canon(k)
        for c2 in od:
            if c2[0] == c[0] and (c2 == c or (c[0] == 'num' and c2[1] == c[1])):
                return c2
        return c
    oplines = [l for l, _ in io if l.startswith('lop ')]
    for idx, ((op, res), line) in enumerate(zip(base.results_of(hist, io), oplines)):
        m = op['m']
        k = op.get('k')
        try:
            if m == 'setitem':
                c = ck(k)
                od[c] = (od[c][0] if c in od else base.line_field(line, 'k'), op['v']); want = 'n'
            elif m == 'getitem':
                want = rv(od[ck(k)][1])
            elif m == 'delitem':
                del od[ck(k)]; want = 'n'
            elif m == 'setdefault':
                c = ck(k)
                if c not in od:
                    od[c] = (base.line_field(line, 'k'), op['v'])
                want = rv(od[c][1])
            elif m == 'pop':
                c = ck(k)
                if c in od:
                    want = rv(od.pop(c)[1])
                elif op.get('hasdefault'):
                    want = 'D'
                else:
                    raise KeyError(k)
            elif m == 'popitem':
                c, (kk, v) = od.popitem(last=bool(op.get('last', 1)))
                want = '(%s,%s)' % (kk, rv(v))
            elif m == 'peekitem':
                if not od:
                    raise KeyError()
                c = next(reversed(od)) if op.get('last', 1) else next(iter(od))
                want = '(%s,%s)' % (od[c][0], rv(od[c][1]))
            elif m == 'len':
                want = 'i%d' % len(od)
            elif m == 'iter':
                want = '[' + ','.join(od[c][0] for c in od) + ']'
            elif m == 'riter':
                want = '[' + ','.join(od[c][0] for c in reversed(od)) + ']'
            elif m == 'items':
                want = '[' + ','.join('(%s,%s)' % (od[c][0], rv(od[c][1])) for c in od) + ']'
            elif m == 'clear':
                od.clear(); want = 'n'
            elif m == 'update':
                ktoks = (base.line_field(line, 'ks') or '-').split(';')
                for (kk, vv), tok in zip(op['pairs'], ktoks):
                    c = ck(kk)
                    od[c] = (od[c][0] if c in od else tok, vv)
                want = 'n'
            elif m == 'keys':
                want = '[' + ','.join(od[c][0] for c in od) + ']'
            elif m == 'values':
                want = '[' + ','.join(rv(od[c][1]) for c in od) + ']'
            elif m in ('eq', 'ne'):
                mine = collections.OrderedDict((c, v) for c, (_, v) in od.items())
                other = collections.OrderedDict((refdict.key_canon(kk), vv) for kk, vv in op['pairs'])
                same = (mine == other) if op.get('ordered') else (dict(mine) == dict(other))
                want = 'T' if same == (m == 'eq') else 'F'
            elif m in ('pickle', 'reopen'):
                want = 'n'
            else:
                continue
        except KeyError:
            want = '!KeyError'
        if res != want:
            return 'op #%d %s: Index gave %s, an insertion-ordered dict gives %s' % (idx, m, res[:70], want[:70])
    return None


def run(tier, seed, rng, known, replay):
    if replay:
        return base.replay_file(replay, 'C12', ('result', 'state'), acceptor)
    n = 300 if tier == 'quick' else 4000
    hists = [gen_history(rng, rng.choice([10, 25, 60])) for _ in range(n)]
    r = base.check_histories('C12', hists, ('result', 'state'), acceptor=acceptor, known=known, runner=layers.layer_chunk)
    dist, distinct = base.op_distribution(hists, r['impl_out'])
    return {
        'evaluations': sum(len(h['ops']) for h in hists), 'distinct_nontrivial': distinct,
        'rule': 'seeded Index operation sequences (lengths 10-60) over native and composite keys (1 and 1.0 one key), inline and file-backed values; '
                'distinct = distinct (method, result) pairs',
        'samples': [base.sample(hists[0], r['impl_out'][0])], 'traces': len(hists),
        'dist': dict(dist, histories=len(hists), divergent=r['divergent']),
        'violations': r['violations'], 'known': r['known'],
    }
