"""C12 — Index is a persistent insertion-ordered dictionary.

Mapping-operation sequences on the real Index (native and composite keys, inline
and file-backed values; update, key/value/item views, == and != with ordered
and unordered mappings that are near misses of the contents, pickle/reopen
handles) against DC.Model.Layers.Index; the real results of the calls DC.OSpec
covers are also compared with that Lean ordered dictionary (theorem
irun_refines); Indexes made by FanoutCache.index() and a size limit of 0
included; two or three clients with own handles
on the same keys under the deterministic scheduler, linearized on that model; acceptor:
collections.OrderedDict (keys under the documented key equality)."""
import collections

import layers
from props import base, refdict
from common import Codec

KEYS = ['a', 'b', 1, 1.0, (1, 2), b'a', None, 2 ** 64, 'c']
VALS = [0, 'v', b'y' * 20, None, [1] * 9, 2.5]
UNSTORABLE_EXCLUDED = ()
UNSTORABLE = 'x\ud800'       # text that cannot be stored: rejected with an exception, nothing changes (C01)


def gen_history(rng, length):
    cfg = {'mfs': rng.choice([8, 16]), 'proto': rng.choice([2, 4, 5])}
    cfg['via'] = rng.choice([None, None, 'fanout'])          # the object FanoutCache.deque()/index() hands out
    cfg['limN'] = rng.choice([2 ** 30, 2 ** 30, 0])          # a size limit of 0: still nothing may be evicted
    ops = []
    mirror = collections.OrderedDict()
    for _ in range(length):
        m = rng.choices(['setitem', 'getitem', 'delitem', 'setdefault', 'pop', 'popitem', 'peekitem', 'len', 'iter', 'riter',
                         'items', 'clear', 'update', 'keys', 'values', 'eq', 'ne', 'pickle', 'reopen'],
                        [8, 6, 3, 3, 3, 2, 2, 2, 2, 1, 2, 0.4, 2, 1, 1, 3, 1.5, 0.5, 0.5])[0]
        op = {'m': m, 'now': 1000}
        if m == 'update':
            op['how'] = rng.choice(['pairs', 'dict'])
            pairs = [(rng.choice(KEYS), rng.choice(VALS) if rng.random() > 0.03 else UNSTORABLE) for _ in range(rng.randint(0, 4))]
            op['pairs'] = list(dict(pairs).items()) if op['how'] == 'dict' else pairs
        if m in ('eq', 'ne'):
            op['ordered'] = rng.choice([0, 1])
            op['pairs'] = None      # filled in from the mirror
        if m in ('setitem', 'getitem', 'delitem', 'setdefault', 'pop'):
            op['k'] = rng.choice(KEYS)
        if m in ('setitem', 'setdefault'):
            op['v'] = rng.choice(VALS) if (rng.random() > 0.04 or m in UNSTORABLE_EXCLUDED) else UNSTORABLE
        if m == 'pop':
            op['hasdefault'] = rng.choice([0, 1])
        if m in ('popitem', 'peekitem'):
            op['last'] = rng.choice([0, 1])
        mirror_step(mirror, op, rng)
        ops.append(op)
    ops.append({'m': 'items', 'now': 1000})
    return {'cls': 'index', 'cfg': cfg, 'ops': ops, 'state_every': 4}


def mirror_step(od, op, rng):
    """keep an OrderedDict in step while generating, so that the operands of == / != are near
    misses of the current contents (equal, re-ordered, one value changed, one key more or fewer)"""
    m, k = op['m'], op.get('k')
    try:
        if m == 'setitem':
            if op['v'] != UNSTORABLE:
                od[k] = op['v']
        elif m == 'delitem':
            del od[k]
        elif m == 'setdefault':
            if op['v'] != UNSTORABLE:
                od.setdefault(k, op['v'])
        elif m == 'pop':
            od.pop(k, None)
        elif m == 'popitem':
            od.popitem(last=bool(op.get('last', 1)))
        elif m == 'clear':
            od.clear()
        elif m == 'update':
            for kk, vv in op['pairs']:
                if vv == UNSTORABLE:
                    break
                od[kk] = vv
        elif m in ('eq', 'ne'):
            pairs = list(od.items())
            how = rng.choice(['same', 'same', 'reorder', 'value', 'fewer', 'more', 'swapkey'])
            if how == 'reorder' and len(pairs) > 1:
                i = rng.randrange(len(pairs) - 1)
                pairs[i], pairs[i + 1] = pairs[i + 1], pairs[i]
            elif how == 'value' and pairs:
                i = rng.randrange(len(pairs))
                pairs[i] = (pairs[i][0], rng.choice(VALS + [0.0, 'w']))
            elif how == 'fewer' and pairs:
                del pairs[rng.randrange(len(pairs))]
            elif how == 'more':
                pairs.append((rng.choice(['zz', 77, (9,)]), rng.choice(VALS)))
            elif how == 'swapkey' and pairs:
                i = rng.randrange(len(pairs))
                pairs[i] = (rng.choice(['zz', 77, (9,)]), pairs[i][1])
            op['pairs'] = list(dict(pairs).items())
    except KeyError:
        pass


def acceptor(hist, io):
    codec = Codec('pickle', hist['cfg'].get('proto', 5))
    rv, rk = codec.render_val, codec.render_key
    od = collections.OrderedDict()     # canon key -> (key as first stored, value)

    def ck(k):
        c = refdict.key_canon(k)
        for c2 in od:
            if c2[0] == c[0] and (c2 == c or (c[0] == 'num' and c2[1] == c[1])):
                return c2
        return c
    oplines = [l for l, _ in io if l.startswith('lop ')]
    for idx, ((op, res), line) in enumerate(zip(base.results_of(hist, io), oplines)):
        m = op['m']
        k = op.get('k')
        try:
            if m == 'setitem' and op['v'] == UNSTORABLE:
                want = '!UnicodeEncodeError'
            elif m == 'setdefault' and op['v'] == UNSTORABLE and ck(k) not in od:
                want = '!UnicodeEncodeError'
            elif m == 'setitem':
                c = ck(k)
                od[c] = (od[c][0] if c in od else base.line_field(line, 'k'), op['v']); want = 'n'
            elif m == 'getitem':
                want = rv(od[ck(k)][1])
            elif m == 'delitem':
                del od[ck(k)]; want = 'n'
            elif m == 'setdefault':
                c = ck(k)
                if c not in od:
                    od[c] = (base.line_field(line, 'k'), op['v'])
                want = rv(od[c][1])
            elif m == 'pop':
                c = ck(k)
                if c in od:
                    want = rv(od.pop(c)[1])
                elif op.get('hasdefault'):
                    want = 'D'
                else:
                    raise KeyError(k)
            elif m == 'popitem':
                c, (kk, v) = od.popitem(last=bool(op.get('last', 1)))
                want = '(%s,%s)' % (kk, rv(v))
            elif m == 'peekitem':
                if not od:
                    raise KeyError()
                c = next(reversed(od)) if op.get('last', 1) else next(iter(od))
                want = '(%s,%s)' % (od[c][0], rv(od[c][1]))
            elif m == 'len':
                want = 'i%d' % len(od)
            elif m == 'iter':
                want = '[' + ','.join(od[c][0] for c in od) + ']'
            elif m == 'riter':
                want = '[' + ','.join(od[c][0] for c in reversed(od)) + ']'
            elif m == 'items':
                want = '[' + ','.join('(%s,%s)' % (od[c][0], rv(od[c][1])) for c in od) + ']'
            elif m == 'clear':
                od.clear(); want = 'n'
            elif m == 'update':
                ktoks = (base.line_field(line, 'ks') or '-').split(';')
                want = 'n'
                for (kk, vv), tok in zip(op['pairs'], ktoks):
                    if vv == UNSTORABLE:
                        want = '!UnicodeEncodeError'
                        break
                    c = ck(kk)
                    od[c] = (od[c][0] if c in od else tok, vv)
            elif m == 'keys':
                want = '[' + ','.join(od[c][0] for c in od) + ']'
            elif m == 'values':
                want = '[' + ','.join(rv(od[c][1]) for c in od) + ']'
            elif m in ('eq', 'ne'):
                mine = collections.OrderedDict((c, v) for c, (_, v) in od.items())
                other = collections.OrderedDict((refdict.key_canon(kk), vv) for kk, vv in op['pairs'])
                same = (mine == other) if op.get('ordered') else (dict(mine) == dict(other))
                want = 'T' if same == (m == 'eq') else 'F'
            elif m in ('pickle', 'reopen'):
                want = 'n'
            else:
                continue
        except KeyError:
            want = '!KeyError'
        if res != want:
            return 'op #%d %s: Index gave %s, an insertion-ordered dict gives %s' % (idx, m, res[:70], want[:70])
    return None




def against_lean_spec(hists, impl_out, head):
    """the results of the REAL code against the executable Lean specification (`osop` lines: the same
    fields as the `lop` lines, answered by the reference structure of the refinement theorem).
    -> (number of results compared, [disagreement])"""
    import corr
    lines, index = [], []
    for i, io in enumerate(impl_out):
        for j, (line, ans) in enumerate(io):
            if line.startswith('lcfg '):
                lines.append(line)
                index.append(None)
            elif line.startswith('lop '):
                lines.append(head + ' ' + line[4:])
                index.append((i, j))
    got = corr.run_driver(lines)
    out, compared, seen = [], 0, set()
    for ij, l, g in zip(index, lines, got):
        if ij is None or ij[0] in seen:
            continue
        i, j = ij
        want = impl_out[i][j][1].split(' | ')[0]
        compared += 1
        if g != want:
            seen.add(i)
            nth = sum(1 for (l2, _) in impl_out[i][:j] if l2.startswith('lop '))
            out.append({'history': i, 'op_index': nth, 'line': l, 'impl': want, 'spec': g})
    return compared, out


OSPEC_OPS = {'getitem', 'setitem', 'delitem', 'setdefault', 'pop', 'popitem', 'peekitem', 'len', 'iter', 'riter', 'clear', 'update',
             'items', 'keys', 'values', 'eq', 'ne', 'pickle', 'reopen'}


def spec_history(rng, length):
    """a history of the calls the ordered-dictionary specification DC.OSpec covers (theorem irun_refines)"""
    h = gen_history(rng, length * 2)
    h['ops'] = [op for op in h['ops'] if op['m'] in OSPEC_OPS][:length] + [{'m': 'iter', 'now': 1000}]
    h['state_every'] = 0
    return h


def views_miss_probe():
    """the Lean witnesses DC.Index.items_propagates_miss / eqTo_miss_after_unequal replayed on the real
    Index: a value file removed behind the library's back makes the re-look-up of the views miss; the
    model says KeyError for items / values / == / != (False / True when an unequal pair or a different
    length decides first) while the keys are still listed.  A difference here means the model of the
    views no longer describes the code (the property itself says nothing about damaged directories)."""
    import os
    import shutil
    import tempfile
    import diskcache
    root = os.environ.get('VERIF_SCRATCH') or tempfile.gettempdir()
    d = tempfile.mkdtemp(prefix='ixmiss-', dir=root)
    out = []
    try:
        ix = diskcache.Index(d)
        big = b'F' * 70000
        ix['a'] = 1
        ix['b'] = big
        ix['c'] = 3
        files = [os.path.join(dp, f) for dp, dn, fs in os.walk(d) for f in fs if f.endswith('.val')]
        if len(files) != 1:
            return ['views probe: expected one value file, found %d' % len(files)]
        os.remove(files[0])

        def outcome(fn):
            try:
                return repr(fn())
            except KeyError:
                return '!KeyError'
            except Exception as e:  # noqa
                return '!' + type(e).__name__
        OD = collections.OrderedDict
        table = [
            ('keys', lambda: list(ix.keys()), "['a', 'b', 'c']"),
            ('items', lambda: list(ix.items()), '!KeyError'),
            ('values', lambda: list(ix.values()), '!KeyError'),
            ('== ordered, first pair unequal', lambda: ix == OD([('a', 2), ('b', big), ('c', 3)]), 'False'),
            ('== ordered, first pair equal', lambda: ix == OD([('a', 1), ('b', big), ('c', 3)]), '!KeyError'),
            ('== unordered, first pair equal', lambda: ix == {'a': 1, 'b': big, 'c': 3}, '!KeyError'),
            ('== other length', lambda: ix == {'a': 1}, 'False'),
            ('!= ordered, first pair unequal', lambda: ix != OD([('a', 2), ('b', big), ('c', 3)]), 'True'),
            ('!= ordered, first pair equal', lambda: ix != OD([('a', 1), ('b', big), ('c', 3)]), '!KeyError'),
        ]
        for name, fn, want in table:
            got = outcome(fn)
            if got != want:
                out.append('Index views over a missing value file: %s gives %s, the model (DC.Index.items_propagates_miss, eqTo_miss_after_unequal) says %s' % (name, got, want))
    finally:
        shutil.rmtree(d, ignore_errors=True)
    return out


def conc_case(args):
    """two or three clients, each with its own Index handle on one directory, work on the same one or
    two keys (assignment, setdefault, deletion, pop, popitem, look-up) under the deterministic
    scheduler; acceptor: linearizable on DC.Model.Layers.Index — each operation is atomic; the one
    tolerated anomaly is C05's (a look-up overlapping a write of its key may miss)"""
    import os
    import random
    import sys
    sys.path.insert(0, os.path.dirname(os.path.dirname(os.path.abspath(__file__))))
    import conc
    seed, tier = args
    rng = random.Random(seed)
    cfg = {'mfs': 8, 'proto': 5}
    keys = ['k', 'j']
    big = b'B' * 20
    preset = [{'m': 'setitem', 'now': 1000, 'k': k, 'v': rng.choice(['old', big])} for k in keys if rng.random() < 0.5]

    def op():
        m = rng.choice(['setitem', 'setdefault', 'setdefault', 'delitem', 'pop', 'popitem', 'getitem'])
        o = {'m': m, 'now': 1000}
        if m != 'popitem':
            o['k'] = rng.choice(keys[:1] * 3 + keys[1:])
        if m in ('setitem', 'setdefault'):
            o['v'] = rng.choice(['mine', 'yours', big])
        if m == 'pop':
            o['hasdefault'] = 1
        if m == 'popitem':
            o['last'] = rng.choice([0, 1])
        return o
    n = rng.choice([2, 2, 3])
    programs = {i: [op() for _ in range(rng.randint(1, 2))] for i in range(n)}
    scheds = []
    bound = 16 if tier == 'quick' else 28
    for a in range(n):
        for b in range(n):
            if a != b:
                for k in range(0, bound):
                    scheds.append([a] * k + [b] * 300 + [a] * 300)
    # two preemptions: a runs k steps, b runs j steps, a finishes, b finishes (windows inside a retry loop)
    for k in range(1, 7 if tier == 'quick' else 9):
        for j in range(1, 7 if tier == 'quick' else 9):
            scheds.append([0] * k + [1] * j + [0] * 300 + [1] * 300)
            scheds.append([1] * k + [0] * j + [1] * 300 + [0] * 300)
    for _ in range(6 if tier == 'quick' else 20):
        scheds.append(rng.choices(range(n), k=rng.randint(5, 80)))
    out = []
    for sch in scheds:
        run = conc.run_concurrent_layer('index', cfg, preset, programs, sch)
        why = conc.explain(run, programs, cfg)
        out.append({'why': why, 'steps': run['steps'], 'sched': sch[:90] if why else None})
    return {'seed': seed, 'programs': programs, 'preset': preset, 'results': out}


BIG = b'B' * 20
# minimized past failures run first.  D18 (fixed): setdefault re-added its default after another
# client had popped the first copy — pop and setdefault both returned the value and it was still there
CORPUS_CONC = [
    {'name': 'D18', 'preset': [{'m': 'setitem', 'now': 1000, 'k': 'k', 'v': 'old'}],
     'programs': {0: [{'m': 'pop', 'now': 1000, 'k': 'k', 'hasdefault': 1}],
                  1: [{'m': 'delitem', 'now': 1000, 'k': 'k'}, {'m': 'setdefault', 'now': 1000, 'k': 'k', 'v': BIG}]},
     'schedules': [[1] * k + [0] * 300 + [1] * 300 for k in range(8, 24)]},
]


def corpus_conc():
    import conc
    out = []
    cfg = {'mfs': 8, 'proto': 5}
    for c in CORPUS_CONC:
        for sch in c['schedules']:
            run = conc.run_concurrent_layer('index', cfg, c['preset'], c['programs'], sch)
            why = conc.explain(run, c['programs'], cfg)
            if why:
                out.append({'seed': c['name'], 'preset': c['preset'], 'programs': c['programs'],
                            'results': [{'why': why, 'sched': sch[:90], 'steps': run['steps']}]})
                break
    return out


def run(tier, seed, rng, known, replay):
    if replay:
        return base.replay_file(replay, 'C12', ('result', 'state'), acceptor)
    n = 300 if tier == 'quick' else 4000
    hists = [gen_history(rng, rng.choice([10, 25, 60])) for _ in range(n)]
    r = base.check_histories('C12', hists, ('result', 'state'), acceptor=acceptor, known=known, runner=layers.layer_chunk)
    dist, distinct = base.op_distribution(hists, r['impl_out'])
    from props import surface
    for v_ in surface.constructors()[:2]:
        r['violations'].append({'replay': {'property': 'C12', 'kind': 'surface-probe', 'probe': 'constructors', 'acceptor': v_}, 'found_input': True, 'what': v_})
    for v_ in views_miss_probe()[:2]:
        r['violations'].append({'replay': {'property': 'C12', 'kind': 'correspondence', 'model_part': 'DC.Index.items / eqTo on a missed re-look-up', 'acceptor': v_},
                                'found_input': False, 'what': v_})
    # the real Index against the Lean ordered dictionary (the specification side of irun_refines)
    n_spec = 150 if tier == 'quick' else 2500
    shists = [spec_history(rng, rng.choice([10, 30, 60])) for _ in range(n_spec)]
    rs = base.check_histories('C12', shists, ('result', 'state'), acceptor=acceptor, known=known, runner=layers.layer_chunk)
    compared, bad = against_lean_spec(shists, rs['impl_out'], 'osop')
    r['violations'] = list(r['violations']) + list(rs['violations'])
    for b in bad[:2]:
        h = shists[b['history']]
        what = 'call #%d %s returns %s, the ordered dictionary DC.OSpec returns %s' % (b['op_index'], b['line'][:90], b['impl'][:60], b['spec'][:60])
        r['violations'].append({'replay': {'property': 'C12', 'kind': 'spec-disagreement', 'cls': 'index', 'cfg': h['cfg'],
                                           'ops': base.tag(h['ops'][:b['op_index'] + 1]), 'line': b['line'], 'impl': b['impl'], 'spec': b['spec'],
                                           'acceptor': what, 'spec_part': 'DC.OSpec.step (lean/DC/Model/OSpec.lean); refinement theorem DC.Index.irun_refines'},
                                'found_input': True, 'what': 'property violated on the implementation: ' + what})
    r['divergent'] += rs['divergent']
    from concurrent.futures import ProcessPoolExecutor
    n_cases = 16 if tier == 'quick' else 64
    jobs = [(rng.getrandbits(48), tier) for _ in range(n_cases)]
    with ProcessPoolExecutor(max_workers=16) as ex:
        cases = list(ex.map(conc_case, jobs, chunksize=1))
    cases = corpus_conc() + cases
    conc_runs = sum(len(c['schedules']) for c in CORPUS_CONC)
    for c in cases:
        for x in c['results']:
            conc_runs += 1
            if x['why'] and len(r['violations']) < 3:
                what = 'concurrent Index operations are not atomic: ' + x['why']
                r['violations'].append({'replay': {'property': 'C12', 'kind': 'concurrent-index', 'case_seed': c['seed'],
                                                   'preset': base.tag(c['preset']), 'programs': base.tag(c['programs']), 'schedule': x['sched'],
                                                   'acceptor': x['why']}, 'found_input': True, 'what': what})
    return {
        'evaluations': sum(len(h['ops']) for h in hists) + conc_runs, 'distinct_nontrivial': distinct + n_cases,
        'rule': 'seeded Index operation sequences (lengths 10-60) over native and composite keys (1 and 1.0 one key), inline and file-backed values; scheduled clients with own handles on the same keys (single- and two-preemption schedules + random) linearized on the Lean model; '
                'distinct = distinct (method, result) pairs',
        'samples': [base.sample(hists[0], r['impl_out'][0])], 'traces': len(hists),
        'dist': dict(dist, histories=len(hists), divergent=r['divergent'], concurrent_cases=n_cases, concurrent_runs=conc_runs, spec_histories=n_spec, results_compared_with_lean_spec=compared, spec_disagreements=len(bad)),
        'violations': r['violations'], 'known': r['known'],
    }
