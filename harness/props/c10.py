"""C10 — push/pull/peek form exactly-once FIFO queues per prefix (sequential part).

Histories of push/pull/peek on both sides over prefixes that contain '-' and
extend one another, mixed with ordinary keys, expiring and file-backed items,
compared with DC.Model.Cache (push/pullLoop/peekLoop); the acceptor keeps one
reference deque per prefix."""
import collections

import gen
from props import base, refdict

PREFIXES = [None, 'a', 'a-5', 'a-', 'b', '']       # '' is a prefix like any other, not "no prefix"
ORDINARY = ['a-1', 'a', 'zz', b'a', -3, (1, 2), 'a-5-x']


def queue_history(rng, length, ttl=True):
    cfg = gen.gen_cfg(rng)
    cfg['mfs'] = rng.choice([8, 16])
    vals = gen.values(cfg['mfs'])
    now = 1000
    ops = []
    for _ in range(length):
        now += rng.choice([0, 0, 1, 2])
        r = rng.random()
        if r < 0.4:
            ops.append({'m': 'push', 'now': now, 'v': rng.choice(vals), 'prefix': rng.choice(PREFIXES),
                        'side': rng.choice(['back', 'back', 'front']),
                        'ttl': rng.choice([None, None, None, 2, 0, -1, 50]) if ttl else None, 'tag': rng.choice([None, 't'])})
        elif r < 0.65:
            ops.append({'m': 'pull', 'now': now, 'prefix': rng.choice(PREFIXES), 'side': rng.choice(['front', 'front', 'back']),
                        'et': rng.choice([0, 0, 1]), 'tg': rng.choice([0, 0, 1])})
        elif r < 0.8:
            ops.append({'m': 'peek', 'now': now, 'prefix': rng.choice(PREFIXES), 'side': rng.choice(['front', 'back']),
                        'et': rng.choice([0, 0, 1]), 'tg': rng.choice([0, 0, 1])})
        elif r < 0.9:
            ops.append({'m': 'set', 'now': now, 'k': rng.choice(ORDINARY), 'v': rng.choice(vals), 'ttl': None, 'tag': None})
        elif r < 0.95:
            ops.append({'m': 'get', 'now': now, 'k': rng.choice(ORDINARY)})
        else:
            ops.append({'m': rng.choice(['len', 'iterkeys', 'delete']), 'now': now, 'k': rng.choice(ORDINARY)})
    return {'cfg': cfg, 'ops': ops, 'state_every': 5}


def acceptor(hist, io):
    """one collections.deque per prefix; expired items are dropped when they reach an end"""
    codec = refdict.Ref(hist['cfg']).codec
    qs = collections.defaultdict(collections.deque)      # prefix -> deque of (key, value, exp, tag)
    ordinary = {}
    untracked = set()
    for idx, (op, res) in enumerate(base.results_of(hist, io)):
        m = op['m']
        now = op.get('now', 0)
        if res.startswith('!'):
            continue
        if m == 'push':
            q = qs[op.get('prefix')]
            item = [res, refdict.Ref.rv(refdict.Ref(hist['cfg']), op['v'], op.get('read')),
                    None if op.get('ttl') is None else now + op['ttl'], op.get('tag')]
            for it in list(q):
                if it[0] == res:
                    if it[2] is not None and it[2] <= now:
                        q.remove(it)       # an expired item that was physically removed; its key may be reused
                    else:
                        return 'op #%d push returned key %s which is already queued' % (idx, res[:40])
            pfx = op.get('prefix')
            if pfx is not None and not res.startswith('s' + '.'.join(str(ord(c)) for c in pfx + '-')):
                return 'op #%d push(prefix=%r) returned a key of another queue: %s' % (idx, pfx, res[:60])
            (q.append if op.get('side', 'back') == 'back' else q.appendleft)(item)
        elif m in ('pull', 'peek'):
            q = qs[op.get('prefix')]
            front = op.get('side', 'front') == 'front'
            # drop expired ends (the instant now == exp is open: accept either)
            def end():
                return q[0] if front else q[-1]
            while q and end()[2] is not None and end()[2] < now:
                (q.popleft if front else q.pop)()
            et, tg = int(op.get('et', 0)), int(op.get('tg', 0))
            if not q:
                want = refdict.default_flags(et, tg).replace('D', 'D')
                if res != want and not (op.get('prefix') is None):
                    return 'op #%d %s on an empty queue returned %s' % (idx, m, res[:60])
                continue
            it = end()
            if op.get('prefix') is None:
                # ordinary integer keys inside the integer queue range are by definition members: not judged
                if m == 'pull' and res.startswith('('):
                    key = res.split(',')[0].lstrip('(')
                    for x in list(q):
                        if x[0] == key:
                            q.remove(x)
                continue
            want = refdict.fmt_flags('(%s,%s)' % (it[0], it[1]), et, tg, {'exp': it[2], 'tag': it[3]})
            if res != want:
                if it[2] is not None and it[2] == now:
                    continue
                return 'op #%d %s(prefix=%r, side=%s) returned %s, the queue head is %s' % (
                    idx, m, op.get('prefix'), op.get('side'), res[:70], want[:70])
            if m == 'pull':
                (q.popleft if front else q.pop)()
        elif m == 'clear':
            qs.clear()
            ordinary.clear()
        elif m == 'evict':
            for q in qs.values():
                for it in [it for it in q if op.get('tag') is not None and it[3] == op.get('tag')]:
                    q.remove(it)
        elif m in ('expire', 'cull'):
            for q in qs.values():
                for it in [it for it in q if it[2] is not None and it[2] < now]:
                    q.remove(it)
        elif m == 'set':
            if op.get('ttl') is not None or op.get('tag') is not None:
                ordinary.pop(refdict.key_canon(op['k']), None)
                untracked.add(refdict.key_canon(op['k']))      # expiring / tagged ordinary items: judged by the specification run
            else:
                untracked.discard(refdict.key_canon(op['k']))
                ordinary[refdict.key_canon(op['k'])] = codec.render_val(op['v'])
        elif m in ('delete', 'delitem', 'pop'):
            ordinary.pop(refdict.key_canon(op['k']), None)
        elif m in ('add', 'incr', 'touch'):
            # conditional writes on ordinary keys: judged by the specification run (qsop), not tracked here
            ordinary.pop(refdict.key_canon(op['k']), None)
            untracked.add(refdict.key_canon(op['k']))
        elif m == 'get':
            want = ordinary.get(refdict.key_canon(op['k']), 'D')
            if res != want and refdict.key_canon(op['k']) not in untracked:
                return 'op #%d ordinary key %r changed by queue operations: got %s want %s' % (idx, op['k'], res[:50], want[:50])
    return None


# ---------------------------------------------------------------------------
# concurrent producers and consumers under the deterministic scheduler

def conc_case(args):
    import os
    import random
    import sys
    sys.path.insert(0, os.path.dirname(os.path.dirname(os.path.abspath(__file__))))
    import conc
    seed, tier = args
    rng = random.Random(seed)
    cfg = {'mfs': 8, 'policy': rng.choice(['none', 'lrs']), 'cull': 10, 'stats': 0}
    pfx = rng.choice([None, 'q'])
    preset = [{'m': 'push', 'now': 1000, 'v': rng.choice(['p0', b'P' * 20]), 'prefix': pfx, 'ttl': None, 'tag': None}
              for _ in range(rng.randint(0, 2))]
    n_clients = rng.choice([2, 2, 3])

    def op():
        m = rng.choice(['push', 'pull', 'pull', 'peek'])
        o = {'m': m, 'now': 1000, 'prefix': pfx}
        if m == 'push':
            o.update(v=rng.choice(['x%d' % rng.randrange(100), b'F' * 21]), side=rng.choice(['back', 'back', 'front']), ttl=None, tag=None)
        else:
            o['side'] = rng.choice(['front', 'front', 'back'])
        return o
    programs = {c: [op() for _ in range(rng.randint(1, 2))] for c in range(n_clients)}
    shared = rng.random() < 0.4
    bound, n_rand = (14, 4) if tier == 'quick' else (24, 12)
    scheds = []
    if n_clients == 2:
        for a, b in ((0, 1), (1, 0)):
            for k in range(bound):
                scheds.append([a] * k + [b] * 400 + [a] * 400)
    for _ in range(n_rand + (6 if n_clients == 3 else 0)):
        scheds.append(rng.choices(range(n_clients), k=rng.randint(5, 60)))
    out = []
    for sch in scheds:
        run = conc.run_concurrent(cfg, preset, programs, sch, shared=shared)
        why = conc.explain(run, programs, cfg)
        out.append({'why': why, 'steps': run['steps'], 'sched': sch[:80] if why else None,
                    'res': {c: [x[1] for x in l] for c, l in run['lines'].items()} if why else None})
    return {'seed': seed, 'programs': programs, 'preset': preset, 'shared': shared, 'results': out}


def exhaustive_small(n_ops):
    """every sequence of n_ops queue calls over prefixes that extend one another (None, 'a', 'a-5',
    'a-5-1'), both sides, followed by draining every queue from the front"""
    import itertools
    prefixes = [None, 'a', 'a-5', '']
    alpha = []
    for pf in prefixes:
        alpha.append({'m': 'push', 'prefix': pf, 'side': 'back', 'v': 'x', 'ttl': None, 'tag': None})
        alpha.append({'m': 'push', 'prefix': pf, 'side': 'front', 'v': 'y', 'ttl': None, 'tag': None})
        alpha.append({'m': 'pull', 'prefix': pf, 'side': 'front'})
        alpha.append({'m': 'pull', 'prefix': pf, 'side': 'back'})
    alpha.append({'m': 'peek', 'prefix': 'a', 'side': 'front'})
    alpha.append({'m': 'set', 'k': 'a-7', 'v': 'ordinary', 'ttl': None, 'tag': None})
    hists = []
    for combo in itertools.product(range(len(alpha)), repeat=n_ops):
        ops = []
        for j, i in enumerate(combo):
            op = dict(alpha[i], now=1000)
            if op['m'] == 'push':
                op['v'] = '%s%d' % (op['v'], j)
            ops.append(op)
        for pf in prefixes + ['a-5-1']:
            for _ in range(2):
                ops.append({'m': 'pull', 'now': 1000, 'prefix': pf, 'side': 'front'})
        ops.append({'m': 'len', 'now': 1000})
        hists.append({'cfg': {'mfs': 8, 'policy': 'lrs', 'cull': 10, 'stats': 0, 'proto': 5, 'disk': 'pickle',
                              'limN': 2 ** 30, 'limD': 1, 'tagidx': 0}, 'ops': ops, 'state_every': 0})
    return hists


QSPEC_ORDINARY = ['a-1', 'zz', b'a', (1, 2), 'a-5-x', 'a-']          # none has the form of a queue key


def qspec_history(rng, length):
    """a history inside the regime of the Lean theorem DC.Cache.qrun_refines: push / pull / peek on
    any prefix and side mixed with set / add / touch / incr / get / in / pop / del / delete on ordinary keys and the bulk
    removals; policy none; either cull_limit 0 (then pushed items may expire) or no ttl on pushes"""
    cfg = gen.gen_cfg(rng)
    cfg['mfs'] = rng.choice([8, 16])
    cfg['policy'] = 'none'
    cfg['cull'] = rng.choice([0, 0, 10])
    ttl_ok = cfg['cull'] == 0
    vals = gen.values(cfg['mfs'])
    now = 1000
    ops = []
    for _ in range(length):
        now += rng.choice([0, 0, 1, 2])
        r = rng.random()
        if r < 0.4:
            ops.append({'m': 'push', 'now': now, 'v': rng.choice(vals), 'prefix': rng.choice(PREFIXES),
                        'side': rng.choice(['back', 'back', 'front']),
                        'ttl': rng.choice([None, None, 2, 0, -1, 50]) if ttl_ok else None, 'tag': rng.choice([None, 't'])})
        elif r < 0.62:
            ops.append({'m': 'pull', 'now': now, 'prefix': rng.choice(PREFIXES), 'side': rng.choice(['front', 'front', 'back']),
                        'et': rng.choice([0, 0, 1]), 'tg': rng.choice([0, 0, 1])})
        elif r < 0.76:
            ops.append({'m': 'peek', 'now': now, 'prefix': rng.choice(PREFIXES), 'side': rng.choice(['front', 'back']),
                        'et': rng.choice([0, 0, 1]), 'tg': rng.choice([0, 0, 1])})
        elif r < 0.84:
            ops.append({'m': 'set', 'now': now, 'k': rng.choice(QSPEC_ORDINARY), 'v': rng.choice(vals),
                        'ttl': rng.choice([None, None, 3]), 'tag': rng.choice([None, 't'])})
        elif r < 0.88:
            m = rng.choice(['add', 'touch', 'incr'])
            if m == 'add':
                ops.append({'m': 'add', 'now': now, 'k': rng.choice(QSPEC_ORDINARY), 'v': rng.choice(vals), 'ttl': rng.choice([None, 3]), 'tag': None})
            elif m == 'touch':
                ops.append({'m': 'touch', 'now': now, 'k': rng.choice(QSPEC_ORDINARY), 'ttl': rng.choice([None, 5])})
            else:
                ops.append({'m': 'incr', 'now': now, 'k': rng.choice(['cnt', 'cnt-2']), 'delta': rng.choice([1, -2]), 'default': rng.choice([0, 0, None])})
        elif r < 0.95:
            m = rng.choice(['get', 'contains', 'pop', 'delitem', 'delete'])
            ops.append({'m': m, 'now': now, 'k': rng.choice(QSPEC_ORDINARY + ['cnt'])})
        else:
            m = rng.choice(['expire', 'evict', 'cull', 'clear'] if rng.random() < 0.8 else ['clear'])
            op = {'m': m, 'now': now}
            if m == 'evict':
                op['tag'] = 't'
            ops.append(op)
    return {'cfg': cfg, 'ops': ops, 'state_every': 0}


def run(tier, seed, rng, known, replay):
    if replay:
        return base.replay_file(replay, 'C10', ('result', 'state'), acceptor)
    n, m = (200, 20) if tier == 'quick' else (3000, 300)
    hists = exhaustive_small(2 if tier == 'quick' else 3) + [queue_history(rng, rng.choice([20, 50])) for _ in range(n)]
    hists += [queue_history(rng, 250) for _ in range(m)]
    r = base.check_histories('C10', hists, ('result', 'state'), acceptor=acceptor, known=known)
    dist, distinct = base.op_distribution(hists, r['impl_out'])
    # the real cache against the Lean queue specification DC.QSpec (the specification side of qrun_refines_partial)
    n_spec = 150 if tier == 'quick' else 2500
    shists = [qspec_history(rng, rng.choice([12, 30, 80])) for _ in range(n_spec)]
    rs = base.check_histories('C10', shists, ('result', 'state'), acceptor=acceptor, known=known)
    compared, bad = base.against_lean_spec(rs['impl_out'], 'qsop', cfg_head='cfg', undetermined=('clear', 'evict', 'expire', 'cull'))
    for v_ in rs['violations']:
        if len(r['violations']) < 4:
            r['violations'].append(v_)
    for b in bad[:2]:
        h = shists[b['history']]
        what = 'call #%d %s returns %s, the queue specification DC.QSpec returns %s' % (b['op_index'], b['line'][:90], b['impl'][:60], b['spec'][:60])
        r['violations'].append({'replay': {'property': 'C10', 'kind': 'spec-disagreement', 'cfg': h['cfg'], 'ops': base.tag(h['ops'][:b['op_index'] + 1]),
                                           'line': b['line'], 'impl': b['impl'], 'spec': b['spec'], 'acceptor': what,
                                           'spec_part': 'DC.QSpec.step (lean/DC/Model/QSpec.lean); refinement theorem DC.Cache.qrun_refines'},
                                'found_input': True, 'what': 'property violated on the implementation: ' + what})
    r['known'] = list(r['known']) + [k for k in rs['known'] if k not in r['known']]
    hists = hists + shists
    dist = dict(dist, spec_histories=len(shists), spec_results_compared=compared, spec_disagreements=len(bad))
    # exactly-once under concurrent producers / consumers
    from concurrent.futures import ProcessPoolExecutor
    n_cases = 32 if tier == 'quick' else 128
    seeds = [rng.getrandbits(48) for _ in range(n_cases)]
    with ProcessPoolExecutor(max_workers=16) as ex:
        cases = list(ex.map(conc_case, [(s, tier) for s in seeds], chunksize=1))
    conc_runs = 0
    for c in cases:
        for x in c['results']:
            conc_runs += 1
            if x['why'] and len(r['violations']) < 3:
                r['violations'].append({'replay': {'property': 'C10', 'kind': 'concurrent-queue', 'case_seed': c['seed'], 'shared_object': c['shared'],
                                                  'preset': base.tag(c['preset']), 'programs': base.tag(c['programs']), 'schedule': x['sched'],
                                                  'results': x['res'], 'acceptor': x['why']},
                                       'found_input': True, 'what': 'queue not exactly-once / not linearizable: ' + x['why']})
    dist = dict(dist, concurrent_cases=len(cases), concurrent_runs=conc_runs)
    return {
        'evaluations': sum(len(h['ops']) for h in hists) + conc_runs, 'distinct_nontrivial': distinct + len(cases),
        'rule': "seeded histories of push/pull/peek on both sides over prefixes {None,'a','a-5','a-','b'} mixed with ordinary keys "
                "('a-1','a-5-x',...), expiring and file-backed items; plus 2-3 concurrent producers/consumers (push/pull/peek, both sides) under the "
                "deterministic scheduler (all one-preemption schedules up to the bound + random), each run explained on the Lean model; "
                "distinct = distinct (method, result, trace) triples + concurrent cases",
        'samples': [base.sample(hists[0], r['impl_out'][0])],
        'traces': len(hists),
        'dist': dict(dist, histories=len(hists), divergent=r['divergent'], timing=r['stats']),
        'violations': r['violations'], 'known': r['known'],
    }
