"""C09 — eviction starts only at the size limit and follows the configured policy order.

Histories of writes and reads over sized (file-backed) values with a size limit
just above the empty database, per policy x cull_limit, expired items mixed in,
compared with DC.Model.Cache (`cullW`, `cull`); the acceptor re-derives the
eviction rule from the observed table states.  A systematic family (cull_limit c,
k expired items with k around c, cache past the limit, one write) runs first.
Judged directly on consecutive states: at most cull_limit rows per write, victims
in policy order, no eviction while the volume left after the expired rows are
gone is below the limit, a write or (LRU/LFU) a read refreshes the item."""
import gen
from props import base, refdict

SCOPE = {'set', 'add', 'get', 'getitem', 'incr', 'touch', 'pop', 'delete', 'cull', 'expire', 'len', 'iter', 'reset',
         'volume', 'contains'}


def evict_history(rng, length):
    cfg = gen.gen_cfg(rng, 'evict')
    cfg['cull'] = rng.choice([0, 1, 2, 10])
    cfg['policy'] = rng.choice(['lrs', 'lru', 'lfu', 'none'])
    h = gen.gen_history(rng, length, 'noblocks', cfg)
    h['ops'] = [op for op in h['ops'] if op['m'] in SCOPE]
    return h


def limit_histories():
    """systematic: a cache filled past its size limit with n file-backed items of which k have
    expired, then ONE write — for every cull_limit c in {1,2,3}, k in 0..c+1, policy: the write may
    remove at most c items, expired ones first, then the policy's oldest"""
    hists = []
    big = b'V' * 60
    for policy in ('lrs', 'lru', 'lfu'):
        for c in (1, 2, 3):
            for k in range(0, c + 2):
                for limit_extra in (0, 100):
                    n = 8
                    ops = [{'m': 'reset', 'now': 1000, 'key': 'cull_limit', 'value': 0}]
                    for i in range(n):
                        ops.append({'m': 'set', 'now': 1000 + i, 'k': 'k%d' % i, 'v': big, 'ttl': (3 if i >= n - k else None), 'tag': None})
                    # read two of the oldest so that LRU / LFU orders differ from the stored order
                    ops.append({'m': 'get', 'now': 1020, 'k': 'k0'})
                    ops.append({'m': 'get', 'now': 1021, 'k': 'k1'})
                    ops.append({'m': 'get', 'now': 1022, 'k': 'k0'})
                    ops.append({'m': 'reset', 'now': 1030, 'key': 'cull_limit', 'value': c})
                    ops.append({'m': 'set', 'now': 1030, 'k': 'new', 'v': big, 'ttl': None, 'tag': None})
                    ops.append({'m': 'len', 'now': 1030})
                    ops.append({'m': 'set', 'now': 1031, 'k': 'new2', 'v': big, 'ttl': None, 'tag': None})
                    ops.append({'m': 'iter', 'now': 1031})
                    hists.append({'cfg': {'mfs': 8, 'policy': policy, 'cull': 10, 'stats': 0, 'proto': 5, 'disk': 'pickle',
                                          'limN': 32768 + limit_extra, 'limD': 1, 'tagidx': 0},
                                  'ops': ops, 'state_every': 1})
    return hists


def parse_rows(state):
    """rows of a state digest -> list of dicts"""
    body = state.split(' rows=', 1)[1].split(' files=')[0]
    rows = []
    if not body:
        return rows
    for r in body.split(';'):
        f = r.split(':')
        rows.append({'rowid': int(f[0]), 'key': f[1], 'store': int(f[3]), 'exp': None if f[4] == 'n' else int(f[4]),
                     'acc': int(f[5]), 'accn': int(f[6]), 'size': int(f[8])})
    return rows


def acceptor(hist, io):
    """policy order and the limit, judged on consecutive observed states"""
    cfg = hist['cfg']
    pol = cfg.get('policy', 'lrs')
    prev = None
    limit_known = True
    cull = cfg.get('cull', 10)
    limit = cfg.get('limN', 2 ** 30)
    lines = list(io)
    for j, (line, ans) in enumerate(lines):
        if line.startswith('op '):
            f = dict(t.split('=', 1) for t in line.split(' ')[1:] if '=' in t)
            m = f.get('m')
            if m == 'reset':
                if f.get('key') == 'cull_limit':
                    cull = int(f['value'])
                if f.get('key') == 'size_limit':
                    limit = int(f['value'])
            if j + 1 < len(lines) and lines[j + 1][0] == 'state' and prev is not None and m in ('set', 'add', 'incr'):
                cur = parse_rows(lines[j + 1][1])
                now = int(f.get('now', 0))
                before = {r['rowid']: r for r in prev}
                after = {r['rowid'] for r in cur}
                gone = [r for rid, r in before.items() if rid not in after]
                # the row being written takes its new expiry first; if that is already in the
                # past the same write's lazy cull may remove it: not an eviction
                wk = f.get('k', '')
                gone = [r for r in gone if not (r['key'] == wk or (wk[:1] == 'o' and r['key'] == 'y' + wk[1:])
                                                or (wk[:1] in 'if' and r['key'][:1] in 'if'))]
                # the written key's own row may have been replaced in place (same rowid): not "gone"
                victims = [r for r in gone if not (r['exp'] is not None and r['exp'] < now)]
                if len(gone) > cull:
                    return 'one write removed %d items, cull_limit is %d' % (len(gone), cull)
                if victims:
                    if pol == 'none':
                        return "policy 'none' evicted an unexpired item (rowid %d) at %s" % (victims[0]['rowid'], line[:120])
                    env = f.get('env', '-')
                    if env != '-':
                        # the policy step may run only if the cache is at its limit AFTER the expired rows of this
                        # write are gone: volume then = database pages (observed) + sizes of the rows that are left
                        # (those still there now + the victims).  A row inserted and evicted by the same write is in
                        # neither state: bound it by the value written.
                        z_before = sum(r['size'] for r in prev)
                        z_after = sum(r['size'] for r in cur)
                        all_gone = [r for rid, r in before.items() if rid not in after]
                        added = z_after - z_before + sum(r['size'] for r in all_gone)
                        vhex = f.get('v', '')
                        written = len(vhex) // 2 if vhex[:1] in 'yo' else (len(vhex.split('.')) * 4 if vhex[:1] == 's' else 64)
                        slack = (0 if added > 0 else written) + len(f.get('vp', '')) // 2
                        evicted = sum(r['size'] for r in all_gone if not (r['exp'] is not None and r['exp'] < now))
                        vol = int(env.split(',')[0]) + z_after + evicted + slack
                        if vol < limit:
                            return 'eviction below the size limit (volume after removing the expired items <= %d < %d) at %s: victims %s' % (
                                vol, limit, line[:100], [(v['rowid'], v['exp']) for v in victims])
                    keyf = {'lrs': 'store', 'lru': 'acc', 'lfu': 'accn'}[pol]
                    # survivors that existed before the write with an unchanged policy key
                    for v in victims:
                        for s in cur:
                            b = before.get(s['rowid'])
                            if b is not None and b[keyf] == s[keyf] and s[keyf] < v[keyf]:
                                return 'policy %s evicted rowid %d (%s=%d) while rowid %d (%s=%d) survived' % (
                                    pol, v['rowid'], keyf, v[keyf], s['rowid'], keyf, s[keyf])
            # a write of a key makes it the most recently used one (LRU orders by "stored or read longest ago")
            if j + 1 < len(lines) and lines[j + 1][0] == 'state' and prev is not None and m in ('set', 'add', 'incr') and pol == 'lru':
                res = ans.split(' | ')[0][4:]
                wk = f.get('k', '')
                dbk = 'y' + wk[1:] if wk[:1] == 'o' else wk
                a = [r for r in parse_rows(lines[j + 1][1]) if r['key'] == dbk]
                now = int(f.get('now', 0))
                stored = res in ('T',) or (m == 'incr' and res[:1] == 'i')
                if stored and len(a) == 1 and a[0]['store'] == now and a[0]['acc'] != now and m != 'incr':
                    return 'a write at time %d did not make the item the most recently used one (access time stays %d): %s' % (
                        now, a[0]['acc'], line[:100])
            # incr / decr of an existing, live item stores a new value AND uses the item: it must move to the young end of
            # every policy's order (store time for least-recently-stored, access time for LRU, one more use for LFU)
            if j + 1 < len(lines) and lines[j + 1][0] == 'state' and prev is not None and m == 'incr' and pol in ('lrs', 'lru', 'lfu'):
                res = ans.split(' | ')[0][4:]
                wk = f.get('k', '')
                dbk = 'y' + wk[1:] if wk[:1] == 'o' else wk
                b = [r for r in prev if r['key'] == dbk]
                a = [r for r in parse_rows(lines[j + 1][1]) if r['key'] == dbk]
                now = int(f.get('now', 0))
                if res[:1] == 'i' and len(a) == 1 and len(b) == 1 and a[0]['rowid'] == b[0]['rowid'] and not (b[0]['exp'] is not None and b[0]['exp'] <= now):
                    if pol == 'lrs' and a[0]['store'] != now:
                        return 'incr of an existing item at time %d left its store time at %d (least-recently-stored orders by it): %s' % (now, a[0]['store'], line[:100])
                    if pol == 'lru' and a[0]['acc'] != now:
                        return 'incr of an existing item at time %d left its access time at %d (least-recently-used orders by it): %s' % (now, a[0]['acc'], line[:100])
                    if pol == 'lfu' and a[0]['accn'] != b[0]['accn'] + 1:
                        return 'incr of an existing item was not counted as a use (access count %d -> %d, least-frequently-used orders by it): %s' % (
                            b[0]['accn'], a[0]['accn'], line[:100])
            # a read that finds the item refreshes what the policy orders by (independently of the
            # table's own bookkeeping being used above): access time for LRU, access count for LFU
            if j + 1 < len(lines) and lines[j + 1][0] == 'state' and prev is not None and m in ('get', 'getitem') \
                    and pol in ('lru', 'lfu'):
                res = ans.split(' | ')[0][4:]
                hit = not (res == 'D' or res.startswith('(D') or res.startswith('!'))
                wk = f.get('k', '')
                dbk = 'y' + wk[1:] if wk[:1] == 'o' else wk
                b = [r for r in prev if r['key'] == dbk]
                a = [r for r in parse_rows(lines[j + 1][1]) if r['key'] == dbk]
                now = int(f.get('now', 0))
                if hit and len(a) == 1 and len(b) == 1 and a[0]['rowid'] == b[0]['rowid']:
                    if pol == 'lru' and a[0]['acc'] != now:
                        return 'a read at time %d did not refresh the item for the least-recently-used order (access time stays %d): %s' % (
                            now, a[0]['acc'], line[:100])
                    if pol == 'lfu' and a[0]['accn'] != b[0]['accn'] + 1:
                        return 'a read was not counted for the least-frequently-used order (access count %d -> %d): %s' % (
                            b[0]['accn'], a[0]['accn'], line[:100])
        if line == 'state':
            prev = parse_rows(ans)
    return refdict.accept(hist, io, scope=SCOPE)


def cull_boundary_probe():
    """cull() "continues until the cache is no larger than its size limit": with the limit set EXACTLY to
    the current volume it removes nothing and returns 0; one byte lower it removes something and ends at or
    below the limit (the model has the same boundary: CullLoss.started / stopped)"""
    import os
    import shutil
    import tempfile
    import diskcache
    root = os.environ.get('VERIF_SCRATCH') or tempfile.gettempdir()
    bad = []
    for policy in ('least-recently-stored', 'least-recently-used', 'least-frequently-used'):
        d = tempfile.mkdtemp(prefix='cullb-', dir=root)
        try:
            c = diskcache.Cache(d, disk_min_file_size=8, eviction_policy=policy, cull_limit=0)
            for i in range(25):
                c.set('k%d' % i, b'V' * 3000)
            v = c.volume()
            c.reset('size_limit', v)
            n0, left0 = c.cull(), len(c)
            if (n0, left0) != (0, 25):
                bad.append('%s: cull() with size_limit == volume (%d) removed %d items (%d left); the cache was no larger than its limit' % (policy, v, n0, left0))
            c.reset('size_limit', v - 1)
            n1 = c.cull()
            if n1 < 1 or n1 != 25 - len(c) or (len(c) and c.volume() > v - 1):
                bad.append('%s: cull() with size_limit == volume - 1 returned %d, %d items left, volume %d' % (policy, n1, len(c), c.volume()))
            c.close()
        except Exception as e:  # noqa
            bad.append('%s: cull-boundary probe raised %s: %s' % (policy, type(e).__name__, str(e)[:100]))
        finally:
            shutil.rmtree(d, ignore_errors=True)
    return bad


def lfu_witness_probe():
    """the Lean witness DC.Cache.set_evicts_itself_lfu (and exEv_outs) replayed on the real cache:
    least-frequently-used, cull_limit 1, cache at its limit, the resident item read once - a new item is
    the least frequently used one, so `set` returns True and the item is gone at once while the old one
    stays.  A difference means the model of `_cull` no longer describes the code."""
    import os
    import shutil
    import tempfile
    import diskcache
    root = os.environ.get('VERIF_SCRATCH') or tempfile.gettempdir()
    d = tempfile.mkdtemp(prefix='lfuwit-', dir=root)
    try:
        c = diskcache.Cache(d, eviction_policy='least-frequently-used', cull_limit=1)
        got = [c.set('a', 1), c.get('a')]
        c.reset('size_limit', 1)          # from now on the cache is at its limit
        got += [c.set('b', 2), c.get('b'), c.get('a'), len(c)]
        c.close()
        want = [True, 1, True, None, 1, 1]
        if got != want:
            return ['the Lean witness set_evicts_itself_lfu replayed on the real cache gives %r, the model gives %r' % (got, want)]
        return []
    finally:
        shutil.rmtree(d, ignore_errors=True)


def run(tier, seed, rng, known, replay):
    if replay:
        return base.replay_file(replay, 'C09', ('result', 'state'), acceptor)
    n = 240 if tier == 'quick' else 3000
    hists = limit_histories() + [evict_history(rng, rng.choice([30, 60])) for _ in range(n)]
    for h in hists:
        h['state_every'] = 1
    r = base.check_histories('C09', hists, ('result', 'state'), acceptor=acceptor, known=known)
    for v_ in cull_boundary_probe()[:2]:
        r['violations'].append({'replay': {'property': 'C09', 'kind': 'cull-boundary-probe', 'acceptor': v_}, 'found_input': True, 'what': v_})
    for v_ in lfu_witness_probe():
        r['violations'].append({'replay': {'property': 'C09', 'kind': 'correspondence', 'model_part': 'DC.Cache.cullW (witness set_evicts_itself_lfu)', 'acceptor': v_},
                                'found_input': False, 'what': v_})
    dist, distinct = base.op_distribution(hists, r['impl_out'])
    return {
        'evaluations': sum(len(h['ops']) for h in hists), 'distinct_nontrivial': distinct,
        'rule': 'seeded histories of writes/reads over sized values with size_limit = empty-database size + {0,40,100,300,1000} bytes, '
                'policy x cull_limit in {0,1,2,10}, expired items mixed in, limit and cull_limit changed by reset(); '
                'distinct = distinct (method, result, trace) triples; dist.actions counts delPolicy/delExpired rounds',
        'samples': [base.sample(hists[0], r['impl_out'][0])],
        'traces': len(hists),
        'dist': dict(dist, histories=len(hists), divergent=r['divergent'], timing=r['stats']),
        'violations': r['violations'], 'known': r['known'],
    }
