"""C05 — every single operation is atomic under concurrent threads (and processes).

Real threads (own Cache objects, or one shared Cache object) run short programs
on shared keys under the deterministic scheduler: every SQL statement and value
file operation is a yield point, BEGIN IMMEDIATE against a held lock fails at
once and is retried.  Schedules: every single-preemption and two-preemption
interleaving of two clients at action granularity (exhaustive per program up to
a bound), plus seeded random schedules for 2-3 clients.  Acceptor: the run must
be explained by a sequential execution ON THE LEAN MODEL (DC.Model.Cache) that
respects program order and real-time precedence — linearizability, with the
one tolerated anomaly (a look-up overlapping a write of its key may miss)."""
import os
import random
import sys
from concurrent.futures import ProcessPoolExecutor

import corr
from props import base

KEYS = ['a', 'n']
BIG1, BIG2 = b'x' * 20, b'y' * 31


def gen_program(rng, n_ops):
    ops = []
    for _ in range(n_ops):
        m = rng.choice(['set', 'set', 'add', 'incr', 'get', 'getitem', 'pop', 'delete', 'touch', 'contains', 'len'])
        op = {'m': m, 'now': 1000}
        if m in ('set', 'add'):
            op['k'] = rng.choice(KEYS)
            op['v'] = rng.choice([BIG1, BIG2, 'small', 7]) if op['k'] == 'a' else rng.choice([3, 40])
            op['ttl'] = None
            op['tag'] = None
        elif m == 'incr':
            op['k'] = 'n'
            op['delta'] = rng.choice([1, 10, 100])
            op['default'] = 0
        elif m == 'touch':
            op['k'] = rng.choice(KEYS)
            op['ttl'] = 50
        elif m != 'len':
            op['k'] = rng.choice(KEYS)
        ops.append(op)
    return ops


def schedules_for(rng, n_clients, exhaustive_bound, n_random):
    out = []
    if n_clients == 2:
        for a, b in ((0, 1), (1, 0)):
            for k in range(0, exhaustive_bound):
                out.append([a] * k + [b] * 400 + [a] * 400)                      # one preemption
            for k in range(0, exhaustive_bound, 2):
                for j in range(1, exhaustive_bound, 3):
                    out.append([a] * k + [b] * j + [a] * 400 + [b] * 400)        # two preemptions
    for _ in range(n_random):
        w = [rng.random() + 0.2 for _ in range(n_clients)]
        out.append(rng.choices(range(n_clients), w, k=rng.randint(5, 60)))
    return out


def one_case(args):
    sys.path.insert(0, os.path.dirname(os.path.dirname(os.path.abspath(__file__))))
    import conc
    seed, tier = args
    rng = random.Random(seed)
    n_clients = rng.choice([2, 2, 2, 3])
    cfg = {'mfs': 8, 'policy': rng.choice(['lrs', 'lru', 'none']), 'cull': 10, 'stats': rng.choice([0, 0, 1])}
    preset = []
    if rng.random() < 0.8:
        preset.append({'m': 'set', 'now': 1000, 'k': 'a', 'v': rng.choice([BIG1, 'small']), 'ttl': None, 'tag': None})
    if rng.random() < 0.7:
        preset.append({'m': 'set', 'now': 1000, 'k': 'n', 'v': 5, 'ttl': None, 'tag': None})
    programs = {c: gen_program(rng, rng.randint(1, 2 if n_clients == 3 else 3)) for c in range(n_clients)}
    shared = rng.random() < 0.4
    bound, n_rand = (14, 4) if tier == 'quick' else (24, 12)
    results = []
    for sch in schedules_for(rng, n_clients, bound, n_rand):
        run = conc.run_concurrent(cfg, preset, programs, sch, shared=shared)
        why = conc.explain(run, programs, cfg)
        busy = sum(1 for t in run['trace'] if t[2] == 'sql' and t[3] == 'BEGIN')
        results.append({'why': why, 'steps': run['steps'], 'sched': sch[:80] if why else None,
                        'res': {c: [x[1] for x in l] for c, l in run['lines'].items()} if why else None,
                        'begins': busy})
    return {'seed': seed, 'cfg': cfg, 'preset': preset, 'programs': programs, 'shared': shared, 'results': results}


def open_iterator_probe():
    """a client that is in the middle of an iteration (keys in insertion order, sorted order, either
    direction; Cache, FanoutCache, Index, Deque) is a client like any other: a write completed by ANOTHER
    client after the iteration began is visible to every later call of the iterating client (real-time
    precedence), and the iterating client's own writes need no more than the write lock"""
    import os
    import shutil
    import tempfile
    import diskcache
    root = os.environ.get('VERIF_SCRATCH') or tempfile.gettempdir()
    bad = []
    makers = [
        ('Cache iter', lambda d: diskcache.Cache(d, timeout=0.05), lambda c: iter(c)),
        ('Cache reversed', lambda d: diskcache.Cache(d, timeout=0.05), lambda c: reversed(c)),
        ('Cache iterkeys', lambda d: diskcache.Cache(d, timeout=0.05), lambda c: c.iterkeys()),
        ('Cache iterkeys reverse', lambda d: diskcache.Cache(d, timeout=0.05), lambda c: c.iterkeys(reverse=True)),
        ('FanoutCache iter', lambda d: diskcache.FanoutCache(d, shards=1, timeout=0.05), lambda c: iter(c)),
        ('Index iter', lambda d: diskcache.Index(d), lambda c: iter(c)),
        ('Index items', lambda d: diskcache.Index(d), lambda c: iter(c.items())),
    ]
    for name, make, start in makers:
        d = tempfile.mkdtemp(prefix='c5it-', dir=root)
        try:
            a, b = make(d), make(d)
            for i in range(5):
                a['k%d' % i] = i
            it = start(a)
            first = next(it)
            b['new'] = 1                      # completed by another client while the iteration is open
            got = {}
            try:
                got['get'] = a['new'] if 'new' in a else None
                got['len'] = len(a)
                if name.startswith('Index'):
                    got['own'] = 2            # Index writes wait for ever (retry): not tried, a pinned snapshot would hang the probe
                else:
                    a.set('own', 2)           # the iterating client's own write (no retry: a Timeout is reported, not waited out)
                    got['own'] = b.get('own')
            except Exception as e:  # noqa
                got['raised'] = type(e).__name__
            rest = list(it)
            if got != {'get': 1, 'len': 6, 'own': 2}:
                bad.append('%s: after next() on an open iteration, another client stored an item; the iterating client then sees %r '
                           '(expected the item, 6 items, and its own write to succeed)' % (name, got))
            if len(rest) + 1 < 5:
                bad.append('%s: the open iteration lost keys: %r then %r' % (name, first, rest))
            for c in (a, b):
                try:
                    (c.close if hasattr(c, 'close') else c.cache.close)()
                except Exception:
                    pass
        except Exception as e:  # noqa
            bad.append('%s: open-iterator probe raised %s: %s' % (name, type(e).__name__, str(e)[:100]))
        finally:
            shutil.rmtree(d, ignore_errors=True)
    return bad


def shared_attr_probe():
    """threads sharing ONE Cache object also share its attributes: every store to an attribute of the
    shared object is made a scheduling point (before and after the store), and len() / add() / len() from
    three threads run under every schedule in which the first len() is preempted once and the second one
    once.  Each len() must lie between the number of items whose add() had returned before it was called
    and the number whose add() had been called before it returned."""
    import shutil
    import tempfile
    import threading
    import diskcache
    from impl import Env, scratch_root
    from sched import Scheduler
    env = Env.get()

    class YCache(diskcache.Cache):
        def __setattr__(self, name, value):
            h = env.rec.on_action
            if h is not None and not name.startswith('_'):
                h('attr', name)
            super().__setattr__(name, value)
            if h is not None and not name.startswith('_'):
                h('attr', name)
    bad = []
    runs = 0
    K = 9
    for k0 in range(1, K + 1):
        for k2 in range(1, K + 1):
            d = tempfile.mkdtemp(prefix='c5sa-', dir=scratch_root())
            env.core.sqlite3._timeout = 0
            try:
                env.rec.enabled = False
                c = YCache(d, timeout=0)
                c.add('p0', 0)
                c.add('p1', 1)
                env.rec.enabled = True
                sch = Scheduler(env.rec)

                def mk(cid):
                    def prepare():
                        len(c)          # opens this thread's connection (public call; not yet a scheduled client)

                    def execute(op):
                        if op == 'len':
                            return len(c)
                        return c.add('x', 1, retry=True)
                    return prepare, ['add' if cid == 1 else 'len'], execute
                ok = sch.run({0: mk(0), 1: mk(1), 2: mk(2)}, [0] * k0 + [1] * 60 + [2] * k2 + [0] * 60 + [2] * 60, max_steps=2000)
                runs += 1
                ev = sch.events
                call = {cid: st for st, cid, kind, i, r in ev if kind == 'call'}
                ret = {cid: (st, r) for st, cid, kind, i, r in ev if kind == 'ret'}
                if not ok or len(ret) != 3:
                    bad.append('shared object, len | add | len with preemptions after %d and %d actions: the calls did not all finish' % (k0, k2))
                else:
                    for cid in (0, 2):
                        floor = 2 + (1 if ret[1][0] < call[cid] and ret[1][1] is True else 0)
                        ceil = 2 + (1 if call[1] < ret[cid][0] else 0)
                        if not (floor <= ret[cid][1] <= ceil):
                            bad.append('one Cache object shared by three threads, len() | add() | len() with the first len preempted after %d actions and the second after %d: '
                                       'len() returned %r although %d item(s) had been added by calls that returned before it started' % (k0, k2, ret[cid][1], floor))
                c.close()
            except Exception as e:  # noqa
                bad.append('shared-attribute probe (%d, %d) raised %s: %s' % (k0, k2, type(e).__name__, str(e)[:100]))
            finally:
                env.core.sqlite3._timeout = None
                env.rec.enabled = True
                shutil.rmtree(d, ignore_errors=True)
            if len(bad) >= 2:
                return bad, runs
    return bad, runs


def run(tier, seed, rng, known, replay):
    n_cases = 48 if tier == 'quick' else 160
    if replay:
        import json
        with open(replay) as f:
            seeds = [json.load(f)['case_seed']]
    else:
        seeds = [rng.getrandbits(48) for _ in range(n_cases)]
    with ProcessPoolExecutor(max_workers=16) as ex:
        cases = list(ex.map(one_case, [(s, tier) for s in seeds], chunksize=max(1, len(seeds) // 32)))
    violations = []
    runs = 0
    steps = 0
    distinct = set()
    for c in cases:
        for r in c['results']:
            runs += 1
            steps += r['steps']
            distinct.add((c['seed'], r['steps'], r['begins']))
            if r['why'] and len(violations) < 3:
                violations.append({'replay': {'property': 'C05', 'case_seed': c['seed'], 'cfg': c['cfg'], 'shared_object': c['shared'],
                                              'preset': base.tag(c['preset']), 'programs': base.tag(c['programs']),
                                              'schedule': r['sched'], 'results': r['res'], 'acceptor': r['why']},
                                   'found_input': True, 'what': 'not linearizable: ' + r['why']})
    if not replay:
        sa_bad, sa_runs = shared_attr_probe()
        runs += sa_runs
        for v_ in sa_bad[:2]:
            violations.append({'replay': {'property': 'C05', 'kind': 'shared-attribute-probe', 'acceptor': v_}, 'found_input': True, 'what': v_})
        # in a fresh interpreter: this process has the harness shims installed, whose cursor wrapper reads
        # result sets eagerly and would hide a cursor left open by the library
        import json
        import subprocess
        import sys
        code = ("import sys, os, json; sys.path.insert(0, %r); sys.path.insert(0, os.environ.get('VERIF_REPO', '/repo')); "
                "from props import c05; print('PROBE' + json.dumps(c05.open_iterator_probe()))" % os.path.dirname(os.path.dirname(os.path.abspath(__file__))))
        try:
            pr = subprocess.run([sys.executable, '-c', code], capture_output=True, text=True, timeout=300)
            line = [l for l in pr.stdout.split('\n') if l.startswith('PROBE')]
            it_bad = json.loads(line[0][5:]) if line else ['open-iterator probe did not run: ' + (pr.stderr or pr.stdout)[-300:]]
        except subprocess.TimeoutExpired:
            it_bad = ['open-iterator probe: a call of the iterating client did not return within 300 s']
        for v_ in it_bad[:2]:
            violations.append({'replay': {'property': 'C05', 'kind': 'open-iterator-probe', 'acceptor': v_}, 'found_input': True, 'what': v_})
    return {
        'evaluations': runs, 'distinct_nontrivial': len(distinct),
        'rule': 'per seeded case: 2-3 clients x 1-3 calls (set/add/incr/get/[]/pop/delete/touch/in/len on 2 shared keys, inline and file-backed values), '
                'own Cache objects or one shared object; schedules = all one-preemption and a grid of two-preemption interleavings up to the bound, plus random; '
                'distinct = distinct (case, number of steps, number of BEGIN attempts)',
        'samples': [{'programs': base.tag(cases[0]['programs']), 'preset': base.tag(cases[0]['preset']), 'shared': cases[0]['shared'],
                     'schedules': len(cases[0]['results'])}],
        'traces': runs,
        'dist': {'cases': len(cases), 'runs': runs, 'scheduler_steps': steps,
                 'shared_object_cases': sum(1 for c in cases if c['shared'])},
        'violations': violations, 'known': [],
        'assumptions': ['SQLite isolation (writers exclude one another between BEGIN IMMEDIATE and COMMIT; readers see committed state) is exercised, not proved',
                        'one action at a time: true parallelism inside SQLite/the OS is outside the scheduled runs (thorough adds free-running threads)'],
    }
