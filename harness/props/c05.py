"""C05 — every single operation is atomic under concurrent threads (and processes).

Real threads (own Cache objects, or one shared Cache object) run short programs
on shared keys under the deterministic scheduler: every SQL statement and value
file operation is a yield point, BEGIN IMMEDIATE against a held lock fails at
once and is retried.  Schedules: every single-preemption and two-preemption
interleaving of two clients at action granularity (exhaustive per program up to
a bound), plus seeded random schedules for 2-3 clients.  Acceptor: the run must
be explained by a sequential execution ON THE LEAN MODEL (DC.Model.Cache) that
respects program order and real-time precedence — linearizability, with the
one tolerated anomaly (a look-up overlapping a write of its key may miss)."""
import os
import random
import sys
from concurrent.futures import ProcessPoolExecutor

import corr
from props import base

KEYS = ['a', 'n']
BIG1, BIG2 = b'x' * 20, b'y' * 31


def gen_program(rng, n_ops):
    ops = []
    for _ in range(n_ops):
        m = rng.choice(['set', 'set', 'add', 'incr', 'get', 'getitem', 'pop', 'delete', 'touch', 'contains', 'len'])
        op = {'m': m, 'now': 1000}
        if m in ('set', 'add'):
            op['k'] = rng.choice(KEYS)
            op['v'] = rng.choice([BIG1, BIG2, 'small', 7]) if op['k'] == 'a' else rng.choice([3, 40])
            op['ttl'] = None
            op['tag'] = None
        elif m == 'incr':
            op['k'] = 'n'
            op['delta'] = rng.choice([1, 10, 100])
            op['default'] = 0
        elif m == 'touch':
            op['k'] = rng.choice(KEYS)
            op['ttl'] = 50
        elif m != 'len':
            op['k'] = rng.choice(KEYS)
        ops.append(op)
    return ops


def schedules_for(rng, n_clients, exhaustive_bound, n_random):
    out = []
    if n_clients == 2:
        for a, b in ((0, 1), (1, 0)):
            for k in range(0, exhaustive_bound):
                out.append([a] * k + [b] * 400 + [a] * 400)                      # one preemption
            for k in range(0, exhaustive_bound, 2):
                for j in range(1, exhaustive_bound, 3):
                    out.append([a] * k + [b] * j + [a] * 400 + [b] * 400)        # two preemptions
    for _ in range(n_random):
        w = [rng.random() + 0.2 for _ in range(n_clients)]
        out.append(rng.choices(range(n_clients), w, k=rng.randint(5, 60)))
    return out


def one_case(args):
    sys.path.insert(0, os.path.dirname(os.path.dirname(os.path.abspath(__file__))))
    import conc
    seed, tier = args
    rng = random.Random(seed)
    n_clients = rng.choice([2, 2, 2, 3])
    cfg = {'mfs': 8, 'policy': rng.choice(['lrs', 'lru', 'none']), 'cull': 10, 'stats': rng.choice([0, 0, 1])}
    preset = []
    if rng.random() < 0.8:
        preset.append({'m': 'set', 'now': 1000, 'k': 'a', 'v': rng.choice([BIG1, 'small']), 'ttl': None, 'tag': None})
    if rng.random() < 0.7:
        preset.append({'m': 'set', 'now': 1000, 'k': 'n', 'v': 5, 'ttl': None, 'tag': None})
    programs = {c: gen_program(rng, rng.randint(1, 2 if n_clients == 3 else 3)) for c in range(n_clients)}
    shared = rng.random() < 0.4
    bound, n_rand = (14, 4) if tier == 'quick' else (24, 12)
    results = []
    for sch in schedules_for(rng, n_clients, bound, n_rand):
        run = conc.run_concurrent(cfg, preset, programs, sch, shared=shared)
        why = conc.explain(run, programs, cfg)
        busy = sum(1 for t in run['trace'] if t[2] == 'sql' and t[3] == 'BEGIN')
        results.append({'why': why, 'steps': run['steps'], 'sched': sch[:80] if why else None,
                        'res': {c: [x[1] for x in l] for c, l in run['lines'].items()} if why else None,
                        'begins': busy})
    return {'seed': seed, 'cfg': cfg, 'preset': preset, 'programs': programs, 'shared': shared, 'results': results}


def run(tier, seed, rng, known, replay):
    n_cases = 48 if tier == 'quick' else 160
    if replay:
        import json
        with open(replay) as f:
            seeds = [json.load(f)['case_seed']]
    else:
        seeds = [rng.getrandbits(48) for _ in range(n_cases)]
    with ProcessPoolExecutor(max_workers=16) as ex:
        cases = list(ex.map(one_case, [(s, tier) for s in seeds], chunksize=max(1, len(seeds) // 32)))
    violations = []
    runs = 0
    steps = 0
    distinct = set()
    for c in cases:
        for r in c['results']:
            runs += 1
            steps += r['steps']
            distinct.add((c['seed'], r['steps'], r['begins']))
            if r['why'] and len(violations) < 3:
                violations.append({'replay': {'property': 'C05', 'case_seed': c['seed'], 'cfg': c['cfg'], 'shared_object': c['shared'],
                                              'preset': base.tag(c['preset']), 'programs': base.tag(c['programs']),
                                              'schedule': r['sched'], 'results': r['res'], 'acceptor': r['why']},
                                   'found_input': True, 'what': 'not linearizable: ' + r['why']})
    return {
        'evaluations': runs, 'distinct_nontrivial': len(distinct),
        'rule': 'per seeded case: 2-3 clients x 1-3 calls (set/add/incr/get/[]/pop/delete/touch/in/len on 2 shared keys, inline and file-backed values), '
                'own Cache objects or one shared object; schedules = all one-preemption and a grid of two-preemption interleavings up to the bound, plus random; '
                'distinct = distinct (case, number of steps, number of BEGIN attempts)',
        'samples': [{'programs': base.tag(cases[0]['programs']), 'preset': base.tag(cases[0]['preset']), 'shared': cases[0]['shared'],
                     'schedules': len(cases[0]['results'])}],
        'traces': runs,
        'dist': {'cases': len(cases), 'runs': runs, 'scheduler_steps': steps,
                 'shared_object_cases': sum(1 for c in cases if c['shared'])},
        'violations': violations, 'known': [],
        'assumptions': ['SQLite isolation (writers exclude one another between BEGIN IMMEDIATE and COMMIT; readers see committed state) is exercised, not proved',
                        'one action at a time: true parallelism inside SQLite/the OS is outside the scheduled runs (thorough adds free-running threads)'],
    }
