"""C01 — stored values come back identical, whatever their type, size or storage path.

Correspondence K1 of store/fetch through every accessor against DC.Model.Disk /
DC.Model.Cache, for a value alphabet x lengths around disk_min_file_size x
thresholds x pickle protocols x Disk/JSONDisk; theorems: lean/properties.json."""
import gen
from props import base, refdict

SCOPE = {'set', 'add', 'get', 'getitem', 'read', 'pop', 'len'}


def acceptor(hist, io):
    err = refdict.accept(hist, io, scope=SCOPE)
    if err:
        return err
    # queue accessors and peekitem: value pulled/peeked = value pushed
    want = None
    for op, res in base.results_of(hist, io):
        if op['m'] == 'push' and not res.startswith('!'):
            want = refdict.Ref(hist['cfg']).rv(op['v'], op.get('read'))
        elif op['m'] in ('peek', 'pull') and want is not None and res.startswith('('):
            got = res[1:-1].split(',', 1)[1]
            if got != want:
                return '%s returned %s for a pushed value %s' % (op['m'], got[:60], want[:60])
            if op['m'] == 'pull':
                want = None
    return None


def run(tier, seed, rng, known, replay):
    if replay:
        return base.replay_file(replay, 'C01', ('result', 'state'), acceptor)
    hists = gen.c01_histories(rng, tier)
    r = base.check_histories('C01', hists, ('result', 'state'), acceptor=acceptor, known=known)
    dist, distinct = base.op_distribution(hists, r['impl_out'])
    kinds = {}
    for h in hists:
        v = h['ops'][0]['v']
        t = type(v).__name__ + (':stream' if h['ops'][0].get('read') else '')
        kinds[t] = kinds.get(t, 0) + 1
    return {
        'evaluations': len(hists),
        'distinct_nontrivial': len({(str(h['cfg']), repr(h['ops'][0]['v'])[:200], h['ops'][0].get('read', 0)) for h in hists}),
        'rule': 'one history per (threshold, disk, protocol, value): store by set/add/push, read back through get/[]/read/pop/peekitem/peek/pull; '
                'values = type x length in {0,1,m-1,m,m+1,2m} x code-point alphabet {a,CR,LF,NUL,U+0085,U+2028,U+1F600,lone surrogate} + numeric and container corner cases; '
                'distinct = distinct (configuration, value) pairs',
        'samples': [base.sample(hists[0], r['impl_out'][0]), base.sample(hists[len(hists) // 2], r['impl_out'][len(hists) // 2])],
        'traces': len(hists),
        'dist': dict(dist, value_types=kinds, histories=len(hists), divergent=r['divergent'], timing=r['stats']),
        'violations': r['violations'], 'known': r['known'],
    }
