"""C01 — stored values come back identical, whatever their type, size or storage path.

Correspondence K1 of store/fetch through every accessor against DC.Model.Disk /
DC.Model.Cache, for a value alphabet x lengths around disk_min_file_size x
thresholds x pickle protocols x Disk/JSONDisk (lone surrogates, U+FEFF, NUL,
subclass instances included); theorems: lean/properties.json."""
import os

import gen
from props import base, refdict

SCOPE = {'set', 'add', 'get', 'getitem', 'read', 'pop', 'len'}


def acceptor(hist, io):
    err = refdict.accept(hist, io, scope=SCOPE)
    if err:
        return err
    # queue accessors and peekitem: value pulled/peeked = value pushed
    want = None
    for op, res in base.results_of(hist, io):
        if op['m'] == 'push' and not res.startswith('!'):
            want = refdict.Ref(hist['cfg']).rv(op['v'], op.get('read'))
        elif op['m'] in ('peek', 'pull') and want is not None and res.startswith('('):
            got = res[1:-1].split(',', 1)[1]
            if got != want:
                return '%s returned %s for a pushed value %s' % (op['m'], got[:60], want[:60])
            if op['m'] == 'pull':
                want = None
    return None


class FlakyStream:
    """a readable binary stream that delivers `chunk` bytes per read and fails once, at read number
    `fail_at`, with OSError (a socket time-out); later reads deliver the rest"""

    def __init__(self, data, chunk, fail_at):
        self.data, self.chunk, self.fail_at, self.pos, self.calls = data, chunk, fail_at, 0, 0

    def read(self, n=-1):
        self.calls += 1
        if self.calls == self.fail_at:
            raise OSError('timed out')
        out = self.data[self.pos:self.pos + self.chunk]
        self.pos += len(out)
        return out


def flaky_stream_probe(rng, n):
    """a value that cannot be stored is rejected, never silently altered: a stream that fails in the
    middle either raises out of set/add/push (and the key keeps what it had) or is stored whole"""
    import shutil
    import tempfile
    import diskcache
    root = os.environ.get('VERIF_SCRATCH') or tempfile.gettempdir()
    bad = []
    for i in range(n):
        d = tempfile.mkdtemp(prefix='flaky-', dir=root)
        try:
            c = diskcache.Cache(d, disk_min_file_size=rng.choice([0, 8, 32768]))
            data = bytes(rng.randrange(256) for _ in range(rng.randint(1, 90)))
            chunk = rng.randint(1, 30)
            fail_at = rng.randint(1, len(data) // chunk + 2)
            how = rng.choice(['set', 'add', 'push'])
            old = rng.choice([None, b'old-value'])
            if old is not None and how == 'set':
                c.set('k', old)
            st = FlakyStream(data, chunk, fail_at)
            key = 'k'
            try:
                if how == 'set':
                    ok = c.set('k', st, read=True)
                elif how == 'add':
                    ok = c.add('k', st, read=True)
                else:
                    key = c.push(st, read=True)
                    ok = True
                raised = None
            except OSError as e:
                ok, raised = False, e
            got = c.get(key, default=None)
            files = sorted(f for _, _, fs in os.walk(d) for f in fs if f.endswith('.val'))
            what = None
            if raised is None and ok and got != data:
                what = '%s(stream) reported success but the value read back is %r, the stream delivered %r' % (how, got, data)
            elif raised is not None and got != (old if how == 'set' else None):
                what = '%s(stream) raised %r but the key now holds %r (before: %r)' % (how, raised, got, old)
            elif raised is not None and len(files) != (1 if (old is not None and how == 'set' and c.disk_min_file_size <= len(old)) else 0):
                what = '%s(stream) raised %r and left value files behind: %r' % (how, raised, files)
            if what:
                bad.append({'what': what, 'data': data.hex(), 'chunk': chunk, 'fail_at': fail_at, 'how': how, 'old': old is not None})
            c.close()
        finally:
            shutil.rmtree(d, ignore_errors=True)
    return bad


def run(tier, seed, rng, known, replay):
    if replay:
        return base.replay_file(replay, 'C01', ('result', 'state'), acceptor)
    hists = gen.c01_histories(rng, tier)
    r = base.check_histories('C01', hists, ('result', 'state'), acceptor=acceptor, known=known)
    n_flaky = 150 if tier == 'quick' else 3000
    for b in flaky_stream_probe(rng, n_flaky)[:2]:
        r['violations'].append({'replay': dict(b, property='C01', kind='flaky-stream-probe', acceptor=b['what']),
                                'found_input': True, 'what': b['what']})
    dist, distinct = base.op_distribution(hists, r['impl_out'])
    kinds = {}
    for h in hists:
        v = h['ops'][0]['v']
        t = type(v).__name__ + (':stream' if h['ops'][0].get('read') else '')
        kinds[t] = kinds.get(t, 0) + 1
    return {
        'evaluations': len(hists),
        'distinct_nontrivial': len({(str(h['cfg']), repr(h['ops'][0]['v'])[:200], h['ops'][0].get('read', 0)) for h in hists}),
        'rule': 'one history per (threshold, disk, protocol, value): store by set/add/push, read back through get/[]/read/pop/peekitem/peek/pull; '
                'plus subclasses of str/bytes/int/float and str/int enums (exact-type dispatch), and streams that fail once in the middle of a read; values = type x length in {0,1,m-1,m,m+1,2m} x code-point alphabet {a,CR,LF,NUL,U+0085,U+2028,U+1F600,lone surrogate} + numeric and container corner cases; '
                'distinct = distinct (configuration, value) pairs',
        'samples': [base.sample(hists[0], r['impl_out'][0]), base.sample(hists[len(hists) // 2], r['impl_out'][len(hists) // 2])],
        'traces': len(hists),
        'dist': dict(dist, value_types=kinds, histories=len(hists), divergent=r['divergent'], timing=r['stats'], flaky_stream_probes=n_flaky),
        'violations': r['violations'], 'known': r['known'],
    }
