"""C15 — Lock, RLock and BoundedSemaphore exclude across threads (and processes).

Contenders (real threads, own Cache objects or one shared object, Cache or
FanoutCache) run acquire / critical section / release loops under the
deterministic scheduler; a failed attempt's `time.sleep` is a yield point, so a
blocked acquire is observed, not waited for.  The sequence of attempt outcomes
is compared with DC.Recipes (LockSys / RLockSys / SemSys: every attempt is one
atomic event); an independent witness counts the occupants of the critical
section (acceptor)."""
import os
import random
import shutil
import sys
import tempfile
import threading
from concurrent.futures import ProcessPoolExecutor

import corr
from props import base


def one_case(args):
    sys.path.insert(0, os.path.dirname(os.path.dirname(os.path.abspath(__file__))))
    from impl import Env, scratch_root
    from sched import Scheduler
    import diskcache
    seed, tier = args
    rng = random.Random(seed)
    env = Env.get()
    kind = rng.choice(['lock', 'rlock', 'sem', 'barrier'])
    n_clients = rng.choice([2, 2, 3, 4])
    limit = rng.choice([1, 2, 3]) if kind == 'sem' else 1
    shared = rng.random() < 0.4
    fan = rng.random() < 0.3
    rounds = rng.randint(1, 2)
    nest = kind == 'rlock' and rng.random() < 0.6
    stray = kind == 'rlock' and rng.random() < 0.3
    results = []
    n_sched = 12 if tier == 'quick' else 40
    for si in range(n_sched):
        d = tempfile.mkdtemp(prefix='c15-', dir=scratch_root())
        env.core.sqlite3._timeout = 0
        try:
            def mk_cache():
                return diskcache.FanoutCache(d, shards=2, timeout=0) if fan else diskcache.Cache(d, timeout=0)
            env.rec.enabled = False
            base_cache = mk_cache()
            env.rec.enabled = True
            caches = {c: (base_cache if shared else mk_cache()) for c in range(n_clients)}
            sch = Scheduler(env.rec)
            events = []           # (cid, 'a'|'r', outcome) in commit order
            occ = {'now': set(), 'max': 0, 'bad': None}
            tls = threading.local()

            def on_sleep(x):
                cid = getattr(tls, 'cid', None)
                if cid is not None:
                    events.append((cid, 'a', 0))
                    sch.yield_point(cid, 'sleep', x)
            env.clock.on_sleep = on_sleep

            def mk(cid):
                cache = caches[cid]

                def prepare():
                    tls.cid = cid
                    # make this thread open its connection(s) before the scheduled phase
                    try:
                        if fan:
                            for s in cache._shards:
                                s._con
                        else:
                            cache._con
                    except AttributeError:
                        len(cache)

                def execute(op):
                    if kind == 'lock' or kind == 'barrier':
                        lk = diskcache.Lock(cache, 'L')
                    elif kind == 'rlock':
                        lk = diskcache.RLock(cache, 'L')
                    else:
                        lk = diskcache.BoundedSemaphore(cache, 'L', value=limit)

                    def critical():
                        occ['now'].add(cid)
                        occ['max'] = max(occ['max'], len(occ['now']))
                        sch.yield_point(cid, 'cs', 0)
                        occ['now'].discard(cid)
                    if op == 'stray':
                        try:
                            lk.release()
                            events.append((cid, 'r', 1))
                        except AssertionError:
                            events.append((cid, 'r', 0))
                        return 'n'
                    if kind == 'barrier':
                        # two DIFFERENT functions under one explicit name (also the falsy names 0 and ''): they
                        # must exclude each other exactly like holders of Lock(cache, name)
                        def body_even():
                            events.append((cid, 'a', 1))
                            critical()

                        def body_odd():
                            events.append((cid, 'a', 1))
                            critical()
                        bname = ['L', 0, ''][seed % 3]
                        # every lock factory, with and without an expiry for the lock item: always ONE holder
                        factory = [diskcache.Lock, diskcache.RLock, diskcache.BoundedSemaphore][(seed // 3) % 3]
                        bexpire = [None, 30][(seed // 9) % 2]
                        diskcache.barrier(cache, factory, name=bname, expire=bexpire)(body_odd if cid % 2 else body_even)()
                        events.append((cid, 'r', 1))
                        return 'n'
                    lk.acquire()
                    events.append((cid, 'a', 1))
                    if nest:
                        lk.acquire()
                        events.append((cid, 'a', 1))
                    critical()
                    if nest:
                        lk.release()
                        events.append((cid, 'r', 1))
                        # still held by this client
                        occ['now'].add(cid)
                        sch.yield_point(cid, 'cs', 1)
                        occ['now'].discard(cid)
                    lk.release()
                    events.append((cid, 'r', 1))
                    return 'n'
                ops = ['round'] * rounds
                if stray and cid == n_clients - 1:
                    ops = ['stray'] + ops
                return prepare, ops, execute
            w = [rng.random() + 0.15 for _ in range(n_clients)]
            schedule = rng.choices(range(n_clients), w, k=rng.randint(10, 120))
            ok = sch.run({c: mk(c) for c in range(n_clients)}, schedule, max_steps=6000)
            why = None
            if not ok:
                why = 'contenders did not finish (a free resource was not acquired: deadlock or livelock)'
            lim = limit if kind == 'sem' else 1
            if occ['max'] > lim:
                why = '%d occupants of the critical section, limit %d' % (occ['max'], lim)
            results.append({'why': why, 'events': list(events), 'steps': sch.step_no})
        finally:
            env.clock.on_sleep = None
            env.core.sqlite3._timeout = None
            for c in set(caches.values()) | {base_cache}:
                try:
                    c.close()
                except Exception:
                    pass
            shutil.rmtree(d, ignore_errors=True)
    return {'seed': seed, 'kind': kind, 'limit': limit, 'clients': n_clients, 'shared': shared, 'fanout': fan, 'nest': nest,
            'results': results}


def probe_refusals():
    """releasing what is not held is refused (sequential, no contention)"""
    import diskcache
    d = tempfile.mkdtemp(prefix='c15p-')
    try:
        c = diskcache.Cache(d)
        for mk, name in ((lambda: diskcache.RLock(c, 'r'), 'RLock'), (lambda: diskcache.BoundedSemaphore(c, 's', value=2), 'BoundedSemaphore')):
            lk = mk()
            try:
                lk.release()
                return '%s.release() of a lock that is not held was accepted' % name
            except AssertionError:
                pass
            lk.acquire()
            lk.release()
            try:
                lk.release()
                return '%s.release() beyond the acquisitions was accepted' % name
            except AssertionError:
                pass
        lk = diskcache.Lock(c, 'l')
        lk.acquire()
        if not lk.locked():
            return 'Lock.locked() is False while held'
        lk.release()
        if lk.locked():
            return 'Lock.locked() is True after release'
        c.close()
        return None
    finally:
        shutil.rmtree(d, ignore_errors=True)


def fork_probe():
    """exclusion across PROCESSES with objects created before the fork (what `@barrier(cache, RLock)` at
    import time followed by fork-started workers amounts to): while the parent holds the resource a forked
    child's acquire must not succeed (it gets 0.4 s to try), it must succeed once the parent has
    released, and a child must not be able to release what the parent holds"""
    import shutil
    import signal
    import tempfile
    import diskcache
    from diskcache import recipes
    root = os.environ.get('VERIF_SCRATCH') or tempfile.gettempdir()
    bad = []

    def child_try(obj, action, limit=0.4):
        """fork; the child performs `action(obj)` under an alarm.  -> 'done' | 'blocked' | 'raised:<E>'"""
        r, w = os.pipe()
        pid = os.fork()
        if pid == 0:
            try:
                os.close(r)
                signal.signal(signal.SIGALRM, signal.SIG_DFL)
                signal.setitimer(signal.ITIMER_REAL, limit)
                try:
                    action(obj)
                    os.write(w, b'done')
                except BaseException as e:        # noqa
                    os.write(w, ('raised:' + type(e).__name__).encode())
            finally:
                os._exit(0)
        os.close(w)
        data = b''
        while True:
            chunk = os.read(r, 100)
            if not chunk:
                break
            data += chunk
        os.close(r)
        os.waitpid(pid, 0)
        return data.decode() or 'blocked'
    for name, make in (('Lock', lambda c: recipes.Lock(c, 'res')), ('RLock', lambda c: recipes.RLock(c, 'res')),
                       ('BoundedSemaphore(1)', lambda c: recipes.BoundedSemaphore(c, 'res', value=1))):
        d = tempfile.mkdtemp(prefix='fork-', dir=root)
        try:
            cache = diskcache.Cache(d)
            obj = make(cache)              # created BEFORE any fork
            obj.acquire()
            got = child_try(obj, lambda o: o.acquire())
            if got != 'blocked':
                bad.append('%s created before fork(): a forked child acquired it while the parent held it (%s)' % (name, got))
            if name == 'RLock':
                got = child_try(obj, lambda o: o.release())
                if got == 'done':
                    bad.append('RLock created before fork(): a forked child released the lock the parent holds')
                try:
                    obj.release()
                except AssertionError:
                    bad.append('RLock: the parent could no longer release its own lock after a child tried to')
            else:
                obj.release()
            got = child_try(obj, lambda o: (o.acquire(), o.release()), limit=20)      # generous: a loaded machine must not look like a blocked lock
            if got != 'done':
                bad.append('%s: a forked child could not acquire the free resource (%s)' % (name, got))
            cache.close()
        finally:
            shutil.rmtree(d, ignore_errors=True)
    return bad


def run(tier, seed, rng, known, replay):
    n_cases = 40 if tier == 'quick' else 200
    if replay:
        import json
        with open(replay) as f:
            seeds = [json.load(f)['case_seed']]
    else:
        seeds = [rng.getrandbits(48) for _ in range(n_cases)]
    with ProcessPoolExecutor(max_workers=16) as ex:
        cases = list(ex.map(one_case, [(s, tier) for s in seeds], chunksize=max(1, len(seeds) // 32)))
    lines, meta = [], []
    for c in cases:
        kind = 'lock' if c['kind'] == 'barrier' else c['kind']
        for r in c['results']:
            lines.append('rk kind=%s limit=%d evs=%s' % (kind, c['limit'], ','.join('%s%d' % (e[1], e[0]) for e in r['events']) or '-'))
            meta.append((c, r))
    answers = corr.run_driver(lines)
    violations = []
    runs = 0
    fails = 0
    for (c, r), line, ans in zip(meta, lines, answers):
        runs += 1
        want = 'rk ' + ','.join(str(e[2]) for e in r['events'])
        fails += sum(1 for e in r['events'] if e[1] == 'a' and e[2] == 0)
        why = r['why']
        found = bool(why)
        if not why and ans != want:
            why = 'attempt outcomes differ from DC.Recipes: impl %s model %s' % (want[:120], ans[:120])
            # an acquire that succeeded although the model (which tracks the holders through the same event
            # sequence) says the resource was not available IS the violation: more holders than allowed
            mo = ans[3:].split(',') if len(ans) > 3 else []
            for e, m_ok in zip(r['events'], mo):
                if e[1] == 'a' and e[2] == 1 and m_ok == '0':
                    why = 'contender %d acquired while the resource was held by others (event sequence %s): more holders than allowed' % (
                        e[0], ','.join('%s%d%s' % (x[1], x[0], '' if x[2] else '!') for x in r['events'])[:200])
                    found = True
                    break
                if e[1] == 'r' and e[2] == 1 and m_ok == '0':
                    why = 'contender %d released something it did not hold and the release was accepted' % e[0]
                    found = True
                    break
                if str(e[2]) != m_ok:
                    break
        if why and len(violations) < 3:
            violations.append({'replay': {'property': 'C15', 'case_seed': c['seed'], 'kind': c['kind'], 'clients': c['clients'], 'limit': c['limit'],
                                          'shared_object': c['shared'], 'fanout': c['fanout'], 'events': r['events'], 'model_answer': ans,
                                          'acceptor': r['why']}, 'found_input': found, 'what': '%s: %s' % (c['kind'], why)})
    v = probe_refusals()
    if v:
        violations.append({'replay': {'property': 'C15', 'kind': 'probe', 'acceptor': v}, 'found_input': True, 'what': v})
    for v in fork_probe()[:2]:
        violations.append({'replay': {'property': 'C15', 'kind': 'fork-probe', 'acceptor': v}, 'found_input': True, 'what': v})
    kinds = {}
    for c in cases:
        kinds[c['kind']] = kinds.get(c['kind'], 0) + 1
    return {
        'evaluations': runs, 'distinct_nontrivial': len({l for l in lines}),
        'rule': 'per seeded case: Lock / RLock (optionally nested, optionally a stray release) / BoundedSemaphore(1..3) / barrier, 2-4 contenders with own or '
                'shared Cache objects, Cache or FanoutCache, 1-2 rounds each, under seeded random schedules at action granularity; plus forked child processes contending with objects created before the fork; distinct = distinct event sequences',
        'samples': [{'kind': cases[0]['kind'], 'clients': cases[0]['clients'], 'events': cases[0]['results'][0]['events'][:30]}],
        'traces': runs,
        'dist': {'cases': len(cases), 'runs': runs, 'kinds': kinds, 'blocked_attempts_observed': fails},
        'violations': violations, 'known': [],
        'assumptions': ['owner identity is pid-tid: reuse of a thread id by the OS is outside the model',
                        'each attempt is one atomic cache operation or transaction block (C05/C06)'],
    }
