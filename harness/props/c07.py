"""C07 — a process killed at any instant leaves a usable, self-consistent cache.

A workload (every mutating method, inline and file-backed values, transaction
blocks, Deque.append with maxlen, Index.popitem) runs once to the end to record
the table after every call (those reference states are the Lean model's states:
the same lines go through the K1 correspondence), then again in a forked child
that SIGKILLs itself immediately before its n-th action — every SQL statement,
file create, write chunk, close and remove — for EVERY n.  A fresh process then
opens the directory.  Acceptor (= DC.Conc.crash_safe on the real thing): the
table is the state after k or k+1 completed calls, every listed key has its
complete value, check() reports only unreferenced files / empty directories,
the next write succeeds, and check(fix=True) removes the debris.  Some workloads run
on a cache at its size limit (writes evict file-backed items); the very first
open of a directory is also killed before each of its statements."""
import os
import random
import shutil
import signal
import sys
import tempfile
from concurrent.futures import ProcessPoolExecutor

from props import base

BIG1, BIG2, BIG3 = b'1' * 20, b'2' * 33, 'text-value ' * 4


def gen_workload(rng):
    """list of units; a unit is a list of ops executed as one all-or-nothing step"""
    units = []
    now = 1000
    keys = ['a', 'b', 7]
    for _ in range(rng.randint(3, 6)):
        r = rng.random()
        if r < 0.30:
            units.append([{'m': 'set', 'now': now, 'k': rng.choice(keys), 'v': rng.choice([BIG1, BIG2, BIG3, 'small', 5]),
                           'ttl': rng.choice([None, None, 50]), 'tag': None}])
        elif r < 0.38:
            units.append([{'m': 'add', 'now': now, 'k': rng.choice(keys), 'v': rng.choice([BIG1, 'small']), 'ttl': None, 'tag': None}])
        elif r < 0.46:
            units.append([{'m': 'incr', 'now': now, 'k': 'n', 'delta': 1, 'default': 0}])
        elif r < 0.56:
            units.append([{'m': rng.choice(['pop', 'delete']), 'now': now, 'k': rng.choice(keys)}])
        elif r < 0.66:
            units.append([{'m': 'push', 'now': now, 'v': rng.choice([BIG1, 'q']), 'prefix': None, 'ttl': None, 'tag': None}])
        elif r < 0.74:
            units.append([{'m': 'pull', 'now': now, 'prefix': None}])
        elif r < 0.80:
            units.append([{'m': 'touch', 'now': now, 'k': rng.choice(keys), 'ttl': 9}])
        elif r < 0.92:
            body = []
            for _ in range(rng.randint(1, 3)):
                body.append(rng.choice([
                    {'m': 'set', 'now': now, 'k': rng.choice(keys), 'v': rng.choice([BIG1, BIG2, 'small']), 'ttl': None, 'tag': None},
                    {'m': 'delete', 'now': now, 'k': rng.choice(keys)},
                    {'m': 'pop', 'now': now, 'k': rng.choice(keys)},
                    {'m': 'pull', 'now': now, 'prefix': None},
                ]))
            units.append([{'m': 'tbegin', 'now': now}] + body + [{'m': 'tend', 'now': now}])
        elif r < 0.96:
            units.append([{'m': 'dq_append', 'now': now, 'v': rng.choice([BIG1, BIG2])}])
        else:
            units.append([{'m': 'ix_popitem', 'now': now}])
    if rng.random() < 0.3:
        units.append([{'m': rng.choice(['clear', 'expire']), 'now': now + 100}])
    return units


def execute(runner, op, extra):
    m = op['m']
    runner.clock.t = op.get('now', runner.clock.t)
    if m == 'dq_append':
        dq = extra['deque']
        dq.append(op['v'])
        return 'n'
    if m == 'ix_popitem':
        try:
            extra['index'].popitem()
        except KeyError:
            return '!KeyError'
        return 'n'
    return runner.run(op)[1]


def open_all(cfg, directory):
    from impl import CacheRunner
    import diskcache
    r = CacheRunner(cfg, directory=directory)
    extra = {'deque': diskcache.Deque.fromcache(r.cache, maxlen=2), 'index': diskcache.Index.fromcache(r.cache)}
    return r, extra


def one_case(args):
    sys.path.insert(0, os.path.dirname(os.path.dirname(os.path.abspath(__file__))))
    from impl import Env, scratch_root
    import conc
    seed, tier = args
    rng = random.Random(seed)
    env = Env.get()
    cfg = {'mfs': 8, 'policy': 'none', 'cull': 10, 'stats': 0}
    if rng.random() < 0.4:
        # a cache at its size limit: writes evict file-backed items inside their own transaction
        cfg = {'mfs': 8, 'policy': rng.choice(['lrs', 'lru']), 'cull': rng.choice([1, 2, 10]), 'stats': 0,
               'limN': 32768 + rng.choice([0, 60, 150]), 'limD': 1}
    units = gen_workload(rng)
    if cfg['policy'] != 'none':
        units = [[{'m': 'set', 'now': 1000, 'k': 'fill%d' % i, 'v': BIG2, 'ttl': None, 'tag': None}] for i in range(4)] + units
    root = scratch_root()
    # --- reference run -----------------------------------------------------------
    d0 = tempfile.mkdtemp(prefix='c7ref-', dir=root)
    counter = [0]
    env.rec.on_action = lambda kind, detail: counter.__setitem__(0, counter[0] + 1)
    try:
        r, extra = open_all(cfg, d0)
        states = [conc.canon_state(r.state())]
        for u in units:
            for op in u:
                execute(r, op, extra)
            states.append(conc.canon_state(r.state()))
        total = counter[0]
        r.cache.close()
    finally:
        env.rec.on_action = None
        shutil.rmtree(d0, ignore_errors=True)
    # --- kill at every action ------------------------------------------------------
    results = []
    points = list(range(1, total + 1))
    if tier == 'quick' and len(points) > 40:
        points = sorted(rng.sample(points, 40))
    for n in points:
        d = tempfile.mkdtemp(prefix='c7-', dir=root)
        rfd, wfd = os.pipe()
        pid = os.fork()
        if pid == 0:
            try:
                os.close(rfd)
                cnt = [0]

                def hook(kind, detail):
                    cnt[0] += 1
                    if cnt[0] == n:
                        os.kill(os.getpid(), signal.SIGKILL)
                env.rec.on_action = hook
                rr, ex = open_all(cfg, d)
                for i, u in enumerate(units):
                    for op in u:
                        execute(rr, op, ex)
                    os.write(wfd, b'%d\n' % (i + 1))
            finally:
                os._exit(0)
        os.close(wfd)
        os.waitpid(pid, 0)
        data = b''
        while True:
            chunk = os.read(rfd, 4096)
            if not chunk:
                break
            data += chunk
        os.close(rfd)
        done = len(data.split())
        why = None
        try:
            import diskcache
            r2, ex2 = open_all(cfg, d)           # a later process opens the directory
            st = table(conc.canon_state(r2.state()))
            unit = units[done] if done < len(units) else None
            bulk = unit is not None and unit[0]['m'] in ('clear', 'expire', 'evict', 'cull')
            allowed = [table(states[done])] + ([table(states[done + 1])] if done + 1 < len(states) else [])
            if st not in allowed:
                if bulk:
                    ra = set(rows_of(states[done]))
                    rb = set(rows_of(states[done + 1]))
                    if not (rb <= set(rows_of(st)) <= ra):
                        why = 'after the kill the table is not between the states before and after the bulk removal'
                else:
                    why = 'after the kill the table is neither the state after %d completed calls nor after %d: %s' % (done, done + 1, st[:200])
            ws = r2.cache.check()
            bad = [str(w.message) for w in ws if not (str(w.message).startswith('unknown file') or str(w.message).startswith('empty directory'))]
            if bad and not why:
                why = 'check() after the kill reports more than debris: %s' % bad[:2]
            try:
                r2.cache.set('__after__', 1)
            except Exception as e:
                why = why or 'the dead process left something behind that stops others from writing: %s' % type(e).__name__
            r2.cache.check(fix=True)
            left = [str(w.message) for w in r2.cache.check()]
            if left and not why:
                why = 'debris survives the repair: %s' % left[:2]
            r2.cache.close()
        except Exception as e:
            why = why or 'the directory cannot be opened/used after the kill: %s: %s' % (type(e).__name__, e)
        finally:
            shutil.rmtree(d, ignore_errors=True)
        results.append({'n': n, 'done': done, 'why': why})
    return {'seed': seed, 'units': units, 'actions': total, 'results': results}


def first_open_kills():
    """the very first open of a directory, killed before its n-th statement, for every n: whoever opens
    the directory next must get a working cache"""
    from impl import Env, scratch_root
    import diskcache
    env = Env.get()
    root = scratch_root()
    bad = []
    d0 = tempfile.mkdtemp(prefix='c7o-', dir=root)
    count = [0]
    env.rec.on_raw = lambda sql: count.__setitem__(0, count[0] + 1)
    try:
        c = diskcache.Cache(os.path.join(d0, 'x'), disk_min_file_size=8)
        total = count[0]
        c.close()
    finally:
        env.rec.on_raw = None
        shutil.rmtree(d0, ignore_errors=True)
    for n in range(1, total + 1):
        d = tempfile.mkdtemp(prefix='c7k-', dir=root)
        target = os.path.join(d, 'x')
        pid = os.fork()
        if pid == 0:
            try:
                cnt = [0]

                def hook(sql):
                    cnt[0] += 1
                    if cnt[0] == n:
                        os.kill(os.getpid(), signal.SIGKILL)
                env.rec.on_raw = hook
                diskcache.Cache(target, disk_min_file_size=8)
            finally:
                os._exit(0)
        os.waitpid(pid, 0)
        try:
            c = diskcache.Cache(target, disk_min_file_size=8)
            c['k'] = b'v' * 30
            ok = c['k'] == b'v' * 30 and len(c) == 1 and not [w for w in c.check() if not str(w.message).startswith('empty directory')]
            c.close()
            if not ok:
                bad.append('first open killed before statement %d of %d: the next open gives a cache that does not work normally' % (n, total))
        except Exception as e:
            bad.append('first open killed before statement %d of %d: the next open raises %s: %s' % (n, total, type(e).__name__, str(e)[:80]))
        finally:
            shutil.rmtree(d, ignore_errors=True)
        if len(bad) >= 2:
            break
    return bad, total


def table(st):
    """counters and rows (file-backed rows carry their file's length/checksum); unreferenced files
    are permitted debris and not part of the comparison"""
    return st.split(' files=')[0]


def rows_of(st):
    body = st.split(' rows=', 1)[1].split(' files=')[0]
    return [r for r in body.split(';') if r]


def run(tier, seed, rng, known, replay):
    n_cases = 48 if tier == 'quick' else 240
    if replay:
        import json
        with open(replay) as f:
            seeds = [json.load(f)['case_seed']]
    else:
        seeds = [rng.getrandbits(48) for _ in range(n_cases)]
    with ProcessPoolExecutor(max_workers=16) as ex:
        cases = list(ex.map(one_case, [(s, tier) for s in seeds], chunksize=max(1, len(seeds) // 32)))
    violations = []
    fo_bad, fo_total = first_open_kills()
    for v in fo_bad:
        violations.append({'replay': {'property': 'C07', 'kind': 'first-open-kill', 'acceptor': v}, 'found_input': True, 'what': v})
    kills = 0
    mid = 0
    for c in cases:
        for r in c['results']:
            kills += 1
            if r['done'] < len(c['units']):
                mid += 1
            if r['why'] and len(violations) < 3:
                violations.append({'replay': {'property': 'C07', 'case_seed': c['seed'], 'workload': base.tag(c['units']),
                                              'kill_before_action': r['n'], 'completed_units': r['done'], 'acceptor': r['why']},
                                   'found_input': True, 'what': 'kill before action %d: %s' % (r['n'], r['why'])})
    kinds = {}
    for c in cases:
        for u in c['units']:
            k = 'block' if u[0]['m'] == 'tbegin' else u[0]['m']
            kinds[k] = kinds.get(k, 0) + 1
    return {
        'evaluations': kills, 'distinct_nontrivial': len({(c['seed'], r['n']) for c in cases for r in c['results']}),
        'rule': 'seeded workloads of 3-7 units (set/add/incr/pop/delete/push/pull/touch with inline and file-backed values, transaction blocks of 1-3 '
                'calls, Deque.append with maxlen=2, Index.popitem, clear/expire); the child is SIGKILLed immediately before its n-th action for every n '
                '(quick: at most 40 sampled n per workload); distinct = distinct (workload, kill point)',
        'samples': [{'workload': base.tag(cases[0]['units']), 'actions': cases[0]['actions'], 'kill_points': len(cases[0]['results'])}],
        'traces': kills, 'exhaustive': tier != 'quick',
        'dist': {'first_open_kill_points': fo_total, 'workloads': len(cases), 'kill_points': kills, 'kills_before_completion': mid, 'unit_kinds': kinds},
        'violations': violations, 'known': [],
        'assumptions': ['WAL recovery and the release of a dead process\'s locks are SQLite/OS behaviour: exercised here, assumed by DC.Conc.crash',
                        'kill points are between actions of the library (statement / file operation granularity), not inside SQLite (thorough adds asynchronous kills)'],
    }
