"""C06 — transaction blocks are all-or-nothing, isolated, nestable and thread-owned.

(a) sequential: histories with nested `with cache.transact()` blocks that commit
or raise at any position (replace / remove / pop / pull of file-backed values
inside the block), results + state + micro-step traces against DC.Model.Cache
(tbegin/tend/traise, deferred clean-up); acceptor: after an abort the table,
the counters and every value file that existed before the block are as before.
(b) concurrent: a block in one client against readers/writers in others under
the deterministic scheduler, for own and shared Cache objects; acceptor:
linearizable with the WHOLE block as one step (DC.Conc), on the Lean model."""
import os
import random
import sys
from concurrent.futures import ProcessPoolExecutor

import gen
from props import base, refdict

BIG1, BIG2 = b'x' * 20, b'y' * 31


def block_history(rng, length):
    h = gen.gen_history(rng, length, 'full')
    # more file-backed traffic inside blocks
    h['cfg']['mfs'] = rng.choice([8, 16])
    h['state_every'] = 1
    return h


def acceptor(hist, io):
    err = refdict.accept(hist, io, scope=None)
    if err:
        return err
    # abort restores: digest (rows, counters) after the outermost abort == digest at the outermost begin,
    # and every file present at begin is still present
    depth = 0
    saved = None
    lines = list(io)
    ops = iter(hist['ops'])
    last_state = None
    for j, (line, ans) in enumerate(lines):
        if line == 'state':
            last_state = ans
            continue
        if not line.startswith('op '):
            continue
        op = next(ops)
        m = op['m']
        nxt = lines[j + 1][1] if j + 1 < len(lines) and lines[j + 1][0] == 'state' else None
        if m == 'tbegin':
            if depth == 0:
                saved = last_state
            depth += 1
        elif m == 'tend':
            depth -= 1
        elif m == 'traise':
            n = op.get('n', 1)
            if n >= depth and depth > 0:
                depth = 0
                if saved is not None and nxt is not None:
                    a, b = strip_stats(saved), strip_stats(nxt)
                    ra, fa = a.split(' files=')
                    rb, fb = b.split(' files=')
                    if ra != rb:
                        return 'after an aborted block the table differs from before the block: %s / %s' % (ra[:150], rb[:150])
                    if not set(x for x in fa.split(';') if x) <= set(x for x in fb.split(';') if x):
                        return 'a value file that existed before the aborted block is gone: before %s after %s' % (fa, fb)
            else:
                depth -= n
    return None


def strip_stats(st):
    # statistics flag and depth are not table content
    return ' '.join(t for t in st.split(' ') if not (t.startswith('st=') or t.startswith('d=')))


# ---------------------------------------------------------------------------

def conc_case(args):
    sys.path.insert(0, os.path.dirname(os.path.dirname(os.path.abspath(__file__))))
    import conc
    seed, tier = args[0], args[1]
    forced = args[2] if len(args) > 2 else None
    rng = random.Random(seed)
    cfg = {'mfs': 8, 'policy': rng.choice(['lrs', 'none']), 'cull': 10, 'stats': 0}
    preset = [{'m': 'set', 'now': 1000, 'k': 'a', 'v': BIG1, 'ttl': None, 'tag': None},
              {'m': 'set', 'now': 1000, 'k': 'n', 'v': 5, 'ttl': None, 'tag': None}]

    def small_op(block):
        m = rng.choice(['set', 'incr', 'get', 'pop', 'delete', 'getitem'] if block else ['set', 'incr', 'get', 'getitem', 'contains', 'pop'])
        op = {'m': m, 'now': 1000}
        if m == 'set':
            op.update(k='a', v=rng.choice([BIG1, BIG2, 'small']), ttl=None, tag=None)
        elif m == 'incr':
            op.update(k='n', delta=rng.choice([1, 10]), default=0)
        else:
            op['k'] = rng.choice(['a', 'n'])
        return op
    body = [small_op(True) for _ in range(rng.randint(1, 3))]
    abort = rng.random() < 0.4
    nested = rng.random() < 0.3
    block = [{'m': 'tbegin', 'now': 1000}] + ([{'m': 'tbegin', 'now': 1000}] if nested else []) + body + \
            ([{'m': 'tend', 'now': 1000}] if nested else []) + [{'m': 'traise', 'now': 1000, 'n': 1} if abort else {'m': 'tend', 'now': 1000}]
    programs = {0: block, 1: [small_op(False) for _ in range(rng.randint(1, 2))]}
    units = {0: [list(range(len(block)))], 1: [[i] for i in range(len(programs[1]))]}
    shared = rng.random() < 0.4
    if forced and forced.get('both'):
        # BOTH clients inside blocks on one SHARED Cache object: the window between one thread's
        # COMMIT/ROLLBACK and its bookkeeping, with the other thread entering its own block there
        abort, shared = forced['abort'], True
        b0 = [{'m': 'tbegin', 'now': 1000}, {'m': 'set', 'now': 1000, 'k': 'a', 'v': BIG2, 'ttl': None, 'tag': None},
              {'m': 'traise', 'now': 1000, 'n': 1} if abort else {'m': 'tend', 'now': 1000}]
        b1 = [{'m': 'tbegin', 'now': 1000}, {'m': 'set', 'now': 1000, 'k': 'b', 'v': 'small', 'ttl': None, 'tag': None},
              {'m': 'incr', 'now': 1000, 'k': 'n', 'delta': 1, 'default': 0}, {'m': 'tend', 'now': 1000}]
        programs = {0: b0, 1: b1}
        units = {0: [list(range(len(b0)))], 1: [list(range(len(b1)))]}
        out = []
        scheds = []
        for k in range(0, 16):
            for j in range(1, 9):
                scheds.append([0] * k + [1] * j + [0] * 400 + [1] * 400)
        for sch in scheds:
            run = conc.run_concurrent(cfg, preset, programs, sch, shared=True)
            why = conc.explain(run, programs, cfg, units=units)
            out.append({'why': why, 'steps': run['steps'], 'sched': sch[:80] if why else None})
        return {'seed': seed, 'programs': programs, 'shared': True, 'abort': abort, 'nested': False, 'results': out}
    if forced:
        # the windows around the end of a block: a block that aborts (or commits) on a SHARED object
        # while the other thread writes a file-backed value; every single-preemption point of the block
        abort, shared = forced['abort'], True
        body = [small_op(True) for _ in range(forced['n'])]
        block = [{'m': 'tbegin', 'now': 1000}] + body + [{'m': 'traise', 'now': 1000, 'n': 1} if abort else {'m': 'tend', 'now': 1000}]
        other = {'set': {'m': 'set', 'now': 1000, 'k': forced['k'], 'v': BIG2, 'ttl': None, 'tag': None},
                 # calls that remove a value file AFTER their own commit, outside any block of their own
                 'pop': {'m': 'pop', 'now': 1000, 'k': 'a'},
                 'pull': {'m': 'pull', 'now': 1000, 'prefix': None, 'side': 'front'}}[forced.get('other', 'set')]
        if forced.get('other') == 'pull':
            preset = preset + [{'m': 'push', 'now': 1000, 'v': BIG2, 'prefix': None, 'side': 'back', 'ttl': None, 'tag': None}]
        programs = {0: block, 1: [other]}
        units = {0: [list(range(len(block)))], 1: [[0]]}
    out = []
    bound = (18 if tier == 'quick' else 32) if not forced else 45
    scheds = []
    for a, b in ((0, 1), (1, 0)):
        for k in range(0, bound):
            scheds.append([a] * k + [b] * 400 + [a] * 400)
    for _ in range(4 if tier == 'quick' else 16):
        scheds.append(rng.choices([0, 1], k=rng.randint(5, 60)))
    if forced and forced.get('other'):
        # two preemptions: the other client runs up to just after its COMMIT, the block owner gets in,
        # the other client finishes (its file removal happens now), the owner ends its block
        for k in range(0, 16):
            for j in range(1, 7):
                scheds.append([1] * k + [0] * j + [1] * 400 + [0] * 400)
    for sch in scheds:
        run = conc.run_concurrent(cfg, preset, programs, sch, shared=shared)
        why = conc.explain(run, programs, cfg, units=units)
        out.append({'why': why, 'steps': run['steps'], 'sched': sch[:80] if why else None})
    return {'seed': seed, 'programs': programs, 'shared': shared, 'abort': abort, 'nested': nested, 'results': out}


def incr_block_probe():
    """incr inside a block that raises, with a Disk that puts numbers into files (JSONDisk with
    disk_min_file_size=0): the file incr wrote goes with the rollback (finding D24, fixed; Lean: DC.Cache.block_abort_incr_clean,
    block_abort_check_quiet_clean) - for a new key, for an expired key, and for incr's
    own transaction failing"""
    import os
    import shutil
    import tempfile
    import time
    import diskcache
    root = os.environ.get('VERIF_SCRATCH') or tempfile.gettempdir()
    bad = []
    d = tempfile.mkdtemp(prefix='c6incr-', dir=root)
    try:
        c = diskcache.Cache(d, disk=diskcache.JSONDisk, disk_min_file_size=0)
        c.set('old', 5, expire=0.01)
        time.sleep(0.05)
        for key in ('fresh', 'old'):
            try:
                with c.transact():
                    c.incr(key)
                    raise RuntimeError
            except RuntimeError:
                pass
            warns = [str(w.message).split(':')[0] for w in c.check() if 'empty directory' not in str(w.message)]
            if warns:
                bad.append("incr(%r) inside a block that raises (JSONDisk, every value in a file): check() afterwards reports %r" % (key, warns[:3]))
        if c.get('fresh') is not None:
            bad.append('incr inside a block that raises left the key behind')
        c.close()
    except Exception as e:  # noqa
        bad.append('incr-block probe raised %s: %s' % (type(e).__name__, str(e)[:100]))
    finally:
        shutil.rmtree(d, ignore_errors=True)
    return bad


def evicting_block_probe():
    """a block whose writes EVICT (the cache is at its size limit, file-backed items, every policy) and
    which then raises: the cache is exactly as it was before the block - every evicted item back with its
    value readable, nothing of the block left, no leaked or missing file; the same block committing leaves
    a consistent directory"""
    import os
    import shutil
    import tempfile
    import diskcache
    root = os.environ.get('VERIF_SCRATCH') or tempfile.gettempdir()
    bad = []
    for policy in ('least-recently-stored', 'least-recently-used', 'least-frequently-used'):
        for how in ('raise', 'commit', 'nested-raise'):
            d = tempfile.mkdtemp(prefix='c6ev-', dir=root)
            try:
                c = diskcache.Cache(d, disk_min_file_size=8, cull_limit=10, eviction_policy=policy)
                want = {}
                for i in range(5):
                    want['p%d' % i] = b'P' * 40 + bytes([i])
                    c.set('p%d' % i, want['p%d' % i])
                c.get('p0')
                c.reset('size_limit', 1)          # from now on every write evicts
                try:
                    with c.transact():
                        c.set('new', b'N' * 50)
                        if how == 'nested-raise':
                            with c.transact():
                                c.add('new2', b'M' * 50)
                                raise RuntimeError
                        c.add('new2', b'M' * 50)
                        c.incr('n')
                        if how == 'raise':
                            raise RuntimeError
                except RuntimeError:
                    pass
                warns = [str(w.message) for w in c.check() if 'empty directory' not in str(w.message)]
                if how != 'commit':
                    got = {k: c.get(k) for k in want}
                    extra = [k for k in ('new', 'new2', 'n') if c.get(k) is not None]
                    if got != want or extra or len(c) != 5:
                        bad.append('%s, block that evicts and then raises (%s): afterwards %d items, evicted items restored: %s, items of the block left: %r' % (
                            policy, how, len(c), got == want, extra))
                if warns:
                    bad.append('%s, block that evicts (%s): check() afterwards reports %r' % (policy, how, [w.split(':')[0] for w in warns][:3]))
                c.close()
            except Exception as e:  # noqa
                bad.append('%s, evicting block (%s): probe raised %s: %s' % (policy, how, type(e).__name__, str(e)[:100]))
            finally:
                shutil.rmtree(d, ignore_errors=True)
    return bad


def run(tier, seed, rng, known, replay):
    if replay:
        return base.replay_file(replay, 'C06', ('result', 'state', 'trace'), acceptor)
    n = 200 if tier == 'quick' else 3000
    hists = [block_history(rng, rng.choice([20, 40, 80])) for _ in range(n)]
    r = base.check_histories('C06', hists, ('result', 'state', 'trace'), acceptor=acceptor, known=known)
    dist, distinct = base.op_distribution(hists, r['impl_out'])
    violations = list(r['violations'])
    for v_ in (evicting_block_probe() + incr_block_probe())[:3]:
        violations.append({'replay': {'property': 'C06', 'kind': 'evicting-block-probe', 'acceptor': v_}, 'found_input': True, 'what': v_})
    # (b) concurrent blocks
    n_cases = 24 if tier == 'quick' else 120
    seeds = [rng.getrandbits(48) for _ in range(n_cases)]
    jobs = [(s, tier) for s in seeds]
    for i, (abort, n, k) in enumerate([(True, 1, 'a'), (True, 2, 'b'), (False, 1, 'a'), (False, 2, 'b'), (True, 3, 'a'), (False, 3, 'b')]):
        jobs.append((rng.getrandbits(48), tier, {'abort': abort, 'n': n, 'k': k}))
    for abort in (True, False):
        jobs.append((rng.getrandbits(48), tier, {'both': True, 'abort': abort}))
    for other in ('pop', 'pull'):
        for abort in (True, False):
            jobs.append((rng.getrandbits(48), tier, {'abort': abort, 'n': 2, 'k': 'b', 'other': other}))
    with ProcessPoolExecutor(max_workers=16) as ex:
        cases = list(ex.map(conc_case, jobs, chunksize=1))
    runs = 0
    for c in cases:
        for x in c['results']:
            runs += 1
            if x['why'] and len(violations) < 3:
                violations.append({'replay': {'property': 'C06', 'kind': 'concurrent-block', 'case_seed': c['seed'], 'shared_object': c['shared'],
                                              'programs': base.tag(c['programs']), 'schedule': x['sched'], 'acceptor': x['why']},
                                   'found_input': True, 'what': 'block not atomic/isolated: ' + x['why']})
    return {
        'evaluations': sum(len(h['ops']) for h in hists) + runs, 'distinct_nontrivial': distinct + len(cases),
        'rule': 'seeded sequential histories with nested blocks committing or raising at any position (results + state + micro-step trace), and '
                'scheduled concurrent runs of one block (1-3 calls, optionally nested, committing or raising) against a second client, all '
                'single-preemption schedules up to the bound plus random ones; distinct = distinct (method, result, trace) triples + concurrent cases',
        'samples': [base.sample(hists[0], r['impl_out'][0]), {'concurrent_case': base.tag(cases[0]['programs']), 'schedules': len(cases[0]['results'])}],
        'traces': len(hists) + runs,
        'dist': dict(dist, histories=len(hists), divergent=r['divergent'], concurrent_cases=len(cases), concurrent_runs=runs,
                     aborting_blocks=sum(1 for c in cases if c['abort']), nested_blocks=sum(1 for c in cases if c['nested'])),
        'violations': violations, 'known': r['known'],
    }
