"""Entry point of every registered check:  bin/check Cxx [--tier quick|thorough] [--replay file]

Exit 0: proof obligations discharged and everything explored agrees.
Exit 1: `VIOLATION property=<id> replay=<path>` printed (see DESIGN.md section 5).
Exit 2: infrastructure failure (Lean build broken by the framework itself, harness crash, timeout).
"""
import argparse
import importlib
import json
import os
import random
import shutil
import sys
import tempfile
import time
import traceback

HERE = os.path.dirname(os.path.abspath(__file__))
VERIF = os.path.dirname(HERE)
sys.path.insert(0, HERE)

import audit  # noqa: E402

TRUSTED_BASE = [
    'Lean 4.33.0 kernel; axioms of each property theorem audited on every run (subset of propext, Classical.choice, Quot.sound)',
    'hand-written Lean model DC.Model.* of diskcache (tied to /repo only by the correspondence runs reported here)',
    'harness: module-attribute shims (sqlite3/time/os/open), canonicalisation, line protocol, Lean driver parser',
    'modelled not verified: SQLite statement semantics/ordering/atomic commit, CPython pickle/json/zlib/UTF-8, OS file semantics',
]


def claimed_text(pid):
    """what is claimed for this property: the theorems and what the correspondence covers"""
    try:
        with open(os.path.join(HERE, 'claimed.json')) as f:
            return json.load(f).get(pid, {}).get('text', '')
    except Exception:
        return ''


def load_known():
    with open(os.path.join(VERIF, 'known_findings.json')) as f:
        return json.load(f)


def write_evidence(pid, ev):
    os.makedirs(os.path.join(VERIF, 'evidence'), exist_ok=True)
    path = os.path.join(VERIF, 'evidence', pid + '.json')
    tmp = path + '.tmp'
    with open(tmp, 'w') as f:
        json.dump(ev, f, indent=1, sort_keys=True, default=str)
    os.replace(tmp, path)


def write_replay(pid, seed, n, payload):
    d = os.path.join(VERIF, 'replays')
    os.makedirs(d, exist_ok=True)
    path = os.path.join(d, '%s-seed%d-%d.json' % (pid, seed, n))
    with open(path, 'w') as f:
        json.dump(payload, f, indent=1, default=repr)
    return path


def _descendants(root):
    """pids of all live descendants of `root` (from /proc), deepest first"""
    kids = {}
    for name in os.listdir('/proc'):
        if not name.isdigit():
            continue
        try:
            with open('/proc/%s/stat' % name) as f:
                parts = f.read().rsplit(')', 1)[1].split()
            kids.setdefault(int(parts[1]), []).append(int(name))
        except Exception:
            continue
    out, todo = [], [root]
    while todo:
        p = todo.pop()
        for k in kids.get(p, []):
            out.append(k)
            todo.append(k)
    return out[::-1]


def _watchdog(pid, tier, scratch):
    """a check must end: a run that is still going after the budget (a call of the library that never
    returns, a worker that spins) is stopped with exit 2 - an infrastructure verdict, never a violation"""
    import signal
    budget = int(os.environ.get('VERIF_WATCHDOG_S', '2400' if tier == 'quick' else '21600'))

    def stop(signum, frame):
        try:
            print('INFRA-ERROR property=%s watchdog: the check did not finish within %d s' % (pid, budget), flush=True)
            for k in _descendants(os.getpid()):
                try:
                    os.kill(k, signal.SIGKILL)
                except Exception:
                    pass
            shutil.rmtree(scratch, ignore_errors=True)
        finally:
            os._exit(2)
    signal.signal(signal.SIGALRM, stop)
    signal.alarm(budget)


def main():
    ap = argparse.ArgumentParser()
    ap.add_argument('pid')
    ap.add_argument('--tier', default=os.environ.get('VERIF_TIER', 'quick'))
    ap.add_argument('--replay')
    args = ap.parse_args()
    pid = args.pid
    tier = args.tier if args.tier in ('quick', 'thorough') else 'quick'
    seed = int(os.environ.get('VERIF_SEED', '20260930'))
    t0 = time.time()
    scratch = tempfile.mkdtemp(prefix='dcverif-%s-' % pid)
    os.environ['VERIF_SCRATCH'] = scratch
    os.environ['TMPDIR'] = scratch
    tempfile.tempdir = scratch
    _watchdog(pid, tier, scratch)
    rc = 2
    try:
        rc = run_check(pid, tier, seed, args.replay, t0)
    except Exception:
        traceback.print_exc()
        print('INFRA-ERROR property=%s' % pid)
        rc = 2
    finally:
        shutil.rmtree(scratch, ignore_errors=True)
    sys.exit(rc)


def run_check(pid, tier, seed, replay, t0):
    violations = []      # (what, replay payload, found_input)
    known_lines = []

    # 1+2: build and proof audit --------------------------------------------
    pa = audit.property_audit(pid)
    if not pa['build_ok']:
        print(pa['build_log'])
        print('INFRA-ERROR lean build failed')
        return 2
    proof_broken = [t['theorem'] for t in pa['theorems'] if not t['ok']]
    spec = audit.load_properties().get(pid, {})
    forb = [h for h in pa['forbidden'] if any(h.startswith(m.replace('.', '/') + '.lean') for m in spec.get('modules', []))]

    # thorough: re-check the compiled property modules with Lean's independent checker
    leanchecker = None
    if tier == 'thorough' and spec.get('modules'):
        import subprocess
        t1 = time.time()
        p = subprocess.run(['lake', 'env', 'leanchecker'] + spec['modules'], cwd=audit.LEAN_DIR, capture_output=True, text=True)
        leanchecker = {'modules': spec['modules'], 'rc': p.returncode, 'wall_s': round(time.time() - t1, 1),
                       'output': (p.stdout + p.stderr)[-500:]}
        if p.returncode != 0:
            proof_broken = proof_broken + ['leanchecker:' + ','.join(spec['modules'])]

    # 3: correspondence + acceptor --------------------------------------------
    mod = importlib.import_module('props.' + pid.lower())
    rng = random.Random('%s-%d' % (pid, seed))
    known = [k for k in load_known()['findings'] if k['property'] == pid]
    if replay:
        # a replay file that holds a call history is re-executed as such; every other kind (probe,
        # schedule, kill point, proof obligation) is reproduced by running the whole check again with
        # the seed recorded in the file name: all of those are deterministic functions of the seed
        try:
            with open(replay) as f:
                payload = json.load(f)
        except Exception:
            payload = {}
        is_history = isinstance(payload, dict) and 'cfg' in payload and 'ops' in payload and pid not in ('C05', 'C07', 'C15', 'C17')
        is_case = isinstance(payload, dict) and 'case_seed' in payload and pid in ('C05', 'C07', 'C15', 'C17')
        if not (is_history or is_case):
            import re
            m = re.search(r'-seed(\d+)-', os.path.basename(replay))
            if m:
                seed = int(m.group(1))
                rng = random.Random('%s-%d' % (pid, seed))
            replay = None
    res = mod.run(tier=tier, seed=seed, rng=rng, known=known, replay=replay)
    # res: dict(evaluations, distinct_nontrivial, rule, samples, traces, violations=[...], known=[...], dist={})

    for k in res.get('known', []):
        known_lines.append('KNOWN-FINDING: property=%s %s' % (pid, k))
    n = 0
    # violations that come with a failing input first
    for v in sorted(res.get('violations', []), key=lambda v: not v.get('found_input', False)):
        n += 1
        path = write_replay(pid, seed, n, v['replay'])
        violations.append((path, v.get('found_input', False), v.get('what', '')))
    if proof_broken or forb:
        n += 1
        path = write_replay(pid, seed, n, {
            'kind': 'proof-obligation', 'property': pid,
            'theorems_not_checking': proof_broken, 'forbidden_tokens': forb,
            'note': 'the Lean theorem(s) named here no longer check (or depend on a non-standard axiom); '
                    'the failing-input search over model and implementation found nothing'})
        violations.append((path, False, 'proof obligation not discharged: ' + ','.join(proof_broken + forb)))

    # 5: evidence ----------------------------------------------------------------
    ev = {
        'property_id': pid, 'tier': tier, 'seed': seed, 'level': 'proof',
        'wall_s': round(time.time() - t0, 2), 'violations': len(violations),
        'assumptions': TRUSTED_BASE + res.get('assumptions', []),
        'coverage': {
            'obligations': pa['obligations'], 'discharged': pa['discharged'],
            'checker_cmd': 'cd /verif/lean && lake build DC dcdriver && lake env lean .lake/AuditGen.lean  # #print axioms of: '
                           + ', '.join(t['theorem'] for t in pa['theorems']),
            'trusted_base': TRUSTED_BASE,
            'theorems': pa['theorems'],
            'lean_source_hash': pa['source_hash'],
            'leanchecker': leanchecker,
            'evaluations': res.get('evaluations', 0),
            'distinct_nontrivial': res.get('distinct_nontrivial', 0),
            'rule': res.get('rule', ''),
            'samples': res.get('samples', []),
            'traces_validated_against_impl': res.get('traces', 0),
            'distribution': res.get('dist', {}),
            'known_findings_reproduced': res.get('known', []),
            'explanation': res.get('explanation', '') or claimed_text(pid),
        },
    }
    write_evidence(pid, ev)

    for line in known_lines:
        print(line)
    print('property=%s tier=%s seed=%d obligations=%d discharged=%d evaluations=%d distinct=%d wall=%.1fs' % (
        pid, tier, seed, pa['obligations'], pa['discharged'], res.get('evaluations', 0),
        res.get('distinct_nontrivial', 0), time.time() - t0))
    if violations:
        for path, found, what in violations:
            print('  ' + what[:300])
            print('VIOLATION property=%s replay=%s%s' % (pid, path, '' if found else ' no-failing-input-found'))
        return 1
    return 0


if __name__ == '__main__':
    main()
