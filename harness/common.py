"""Shared encoding helpers for the line protocol (harness <-> Lean driver).

Canonical forms (Appendix B of DESIGN.md):
  n            None / NULL
  i<dec>       int stored natively (inside int64)
  f<hex>       float, IEEE-754 bit pattern (non-NaN)
  s<cp.cp...>  str as decimal code points (lone surrogates survive)
  y<hex>       bytes
  o<hex>       any other object, identified by its serialized form
  h<hex>       open file handle (content read and closed by the harness)
"""
import io
import json
import pickle
import pickletools
import struct
import zlib

I64_MIN = -(2 ** 63)
I64_MAX = 2 ** 63 - 1


def float_bits(x):
    return struct.unpack('>Q', struct.pack('>d', x))[0]


def bits_float(b):
    return struct.unpack('>d', struct.pack('>Q', b))[0]


def cps(s):
    return '.'.join(str(ord(c)) for c in s)


class Codec:
    """Serialisation settings of one cache (what the observations depend on)."""

    def __init__(self, disk='pickle', proto=pickle.HIGHEST_PROTOCOL, level=1):
        self.disk = disk
        self.proto = proto
        self.level = level

    # observed serialisations -------------------------------------------------
    def key_pickle(self, k):
        if self.disk == 'json':
            return zlib.compress(json.dumps(k).encode('utf-8'), self.level)
        return pickletools.optimize(pickle.dumps(k, protocol=self.proto))

    def val_pickle(self, v):
        if self.disk == 'json':
            return zlib.compress(json.dumps(v).encode('utf-8'), self.level)
        return pickle.dumps(v, protocol=self.proto)

    # canonical rendering -------------------------------------------------------
    def native(self, v, is_key):
        t = type(v)
        if t is int and I64_MIN <= v <= I64_MAX:
            return 'i%d' % v
        if t is float and v == v:
            return 'f%x' % float_bits(v)
        if t is str:
            return 's' + cps(v)
        if t is bytes:
            return 'y' + v.hex()
        return None

    def render_key(self, k):
        """Non-native keys are identified by their serialized form.  An object that
        comes back from the cache may serialize differently from the equal object
        that went in (pickle memoizes by identity: known finding D12), so a returned
        key is rendered as the registered key it is deeply equal to."""
        if self.disk != 'json':
            r = self.native(k, True)
            if r is not None:
                return r
        h = self.key_pickle(k).hex()
        reg = self.__dict__.setdefault('_keyreg', {})
        if h in reg:
            return 'o' + h
        for h2, k2 in reg.items():
            if deep_eq(k, k2):
                return 'o' + h2
        reg[h] = k
        return 'o' + h

    def render_val(self, v):
        if isinstance(v, io.IOBase) or hasattr(v, 'read'):
            try:
                data = v.read()
            finally:
                v.close()
            return 'h' + data.hex()
        if self.disk == 'json':
            return 'o' + self.val_pickle(v).hex()
        r = self.native(v, False)
        if r is not None:
            return r
        return 'o' + self.val_pickle(v).hex()


def deep_eq(a, b):
    """equal value AND equal type, recursively"""
    if type(a) is not type(b):
        return False
    if isinstance(a, (tuple, list)):
        return len(a) == len(b) and all(deep_eq(x, y) for x, y in zip(a, b))
    if isinstance(a, dict):
        return list(a.keys()) == list(b.keys()) and all(deep_eq(a[k], b[k]) for k in a)
    if isinstance(a, float):
        return a == b and (a != 0 or str(a) == str(b)) or (a != a and b != b)
    return a == b


def render_sql(v):
    """a database cell (tag, raw key, raw value) read through plain sqlite3"""
    if v is None:
        return 'n'
    t = type(v)
    if t is int:
        return 'i%d' % v
    if t is float:
        return 'f%x' % float_bits(v)
    if t is str:
        return 's' + cps(v)
    if t in (bytes, memoryview):
        return 'y' + bytes(v).hex()
    return '?' + repr(v)


def render_time(t):
    if t is None:
        return 'n'
    if float(t) == int(t):
        return 't%d' % int(t)
    return 't%r' % t


def kv_line(head, fields):
    return head + ' ' + ' '.join('%s=%s' % (k, v) for k, v in fields.items())
