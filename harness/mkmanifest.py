import json
props=[json.loads(l) for l in open('/verif/properties.jsonl')]
import importlib.util, os, sys
claimed=json.load(open('/verif/harness/claimed.json'))
checks=[]; na=[]
for p in props:
    pid=p['id']
    if pid in claimed:
        c=claimed[pid]
        checks.append({
          'property_id':pid,
          'quick_cmd':'bin/check %s --tier quick'%pid,
          'thorough_cmd':'bin/check %s --tier thorough'%pid,
          'evidence_file':'/verif/evidence/%s.json'%pid,
          'replay_cmd_template':'bin/check %s --replay {path}'%pid,
          'engine':'lean-dc',
          'level_claimed':{'category':'proof','text':c['text'],'design_ref':c.get('design_ref','DESIGN.md section 7, '+pid)},
          'level_note':c['note'],
          'technique':c['technique'],
        })
    else:
        na.append({'property_id':pid,'reason':'check not yet registered in this revision (machinery under construction; see DESIGN.md section 9 staging)'})
m={
 'version':1,
 'setup_cmd':'cd /verif/lean && lake build DC dcdriver',
 'hooks':{'guard':'DISKCACHE_VERIF','enable':'no source hook exists: the harness intercepts diskcache through module attributes (core.sqlite3, core.time, core.os, core.open) at run time; the guard variable is reserved and unused',
          'baseline_off_cmd':'cd /repo && /venv/bin/python -m pytest -ra -q -p no:cacheprovider --timeout=900 --continue-on-collection-errors','source_commits':[],'add_only':True},
 'engines':[{'name':'lean-dc','path':'/verif/lean','serves_properties':[c['property_id'] for c in checks],
   'kind_free_text':'Lean 4 model of diskcache (DC.Model.*), property theorems (DC.Properties.*), native line-protocol driver; Python harness runs the real code and the model on the same operation lines and diffs'}],
 'checks':checks,
 'not_applicable':na,
 'notes':'Technique: machine-checked proof in Lean 4 over a hand-written model + checked correspondence (DESIGN.md). bin/check rebuilds the Lean library (no-op when unchanged), audits axioms of the property theorems, then runs the correspondence for that property against /repo\'s working tree.'
}
json.dump(m,open('/verif/MANIFEST.json','w'),indent=1)
print(len(checks),'checks',len(na),'n/a')
