"""Concurrent runs of the real cache under the deterministic scheduler, and the
linearizability acceptor that explains them with the sequential Lean model.

A run = preset ops (sequential), then one short program per client, executed
by real threads under a schedule.  Afterwards every completed call must be
explainable by executing the calls one at a time, in an order that respects
program order and real-time precedence, ON THE LEAN MODEL: same results, same
final table (C05).  The only tolerated anomaly is a look-up that reports a
miss while it overlaps a write/removal of the same key.
"""
import itertools
import os
import shutil
import tempfile

import corr
from impl import CacheRunner, Env, scratch_root
from sched import Scheduler

LOOKUPS = {'get', 'getitem', 'contains', 'read'}
MISS = {'get': None, 'getitem': '!KeyError', 'contains': 'F', 'read': '!KeyError'}
WRITES = {'set', 'add', 'incr', 'pop', 'delete', 'delitem', 'touch', 'clear', 'expire', 'evict', 'cull', 'push', 'pull',
          'setitem', 'setdefault', 'popitem', 'update'}


def open_connection(cache):
    """make the calling thread open its connection before the scheduled phase"""
    try:
        cache._con
    except AttributeError:
        len(cache)


def run_concurrent(cfg, preset, programs, schedule, shared=False, retry=True):
    """-> dict(ok, events, lines(per client per op), final_state, trace)"""
    env = Env.get()
    env.core.sqlite3._timeout = 0
    directory = tempfile.mkdtemp(prefix='k3-', dir=scratch_root())
    runners = {}
    try:
        base = CacheRunner(cfg, directory=directory)
        base.retry = retry
        pre_lines = [base.cfg_line()]
        for op in preset:
            line, res, _ = base.run(op)
            pre_lines.append(line)
        cids = sorted(programs)
        for cid in cids:
            if shared:
                runners[cid] = base
            else:
                r = CacheRunner(cfg, directory=directory)
                r.retry = retry
                r.rec.file_ids = base.rec.file_ids
                runners[cid] = r
        sch = Scheduler(env.rec, post_yield=True)
        lines = {cid: [] for cid in cids}

        def mk(cid):
            r = runners[cid]

            def prepare():
                open_connection(r.cache)  # open this thread's connection (transparent statements only)

            def execute(op):
                line, res, trace = r.run(op)
                lines[cid].append((line, res, trace))
                return res
            return prepare, programs[cid], execute
        ok = sch.run({cid: mk(cid) for cid in cids}, schedule)
        env.core.sqlite3._timeout = None
        state = base.state() if ok else None
        return {'ok': ok, 'events': sch.events, 'lines': lines, 'state': state, 'trace': sch.trace,
                'pre_lines': pre_lines, 'steps': sch.step_no}
    finally:
        env.core.sqlite3._timeout = None
        for r in set(runners.values()):
            try:
                r.cache.close()
            except Exception:
                pass
        try:
            base.cache.close()
        except Exception:
            pass
        shutil.rmtree(directory, ignore_errors=True)


def run_concurrent_layer(cls, cfg, preset, programs, schedule):
    """the same for Deque / Index: one handle per client on one directory (each client its own
    Cache object underneath), `lop` lines for DC.Model.Layers"""
    import layers
    env = Env.get()
    env.core.sqlite3._timeout = 0
    runners = {}
    base = None
    try:
        base = layers.RUNNERS[cls](cfg)
        pre_lines = [base.cfg_line()]
        for op in preset:
            line, res = base.run(op)
            pre_lines.append(line)
        cids = sorted(programs)
        for cid in cids:
            runners[cid] = layers.RUNNERS[cls](dict(cfg), directory=base.dir)
        sch = Scheduler(env.rec, post_yield=True)
        lines = {cid: [] for cid in cids}

        def mk(cid):
            r = runners[cid]

            def prepare():
                open_connection(r.cache)

            def execute(op):
                line, res = r.run(op)
                lines[cid].append((line, res, ''))
                return res
            return prepare, programs[cid], execute
        ok = sch.run({cid: mk(cid) for cid in cids}, schedule)
        env.core.sqlite3._timeout = None
        state = base.state() if ok else None
        return {'ok': ok, 'events': sch.events, 'lines': lines, 'state': state, 'trace': sch.trace,
                'pre_lines': pre_lines, 'steps': sch.step_no, 'state_line': base.state_line()}
    finally:
        env.core.sqlite3._timeout = None
        for r in runners.values():
            try:
                r.close()
            except Exception:
                pass
        if base is not None:
            base.close()


def canon_state(st):
    """state digest modulo file ids (allocation order differs between a concurrent run and
    its sequential explanation): file ids are replaced by the file's length:checksum"""
    if st is None:
        return None
    head, rest = st.split(' rows=', 1)
    rows, files = rest.split(' files=', 1)
    fmap = {}
    for f in files.split(';'):
        if f:
            i, ln, ad = f.split(':')
            fmap[i] = ln + '/' + ad
    out = []
    for r in rows.split(';'):
        if not r:
            continue
        f = r.split(':')
        f[10] = fmap.get(f[10], f[10]) if f[10] != 'n' else 'n'
        out.append(':'.join(f))
    return head + ' rows=' + ';'.join(out) + ' files=' + ';'.join(sorted(fmap.values()))


def candidate_orders(events, programs, units=None):
    """all total orders of the completed calls consistent with program order and real time.
    `units`: per client, lists of op indices that form ONE step of the explanation (a
    transaction block); default: every call is its own unit."""
    call, ret = {}, {}
    for step, cid, kind, i, res in events:
        (call if kind == 'call' else ret)[(cid, i)] = step
    if units is None:
        units = {cid: [[i] for i in range(len(programs[cid]))] for cid in programs}
    us = []
    ucall, uret = {}, {}
    for cid in sorted(programs):
        for n, idxs in enumerate(units[cid]):
            done = [i for i in idxs if (cid, i) in ret]
            if not done:
                continue
            u = (cid, n)
            us.append(u)
            ucall[u] = call[(cid, done[0])]
            uret[u] = ret[(cid, done[-1])]

    def before(a, b):
        if a[0] == b[0]:
            return a[1] < b[1]
        return uret[a] < ucall[b]
    out = []
    for perm in itertools.permutations(us):
        pos = {o: n for n, o in enumerate(perm)}
        if all(not before(b, a) for a in us for b in us if pos[a] < pos[b]):
            out.append([(u[0], i) for u in perm for i in units[u[0]][u[1]] if (u[0], i) in ret])
    return out, call, ret


def overlaps_write(o, order_ops, call, ret, op_of):
    """does look-up `o` overlap (in real time) a write of the same key?"""
    me = op_of[o]
    for p in order_ops:
        if p == o or p[0] == o[0]:
            continue
        q = op_of[p]
        if q['m'] in WRITES and (q.get('k') == me.get('k') or q['m'] in ('clear', 'expire', 'evict', 'cull')
                                 or 'k' not in q):
            if call[p] < ret[o] and call[o] < ret[p]:
                return True
    return False


def explain(run, programs, cfg, units=None):
    """-> None if some candidate order explains the run on the Lean model, else a description"""
    if not run['ok']:
        return 'the run did not terminate within the step bound (livelock or deadlock)'
    orders, call, ret = candidate_orders(run['events'], programs, units)
    op_of = {(cid, i): programs[cid][i] for cid in programs for i in range(len(programs[cid]))}
    got = {}
    linemap = {}
    for cid, ls in run['lines'].items():
        for i, (line, res, _) in enumerate(ls):
            got[(cid, i)] = res
            linemap[(cid, i)] = line
    want_state = canon_state(run['state'])
    lines = []
    spans = []
    for order in orders:
        start = len(lines)
        lines.extend(run['pre_lines'])
        for o in order:
            if got[o].startswith('!Timeout'):
                continue        # a timed-out call has no effect (C14) and takes no part
            lines.append(linemap[o])
        lines.append(run.get('state_line', 'state'))
        spans.append((start, len(lines)))
    ans = corr.run_driver(lines)
    why = []
    for order, (a, b) in zip(orders, spans):
        seg = ans[a:b]
        res_lines = seg[len(run['pre_lines']):-1]
        live = [o for o in order if not got[o].startswith('!Timeout')]
        ok = True
        reason = None
        for o, line in zip(live, res_lines):
            model_res = line.split(' | ')[0][4:] if line.startswith('ret ') else line
            if model_res != got[o]:
                m = op_of[o]['m']
                miss = MISS.get(m, '<none>')
                if m == 'get':
                    from props.refdict import default_flags
                    miss = default_flags(int(op_of[o].get('et', 0)), int(op_of[o].get('tg', 0)))
                if m in LOOKUPS and got[o] == miss and overlaps_write(o, order, call, ret, op_of):
                    continue
                ok = False
                reason = 'call %s%r returned %s, sequentially %s' % (op_of[o]['m'], op_of[o].get('k'), got[o][:40], model_res[:40])
                break
        if ok:
            mstate = canon_state(seg[-1][6:]) if seg[-1].startswith('state ') else seg[-1]
            if mstate == want_state:
                return None
            reason = 'results explained but the final table differs: impl %s / model %s' % (want_state[:160], (mstate or '')[:160])
        why.append(reason)
    return 'no sequential order of the %d calls explains the run (%d candidate orders; e.g. %s)' % (
        len(got), len(orders), why[0] if why else 'none')
