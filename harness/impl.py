"""Run protocol operations on the real diskcache.Cache (from /repo's working tree)
and produce (a) the op line for the Lean driver, including the environment
observations made during the real call, (b) the canonical result, (c) the
abstract action trace, (d) the canonical digest of the observable state read
through an independent plain sqlite3 connection and the file system.
"""
import io
import os
import re
import shutil
import sqlite3
import tempfile
import zlib

from common import Codec, kv_line, render_sql, render_time
import shims

POLICY = {'none': 'none', 'lrs': 'least-recently-stored',
          'lru': 'least-recently-used', 'lfu': 'least-frequently-used'}


class Default:
    def __repr__(self):
        return 'D'


DEFAULT = Default()


def db_page_size(directory):
    """page size of a cache database, read through an independent connection (public information)"""
    import sqlite3 as _sq
    con = _sq.connect(os.path.join(directory, 'cache.db'), timeout=5)
    try:
        return con.execute('PRAGMA page_size').fetchone()[0]
    finally:
        con.close()


class Env:
    """one patched diskcache import per process"""
    _inst = None

    def __init__(self):
        self.rec = shims.Recorder()
        self.clock = shims.Clock()
        self.core = shims.install(self.rec, self.clock)
        import diskcache
        self.diskcache = diskcache

    @classmethod
    def get(cls):
        if cls._inst is None:
            cls._inst = Env()
        return cls._inst


def scratch_root():
    root = os.environ.get('VERIF_SCRATCH')
    if not root:
        root = tempfile.mkdtemp(prefix='dcverif-')
        os.environ['VERIF_SCRATCH'] = root
    os.makedirs(root, exist_ok=True)
    os.environ['TMPDIR'] = root
    tempfile.tempdir = root
    return root


class CacheRunner:
    """One real Cache + the bookkeeping needed to talk the line protocol."""

    def __init__(self, cfg, directory=None):
        self.env = Env.get()
        self.rec = self.env.rec
        self.clock = self.env.clock
        self.cfg = dict(cfg)
        c = self.cfg
        c.setdefault('policy', 'lrs')
        c.setdefault('cull', 10)
        c.setdefault('limN', 2 ** 30)
        c.setdefault('limD', 1)
        c.setdefault('mfs', 32768)
        c.setdefault('disk', 'pickle')
        c.setdefault('proto', 5)
        c.setdefault('stats', 0)
        c.setdefault('tagidx', 0)
        self.codec = Codec(c['disk'], c['proto'])
        self.dir = directory or tempfile.mkdtemp(prefix='c-', dir=scratch_root())
        core = self.env.core
        self.rec.enabled = False
        settings = dict(
            eviction_policy=POLICY[c['policy']], cull_limit=c['cull'],
            size_limit=c['limN'] if c['limD'] == 1 else c['limN'] / c['limD'],
            disk_min_file_size=c['mfs'], statistics=c['stats'], tag_index=c['tagidx'])
        if c['disk'] == 'json':
            self.cache = core.Cache(self.dir, disk=core.JSONDisk, **settings)
        else:
            self.cache = core.Cache(self.dir, disk_pickle_protocol=c['proto'], **settings)
        self.page_size = db_page_size(self.cache.directory)
        self.rec.enabled = True
        self.rec.file_ids = {}
        self.blocks = []           # open `with cache.transact()` context managers
        self.retry = False         # pass retry=True (wait for the write lock) where the API allows

    # ------------------------------------------------------------------
    def cfg_line(self):
        c = self.cfg
        core = self.env.core
        # constants are read from the imported code, not assumed
        return kv_line('cfg', dict(
            policy=c['policy'], cull=c['cull'], limN=c['limN'], limD=c['limD'], mfs=c['mfs'],
            disk=c['disk'], stats=c['stats'], page=100, batch=10,
            qorigin=500000000000000))

    def close(self):
        for cm in reversed(self.blocks):
            try:
                cm.__exit__(None, None, None)
            except Exception:
                pass
        self.blocks = []
        try:
            self.cache.close()
        except Exception:
            pass
        for o in getattr(self, 'others', []):
            try:
                o.close()
            except Exception:
                pass
        if not getattr(self, 'keep_dir', False):
            shutil.rmtree(self.dir, ignore_errors=True)

    # ------------------------------------------------------------------
    def _flags(self, r, et, tg, inner):
        """render a result that may carry expire_time / tag"""
        if et and tg:
            v, e, t = r
            return '(%s,%s,%s)' % (inner(v), render_time(e), render_sql(t))
        if et:
            v, e = r
            return '(%s,%s)' % (inner(v), render_time(e))
        if tg:
            v, t = r
            return '(%s,%s)' % (inner(v), render_sql(t))
        return inner(r)

    def _val(self, v):
        if v is DEFAULT:
            return 'D'
        return self.codec.render_val(v)

    def _pair(self, kv):
        if kv is DEFAULT:
            return 'D'
        k, v = kv
        return '(%s,%s)' % (self.codec.render_key(k), self._val(v))

    def run(self, op):
        """execute one op dict; returns (line, result string, trace string)"""
        cache = self.cache
        codec = self.codec
        m = op['m']
        self.clock.t = op.get('now', self.clock.t)
        self.rec.reset()
        f = {'m': m, 'now': self.clock.t}
        et = int(op.get('et', 0))
        tg = int(op.get('tg', 0))
        try:
            if 'k' in op:
                k = op['k']
                f['k'] = codec.render_key(k)
                kp = codec.key_pickle(k) if (codec.disk == 'json' or codec.native(k, True) is None) else None
                f['kp'] = kp.hex() if kp is not None else '-'
            if 'v' in op:
                v = op['v']
                read = int(op.get('read', 0))
                if read:
                    f['v'] = 'y' + v.hex()
                    f['vp'] = '-'
                    arg_v = io.BytesIO(v)
                else:
                    if codec.disk == 'json':
                        f['v'] = 'o' + codec.val_pickle(v).hex()
                        f['vp'] = codec.val_pickle(v).hex()
                    else:
                        nat = codec.native(v, False)
                        if nat is not None:
                            f['v'] = nat
                            f['vp'] = '-'
                        else:
                            vp = codec.val_pickle(v)
                            # a non-native value travels with its identity (= observed pickle)
                            if type(v) is int:
                                f['v'] = 'i%d' % v
                            elif type(v) is float:
                                f['v'] = 'f%x' % __import__('common').float_bits(v)
                            else:
                                f['v'] = 'o' + vp.hex()
                            f['vp'] = vp.hex()
                    arg_v = v
                f['read'] = read
            if 'ttl' in op:
                f['ttl'] = 'n' if op['ttl'] is None else op['ttl']
            if 'tag' in op:
                f['tag'] = render_sql(op['tag'])
            if et:
                f['et'] = 1
            if tg:
                f['tg'] = 1
            ttl = op.get('ttl')
            tag = op.get('tag')

            if m == 'set':
                r = cache.set(k, arg_v, expire=ttl, read=bool(f['read']), tag=tag, retry=self.retry)
                res = 'T' if r is True else repr(r)
            elif m == 'add':
                r = cache.add(k, arg_v, expire=ttl, read=bool(f['read']), tag=tag, retry=self.retry)
                res = 'T' if r is True else 'F' if r is False else repr(r)
            elif m == 'touch':
                r = cache.touch(k, expire=ttl, retry=self.retry)
                res = 'T' if r is True else 'F' if r is False else repr(r)
            elif m == 'incr':
                f['delta'] = op.get('delta', 1)
                d = op.get('default', 0)
                f['default'] = 'n' if d is None else d
                if op.get('via') == 'decr':
                    f['m'] = 'decr'
                    f['delta'] = -f['delta']
                    r = cache.decr(k, f['delta'], d, retry=self.retry)
                else:
                    r = cache.incr(k, f['delta'], d, retry=self.retry)
                res = 'i%d' % r
            elif m == 'get':
                f['read'] = int(op.get('read', 0))
                r = cache.get(k, default=DEFAULT, read=bool(f['read']), expire_time=bool(et), tag=bool(tg), retry=self.retry)
                res = self._flags(r, et, tg, self._val)
            elif m == 'getitem':
                res = self._val(cache[k])
            elif m == 'read':
                res = self._val(cache.read(k))
            elif m == 'contains':
                res = 'T' if (k in cache) else 'F'
            elif m == 'pop':
                r = cache.pop(k, default=DEFAULT, expire_time=bool(et), tag=bool(tg), retry=self.retry)
                res = self._flags(r, et, tg, self._val)
            elif m == 'delitem':
                del cache[k]
                res = 'T'
            elif m == 'delete':
                r = cache.delete(k, retry=self.retry)
                res = 'T' if r is True else 'F' if r is False else repr(r)
            elif m == 'push':
                pfx = op.get('prefix')
                f['prefix'] = 'n' if pfx is None else 's' + __import__('common').cps(pfx)
                f['side'] = op.get('side', 'back')
                r = cache.push(arg_v, prefix=pfx, side=f['side'], expire=ttl, read=bool(f['read']), tag=tag, retry=self.retry)
                res = codec.native(r, True) or repr(r)
            elif m in ('pull', 'peek'):
                pfx = op.get('prefix')
                f['prefix'] = 'n' if pfx is None else 's' + __import__('common').cps(pfx)
                f['side'] = op.get('side', 'front')
                fn = cache.pull if m == 'pull' else cache.peek
                r = fn(prefix=pfx, default=DEFAULT, side=f['side'], expire_time=bool(et), tag=bool(tg), retry=self.retry)
                res = self._flags(r, et, tg, self._qpair)
            elif m == 'peekitem':
                f['last'] = int(op.get('last', 1))
                r = cache.peekitem(last=bool(f['last']), expire_time=bool(et), tag=bool(tg), retry=self.retry)
                res = self._flags(r, et, tg, self._pair)
            elif m == 'clear':
                res = 'i%d' % cache.clear(retry=self.retry)
            elif m == 'evict':
                res = 'i%d' % cache.evict(tag, retry=self.retry)
            elif m == 'expire':
                res = 'i%d' % cache.expire(retry=self.retry)
            elif m == 'cull':
                res = 'i%d' % cache.cull(retry=self.retry)
            elif m == 'iter':
                res = '[' + ','.join(codec.render_key(x) for x in cache) + ']'
            elif m == 'riter':
                res = '[' + ','.join(codec.render_key(x) for x in reversed(cache)) + ']'
            elif m == 'iterkeys':
                res = '[' + ','.join(codec.render_key(x) for x in cache.iterkeys()) + ']'
            elif m == 'riterkeys':
                res = '[' + ','.join(codec.render_key(x) for x in cache.iterkeys(reverse=True)) + ']'
            elif m == 'reopen':
                # close and open the directory again without arguments: stored settings apply
                for cm in reversed(self.blocks):
                    cm.__exit__(None, None, None)
                self.blocks = []
                self.rec.enabled = False
                try:
                    disk = type(cache.disk)
                    cache.close()
                    self.cache = self.env.core.Cache(self.dir, disk=disk)
                finally:
                    self.rec.enabled = True
                res = 'n'
            elif m == 'pickle':
                import pickle as _p
                self.rec.enabled = False
                try:
                    self.cache = _p.loads(_p.dumps(cache))
                finally:
                    self.rec.enabled = True
                res = 'n'
            elif m == 'second':
                self.rec.enabled = False
                try:
                    other = self.env.core.Cache(self.dir, disk=type(cache.disk))
                    self.others = getattr(self, 'others', []) + [cache]
                    self.cache = other
                finally:
                    self.rec.enabled = True
                res = 'n'
            elif m == 'settings':
                c = cache
                lim = c.size_limit
                res = '(s%s,i%d,i%d,i%d,i%d)' % (__import__('common').cps({v: k for k, v in POLICY.items()}[c.eviction_policy]), c.cull_limit, int(lim),
                                               c.disk_min_file_size, int(bool(c.statistics)))
            elif m == 'check':
                ws = [str(w.message) for w in cache.check()]
                ws = [w for w in ws if not w.startswith('empty directory')]
                res = '[]' if not ws else '!Inconsistent'
                self.last_check = ws
            elif m == 'len':
                res = 'i%d' % len(cache)
            elif m == 'volume':
                res = 'i%d' % cache.volume()
            elif m == 'stats':
                f['enable'] = int(op.get('enable', 1))
                f['reset'] = int(op.get('reset', 0))
                h, mi = cache.stats(enable=bool(f['enable']), reset=bool(f['reset']))
                res = '(i%d,i%d)' % (h, mi)
            elif m == 'tbegin':
                cm = cache.transact(retry=self.retry)
                cm.__enter__()
                self.blocks.append(cm)
                res = 'n'
            elif m == 'tend':
                cm = self.blocks.pop()
                cm.__exit__(None, None, None)
                res = 'n'
            elif m == 'traise':
                n = int(op.get('n', 1))
                f['n'] = n
                cls_ = {'RuntimeError': RuntimeError, 'KeyboardInterrupt': KeyboardInterrupt, 'SystemExit': SystemExit}[op.get('exc', 'RuntimeError')]
                exc = cls_('abort')
                for _ in range(min(n, len(self.blocks))):
                    cm = self.blocks.pop()
                    try:
                        cm.__exit__(cls_, exc, None)
                    except BaseException as e_:      # noqa: the exception we threw comes back out
                        if e_ is not exc:
                            raise
                res = 'n'
            elif m == 'reset':
                f['key'] = op['key']
                f['value'] = op['value']
                r = cache.reset(op['key'], op['value'])
                res = 'i%d' % r
            else:
                raise ValueError('unknown method ' + m)
        except self.env.core.Timeout as e:
            res = '!Timeout' + (':%d' % e.args[0] if e.args else '')
        except Exception as e:  # canonical: the exception class
            res = '!' + type(e).__name__
        f['env'] = ','.join(str(pc * self.page_size) for pc in self.rec.page_counts) or '-'
        trace = ','.join(self.rec.actions)
        return kv_line('op', f), res, trace

    def _qpair(self, kv):
        if kv is DEFAULT:
            return 'D'
        k, v = kv
        return '(%s,%s)' % (self.codec.native(k, True) or repr(k), self._val(v))

    # ------------------------------------------------------------------
    def state(self):
        """canonical digest through an independent connection + the file system"""
        if self.blocks:
            # inside an open transaction block only the owner sees the working state
            con = self.cache._con._con
            close = False
        else:
            con = sqlite3.connect(os.path.join(self.dir, 'cache.db'), timeout=5)
            close = True
        try:
            rows = con.execute(
                'SELECT rowid, key, raw, store_time, expire_time, access_time, access_count,'
                ' tag, size, mode, filename, value FROM Cache ORDER BY rowid').fetchall()
            sets = dict(con.execute('SELECT key, value FROM Settings').fetchall())
        finally:
            if close:
                con.close()
        out = []
        for (rowid, key, raw, st, et, at, an, tag, size, mode, fn, val) in rows:
            fid = 'n' if fn is None else (
                str(self.rec.file_ids[fn.replace(os.sep, '/')]) if fn.replace(os.sep, '/') in self.rec.file_ids else '?' + fn)
            out.append(':'.join([
                str(rowid), render_sql(key), str(int(raw)), _t(st), 'n' if et is None else _t(et), _t(at),
                str(an), render_sql(tag), str(size), str(mode), fid, render_sql(val)]))
        files = []
        for dp, _, fs in os.walk(self.dir):
            for name in fs:
                if name.endswith('.val'):
                    full = os.path.join(dp, name)
                    rel = os.path.relpath(full, self.dir).replace(os.sep, '/')
                    with open(full, 'rb') as h:
                        data = h.read()
                    fid = self.rec.file_ids.get(rel)
                    files.append((fid if fid is not None else 10 ** 9, '%s:%d:%d' % (
                        fid if fid is not None else '?' + rel, len(data), zlib.adler32(data) & 0xffffffff)))
        files.sort()
        return 'c=%d z=%d h=%d m=%d st=%d d=%d rows=%s files=%s' % (
            sets['count'], sets['size'], sets['hits'], sets['misses'], int(bool(sets['statistics'])),
            len(self.blocks), ';'.join(out), ';'.join(x[1] for x in files))


def _t(x):
    return str(int(x)) if float(x) == int(x) else repr(x)
