"""Correspondence runner: the same op lines go to the real code and to the Lean
driver; answers are compared line by line (result, micro-step trace, state
digest).  Everything random derives from the caller's seed."""
import os
import subprocess
import sys
import tempfile
import time
from concurrent.futures import ProcessPoolExecutor

HERE = os.path.dirname(os.path.abspath(__file__))
VERIF = os.path.dirname(HERE)
LEAN_DIR = os.path.join(VERIF, 'lean')


def run_impl_history(hist):
    """-> list of (line, expected answer); runs in a worker process"""
    from impl import CacheRunner
    r = CacheRunner(hist['cfg'])
    out = []
    try:
        out.append((r.cfg_line(), 'ok'))
        every = hist.get('state_every', 1)
        for i, op in enumerate(hist['ops']):
            line, res, trace = r.run(op)
            out.append((line, 'ret %s | %s' % (res, trace)))
            if every and (i % every == every - 1 or i == len(hist['ops']) - 1):
                out.append(('state', 'state ' + r.state()))
    finally:
        r.close()
    return out


def _impl_chunk(hists):
    sys.path.insert(0, HERE)
    import faulthandler
    faulthandler.dump_traceback_later(int(os.environ.get('VERIF_WORKER_TIMEOUT', '600')), exit=True)
    try:
        return [run_impl_history(h) for h in hists]
    finally:
        faulthandler.cancel_dump_traceback_later()


def run_driver(lines, driver='Main.lean'):
    """feed lines to the Lean driver, return answers"""
    with tempfile.NamedTemporaryFile('w', suffix='.ops', delete=False, dir=os.environ.get('VERIF_SCRATCH')) as f:
        f.write('\n'.join(lines) + '\n')
        path = f.name
    try:
        with open(path) as fin:
            exe = os.path.join(LEAN_DIR, '.lake', 'build', 'bin', 'dcdriver')
            if os.path.exists(exe) and not os.environ.get('VERIF_INTERP_DRIVER'):
                cmd = [exe]
            else:
                cmd = ['lake', 'env', 'lean', '--run', driver]
            p = subprocess.run(cmd, cwd=LEAN_DIR, stdin=fin, capture_output=True, text=True)
        if p.returncode != 0:
            raise RuntimeError('lean driver failed: ' + p.stderr[-2000:] + p.stdout[-500:])
        return p.stdout.split('\n')[:-1] if p.stdout.endswith('\n') else p.stdout.split('\n')
    finally:
        os.unlink(path)


def chunks(xs, n):
    k = max(1, (len(xs) + n - 1) // n)
    return [xs[i:i + k] for i in range(0, len(xs), k)]


def run_histories(hists, workers=None, runner=_impl_chunk, driver='Main.lean'):
    """Run all histories on impl and model.
    Returns (results, stats): results[i] = None if history i agrees, else a dict
    describing the first divergence."""
    workers = workers or min(16, os.cpu_count() or 4)
    t0 = time.time()
    parts = chunks(list(range(len(hists))), workers)
    impl_out = [None] * len(hists)
    with ProcessPoolExecutor(max_workers=workers) as ex:
        futs = [(idx, ex.submit(runner, [hists[i] for i in idx])) for idx in parts]
        for idx, fu in futs:
            for i, o in zip(idx, fu.result()):
                impl_out[i] = o
    t1 = time.time()
    # model side: one driver process per chunk
    def drive(idx):
        lines = []
        for i in idx:
            lines.extend(l for l, _ in impl_out[i])
        return run_driver(lines, driver)
    from concurrent.futures import ThreadPoolExecutor
    model_out = [None] * len(hists)
    with ThreadPoolExecutor(max_workers=workers) as ex:
        futs = [(idx, ex.submit(drive, idx)) for idx in parts]
        for idx, fu in futs:
            ans = fu.result()
            pos = 0
            for i in idx:
                n = len(impl_out[i])
                model_out[i] = ans[pos:pos + n]
                pos += n
    t2 = time.time()
    results = []
    nlines = 0
    for i, h in enumerate(hists):
        div = None
        for j, ((line, exp), got) in enumerate(zip(impl_out[i], model_out[i] + [''] * len(impl_out[i]))):
            nlines += 1
            if exp != got:
                div = {'history': i, 'line_no': j, 'line': line, 'impl': exp, 'model': got,
                       'field': first_diff_field(exp, got)}
                break
        results.append(div)
    stats = {'impl_s': round(t1 - t0, 2), 'model_s': round(t2 - t1, 2), 'lines': nlines}
    return results, stats, impl_out, model_out


def first_diff_field(exp, got):
    if exp.startswith('ret') and got.startswith('ret'):
        e = exp.split(' | ')
        g = got.split(' | ')
        if e[0] != g[0]:
            return 'result'
        return 'trace'
    if exp.startswith('state') and got.startswith('state'):
        ef = exp.split(' ')
        gf = got.split(' ')
        for a, b in zip(ef, gf):
            if a != b:
                k = a.split('=')[0]
                if k == 'rows':
                    ra = a[5:].split(';')
                    rb = b[5:].split(';')
                    for x, y in zip(ra, rb):
                        if x != y:
                            return 'rows: impl %s model %s' % (x, y)
                    return 'rows: count %d vs %d' % (len(ra), len(rb))
                return k + ': impl %s model %s' % (a, b)
        return 'state'
    return 'kind'
