/-
Helper lemmas for C10_LooseRefine, part 1: `pull` and `peek` under the loose
relation (any `cull_limit`, expiry times on queue items allowed): the cache side is
the loop lemma of DC/Proofs/QRefinePull.lean, the comparison with the reference is
`thinned_pull_core` (DC/Properties/C10_Loose.lean).
-/
import DC.Proofs.QLooseDefs

namespace DC.Cache
open DC.Spec DC.QSpec

/-- the dictionary part survives the removal of rows that are queue rows -/
theorem loose_shrunk_dict {c c' : Cache} {f : Row → Bool} {d : Dict} {clock now : Int}
    (hg : Good c) (hd : ∀ k : Spec.Key, isQueueKey k = false → HoldsKey c k (d.get k) clock)
    (hn : clock ≤ now) (h : Shrunk c c' f)
    (hf : ∀ r ∈ c.rows, (∀ p, r ∉ c.queueRows p) → f r = true) :
    ∀ k : Spec.Key, isQueueKey k = false → HoldsKey c' k (d.get k) now := by
  intro k hk
  rw [holdsKey_iff]
  have h0 := (holdsKey_iff _ _ _ _).1 (hd k hk)
  rw [h.view hg k]
  · exact rf_VRel_mono h0 hn
  · intro r hr' hm
    apply hf r hr'
    intro p hp
    rw [queueRows_eq] at hp
    have := keyMatch_ordinary hk (mem_qrows.1 hp).2
    rw [hm] at this; cases this

/-- rows are removed from queue `p` only, the specification's queue `p` is set to a list the
cache's queue is a thinning of: the states correspond -/
theorem qloose_shrunk_put {c c' : Cache} {f : Row → Bool} {q : QSpec.State} {clock now : Int}
    {n : Nat} {p : Option Str} (hok : QOkL c n) (hr : QLoose c q clock) (hn : clock ≤ now)
    (hsh : Shrunk c c' f) (hf : ∀ x ∈ c.rows, x ∉ c.queueRows p → f x = true)
    (l : List Item) (hl : Thinned now (absQueue c' p) l) :
    QLoose c' { q with queues := q.queues.put p l } now := by
  have hg := hok.good
  refine ⟨?_, hr.wf, hr.ord, loose_shrunk_dict hg hr.dict hn hsh (fun r hr' h => hf r hr' (h p))⟩
  intro p'
  show Thinned now _ ((q.queues.put p l).get p')
  rw [get_put]
  by_cases hp : p = p'
  · subst hp; rw [if_pos rfl]; exact hl
  · rw [if_neg hp]
    have : absQueue c' p' = absQueue c p' := by
      apply hsh.absQ_same hg
      intro r hr'
      have hrr : r ∈ c.rows := by rw [queueRows_eq] at hr'; exact (mem_qrows.1 hr').1
      apply hf r hrr
      intro hc
      rw [queueRows_eq] at hc hr'
      exact qrows_disjoint hp hc hr'
    rw [this]
    exact (hr.queues p').mono hn

/-- no row is removed: the states correspond as before -/
theorem qloose_shrunk_id {c c' : Cache} {f : Row → Bool} {q : QSpec.State} {clock now : Int}
    (hg : Good c) (hr : QLoose c q clock) (hn : clock ≤ now)
    (hsh : Shrunk c c' f) (hf : ∀ x ∈ c.rows, f x = true) : QLoose c' q now := by
  refine ⟨?_, hr.wf, hr.ord, loose_shrunk_dict hg hr.dict hn hsh (fun r hr' _ => hf r hr')⟩
  intro p'
  have : absQueue c' p' = absQueue c p' := by
    apply hsh.absQ_same hg
    intro r hr'
    rw [queueRows_eq] at hr'
    exact hf r (mem_qrows.1 hr').1
  rw [this]
  exact (hr.queues p').mono hn

/-- `pull`, on the cache side alone: what it returns and what it leaves of the queue, in terms of
the items of the queue -/
theorem pull_abs (c : Cache) (n : Nat) (now : Int) (E : Externals) (p : Option Str) (front et tg : Bool)
    (hok : QOkL c n) :
    ∃ f, Shrunk c (c.pull E now p front et tg).1 f ∧
      (∀ x ∈ c.rows, x ∉ c.queueRows p → f x = true) ∧
      (c.pull E now p front et tg).2 =
        (match endOf front (trim now front (absQueue c p)) with
         | none => defaultFlags et tg
         | some it => QSpec.result E c.cfg p et tg it) ∧
      absQueue (c.pull E now p front et tg).1 p =
        (match endOf front (trim now front (absQueue c p)) with
         | none => trim now front (absQueue c p)
         | some _ => dropEnd front (trim now front (absQueue c p))) := by
  obtain ⟨f, hsh, hf, hq, ho⟩ := qr_pullLoop E now p front et tg n _ c (c.rows.length + 1) rfl
    (by have := queueRows_length_le c p; omega) hok
  have habs := absQueue_shrunk hok.good hsh p
  refine ⟨f, hsh, hf, ?_, ?_⟩
  · unfold pull
    rw [ho, trim_abs, endOf_map]
    cases he : endOf front (trimBy (expired now) front (c.queueRows p)) with
    | none => rfl
    | some r =>
      simp only [Option.map_some]
      exact (result_item hok (trimBy_sub _ _ _ _ (endOf_mem he)) E et tg).symm
  · unfold pull at habs ⊢
    rw [habs, hq, trim_abs, endOf_map]
    cases he : endOf front (trimBy (expired now) front (c.queueRows p)) with
    | none => rfl
    | some r => simp only [Option.map_some]; rw [dropEnd_map]

theorem peek_abs (c : Cache) (n : Nat) (now : Int) (E : Externals) (p : Option Str) (front et tg : Bool)
    (hok : QOkL c n) :
    ∃ f, Shrunk c (c.peek E now p front et tg).1 f ∧
      (∀ x ∈ c.rows, x ∉ c.queueRows p → f x = true) ∧
      (c.peek E now p front et tg).2 =
        (match endOf front (trim now front (absQueue c p)) with
         | none => defaultFlags et tg
         | some it => QSpec.result E c.cfg p et tg it) ∧
      absQueue (c.peek E now p front et tg).1 p = trim now front (absQueue c p) := by
  obtain ⟨f, hsh, hf, hq, ho⟩ := qr_peekLoop E now p front et tg n _ c (c.rows.length + 1) rfl
    (by have := queueRows_length_le c p; omega) hok
  have habs := absQueue_shrunk hok.good hsh p
  refine ⟨f, hsh, hf, ?_, ?_⟩
  · unfold peek
    rw [ho, trim_abs, endOf_map]
    cases he : endOf front (trimBy (expired now) front (c.queueRows p)) with
    | none => rfl
    | some r =>
      simp only [Option.map_some]
      exact (result_item hok (trimBy_sub _ _ _ _ (endOf_mem he)) E et tg).symm
  · unfold peek at habs ⊢
    rw [habs, hq, trim_abs]

/-- one `pull` under the loose relation -/
theorem ql_pull_step (c : Cache) (q : QSpec.State) (n : Nat) (clock now : Int) (E : Externals)
    (p : Option Str) (front et tg : Bool)
    (hok : QOkL c n) (hr : QLoose c q clock) (hn : clock ≤ now) :
    (c.pull E now p front et tg).2 = (QSpec.pull q E c.cfg now p front et tg).2 ∧
    QLoose (c.pull E now p front et tg).1 (QSpec.pull q E c.cfg now p front et tg).1 now ∧
    QOkL (c.pull E now p front et tg).1 n ∧ (c.pull E now p front et tg).1.cfg = c.cfg := by
  obtain ⟨f, hsh, hf, ho, ha⟩ := pull_abs c n now E p front et tg hok
  obtain ⟨h1, h2, h3⟩ := thinned_pull_core now front ((hr.queues p).mono hn)
  rw [ho]
  rw [h1] at ha ⊢
  unfold QSpec.pull
  simp only
  cases he : endOf front (trim now front (q.queues.get p)) with
  | none =>
    rw [he] at ha
    simp only at ha ⊢
    exact ⟨trivial, qloose_shrunk_put hok hr hn hsh hf _ (by rw [ha]; exact h2), hok.shrunk hsh, hsh.cfg⟩
  | some it =>
    rw [he] at ha
    simp only at ha ⊢
    exact ⟨trivial, qloose_shrunk_put hok hr hn hsh hf _ (by rw [ha]; exact h3), hok.shrunk hsh, hsh.cfg⟩

/-- one `peek` under the loose relation -/
theorem ql_peek_step (c : Cache) (q : QSpec.State) (n : Nat) (clock now : Int) (E : Externals)
    (p : Option Str) (front et tg : Bool)
    (hok : QOkL c n) (hr : QLoose c q clock) (hn : clock ≤ now) :
    (c.peek E now p front et tg).2 = (QSpec.peek q E c.cfg now p front et tg).2 ∧
    QLoose (c.peek E now p front et tg).1 (QSpec.peek q E c.cfg now p front et tg).1 now ∧
    QOkL (c.peek E now p front et tg).1 n ∧ (c.peek E now p front et tg).1.cfg = c.cfg := by
  obtain ⟨f, hsh, hf, ho, ha⟩ := peek_abs c n now E p front et tg hok
  obtain ⟨h1, h2, -⟩ := thinned_pull_core now front ((hr.queues p).mono hn)
  rw [ho, h1]
  unfold QSpec.peek
  simp only
  cases he : endOf front (trim now front (q.queues.get p)) with
  | none =>
    exact ⟨rfl, qloose_shrunk_put hok hr hn hsh hf _ (by rw [ha]; exact h2), hok.shrunk hsh, hsh.cfg⟩
  | some it =>
    exact ⟨rfl, qloose_shrunk_put hok hr hn hsh hf _ (by rw [ha]; exact h2), hok.shrunk hsh, hsh.cfg⟩

end DC.Cache
