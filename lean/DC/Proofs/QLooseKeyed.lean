/-
Helper lemmas for C10_LooseRefine, part 3: the key-addressed calls and the bulk removals
under the loose relation.  The texts are those of DC/Proofs/QRefineKeyed.lean,
QRefineSet.lean and QRefineWrite.lean with `QLoose` / `QOkL` for `QRefines` / `QOk`; what differs is
the frame of a write (`ql_frame`): its lazy cull may now remove expired QUEUE rows too, so a queue
afterwards is the queue before `Thinned`, not the same queue.
-/
import DC.Proofs.QLoosePush

namespace DC.Cache
open DC.Spec DC.QSpec

/-- rows are removed, none of them a queue row; the dictionary part is given -/
theorem ql_keyed_shrunk {c c' : Cache} {f : Row → Bool} {q : QSpec.State} {clock now : Int} {n : Nat}
    (hok : QOkL c n) (hr : QLoose c q clock) (hn : clock ≤ now) (hsh : Shrunk c c' f)
    (hfq : ∀ p, ∀ r ∈ c.queueRows p, f r = true) (d' : Dict) (hwf : d'.WF)
    (hord : ∀ b ∈ d', isQueueKey b.1 = false)
    (hdict : ∀ k, isQueueKey k = false → rf_VRel (rf_view c' k) (d'.get k) now) :
    QLoose c' { q with dict := d' } now ∧ QOkL c' n := by
  refine ⟨⟨?_, hwf, hord, fun k hk => (holdsKey_iff _ _ _ _).2 (hdict k hk)⟩, hok.shrunk hsh⟩
  intro p
  show Thinned now _ (q.queues.get p)
  rw [hsh.absQ_same hok.good p (hfq p)]
  exact (hr.queues p).mono hn

/-- **the frame of a write to an ordinary key, any `cull_limit`**: the view changes at `K` only, up
to the lazy cull (`hV`); the rows of the other keys come from the state before (`h1`).  Then every
queue is what it was, minus rows that are expired at `now`. -/
theorem ql_frame {c c' : Cache} {n : Nat} {now : Int} {K : Key} {u : Option Entry}
    (hok : QOkL c n) (hg' : Good c') (hK : isQueueKey K = false)
    (hV : rf_Culled now (rf_at K u (rf_view c)) (rf_view c'))
    (h1 : ∀ r ∈ c'.rows, keyMatch K.1 K.2 r = false → r ∈ c.rows) :
    ∀ p, c'.queueRows p = (c.queueRows p).filter (fun r => decide (r ∈ c'.rows)) ∧
      (∀ r ∈ c.queueRows p, r ∈ c'.rows → rf_ent c' r = rf_ent c r) ∧
      (∀ r ∈ c.queueRows p, r ∉ c'.rows → expired now r = true) := by
  have hg := hok.good
  have hcase : ∀ p, ∀ r ∈ c.queueRows p,
      (r ∈ c'.rows ∧ rf_ent c' r = rf_ent c r) ∨ (r ∉ c'.rows ∧ expired now r = true) := by
    intro p r hr
    rw [queueRows_eq] at hr
    obtain ⟨hrr, hq⟩ := mem_qrows.1 hr
    have hkm : keyMatch K.1 K.2 r = false := keyMatch_ordinary hK hq
    have hself : keyMatch r.key r.raw r = true := by
      simp [keyMatch, eqv_self (hg.tinv.tbl.nonnull r hrr)]
    have hns : sameKey K (r.key, r.raw) = false := by
      cases hs : sameKey K (r.key, r.raw) with
      | false => rfl
      | true =>
        have := rf_keyMatch_congr hs r
        rw [hkm] at this
        simp only at this
        rw [hself] at this; cases this
    have hvc : rf_view c (r.key, r.raw) = some (rf_ent c r) := by
      unfold rf_view rf_look
      rw [rf_find_of_mem hg.tinv.tbl.uniq hrr hself]; rfl
    have hat : rf_at K u (rf_view c) (r.key, r.raw) = some (rf_ent c r) := by
      unfold rf_at; rw [hns]; exact hvc
    rcases hV (r.key, r.raw) with hv | ⟨hv, e, he1, he2⟩
    · left
      rw [hat] at hv
      have hmem : r ∈ c'.rows := by
        unfold rf_view rf_look at hv
        cases hf : c'.rows.find? (keyMatch r.key r.raw) with
        | none => rw [hf] at hv; cases hv
        | some x =>
          have hx := List.mem_of_find?_eq_some hf
          have hkx : keyMatch r.key r.raw x = true := List.find?_some hf
          have hxK : keyMatch K.1 K.2 x = false := by
            cases hxk : keyMatch K.1 K.2 x with
            | false => rfl
            | true =>
              have hs1 : sameKey (x.key, x.raw) K = true := hxk
              have hs2 : sameKey (x.key, x.raw) (r.key, r.raw) = true := hkx
              rw [rf_sameKey_trans (rf_sameKey_symm hs1) hs2] at hns; cases hns
          have hxc := h1 x hx hxK
          have := keysUnique_eq hg.tinv.tbl.uniq hxc hrr hkx hself
          rw [← this]; exact hx
      refine ⟨hmem, ?_⟩
      have hvc' : rf_view c' (r.key, r.raw) = some (rf_ent c' r) := by
        unfold rf_view rf_look
        rw [rf_find_of_mem hg'.tinv.tbl.uniq hmem hself]; rfl
      rw [hvc'] at hv
      exact Option.some.inj hv
    · right
      rw [hat] at he1
      cases he1
      refine ⟨?_, he2⟩
      intro hmem
      have hvc' : rf_view c' (r.key, r.raw) = some (rf_ent c' r) := by
        unfold rf_view rf_look
        rw [rf_find_of_mem hg'.tinv.tbl.uniq hmem hself]; rfl
      rw [hvc'] at hv; cases hv
  intro p
  refine ⟨?_, ?_, ?_⟩
  · rw [queueRows_eq c']
    apply qrows_eq_of_mem hg'.tinv.tbl.uniq hg'.tinv.tbl.nonnull
    · rw [queueRows_eq]
      exact List.Pairwise.filter _ (qrows_sorted hg.tinv.tbl.uniq hg.tinv.tbl.nonnull p)
    · intro x
      rw [List.mem_filter]
      constructor
      · rintro ⟨hx, hm⟩
        exact ⟨by simpa using hm, by rw [queueRows_eq] at hx; exact (mem_qrows.1 hx).2⟩
      · rintro ⟨hx, hq⟩
        refine ⟨?_, by simpa using hx⟩
        rw [queueRows_eq]
        exact mem_qrows.2 ⟨h1 x hx (keyMatch_ordinary hK hq), hq⟩
  · intro r hr hm
    rcases hcase p r hr with ⟨-, h⟩ | ⟨h, -⟩
    · exact h
    · exact absurd hm h
  · intro r hr hm
    rcases hcase p r hr with ⟨h, -⟩ | ⟨-, h⟩
    · exact absurd h hm
    · exact h

/-- the queues are what they were minus expired rows, the configuration is the same: relation
and invariant carry over -/
theorem ql_frame_finish {c c' : Cache} {n : Nat} {q : QSpec.State} {clock now : Int}
    (hok : QOkL c n) (hr : QLoose c q clock) (hn : clock ≤ now) (hg' : Good c') (hcfg : c'.cfg = c.cfg)
    (hF : ∀ p, c'.queueRows p = (c.queueRows p).filter (fun r => decide (r ∈ c'.rows)) ∧
      (∀ r ∈ c.queueRows p, r ∈ c'.rows → rf_ent c' r = rf_ent c r) ∧
      (∀ r ∈ c.queueRows p, r ∉ c'.rows → expired now r = true))
    (d' : Dict) (hwf : d'.WF) (hord : ∀ b ∈ d', isQueueKey b.1 = false)
    (hdict : ∀ k, isQueueKey k = false → rf_VRel (rf_view c' k) (d'.get k) now) :
    QLoose c' { q with dict := d' } now ∧ QOkL c' n := by
  have hg := hok.good
  have hsub : ∀ p, ∀ r ∈ c'.queueRows p, r ∈ c.queueRows p ∧ r ∈ c'.rows := by
    intro p r hr'
    rw [(hF p).1] at hr'
    obtain ⟨a, b⟩ := List.mem_filter.1 hr'
    exact ⟨a, by simpa using b⟩
  refine ⟨⟨?_, hwf, hord, fun k hk => (holdsKey_iff _ _ _ _).2 (hdict k hk)⟩, ?_⟩
  · intro p
    show Thinned now _ (q.queues.get p)
    refine Thinned.trans ?_ ((hr.queues p).mono hn)
    have e1 : absQueue c' p = ((c.queueRows p).filter (fun r => decide (r ∈ c'.rows))).map (itemOfRow c) := by
      unfold absQueue
      rw [(hF p).1]
      apply List.map_congr_left
      intro r hr'
      obtain ⟨a, b⟩ := List.mem_filter.1 hr'
      unfold itemOfRow
      rw [entryOfRow_eq, entryOfRow_eq, (hF p).2.1 r a (by simpa using b)]
    rw [e1]
    apply thinned_map_filter
    · intro x hx y hy hxy
      refine rows_num_inj hg.tinv.tbl.uniq hg.tinv.tbl.nonnull p
        (fun r hr' => by rw [queueRows_eq] at hr'; exact (mem_qrows.1 hr').1) ?_ x hx y hy
        (congrArg Item.num hxy)
      intro r hr'
      obtain ⟨m, a1, a2, -, -⟩ := hok.qok p r hr'
      rw [queueRows_eq] at hr'
      exact ⟨qfilter_raw (mem_qrows.1 hr').2, m, a1, a2⟩
    · intro x hx hgx
      exact (hF p).2.2 x hx (by simpa using hgx)
  · refine ⟨hg', by rw [hcfg]; exact hok.pol, by rw [hcfg]; exact hok.page,
      fun p r hr' => hok.qok p r (hsub p r hr').1,
      fun p r hr' => hok.room p r (hsub p r hr').1, ?_,
      by rw [hcfg]; exact hok.originN, ?_⟩
    · unfold OriginOk; rw [hcfg]; exact hok.origin
    · intro p r hr'
      obtain ⟨a, b⟩ := hsub p r hr'
      rw [entryOfRow_eq, (hF p).2.1 r a b]
      exact hok.readable p r a

/-- a write to the ordinary key `K` with the frame property -/
theorem ql_write_finish {c c' : Cache} {n : Nat} {q : QSpec.State} {clock now : Int} {K : Key}
    {u : Option Entry}
    (hok : QOkL c n) (hr : QLoose c q clock) (hn : clock ≤ now) (hg' : Good c') (hcfg : c'.cfg = c.cfg)
    (hK : isQueueKey K = false) (hfr : Fr K.1 K.2 c.cfg.cullLimit c.rows c'.rows)
    (hV : rf_Culled now (rf_at K u (rf_view c)) (rf_view c'))
    (d' : Dict) (hwf : d'.WF) (hord : ∀ b ∈ d', isQueueKey b.1 = false)
    (hdict : ∀ k, isQueueKey k = false → rf_VRel (rf_view c' k) (d'.get k) now) :
    QLoose c' { q with dict := d' } now ∧ QOkL c' n :=
  ql_frame_finish hok hr hn hg' hcfg (ql_frame hok hg' hK hV hfr.1) d' hwf hord hdict

theorem ql_write_same {c c' : Cache} {n : Nat} {q : QSpec.State} {clock now : Int} {K : Key}
    (hok : QOkL c n) (hr : QLoose c q clock) (hn : clock ≤ now) (hg' : Good c') (hcfg : c'.cfg = c.cfg)
    (hK : isQueueKey K = false) (hfr : Fr K.1 K.2 c.cfg.cullLimit c.rows c'.rows)
    (h : ∀ k', rf_view c' k' = rf_view c k') :
    QLoose c' { q with dict := q.dict } now ∧ QOkL c' n :=
  ql_write_finish hok hr hn hg' hcfg hK hfr (culled_of_same K now h) q.dict hr.wf hr.ord
    (fun k hk => by rw [h k]; exact rf_VRel_mono (hr.vrel k hk) hn)

/-! ### `get`, `contains` -/

theorem ql_get_step (c : Cache) (q : QSpec.State) (n : Nat) (clock now : Int) (E : Externals) (k : PyVal)
    (read et tg : Bool) (hok : QOkL c n) (hr : QLoose c q clock) (hn : clock ≤ now)
    (hK : isQueueKey (keyOf E c.cfg k) = false) :
    (c.get E now k read et tg).2 = (Spec.get q.dict E c.cfg now k read et tg).2 ∧
    QLoose (c.get E now k read et tg).1 { q with dict := (Spec.get q.dict E c.cfg now k read et tg).1 } now ∧
    QOkL (c.get E now k read et tg).1 n := by
  have hg := hok.good
  have hKr := rf_VRel_mono (hr.vrel _ hK) hn
  have hm : (Spec.get q.dict E c.cfg now k read et tg).1 = q.dict := by
    unfold Spec.get; split
    · split <;> rfl
    · rfl
  have hsh : Shrunk c (c.get E now k read et tg).1 (fun _ => true) :=
    Shrunk.of_core (get_good _ _ _ _ _ _ _ hg) (rf_get_core c E now k read et tg hg.depth hok.pol)
  refine ⟨?_, ?_⟩
  · rw [rf_get_out' _ _ _ _ _ _ _ hg]
    unfold Spec.get
    rcases rf_VRel_cases hKr with h | ⟨h, e, hd, -, hl⟩
    · rw [h]; cases q.dict.get (keyOf E c.cfg k) with
      | none => rfl
      | some e => simp only; split <;> rfl
    · rw [h, hd]; simp [hl]
  · rw [hm]
    exact ⟨qloose_shrunk_id hg hr hn hsh (fun _ _ => rfl), hok.shrunk hsh⟩

theorem ql_contains_step (c : Cache) (q : QSpec.State) (n : Nat) (clock now : Int) (E : Externals) (k : PyVal)
    (hok : QOkL c n) (hr : QLoose c q clock) (hn : clock ≤ now)
    (hK : isQueueKey (keyOf E c.cfg k) = false) :
    (c.contains E now k).2 = (Spec.contains q.dict E c.cfg now k).2 ∧
    QLoose (c.contains E now k).1 { q with dict := (Spec.contains q.dict E c.cfg now k).1 } now ∧
    QOkL (c.contains E now k).1 n := by
  have hg := hok.good
  have hKr := rf_VRel_mono (hr.vrel _ hK) hn
  have hg' : Good (c.contains E now k).1 :=
    ⟨hg.tinv.same rfl rfl rfl rfl, ⟨hg.finv.ref, hg.finv.inj, hg.finv.fresh, hg.finv.nodup⟩,
      hg.noOrphan, hg.depth, hg.snap, hg.pending, hg.created⟩
  have hsh : Shrunk c (c.contains E now k).1 (fun _ => true) :=
    Shrunk.of_core hg' (rf_contains_core c E now k)
  refine ⟨?_, qloose_shrunk_id hg hr hn hsh (fun _ _ => rfl), hok.shrunk hsh⟩
  rw [rf_contains_out _ _ _ _ hg]
  unfold Spec.contains Dict.has
  rcases rf_VRel_cases hKr with h | ⟨h, e, hd, -, hl⟩
  · rw [h]; rfl
  · rw [h, hd]; simp [hl]

/-! ### `delitem`, `delete`, `pop`: the live row of the key leaves, nothing else changes -/

/-- the dictionary part after a removal by key -/
theorem ql_del_dict {c c' : Cache} {q : QSpec.State} {clock now : Int} {K : Key}
    (hr : QLoose c q clock) (hn : clock ≤ now) (hK : isQueueKey K = false)
    (hV : ∀ k', rf_view c' k' = rf_at K (rf_delU now (rf_view c K)) (rf_view c) k') :
    ∀ k, isQueueKey k = false →
      rf_VRel (rf_view c' k) ((if rf_has now (q.dict.get K) then q.dict.del K else q.dict).get k) now :=
  rf_assemble_ord (upd := rf_delU now) hr.vrel hn hK (fun k' => .inl (hV k'))
    (fun k' => rf_del_spec q.dict _ now k') (fun _ _ h => rf_delU_rel h)

theorem ql_delitem_step (c : Cache) (q : QSpec.State) (n : Nat) (clock now : Int) (E : Externals) (k : PyVal)
    (hok : QOkL c n) (hr : QLoose c q clock) (hn : clock ≤ now)
    (hK : isQueueKey (keyOf E c.cfg k) = false) :
    (c.delitem E now k).2 = (Spec.delitem q.dict E c.cfg now k).2 ∧
    QLoose (c.delitem E now k).1 { q with dict := (Spec.delitem q.dict E c.cfg now k).1 } now ∧
    QOkL (c.delitem E now k).1 n := by
  have hg := hok.good
  obtain ⟨hO, hV⟩ := rf_delitem_view c E now k hg
  have hKr := rf_VRel_mono (hr.vrel _ hK) hn
  have hm : (Spec.delitem q.dict E c.cfg now k).1 =
      if rf_has now (q.dict.get (keyOf E c.cfg k)) then q.dict.del (keyOf E c.cfg k) else q.dict := by
    unfold Spec.delitem; rw [rf_has_dict]; split <;> rfl
  obtain ⟨f, hsh, hfq⟩ := qr_delitem_shrunk c E now k hg hK
  refine ⟨?_, ?_⟩
  · rw [hO, rf_has_rel hKr]
    unfold Spec.delitem; rw [rf_has_dict]; split <;> rfl
  · rw [hm]
    exact ql_keyed_shrunk hok hr hn hsh hfq _ (rf_del_wf hr.wf _ _) (ord_del_if hr.ord _ _)
      (ql_del_dict hr hn hK hV)

theorem ql_delete_step (c : Cache) (q : QSpec.State) (n : Nat) (clock now : Int) (E : Externals) (k : PyVal)
    (hok : QOkL c n) (hr : QLoose c q clock) (hn : clock ≤ now)
    (hK : isQueueKey (keyOf E c.cfg k) = false) :
    (c.delete E now k).2 = (Spec.delete q.dict E c.cfg now k).2 ∧
    QLoose (c.delete E now k).1 { q with dict := (Spec.delete q.dict E c.cfg now k).1 } now ∧
    QOkL (c.delete E now k).1 n := by
  have hg := hok.good
  obtain ⟨hO, hV⟩ := rf_delete_view c E now k hg
  have hKr := rf_VRel_mono (hr.vrel _ hK) hn
  have hm : (Spec.delete q.dict E c.cfg now k).1 =
      if rf_has now (q.dict.get (keyOf E c.cfg k)) then q.dict.del (keyOf E c.cfg k) else q.dict := by
    unfold Spec.delete; rw [rf_has_dict]; split <;> rfl
  obtain ⟨f, hsh, hfq⟩ := qr_delitem_shrunk c E now k hg hK
  rw [← delete_fst] at hsh
  refine ⟨?_, ?_⟩
  · rw [hO, rf_has_rel hKr]
    unfold Spec.delete; rw [rf_has_dict]; split <;> simp_all
  · rw [hm]
    exact ql_keyed_shrunk hok hr hn hsh hfq _ (rf_del_wf hr.wf _ _) (ord_del_if hr.ord _ _)
      (ql_del_dict hr hn hK hV)

theorem ql_pop_step (c : Cache) (q : QSpec.State) (n : Nat) (clock now : Int) (E : Externals) (k : PyVal)
    (et tg : Bool) (hok : QOkL c n) (hr : QLoose c q clock) (hn : clock ≤ now)
    (hK : isQueueKey (keyOf E c.cfg k) = false) :
    (c.pop E now k et tg).2 = (Spec.pop q.dict E c.cfg now k et tg).2 ∧
    QLoose (c.pop E now k et tg).1 { q with dict := (Spec.pop q.dict E c.cfg now k et tg).1 } now ∧
    QOkL (c.pop E now k et tg).1 n := by
  have hg := hok.good
  obtain ⟨hO, hV⟩ := rf_pop_view c E now k et tg hg
  have hKr := rf_VRel_mono (hr.vrel _ hK) hn
  have hm : (Spec.pop q.dict E c.cfg now k et tg).1 =
      if rf_has now (q.dict.get (keyOf E c.cfg k)) then q.dict.del (keyOf E c.cfg k) else q.dict := by
    unfold Spec.pop rf_has
    cases q.dict.get (keyOf E c.cfg k) with
    | none => rfl
    | some e => simp only; split <;> simp_all
  obtain ⟨f, hsh, hfq⟩ := qr_pop_shrunk c E now k et tg hg hK
  refine ⟨?_, ?_⟩
  · rw [hO]
    unfold Spec.pop
    rcases rf_VRel_cases hKr with h | ⟨h, e, hd, -, hl⟩
    · rw [h]; cases q.dict.get (keyOf E c.cfg k) with
      | none => rfl
      | some e => simp only; split <;> rfl
    · rw [h, hd]; simp [hl]
  · rw [hm]
    exact ql_keyed_shrunk hok hr hn hsh hfq _ (rf_del_wf hr.wf _ _) (ord_del_if hr.ord _ _)
      (ql_del_dict hr hn hK hV)

/-! ### bulk removal: the rows failing a test on the entry leave, in the queues as in the dictionary -/

theorem ql_bulk {c c' : Cache} {f : Row → Bool} {q : QSpec.State} {clock now : Int} {n : Nat}
    (hok : QOkL c n) (hr : QLoose c q clock) (hn : clock ≤ now) (hsh : Shrunk c c' f)
    (keep : Entry → Bool) (hfk : ∀ r, f r = keep (rf_ent c r)) :
    QLoose c' { queues := q.queues.keep keep, dict := q.dict.filter (fun b => keep b.2) } now ∧
    QOkL c' n := by
  have hg := hok.good
  refine ⟨⟨?_, rf_wf_filter hr.wf _, fun b hb => hr.ord b (List.mem_filter.1 hb).1, ?_⟩, hok.shrunk hsh⟩
  · intro p
    show Thinned now _ ((q.queues.keep keep).get p)
    rw [get_keep, hsh.absQ hg]
    have : ((c.queueRows p).filter f).map (itemOfRow c) =
        (absQueue c p).filter (fun it => keep it.ent) := by
      unfold absQueue
      rw [List.filter_map]
      congr 1
      apply List.filter_congr
      intro r _
      exact hfk r
    rw [this]
    exact ((hr.queues p).mono hn).filter _
  · intro k hk
    rw [holdsKey_iff]
    show rf_VRel _ (Dict.get (q.dict.filter (fun b => keep b.2)) k) now
    rw [rf_view_filter hg hsh.good f keep hfk hsh.rows hsh.files k, rf_get_filter hr.wf]
    exact rf_VRel_filter keep (rf_VRel_mono (hr.vrel k hk) hn)

theorem ql_clear_step (c : Cache) (q : QSpec.State) (n : Nat) (clock : Int)
    (hok : QOkL c n) (_hr : QLoose c q clock) :
    QLoose (c.clear).1 {} clock ∧ QOkL (c.clear).1 n := by
  have hg := hok.good
  have hg' := clear_good c hg
  have hrows := (clear_all c hg.tinv.tbl.asc hg.tinv.tbl.pos hok.page).1
  have hsh : Shrunk c (c.clear).1 (fun _ => false) := by
    refine ⟨hg', by rw [hrows]; simp, rf_clear_cfg c, ?_⟩
    intro f hf
    obtain ⟨r, hr', -⟩ := hg'.noOrphan f hf
    rw [hrows] at hr'; cases hr'
  refine ⟨⟨?_, rf_wf_nil, (fun _ hb => by cases hb), ?_⟩, hok.shrunk hsh⟩
  · intro p
    have : absQueue (c.clear).1 p = [] := by
      unfold absQueue; rw [queueRows_eq, hrows]; rfl
    rw [this]
    exact Thinned.refl _ _
  · intro k _
    rw [holdsKey_iff, rf_view_nil hrows]
    exact rf_VRel_refl _ _

theorem ql_evict_step (c : Cache) (q : QSpec.State) (n : Nat) (clock : Int) (tag : SqlVal)
    (hok : QOkL c n) (hr : QLoose c q clock) :
    QLoose (c.evict tag).1
      { queues := q.queues.keep (fun e => !e.tag.eqv tag), dict := (Spec.evict q.dict tag).1 } clock ∧
    QOkL (c.evict tag).1 n := by
  have hg := hok.good
  have hrows := (evict_exact c tag hg.tinv.tbl.asc hg.tinv.tbl.pos hok.page).1
  have hsh : Shrunk c (c.evict tag).1 (fun r => !(r.tag.eqv tag)) :=
    ⟨evict_good c tag hg, hrows, rf_evict_cfg c tag, rf_evict_files c tag⟩
  exact ql_bulk hok hr (Int.le_refl _) hsh (fun e => !e.tag.eqv tag) (fun _ => rfl)

theorem ql_expire_step (c : Cache) (q : QSpec.State) (n : Nat) (clock now : Int)
    (hok : QOkL c n) (hr : QLoose c q clock) (hn : clock ≤ now) :
    QLoose (c.expire now).1
      { queues := q.queues.keep (fun e => !e.expired now), dict := (Spec.expire q.dict now).1 } now ∧
    QOkL (c.expire now).1 n := by
  have hg := hok.good
  have hrows := (expire_exact c now hg.tinv.tbl.asc hok.page).1
  have hsh : Shrunk c (c.expire now).1 (fun r => !(expired now r)) :=
    ⟨expire_good c now hg, hrows, rf_expire_cfg c now, rf_expire_files c now⟩
  exact ql_bulk hok hr hn hsh (fun e => !e.expired now) (fun _ => rfl)

theorem ql_cull_step (c : Cache) (q : QSpec.State) (n : Nat) (clock now : Int)
    (hok : QOkL c n) (hr : QLoose c q clock) (hn : clock ≤ now) :
    QLoose (c.cull now).1
      { queues := q.queues.keep (fun e => !e.expired now), dict := (Spec.cull q.dict now).1 } now ∧
    QOkL (c.cull now).1 n := by
  have hg := hok.good
  have hrows := (cull_none c now hg.tinv.tbl.asc hok.page hok.pol).1
  have hsh : Shrunk c (c.cull now).1 (fun r => !(expired now r)) :=
    ⟨cull_good c now hg, hrows, rf_cull_cfg c now hok.pol, rf_cull_files c now hg.tinv.tbl.asc hok.page hok.pol⟩
  exact ql_bulk hok hr hn hsh (fun e => !e.expired now) (fun _ => rfl)


theorem ql_set_step (c : Cache) (q : QSpec.State) (n : Nat) (clock now : Int) (E : Externals) (k v : PyVal)
    (ttl : Option Int) (read : Bool) (tag : SqlVal)
    (hok : QOkL c n) (hr : QLoose c q clock) (hn : clock ≤ now)
    (hK : isQueueKey (keyOf E c.cfg k) = false) :
    (c.set E now k v ttl read tag).2 = (Spec.set q.dict E c.cfg now k v ttl read tag).2 ∧
    QLoose (c.set E now k v ttl read tag).1
      { q with dict := (Spec.set q.dict E c.cfg now k v ttl read tag).1 } now ∧
    QOkL (c.set E now k v ttl read tag).1 n := by
  have hg := hok.good
  have hg' := set_good c E now k v ttl read tag hg
  have hA := rf_set_view c E now k v ttl read tag hg hok.pol
  have hcfg := rf_set_cfg c E now k v ttl read tag
  unfold Spec.set
  cases hpl : place E c.cfg.disk c.cfg.minFileSize v read with
  | error e =>
    rw [hpl] at hA
    simp only at hA ⊢
    rw [hA]
    exact ⟨rfl, hr.mono hn, hok⟩
  | ok p =>
    rw [hpl] at hA
    simp only at hA ⊢
    split
    · rename_i hb
      rw [if_pos hb] at hA
      refine ⟨hA.1, ?_⟩
      have hF := ql_frame hok hg' hK hA.2 (set_other_rows c E now k v ttl read tag hg.tinv)
      exact ql_frame_finish hok hr hn hg' hcfg hF _ (rf_wf_put hr.wf _ _) (ord_put hr.ord hK _)
        (rf_assemble_ord (upd := fun _ => some (entryOf p (ttl.map (now + ·)) tag)) hr.vrel hn hK hA.2
          (fun k' => rf_get_put _ _ _ _) (fun _ _ _ => rf_VRel_refl _ _))
    · rename_i hb
      rw [if_neg hb] at hA
      refine ⟨hA.1, ?_⟩
      have hV : rf_Culled now (rf_at (keyOf E c.cfg k) (rf_view c (keyOf E c.cfg k)) (rf_view c))
          (rf_view (c.set E now k v ttl read tag).1) := by
        intro k'
        left
        rw [hA.2 k', rf_at_self (fun k'' h => rf_view_sameKey h c)]
      have hF := ql_frame hok hg' hK hV (set_other_rows c E now k v ttl read tag hg.tinv)
      refine ql_frame_finish hok hr hn hg' hcfg hF _ hr.wf hr.ord ?_
      intro k' hk'
      rw [hA.2 k']
      exact rf_VRel_mono (hr.vrel k' hk') hn


/-! ### `add` -/

theorem ql_add_step (c : Cache) (q : QSpec.State) (n : Nat) (clock now : Int) (E : Externals) (k v : PyVal)
    (ttl : Option Int) (read : Bool) (tag : SqlVal)
    (hok : QOkL c n) (hr : QLoose c q clock) (hn : clock ≤ now)
    (hK : isQueueKey (keyOf E c.cfg k) = false) :
    (c.add E now k v ttl read tag).2 = (Spec.add q.dict E c.cfg now k v ttl read tag).2 ∧
    QLoose (c.add E now k v ttl read tag).1
      { q with dict := (Spec.add q.dict E c.cfg now k v ttl read tag).1 } now ∧
    QOkL (c.add E now k v ttl read tag).1 n := by
  have hg := hok.good
  have hg' := add_good c E now k v ttl read tag hg
  have hA := rf_add_view c E now k v ttl read tag hg hok.pol
  have hcfg := rf_add_cfg c E now k v ttl read tag
  have hfr := add_frame c E now k v ttl read tag hg
  have hKr := rf_VRel_mono (hr.vrel _ hK) hn
  unfold Spec.add
  cases hpl : place E c.cfg.disk c.cfg.minFileSize v read with
  | error e =>
    rw [hpl] at hA
    simp only at hA ⊢
    rw [hA]
    exact ⟨rfl, hr.mono hn, hok⟩
  | ok p =>
    rw [hpl] at hA
    simp only at hA ⊢
    rw [rf_has_dict, ← rf_has_rel hKr]
    split
    · rename_i hb
      rw [if_pos hb] at hA
      exact ⟨hA.1, ql_write_same hok hr hn hg' hcfg hK hfr hA.2⟩
    · rename_i hb
      rw [if_neg hb] at hA
      split
      · rename_i hh
        rw [if_pos hh] at hA
        exact ⟨hA.1, ql_write_same hok hr hn hg' hcfg hK hfr hA.2⟩
      · rename_i hh
        rw [if_neg hh] at hA
        split
        · rename_i hcb
          rw [if_pos hcb] at hA
          refine ⟨hA.1, ?_⟩
          exact ql_write_finish hok hr hn hg' hcfg hK hfr hA.2 _ (rf_wf_put hr.wf _ _) (ord_put hr.ord hK _)
            (rf_assemble_ord (upd := fun _ => some (entryOf p (ttl.map (now + ·)) tag)) hr.vrel hn hK hA.2
              (fun k' => rf_get_put _ _ _ _) (fun _ _ _ => rf_VRel_refl _ _))
        · rename_i hcb
          rw [if_neg hcb] at hA
          exact ⟨hA.1, ql_write_same hok hr hn hg' hcfg hK hfr hA.2⟩

/-! ### `touch` -/

theorem ql_touch_step (c : Cache) (q : QSpec.State) (n : Nat) (clock now : Int) (E : Externals) (k : PyVal)
    (ttl : Option Int)
    (hok : QOkL c n) (hr : QLoose c q clock) (hn : clock ≤ now)
    (hK : isQueueKey (keyOf E c.cfg k) = false) :
    (c.touch E now k ttl).2 = (Spec.touch q.dict E c.cfg now k ttl).2 ∧
    QLoose (c.touch E now k ttl).1 { q with dict := (Spec.touch q.dict E c.cfg now k ttl).1 } now ∧
    QOkL (c.touch E now k ttl).1 n := by
  have hg := hok.good
  have hg' := touch_good c E now k ttl hg
  obtain ⟨hO, hV⟩ := rf_touch_view c E now k ttl hg
  have hcfg := rf_touch_cfg c E now k ttl
  have hfr := touch_frame c E now k ttl hg
  have hKr := rf_VRel_mono (hr.vrel _ hK) hn
  have hspec : (Spec.touch q.dict E c.cfg now k ttl).2 = .bool (rf_has now (q.dict.get (keyOf E c.cfg k))) ∧
      (Spec.touch q.dict E c.cfg now k ttl).1.WF ∧
      (∀ b ∈ (Spec.touch q.dict E c.cfg now k ttl).1, isQueueKey b.1 = false) ∧
      ∀ k', (Spec.touch q.dict E c.cfg now k ttl).1.get k' =
        rf_at (keyOf E c.cfg k) (rf_touchU now (ttl.map (now + ·)) (q.dict.get (keyOf E c.cfg k))) q.dict.get k' := by
    unfold Spec.touch rf_has rf_touchU
    cases hd : q.dict.get (keyOf E c.cfg k) with
    | none =>
      refine ⟨rfl, hr.wf, hr.ord, fun k' => ?_⟩
      simp only
      rw [← hd, rf_at_self (fun k'' h => rf_get_sameKey h q.dict)]
    | some e =>
      simp only
      cases hl : e.live now with
      | true =>
        simp only [if_true]
        exact ⟨trivial, rf_wf_put hr.wf _ _, ord_put hr.ord hK _, fun k' => rf_get_put _ _ _ _⟩
      | false =>
        simp only [Bool.false_eq_true, if_false]
        refine ⟨trivial, hr.wf, hr.ord, fun k' => ?_⟩
        rw [← hd, rf_at_self (fun k'' h => rf_get_sameKey h q.dict)]
  refine ⟨by rw [hO, hspec.1, rf_has_rel hKr], ?_⟩
  exact ql_write_finish hok hr hn hg' hcfg hK hfr (culled_of_eq now hV) _ hspec.2.1 hspec.2.2.1
    (rf_assemble_ord (upd := rf_touchU now (ttl.map (now + ·))) hr.vrel hn hK (fun k' => .inl (hV k'))
      hspec.2.2.2 (fun _ _ h => rf_touchU_rel _ h))

/-! ### `incr` -/

/-- the (re)creation branch -/
theorem ql_incr_fresh {c c' : Cache} {q : QSpec.State} {n : Nat} {clock now : Int} {o : Out} {E : Externals}
    {k : PyVal} {delta : Int} {dflt : Option Int}
    (hok : QOkL c n) (hr : QLoose c q clock) (hn : clock ≤ now) (hg' : Good c') (hcfg : c'.cfg = c.cfg)
    (hK : isQueueKey (keyOf E c.cfg k) = false)
    (hfr : Fr (keyOf E c.cfg k).1 (keyOf E c.cfg k).2 c.cfg.cullLimit c.rows c'.rows)
    (hF : rf_IncrFresh c c' o E (keyOf E c.cfg k) now delta dflt) :
    o = (specIncrFresh q.dict E c.cfg k delta dflt).2 ∧
    QLoose c' { q with dict := (specIncrFresh q.dict E c.cfg k delta dflt).1 } now ∧ QOkL c' n := by
  unfold rf_IncrFresh at hF
  unfold specIncrFresh
  cases dflt with
  | none => exact ⟨hF.1, ql_write_same hok hr hn hg' hcfg hK hfr hF.2⟩
  | some d =>
    simp only at hF ⊢
    cases hpl : place E c.cfg.disk c.cfg.minFileSize (.int (d + delta)) false with
    | error e =>
      rw [hpl] at hF
      exact ⟨hF.1, ql_write_same hok hr hn hg' hcfg hK hfr hF.2⟩
    | ok p =>
      rw [hpl] at hF
      refine ⟨hF.1, ?_⟩
      exact ql_write_finish hok hr hn hg' hcfg hK hfr hF.2 _ (rf_wf_put hr.wf _ _) (ord_put hr.ord hK _)
        (rf_assemble_ord (upd := fun _ => some (entryOf p none .null)) hr.vrel hn hK hF.2
          (fun k' => rf_get_put _ _ _ _) (fun _ _ _ => rf_VRel_refl _ _))

theorem ql_incr_step (c : Cache) (q : QSpec.State) (n : Nat) (clock now : Int) (E : Externals) (k : PyVal)
    (delta : Int) (dflt : Option Int)
    (hok : QOkL c n) (hr : QLoose c q clock) (hn : clock ≤ now)
    (hK : isQueueKey (keyOf E c.cfg k) = false) :
    (c.incr E now k delta dflt).2 = (Spec.incr q.dict E c.cfg now k delta dflt).2 ∧
    QLoose (c.incr E now k delta dflt).1 { q with dict := (Spec.incr q.dict E c.cfg now k delta dflt).1 } now ∧
    QOkL (c.incr E now k delta dflt).1 n := by
  have hg := hok.good
  have hg' := incr_good c E now k delta dflt hg
  have hA := rf_incr_view c E now k delta dflt hg hok.pol
  have hcfg := rf_incr_cfg c E now k delta dflt
  have hfr := incr_frame c E now k delta dflt hg
  have hKr := rf_VRel_mono (hr.vrel _ hK) hn
  rw [specIncr_eq]
  rcases rf_VRel_cases hKr with h | ⟨h, e, hd, he, -⟩
  · rw [h] at hA
    cases hd : q.dict.get (keyOf E c.cfg k) with
    | none =>
      rw [hd] at hA
      exact ql_incr_fresh hok hr hn hg' hcfg hK hfr hA
    | some e =>
      rw [hd] at hA
      simp only at hA ⊢
      by_cases hx : e.expired now = true
      · rw [if_pos hx] at hA ⊢
        exact ql_incr_fresh hok hr hn hg' hcfg hK hfr hA
      · rw [if_neg hx] at hA ⊢
        cases hval : e.val with
        | int i =>
          rw [hval] at hA
          simp only at hA ⊢
          by_cases hin : inI64 (i + delta) = true
          · rw [if_pos hin] at hA ⊢
            refine ⟨hA.1, ?_⟩
            exact ql_write_finish hok hr hn hg' hcfg hK hfr (culled_of_eq now hA.2) _ (rf_wf_put hr.wf _ _)
              (ord_put hr.ord hK _)
              (rf_assemble_ord (upd := fun _ => some { e with val := .int (i + delta) }) hr.vrel hn hK
                (fun k' => .inl (hA.2 k')) (fun k' => rf_get_put _ _ _ _) (fun _ _ _ => rf_VRel_refl _ _))
          · rw [if_neg hin] at hA ⊢
            exact ⟨hA.1, ql_write_same hok hr hn hg' hcfg hK hfr hA.2⟩
        | null => rw [hval] at hA; exact ⟨hA.1, ql_write_same hok hr hn hg' hcfg hK hfr hA.2⟩
        | real b => rw [hval] at hA; exact ⟨hA.1, ql_write_same hok hr hn hg' hcfg hK hfr hA.2⟩
        | text b => rw [hval] at hA; exact ⟨hA.1, ql_write_same hok hr hn hg' hcfg hK hfr hA.2⟩
        | blob b => rw [hval] at hA; exact ⟨hA.1, ql_write_same hok hr hn hg' hcfg hK hfr hA.2⟩
  · rw [h] at hA
    rw [hd]
    simp only at hA ⊢
    rw [if_pos he]
    exact ql_incr_fresh hok hr hn hg' hcfg hK hfr hA


end DC.Cache
