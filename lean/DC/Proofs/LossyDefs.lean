/-
Definitions used in the statements of C03_Lossy (history refinement under an
eviction policy): the "lossy" reference dictionary — `Spec.dropKeys` — and the
observers that say which rows one call evicted.  Nothing here is proved.
-/
import DC.Model.Spec
import DC.Properties.C09

namespace DC.Spec

/-- the dictionary without the bindings of the keys `ks` (the environment's choice of what a
size-limited cache lost after a call) -/
def dropKeys (m : Dict) (ks : List Key) : Dict :=
  m.filter (fun p => !ks.any (fun l => sameKey l p.1))

/-- the lossy dictionary after a history: after each call the keys of the corresponding element
of `drops` are dropped (no drops left: nothing is dropped) -/
def runLossy (m : Dict) (cfg : Cfg) : List Cache.Op → List (List Key) → Dict
  | [], _ => m
  | op :: ops, drops => runLossy (dropKeys (step m cfg op).1 (drops.headD [])) cfg ops drops.tail

/-- the results of a history on the lossy dictionary -/
def outsLossy (m : Dict) (cfg : Cfg) : List Cache.Op → List (List Key) → List Out
  | [], _ => []
  | op :: ops, drops =>
    (step m cfg op).2 :: outsLossy (dropKeys (step m cfg op).1 (drops.headD [])) cfg ops drops.tail

end DC.Spec

namespace DC.Cache
open DC.Spec

/-- the dictionary key of a row -/
def rowKey (r : Row) : Spec.Key := (r.key, r.raw)

/-- the rows of `X` that are not expired at `now` and are missing from `Y` -/
def lostRows (now : Int) (X Y : List Row) : List Row :=
  X.filter (fun r => !expired now r && decide (r ∉ Y))

/-- the rows of `X` that are expired at `now` and are missing from `Y` -/
def expGone (now : Int) (X Y : List Row) : List Row :=
  X.filter (fun r => expired now r && decide (r ∉ Y))

/-- the number of expired rows of `c`, other than the row of the key `K` the call writes
(which is overwritten, not removed), that are no longer in `c'` -/
def expiredGone (c c' : Cache) (K : Spec.Key) (now : Int) : Nat :=
  (c.rows.filter (fun r => expired now r && !keyMatch K.1 K.2 r && decide (r ∉ c'.rows))).length

/-- the size of the value file of an entry (0 for a value stored in the database) -/
def entrySize (e : Spec.Entry) : Int :=
  match e.content with
  | some ct => ct.size
  | none => 0

/-- the row `r` denoted the entry `e` (up to the content of its value file, which is gone
with the row) -/
def EntOf (r : Row) (e : Spec.Entry) : Prop :=
  e.mode = r.mode ∧ e.val = r.val ∧ e.expT = r.expT ∧ e.tag = r.tag

/-- **what one call may lose to size-based eviction** (C09): `L` are the rows evicted by the
call that takes the quiescent state `c` to `c'` at clock `now` writing key `K`.
 * `count`: evicted rows + expired rows removed by the same call ≤ `cull_limit` (stated for
   `L ≠ []`; the bound on the expired rows alone is C09 `evict_bound`);
 * `polNone` / `limZero`: nothing is evicted under policy `none` or with `cull_limit = 0`;
 * `vol`: something is evicted only if the volume observed after the write (database pages
   `pb` + the size counter before the eviction = final size + what was evicted) is not
   below the size limit;
 * `order`: every evicted row precedes (weakly) every surviving row in the policy's order;
 * `unexpired`: evicted rows were not expired (expired rows go first and are not "lost");
 * `gone`: the key of an evicted row has no row afterwards;
 * `uniq`: evicted rows have pairwise different keys. -/
structure Loss (c c' : Cache) (K : Spec.Key) (now : Int) (L : List Row) : Prop where
  count : L ≠ [] → L.length + expiredGone c c' K now ≤ c.cfg.cullLimit
  polNone : c.cfg.policy = .none → L = []
  limZero : c.cfg.cullLimit = 0 → L = []
  vol : L ≠ [] → ∀ pb rest, c.env = pb :: rest →
    belowLimit c.cfg ((pb : Int) + c'.size + sumSizes L) = false
  order : ∀ r ∈ L, ∀ w ∈ c'.rows, policyKey c.cfg.policy r ≤ policyKey c.cfg.policy w
  unexpired : ∀ r ∈ L, expired now r = false
  gone : ∀ r ∈ L, c'.selKey r.key r.raw = none
  uniq : KeysUnique L

/-- the rows evicted by an explicit `cull()` (C09: "continues until the cache is no larger than
its size limit or is empty, returning the number of items it removed"): `L` are the unexpired
rows removed by the call that takes `c` to `c'` and returns `out`.
 * `polNone`: nothing is evicted under policy `none`;
 * `started`: something is evicted only if the first observed volume (database pages `pb` + size
   counter after the expired rows are gone = final size + what was evicted) is above the limit;
 * `order`: every evicted row precedes (weakly) every surviving row in the policy's order;
 * `stopped`: at the end the table is empty or the size counter is no larger than the limit
   (more precisely: the last observed volume — pages `pb` from the observations, 0 if the run
   made none — was not above it);
 * `counted`: the result is the number of expired rows plus the number of evicted rows. -/
structure CullLoss (c c' : Cache) (out : Out) (now : Int) (L : List Row) : Prop where
  polNone : c.cfg.policy = .none → L = []
  started : L ≠ [] → ∀ pb rest, c.env = pb :: rest →
    aboveLimit c.cfg ((pb : Int) + c'.size + sumSizes L) = true
  order : ∀ r ∈ L, ∀ w ∈ c'.rows, policyKey c.cfg.policy r ≤ policyKey c.cfg.policy w
  stopped : c.cfg.policy ≠ .none → 0 < c.cfg.batch →
    c'.rows = [] ∨ ∃ pb : Nat, (pb = 0 ∨ pb ∈ c.env) ∧ aboveLimit c.cfg ((pb : Int) + c'.size) = false
  counted : out = .int (((c.rows.filter (expired now)).length + L.length : Nat) : Int)
  unexpired : ∀ r ∈ L, expired now r = false
  gone : ∀ r ∈ L, c'.selKey r.key r.raw = none
  uniq : KeysUnique L

end DC.Cache
