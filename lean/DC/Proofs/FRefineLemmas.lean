/-
Helper lemmas for C13_Refine / C19_Refine (FanoutCache and DjangoCache refine the
reference dictionary of DC/Model/Spec.lean).

 * `frf_abs`: the dictionary a single cache state denotes (one binding per row), used to
   build, for one shard, a *local* dictionary that agrees with the global one at the keys
   of interest and with the shard everywhere else — this is what lets the per-call theorems
   of C03_Refine be used on one shard although the shard holds only part of the items;
 * `frf_Local`: a call of the specification is *local at a key* `K`: its result depends on the
   binding of `K` only, and it changes the binding of `K` only;
 * `frf_step_local`: every key-addressed call of `Spec.step` is local at its key;
 * `frf_Pointwise`: a bulk removal of the specification acts on every binding separately.
-/
import DC.Properties.C03_Refine

namespace DC.Cache
open DC.Spec

/-! ### the dictionary a cache state denotes -/

/-- one binding per row -/
def frf_abs (c : Cache) : Dict := c.rows.map (fun r => ((r.key, r.raw), rf_ent c r))

theorem frf_abs_get (c : Cache) (k : Key) : (frf_abs c).get k = rf_view c k := by
  unfold frf_abs Dict.get rf_view rf_look
  rw [List.find?_map]
  have : ((fun p : Key × Entry => sameKey p.1 k) ∘ fun r => ((r.key, r.raw), rf_ent c r)) =
      keyMatch k.1 k.2 := by
    funext r; rfl
  rw [this]
  cases c.rows.find? (keyMatch k.1 k.2) <;> rfl

theorem frf_abs_wf (c : Cache) (hu : KeysUnique c.rows) : (frf_abs c).WF := by
  unfold frf_abs Dict.WF
  rw [List.pairwise_map]
  refine List.Pairwise.imp ?_ hu
  intro a b hab
  cases h : sameKey (a.key, a.raw) (b.key, b.raw) with
  | false => rfl
  | true =>
    exfalso
    apply hab
    simpa [sameKey] using h

/-- `m` with the binding of `k` (and of the keys equal to it) replaced by `d` -/
def frf_setTo (m : Dict) (k : Key) (d : Option Entry) : Dict :=
  match d with
  | some e => m.put k e
  | none => m.del k

theorem frf_setTo_get (m : Dict) (k : Key) (d : Option Entry) (k' : Key) :
    (frf_setTo m k d).get k' = if sameKey k k' then d else m.get k' := by
  cases d with
  | none => exact rf_get_del m k k'
  | some e => exact rf_get_put m k e k'

theorem frf_setTo_wf {m : Dict} (h : m.WF) (k : Key) (d : Option Entry) : (frf_setTo m k d).WF := by
  cases d with
  | none => exact rf_wf_del h k
  | some e => exact rf_wf_put h k e

theorem frf_sameKey_refl_of {K k : Key} (h : sameKey K k = true) : sameKey k k = true :=
  rf_sameKey_trans (rf_sameKey_symm h) h

/-- the local dictionary of a shard `c`: what the global dictionary `m` binds at `K` and at `k`,
what the shard itself holds everywhere else -/
def frf_localDict (c : Cache) (m : Dict) (K k : Key) : Dict :=
  frf_setTo (frf_setTo (frf_abs c) K (m.get K)) k (m.get k)

theorem frf_localDict_get (c : Cache) (m : Dict) (K k k' : Key) :
    (frf_localDict c m K k).get k' =
      if sameKey k k' then m.get k else if sameKey K k' then m.get K else rf_view c k' := by
  unfold frf_localDict
  rw [frf_setTo_get, frf_setTo_get, frf_abs_get]

/-- the shard represents its local dictionary as soon as it represents `m` at `K` and at `k` -/
theorem frf_localDict_refines (c : Cache) (m : Dict) (K k : Key) (clock : Int)
    (hu : KeysUnique c.rows)
    (hK : rf_VRel (rf_view c K) (m.get K) clock) (hk : rf_VRel (rf_view c k) (m.get k) clock) :
    Refines c (frf_localDict c m K k) clock := by
  rw [refines_iff]
  refine ⟨frf_setTo_wf (frf_setTo_wf (frf_abs_wf c hu) _ _) _ _, fun k' => ?_⟩
  rw [frf_localDict_get]
  by_cases h1 : sameKey k k' = true
  · rw [if_pos h1, ← rf_view_sameKey h1]; exact hk
  · rw [if_neg h1]
    by_cases h2 : sameKey K k' = true
    · rw [if_pos h2, ← rf_view_sameKey h2]; exact hK
    · rw [if_neg h2]; exact rf_VRel_refl _ _

/-- a key that is not equal to itself (NULL, NaN) is bound nowhere -/
theorem frf_get_irrefl (m : Dict) {K : Key} (h : sameKey K K = false) : m.get K = none := by
  unfold Dict.get
  rw [Option.map_eq_none_iff, List.find?_eq_none]
  intro p _ hp
  rw [rf_sameKey_trans (rf_sameKey_symm hp) hp] at h
  cases h

theorem frf_view_irrefl (c : Cache) {K : Key} (h : sameKey K K = false) : rf_view c K = none := by
  rw [← frf_abs_get]; exact frf_get_irrefl _ h

theorem frf_localDict_at_K (c : Cache) (m : Dict) (K k : Key) :
    (frf_localDict c m K k).get K = m.get K := by
  rw [frf_localDict_get]
  by_cases h1 : sameKey k K = true
  · rw [if_pos h1]; exact rf_get_sameKey h1 m
  · rw [if_neg h1]
    cases hKK : sameKey K K with
    | true => rfl
    | false =>
      rw [frf_view_irrefl c hKK, frf_get_irrefl m hKK]
      rfl

theorem frf_localDict_at_k (c : Cache) (m : Dict) (K k : Key) :
    (frf_localDict c m K k).get k = m.get k := by
  rw [frf_localDict_get]
  cases hkk : sameKey k k with
  | true => rfl
  | false =>
    rw [frf_get_irrefl m hkk]
    cases h2 : sameKey K k with
    | true => exact absurd (frf_sameKey_refl_of h2) (by rw [hkk]; exact Bool.false_ne_true)
    | false => exact frf_view_irrefl c hkk

/-! ### the relation of C03_Refine, key by key -/

/-- `c` represents `m` at the key `k` (the body of `Refines`) -/
def frf_RefinesAt (c : Cache) (m : Dict) (clock : Int) (k : Key) : Prop :=
  match m.get k with
  | some e => (∃ r, c.selKey k.1 k.2 = some r ∧ entryOfRow c r = e) ∨
              (c.selKey k.1 k.2 = none ∧ e.expired clock = true)
  | none => c.selKey k.1 k.2 = none

theorem frf_refines_def (c : Cache) (m : Dict) (clock : Int) :
    Refines c m clock ↔ m.WF ∧ ∀ k, frf_RefinesAt c m clock k := Iff.rfl

theorem frf_refinesAt_iff (c : Cache) (m : Dict) (clock : Int) (k : Key) :
    frf_RefinesAt c m clock k ↔ rf_VRel (rf_view c k) (m.get k) clock := by
  have hv : rf_view c k = (c.selKey k.1 k.2).map (entryOfRow c) := rfl
  rw [hv]
  unfold frf_RefinesAt rf_VRel
  cases m.get k with
  | none => cases c.selKey k.1 k.2 <;> simp
  | some e => cases c.selKey k.1 k.2 <;> simp

/-! ### locality of the specification's calls -/

/-- what a key-addressed call does to the binding of its key -/
inductive frf_Act where
  | keep (o : Out)
  | put (e : Entry) (o : Out)
  | del (o : Out)

def frf_Act.out : frf_Act → Out
  | .keep o => o
  | .put _ o => o
  | .del o => o

def frf_Act.upd (a : frf_Act) (d : Option Entry) : Option Entry :=
  match a with
  | .keep _ => d
  | .put e _ => some e
  | .del _ => none

def frf_apply (m : Dict) (K : Key) : frf_Act → Dict × Out
  | .keep o => (m, o)
  | .put e o => (m.put K e, o)
  | .del o => (m.del K, o)

/-- `sop` is local at `K`: there is a decision function `D` of the binding of `K` alone such that
`sop` returns `D`'s result and keeps / replaces / removes the binding of `K` as `D` says -/
def frf_Local (sop : Dict → Dict × Out) (K : Key) : Prop :=
  ∃ D : Option Entry → frf_Act, ∀ m : Dict, sop m = frf_apply m K (D (m.get K))

theorem frf_apply_out (m : Dict) (K : Key) (a : frf_Act) : (frf_apply m K a).2 = a.out := by
  cases a <;> rfl

theorem frf_apply_wf {m : Dict} (h : m.WF) (K : Key) (a : frf_Act) : (frf_apply m K a).1.WF := by
  cases a with
  | keep o => exact h
  | put e o => exact rf_wf_put h K e
  | del o => exact rf_wf_del h K

theorem frf_apply_get (m : Dict) (K : Key) (a : frf_Act) (k' : Key) :
    (frf_apply m K a).1.get k' = if sameKey K k' then a.upd (m.get K) else m.get k' := by
  cases a with
  | keep o =>
    show m.get k' = _
    by_cases h : sameKey K k' = true
    · rw [if_pos h]; exact (rf_get_sameKey h m).symm
    · rw [if_neg h]
  | put e o => exact rf_get_put m K e k'
  | del o => exact rf_get_del m K k'

/-- a local call gives the same result on two dictionaries that agree at `K` -/
theorem frf_local_out {sop : Dict → Dict × Out} {K : Key} (h : frf_Local sop K) (m1 m2 : Dict)
    (hK : m1.get K = m2.get K) : (sop m1).2 = (sop m2).2 := by
  obtain ⟨D, hD⟩ := h
  rw [hD m1, hD m2, frf_apply_out, frf_apply_out, hK]

/-- … and the same new binding at every key where they agree -/
theorem frf_local_get {sop : Dict → Dict × Out} {K : Key} (h : frf_Local sop K) (m1 m2 : Dict)
    (hK : m1.get K = m2.get K) (k : Key) (hk : m1.get k = m2.get k) :
    (sop m1).1.get k = (sop m2).1.get k := by
  obtain ⟨D, hD⟩ := h
  rw [hD m1, hD m2, frf_apply_get, frf_apply_get, hK, hk]

/-- a local call leaves the bindings of the other keys alone -/
theorem frf_local_frame {sop : Dict → Dict × Out} {K : Key} (h : frf_Local sop K) (m : Dict)
    (k : Key) (hk : sameKey K k = false) : (sop m).1.get k = m.get k := by
  obtain ⟨D, hD⟩ := h
  rw [hD m, frf_apply_get, hk]
  rfl

theorem frf_local_wf {sop : Dict → Dict × Out} {K : Key} (h : frf_Local sop K) {m : Dict}
    (hw : m.WF) : (sop m).1.WF := by
  obtain ⟨D, hD⟩ := h
  rw [hD m]
  exact frf_apply_wf hw K _

/-! ### every key-addressed call of the specification is local at its key -/

/-- the key a call addresses (the four bulk removals and the calls outside the specification
address none) -/
def frf_opKey : Op → Option (Externals × PyVal)
  | .set E _ k .. | .add E _ k .. | .touch E _ k .. | .incr E _ k .. | .get E _ k ..
  | .contains E _ k | .pop E _ k .. | .delitem E _ k | .delete E _ k => some (E, k)
  | _ => none

theorem frf_set_local (E : Externals) (cfg : Cfg) (now : Int) (k v : PyVal) (ttl : Option Int)
    (read : Bool) (tag : SqlVal) :
    frf_Local (fun m => Spec.set m E cfg now k v ttl read tag) (keyOf E cfg k) := by
  refine ⟨fun _ =>
    match place E cfg.disk cfg.minFileSize v read with
    | .error _ => .keep (.exc "UnicodeEncodeError")
    | .ok p =>
      if bindable (keyOf E cfg k).1 && bindable (entryOf p (ttl.map (now + ·)) tag).tag &&
          bindable (entryOf p (ttl.map (now + ·)) tag).val then
        .put (entryOf p (ttl.map (now + ·)) tag) (.bool true)
      else .keep (.exc "UnicodeEncodeError"), fun m => ?_⟩
  unfold Spec.set
  cases place E cfg.disk cfg.minFileSize v read with
  | error e => rfl
  | ok p => simp only; split <;> rfl

theorem frf_add_local (E : Externals) (cfg : Cfg) (now : Int) (k v : PyVal) (ttl : Option Int)
    (read : Bool) (tag : SqlVal) :
    frf_Local (fun m => Spec.add m E cfg now k v ttl read tag) (keyOf E cfg k) := by
  refine ⟨fun d =>
    match place E cfg.disk cfg.minFileSize v read with
    | .error _ => .keep (.exc "UnicodeEncodeError")
    | .ok p =>
      if !bindable (keyOf E cfg k).1 then .keep (.exc "UnicodeEncodeError")
      else if rf_has now d then .keep (.bool false)
      else if bindable (entryOf p (ttl.map (now + ·)) tag).tag &&
          bindable (entryOf p (ttl.map (now + ·)) tag).val then
        .put (entryOf p (ttl.map (now + ·)) tag) (.bool true)
      else .keep (.exc "UnicodeEncodeError"), fun m => ?_⟩
  unfold Spec.add
  cases place E cfg.disk cfg.minFileSize v read with
  | error e => rfl
  | ok p =>
    simp only [rf_has_dict]
    split
    · rfl
    · split
      · rfl
      · split <;> rfl

theorem frf_touch_local (E : Externals) (cfg : Cfg) (now : Int) (k : PyVal) (ttl : Option Int) :
    frf_Local (fun m => Spec.touch m E cfg now k ttl) (keyOf E cfg k) := by
  refine ⟨fun d =>
    match d with
    | some e => if e.live now then .put { e with expT := ttl.map (now + ·) } (.bool true)
                else .keep (.bool false)
    | none => .keep (.bool false), fun m => ?_⟩
  dsimp only
  unfold Spec.touch
  cases m.get (keyOf E cfg k) with
  | none => rfl
  | some e => simp only; split <;> rfl

theorem frf_incr_local (E : Externals) (cfg : Cfg) (now : Int) (k : PyVal) (delta : Int)
    (dflt : Option Int) :
    frf_Local (fun m => Spec.incr m E cfg now k delta dflt) (keyOf E cfg k) := by
  let fresh : frf_Act :=
    match dflt with
    | none => .keep (.exc "KeyError")
    | some d =>
      match place E cfg.disk cfg.minFileSize (.int (d + delta)) false with
      | .error _ => .keep (.exc "UnicodeEncodeError")
      | .ok p => .put (entryOf p none .null) (.int (d + delta))
  have hfresh : ∀ m : Dict, specIncrFresh m E cfg k delta dflt = frf_apply m (keyOf E cfg k) fresh := by
    intro m
    unfold specIncrFresh
    cases dflt with
    | none => rfl
    | some d =>
      dsimp only [fresh]
      cases place E cfg.disk cfg.minFileSize (.int (d + delta)) false <;> rfl
  refine ⟨fun d =>
    match d with
    | none => fresh
    | some e =>
      if e.expired now then fresh
      else match e.val with
        | .int i => if inI64 (i + delta) then .put { e with val := .int (i + delta) } (.int (i + delta))
                    else .keep (.exc "OverflowError")
        | _ => .keep (.exc "TypeError"), fun m => ?_⟩
  show Spec.incr m E cfg now k delta dflt = _
  rw [specIncr_eq]
  cases m.get (keyOf E cfg k) with
  | none => exact hfresh m
  | some e =>
    simp only
    split
    · exact hfresh m
    · cases e.val with
      | int i => simp only; split <;> rfl
      | null => rfl
      | real b => rfl
      | text b => rfl
      | blob b => rfl

theorem frf_get_local (E : Externals) (cfg : Cfg) (now : Int) (k : PyVal) (read et tg : Bool) :
    frf_Local (fun m => Spec.get m E cfg now k read et tg) (keyOf E cfg k) := by
  refine ⟨fun d =>
    match d with
    | some e => if e.live now then .keep (e.out E cfg read et tg) else .keep (defaultFlags et tg)
    | none => .keep (defaultFlags et tg), fun m => ?_⟩
  dsimp only
  unfold Spec.get
  cases m.get (keyOf E cfg k) with
  | none => rfl
  | some e => simp only; split <;> rfl

theorem frf_contains_local (E : Externals) (cfg : Cfg) (now : Int) (k : PyVal) :
    frf_Local (fun m => Spec.contains m E cfg now k) (keyOf E cfg k) := by
  refine ⟨fun d => .keep (.bool (rf_has now d)), fun m => ?_⟩
  dsimp only
  unfold Spec.contains
  rw [rf_has_dict]
  rfl

theorem frf_pop_local (E : Externals) (cfg : Cfg) (now : Int) (k : PyVal) (et tg : Bool) :
    frf_Local (fun m => Spec.pop m E cfg now k et tg) (keyOf E cfg k) := by
  refine ⟨fun d =>
    match d with
    | some e => if e.live now then .del (e.out E cfg false et tg) else .keep (defaultFlags et tg)
    | none => .keep (defaultFlags et tg), fun m => ?_⟩
  dsimp only
  unfold Spec.pop
  cases m.get (keyOf E cfg k) with
  | none => rfl
  | some e => simp only; split <;> rfl

theorem frf_delitem_local (E : Externals) (cfg : Cfg) (now : Int) (k : PyVal) :
    frf_Local (fun m => Spec.delitem m E cfg now k) (keyOf E cfg k) := by
  refine ⟨fun d => if rf_has now d then .del (.bool true) else .keep (.exc "KeyError"), fun m => ?_⟩
  dsimp only
  unfold Spec.delitem
  rw [rf_has_dict]
  split <;> rfl

theorem frf_delete_local (E : Externals) (cfg : Cfg) (now : Int) (k : PyVal) :
    frf_Local (fun m => Spec.delete m E cfg now k) (keyOf E cfg k) := by
  refine ⟨fun d => if rf_has now d then .del (.bool true) else .keep (.bool false), fun m => ?_⟩
  dsimp only
  unfold Spec.delete
  rw [rf_has_dict]
  split <;> rfl

/-- every key-addressed call of the specification is local at the key it addresses -/
theorem frf_step_local (cfg : Cfg) (op : Op) (E : Externals) (k : PyVal)
    (h : frf_opKey op = some (E, k)) :
    frf_Local (fun m => Spec.step m cfg op) (keyOf E cfg k) := by
  cases op <;> simp only [frf_opKey, Option.some.injEq, Prod.mk.injEq, reduceCtorEq] at h <;>
    obtain ⟨rfl, rfl⟩ := h
  · exact frf_set_local ..
  · exact frf_add_local ..
  · exact frf_touch_local ..
  · exact frf_incr_local ..
  · exact frf_get_local ..
  · exact frf_contains_local ..
  · exact frf_pop_local ..
  · exact frf_delitem_local ..
  · exact frf_delete_local ..

/-! ### the bulk removals of the specification act on every binding separately -/

/-- `sop` maps the binding of every key by `P` -/
def frf_Pointwise (sop : Dict → Dict × Out) : Prop :=
  ∃ P : Option Entry → Option Entry, ∀ m : Dict, m.WF → (sop m).1.WF ∧ ∀ k, (sop m).1.get k = P (m.get k)

theorem frf_clear_pointwise : frf_Pointwise Spec.clear :=
  ⟨fun _ => none, fun _ _ => ⟨rf_wf_nil, fun _ => rfl⟩⟩

theorem frf_filter_pointwise (p : Entry → Bool) :
    frf_Pointwise (fun m => (m.filter (fun x => p x.2), Out.none)) :=
  ⟨fun d => d.filter p, fun _ hw => ⟨rf_wf_filter hw _, fun k => rf_get_filter hw p k⟩⟩

/-- the bulk removals -/
def frf_isBulk : Op → Bool
  | .clear | .evict .. | .expire .. | .cull .. => true
  | _ => false

theorem frf_step_pointwise (cfg : Cfg) (op : Op) (h : frf_isBulk op = true) :
    frf_Pointwise (fun m => Spec.step m cfg op) := by
  cases op <;> simp only [frf_isBulk, Bool.false_eq_true] at h
  · exact frf_clear_pointwise
  · exact frf_filter_pointwise (fun e => !e.tag.eqv _)
  · exact frf_filter_pointwise (fun e => !e.expired _)
  · exact frf_filter_pointwise (fun e => !e.expired _)

/-- a call of the specification addresses a key or is a bulk removal -/
theorem frf_keyed_cases (op : Op) (h : Keyed op = true) :
    (∃ E k, frf_opKey op = some (E, k)) ∨ frf_isBulk op = true := by
  cases op <;> simp only [Keyed, Bool.false_eq_true] at h <;>
    first
      | exact .inr rfl
      | exact .inl ⟨_, _, rfl⟩

end DC.Cache
