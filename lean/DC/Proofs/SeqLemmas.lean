/-
Helper lemmas for C11_Seq / C12_Map: trichotomy of `lexLt`, `Num.lt`, and small list facts.
-/
import DC.Model.Layers

namespace DC

theorem seq_lexLt_trichotomy (x y : List Nat) : (!lexLt y x) = (lexLt x y || x == y) := by
  induction x generalizing y with
  | nil => cases y <;> simp [lexLt]
  | cons a as ih =>
    cases y with
    | nil => simp [lexLt]
    | cons b bs =>
      simp only [lexLt]
      by_cases h1 : a < b
      · have h2 : ¬ b < a := by omega
        have h3 : a ≠ b := by omega
        simp [h1, h2]
      · by_cases h2 : b < a
        · have h3 : a ≠ b := by omega
          simp [h1, h2, h3]
        · have h3 : a = b := by omega
          subst h3
          simp [ih bs]

theorem seq_str_beq (x y : Str) : (PyVal.str x == PyVal.str y) = (x == y) := by
  rw [Bool.eq_iff_iff]; simp

theorem seq_bytes_beq (x y : Bytes) : (PyVal.bytes x == PyVal.bytes y) = (x == y) := by
  rw [Bool.eq_iff_iff]; simp

theorem seq_pyEq_symm (a b : PyVal) : pyEq a b = pyEq b a := by
  unfold pyEq
  cases ha : pyNum a <;> cases hb : pyNum b <;> simp only [Bool.or_comm (pyIsNumber a)]
  all_goals first
    | (congr 1; exact Bool.beq_comm)
    | (exact Bool.beq_comm)
    | skip

theorem seq_pyEq_cases (a b : PyVal) :
    (∃ x y, pyNum a = some x ∧ pyNum b = some y ∧ pyEq a b = (x == y)) ∨
    ((pyNum a = none ∨ pyNum b = none) ∧ (pyIsNumber a = true ∨ pyIsNumber b = true) ∧ pyEq a b = false) ∨
    (pyIsNumber a = false ∧ pyIsNumber b = false ∧ pyNum a = none ∧ pyNum b = none ∧ pyEq a b = (a == b)) := by
  unfold pyEq
  cases ha : pyNum a <;> cases hb : pyNum b
  all_goals
    cases hna : pyIsNumber a <;> cases hnb : pyIsNumber b <;> simp
  all_goals
    cases a <;> simp [pyNum, pyIsNumber] at ha hna
  all_goals
    cases b <;> simp [pyNum, pyIsNumber] at hb hnb

theorem seq_pyNum_some_isNumber {a : PyVal} {x : Num} (h : pyNum a = some x) : pyIsNumber a = true := by
  cases a <;> simp [pyNum, pyIsNumber] at h ⊢

theorem seq_not_isNumber_pyNum {a : PyVal} (h : pyIsNumber a = false) : pyNum a = none := by
  cases a <;> simp [pyNum, pyIsNumber] at h ⊢

/-- a number that is not NaN has a denotation -/
theorem seq_pyNum_of_notNaN (a : PyVal) (hn : pyIsNumber a = true)
    (h : ∀ f, a = .float f → floatIsNaN f = false) : ∃ x, pyNum a = some x := by
  cases a <;> simp [pyNum, pyIsNumber] at hn ⊢
  case float f => simp [h f rfl]

end DC
