/-
Helper lemmas for C03_Refine (the Cache model refines the reference dictionary
of DC/Model/Spec.lean).

 * the dictionary: `get` after `put` / `del` / removal of bindings;
 * the *view* of a cache state: the partial map key ↦ entry it denotes
   (`rf_view`), and how look-ups in a row list behave under the row-list
   transformations the statements perform (`rf_look_*`);
 * `rf_Culled`: a view that lost some entries that were expired;
 * the generic step `rf_culled`: a state whose rows are a subset of a list `X`
   from which only expired rows are missing, and whose files come from a state
   `b`, denotes the view of `X` (read against the files of `b`) up to culling.
-/
import DC.Model.Spec
import DC.Properties.C08_Seq
import DC.Properties.C04
import DC.Properties.C09
import DC.Properties.C03_Paging

namespace DC.Cache
open DC.Spec

/-! ### keys -/

theorem rf_sameKey_symm {a b : Key} (h : sameKey a b = true) : sameKey b a = true := by
  simp only [sameKey, Bool.and_eq_true, beq_iff_eq] at h ⊢
  exact ⟨SqlVal.eqv_symm _ _ h.1, h.2.symm⟩

theorem rf_sameKey_trans {a b c : Key} (h1 : sameKey a b = true) (h2 : sameKey b c = true) :
    sameKey a c = true := by
  simp only [sameKey, Bool.and_eq_true, beq_iff_eq] at h1 h2 ⊢
  exact ⟨SqlVal.eqv_trans _ _ _ h1.1 h2.1, h1.2.trans h2.2⟩

theorem rf_sameKey_congr_left {a b : Key} (h : sameKey a b = true) (c : Key) :
    sameKey a c = sameKey b c := by
  cases h1 : sameKey a c <;> cases h2 : sameKey b c <;> try rfl
  · rw [rf_sameKey_trans h h2] at h1; cases h1
  · rw [rf_sameKey_trans (rf_sameKey_symm h) h1] at h2; cases h2

theorem rf_sameKey_comm (a b : Key) : sameKey a b = sameKey b a := by
  cases h1 : sameKey a b <;> cases h2 : sameKey b a <;> try rfl
  · rw [rf_sameKey_symm h2] at h1; cases h1
  · rw [rf_sameKey_symm h1] at h2; cases h2

theorem rf_keyMatch_sameKey (k : Key) (r : Row) : keyMatch k.1 k.2 r = sameKey (r.key, r.raw) k := rfl

/-! ### the dictionary -/

theorem rf_find_congr {α} {l : List α} {p q : α → Bool} (h : ∀ a ∈ l, p a = q a) :
    l.find? p = l.find? q := by
  induction l with
  | nil => rfl
  | cons a t ih =>
    simp only [List.find?_cons, h a (List.mem_cons_self)]
    rw [ih (fun b hb => h b (List.mem_cons_of_mem _ hb))]

theorem rf_get_put (m : Dict) (k : Key) (e : Entry) (k' : Key) :
    (m.put k e).get k' = if sameKey k k' then some e else m.get k' := by
  unfold Dict.put Dict.get Dict.del
  rw [List.find?_cons]
  cases h : sameKey k k' with
  | true => simp
  | false =>
    simp only [List.find?_filter, Bool.false_eq_true, if_false]
    congr 1
    apply rf_find_congr
    intro p _
    cases h1 : sameKey p.1 k' with
    | false => simp
    | true =>
      cases h2 : sameKey p.1 k with
      | false => simp
      | true =>
        rw [rf_sameKey_trans (rf_sameKey_symm h2) h1] at h; cases h

theorem rf_get_del (m : Dict) (k k' : Key) :
    (m.del k).get k' = if sameKey k k' then none else m.get k' := by
  unfold Dict.get Dict.del
  cases h : sameKey k k' with
  | true =>
    simp only [if_true, Option.map_eq_none_iff, List.find?_eq_none]
    intro p hp hc
    have := (List.mem_filter.1 hp).2
    rw [rf_sameKey_trans hc (rf_sameKey_symm h)] at this
    cases this
  | false =>
    simp only [List.find?_filter, Bool.false_eq_true, if_false]
    congr 1
    apply rf_find_congr
    intro p _
    cases h1 : sameKey p.1 k' with
    | false => simp
    | true =>
      cases h2 : sameKey p.1 k with
      | false => simp
      | true =>
        rw [rf_sameKey_trans (rf_sameKey_symm h2) h1] at h; cases h

theorem rf_wf_nil : Dict.WF [] := List.Pairwise.nil

theorem rf_wf_filter {m : Dict} (h : m.WF) (p : Key × Entry → Bool) : Dict.WF (m.filter p) :=
  List.Pairwise.filter p h

theorem rf_wf_del {m : Dict} (h : m.WF) (k : Key) : (m.del k).WF := rf_wf_filter h _

theorem rf_wf_put {m : Dict} (h : m.WF) (k : Key) (e : Entry) : (m.put k e).WF := by
  unfold Dict.put Dict.WF
  rw [List.pairwise_cons]
  refine ⟨?_, rf_wf_del h k⟩
  intro p hp
  have := (List.mem_filter.1 hp).2
  rw [rf_sameKey_comm]
  simpa using this

/-- removing bindings by a property of the entry: with at most one binding per key the
look-up is filtered -/
theorem rf_get_filter {m : Dict} (h : m.WF) (p : Entry → Bool) (k : Key) :
    (Dict.get (m.filter (fun x => p x.2)) k) = (m.get k).filter p := by
  unfold Dict.get
  induction m with
  | nil => rfl
  | cons a t ih =>
    have hw := List.pairwise_cons.1 h
    cases ha : sameKey a.1 k with
    | true =>
      have hnone : t.find? (fun q => sameKey q.1 k) = none := by
        rw [List.find?_eq_none]
        intro q hq hc
        have := hw.1 q hq
        rw [rf_sameKey_trans ha (rf_sameKey_symm hc)] at this
        cases this
      cases hp : p a.2 with
      | true =>
        rw [List.filter_cons_of_pos (by simpa using hp)]
        simp [ha, Option.filter, hp]
      | false =>
        rw [List.filter_cons_of_neg (by simp [hp])]
        have := ih hw.2
        rw [this, hnone]
        simp [ha, Option.filter, hp]
    | false =>
      have := ih hw.2
      cases hp : p a.2 with
      | true =>
        rw [List.filter_cons_of_pos (by simpa using hp)]
        simp only [List.find?_cons, ha]
        exact this
      | false =>
        rw [List.filter_cons_of_neg (by simp [hp])]
        simp only [List.find?_cons, ha]
        exact this

/-! ### the view of a state -/

/-- the entry a row denotes, its file read in state `c` -/
def rf_ent (c : Cache) (r : Row) : Entry :=
  { mode := r.mode, val := r.val, content := r.file.bind c.fileGet, expT := r.expT, tag := r.tag }

/-- look-up in a row list, files read in `c` -/
def rf_look (X : List Row) (c : Cache) (k : Key) : Option Entry :=
  (X.find? (keyMatch k.1 k.2)).map (rf_ent c)

/-- the partial map a state denotes -/
def rf_view (c : Cache) (k : Key) : Option Entry := rf_look c.rows c k

/-- `v` (what the cache holds for a key) represents `d` (what the dictionary holds) at `clock` -/
def rf_VRel (v d : Option Entry) (clock : Int) : Prop :=
  match d with
  | some e => v = some e ∨ (v = none ∧ e.expired clock = true)
  | none => v = none

/-- `v2` is `v1` except that some entries expired at `now` were dropped -/
def rf_Culled (now : Int) (v1 v2 : Key → Option Entry) : Prop :=
  ∀ k, v2 k = v1 k ∨ (v2 k = none ∧ ∃ e, v1 k = some e ∧ e.expired now = true)

theorem rf_expired_mono {e : Entry} {clock now : Int} (h : e.expired clock = true) (hn : clock ≤ now) :
    e.expired now = true := by
  unfold Entry.expired at h ⊢
  split at h
  · cases h
  · simp only [decide_eq_true_eq] at h ⊢; omega

theorem rf_expired_not_live {e : Entry} {clock now : Int} (h : e.expired clock = true) (hn : clock ≤ now) :
    e.live now = false := by
  unfold Entry.expired at h
  unfold Entry.live
  split at h
  · cases h
  · simp only [decide_eq_true_eq, gt_iff_lt, decide_eq_false_iff_not] at h ⊢; omega

theorem rf_VRel_mono {v d : Option Entry} {clock now : Int} (h : rf_VRel v d clock) (hn : clock ≤ now) :
    rf_VRel v d now := by
  unfold rf_VRel at h ⊢
  split
  · rename_i e
    rcases h with h | ⟨h1, h2⟩
    · exact .inl h
    · exact .inr ⟨h1, rf_expired_mono h2 hn⟩
  · exact h

theorem rf_VRel_culled {v1 v2 : Key → Option Entry} {now : Int} (hc : rf_Culled now v1 v2)
    {k : Key} {d : Option Entry} (h : rf_VRel (v1 k) d now) : rf_VRel (v2 k) d now := by
  unfold rf_VRel at h ⊢
  rcases hc k with h2 | ⟨h2, e, h3, h4⟩
  · rw [h2]; exact h
  · split
    · rename_i e'
      simp only at h
      rcases h with h | ⟨h, h5⟩
      · rw [h3] at h; cases h
        exact .inr ⟨h2, h4⟩
      · exact .inr ⟨h2, h5⟩
    · exact h2

theorem rf_Culled_refl (now : Int) (v : Key → Option Entry) : rf_Culled now v v := fun _ => .inl rfl

theorem rf_ent_expired (c : Cache) (r : Row) (now : Int) : (rf_ent c r).expired now = expired now r := rfl
theorem rf_ent_live (c : Cache) (r : Row) (now : Int) : (rf_ent c r).live now = live now r := rfl

/-! ### look-ups in a table with unique keys -/

theorem rf_find_of_mem {X : List Row} (hu : KeysUnique X) {k : SqlVal} {raw : Bool} {x : Row}
    (hx : x ∈ X) (hk : keyMatch k raw x = true) : X.find? (keyMatch k raw) = some x := by
  cases h : X.find? (keyMatch k raw) with
  | none =>
    have := List.find?_eq_none.1 h x hx
    exact absurd hk this
  | some y =>
    have hy := List.mem_of_find?_eq_some h
    have hky : keyMatch k raw y = true := List.find?_some h
    rw [keysUnique_eq hu hy hx hky hk]

theorem rf_look_congr {X : List Row} {a b : Cache} (h : ∀ r ∈ X, rf_ent a r = rf_ent b r) (k : Key) :
    rf_look X a k = rf_look X b k := by
  unfold rf_look
  cases hf : X.find? (keyMatch k.1 k.2) with
  | none => rfl
  | some x => simp only [Option.map_some]; rw [h x (List.mem_of_find?_eq_some hf)]

/-- rows rewritten in place by a function that keeps key and raw flag -/
theorem rf_look_map (X : List Row) (c : Cache) (f : Row → Row)
    (hf : ∀ r, (f r).key = r.key ∧ (f r).raw = r.raw) (k : Key) :
    rf_look (X.map f) c k = (X.find? (keyMatch k.1 k.2)).map (fun r => rf_ent c (f r)) := by
  unfold rf_look
  rw [List.find?_map]
  have : (keyMatch k.1 k.2 ∘ f) = keyMatch k.1 k.2 := by
    funext r
    simp only [Function.comp, keyMatch, (hf r).1, (hf r).2]
  rw [this]
  cases X.find? (keyMatch k.1 k.2) <;> rfl

theorem rf_look_append (X : List Row) (r : Row) (c : Cache) (k : Key) :
    rf_look (X ++ [r]) c k =
      (rf_look X c k).or (if keyMatch k.1 k.2 r then some (rf_ent c r) else none) := by
  unfold rf_look
  rw [List.find?_append]
  cases X.find? (keyMatch k.1 k.2) with
  | some x => simp
  | none =>
    simp only [Option.none_or, Option.map_none, List.find?_cons]
    cases keyMatch k.1 k.2 r <;> simp

theorem rf_look_filter {X : List Row} (hu : KeysUnique X) (p : Row → Bool) (c : Cache) (k : Key) :
    rf_look (X.filter p) c k = ((X.find? (keyMatch k.1 k.2)).filter p).map (rf_ent c) := by
  unfold rf_look
  congr 1
  cases hf : X.find? (keyMatch k.1 k.2) with
  | none =>
    simp only [Option.filter_none, List.find?_eq_none]
    intro x hx
    exact List.find?_eq_none.1 hf x (List.mem_filter.1 hx).1
  | some x =>
    have hx := List.mem_of_find?_eq_some hf
    have hkx : keyMatch k.1 k.2 x = true := List.find?_some hf
    cases hp : p x with
    | true =>
      simp only [Option.filter, hp, if_true]
      exact rf_find_of_mem (List.Pairwise.filter p hu) (List.mem_filter.2 ⟨hx, hp⟩) hkx
    | false =>
      simp only [Option.filter, hp, Bool.false_eq_true, if_false, List.find?_eq_none]
      intro y hy hky
      obtain ⟨hy1, hy2⟩ := List.mem_filter.1 hy
      have := keysUnique_eq hu hy1 hx hky hkx
      subst this
      rw [hp] at hy2; cases hy2

/-! ### files -/

/-- a row reads the same entry in two states when the files of the first are files of the second -/
theorem rf_ent_mono {a b : Cache} (hsub : ∀ p ∈ a.files, p ∈ b.files)
    (hnd : (b.files.map (·.1)).Nodup) {r : Row}
    (href : ∀ f, r.file = some f → ∃ ct, a.fileGet f = some ct) : rf_ent a r = rf_ent b r := by
  unfold rf_ent
  cases hf : r.file with
  | none => rfl
  | some f =>
    obtain ⟨ct, hct⟩ := href f hf
    have h1 := hsub _ (mem_of_fileGet hct)
    have h2 := fileGet_of_mem hnd h1
    simp only [Option.bind_some, hct, h2]

theorem rf_good_ref {c : Cache} (hg : Good c) {r : Row} (hr : r ∈ c.rows) :
    ∀ f, r.file = some f → ∃ ct, c.fileGet f = some ct := by
  intro f hf
  obtain ⟨ct, h1, -⟩ := hg.finv.ref r hr f hf
  exact ⟨ct, h1⟩

/-! ### the generic step -/

/-- `c'` holds a subset of the rows `X`, only expired rows are missing, and its files are files
of `b`: then `c'` denotes what `X` denotes (read against `b`), up to culling -/
theorem rf_culled {c' b : Cache} {X : List Row} {now : Int} (hg' : Good c')
    (hu : KeysUnique X)
    (hsub : ∀ r ∈ c'.rows, r ∈ X)
    (hgone : ∀ r ∈ X, r ∉ c'.rows → expired now r = true)
    (hfiles : ∀ p ∈ c'.files, p ∈ b.files)
    (hnd : (b.files.map (·.1)).Nodup) :
    rf_Culled now (rf_look X b) (rf_view c') := by
  have hent : ∀ r ∈ c'.rows, rf_ent c' r = rf_ent b r :=
    fun r hr => rf_ent_mono hfiles hnd (rf_good_ref hg' hr)
  intro k
  unfold rf_view
  rw [rf_look_congr hent k]
  unfold rf_look
  cases hf : X.find? (keyMatch k.1 k.2) with
  | none =>
    left
    have : c'.rows.find? (keyMatch k.1 k.2) = none := by
      rw [List.find?_eq_none]
      intro x hx
      exact List.find?_eq_none.1 hf x (hsub x hx)
    rw [this]
  | some x =>
    have hx := List.mem_of_find?_eq_some hf
    have hkx : keyMatch k.1 k.2 x = true := List.find?_some hf
    by_cases hxc : x ∈ c'.rows
    · left
      rw [rf_find_of_mem hg'.tinv.tbl.uniq hxc hkx]
    · right
      refine ⟨?_, rf_ent b x, rfl, hgone x hx hxc⟩
      have : c'.rows.find? (keyMatch k.1 k.2) = none := by
        rw [List.find?_eq_none]
        intro y hy hky
        have := keysUnique_eq hu (hsub y hy) hx hky hkx
        subst this
        exact hxc hy
      rw [this]; rfl

/-- no row missing: equality -/
theorem rf_same {c' b : Cache} (hg' : Good c')
    (hfiles : ∀ p ∈ c'.files, p ∈ b.files)
    (hnd : (b.files.map (·.1)).Nodup) (k : Key) :
    rf_view c' k = rf_look c'.rows b k := by
  have hent : ∀ r ∈ c'.rows, rf_ent c' r = rf_ent b r :=
    fun r hr => rf_ent_mono hfiles hnd (rf_good_ref hg' hr)
  unfold rf_view
  exact rf_look_congr hent k

/-! ### per-key actions -/

theorem rf_keyMatch_congr {K k' : Key} (h : sameKey K k' = true) (r : Row) :
    keyMatch K.1 K.2 r = keyMatch k'.1 k'.2 r := by
  rw [rf_keyMatch_sameKey, rf_keyMatch_sameKey]
  cases h1 : sameKey (r.key, r.raw) K <;> cases h2 : sameKey (r.key, r.raw) k' <;> try rfl
  · rw [rf_sameKey_trans h2 (rf_sameKey_symm h)] at h1; cases h1
  · rw [rf_sameKey_trans h1 h] at h2; cases h2

/-- equal keys see the same entry -/
theorem rf_look_sameKey {K k' : Key} (h : sameKey K k' = true) (X : List Row) (c : Cache) :
    rf_look X c K = rf_look X c k' := by
  unfold rf_look
  rw [rf_find_congr (fun r _ => rf_keyMatch_congr h r)]

theorem rf_view_sameKey {K k' : Key} (h : sameKey K k' = true) (c : Cache) :
    rf_view c K = rf_view c k' := rf_look_sameKey h _ _

theorem rf_get_sameKey {K k' : Key} (h : sameKey K k' = true) (m : Dict) : m.get K = m.get k' := by
  unfold Dict.get
  rw [rf_find_congr (fun p _ => ?_)]
  cases h1 : sameKey p.1 K <;> cases h2 : sameKey p.1 k' <;> try rfl
  · rw [rf_sameKey_trans h2 (rf_sameKey_symm h)] at h1; cases h1
  · rw [rf_sameKey_trans h1 h] at h2; cases h2

/-- the map that is `d` at (keys equal to) `K` and `v` elsewhere -/
def rf_at (K : Key) (d : Option Entry) (v : Key → Option Entry) (k' : Key) : Option Entry :=
  if sameKey K k' then d else v k'

theorem rf_at_self {K : Key} {v : Key → Option Entry} (hv : ∀ k', sameKey K k' = true → v K = v k')
    (k' : Key) : rf_at K (v K) v k' = v k' := by
  unfold rf_at
  split
  · rename_i h; exact hv k' h
  · rfl

/-- either the cache holds what the dictionary holds, or it holds nothing and the dictionary
holds an entry that is expired (hence neither live nor visible) -/
theorem rf_VRel_cases {v d : Option Entry} {now : Int} (h : rf_VRel v d now) :
    v = d ∨ (v = none ∧ ∃ e, d = some e ∧ e.expired now = true ∧ e.live now = false) := by
  unfold rf_VRel at h
  split at h
  · rename_i e
    rcases h with h | ⟨h1, h2⟩
    · exact .inl h
    · exact .inr ⟨h1, e, rfl, h2, rf_expired_not_live h2 (Int.le_refl _)⟩
  · exact .inl h

/-- assembling a per-key step: the cache view changes at `K` by `upd` (up to culling), the
dictionary changes at `K` by `upd`, and `upd` respects the representation relation -/
theorem rf_assemble {v v' : Key → Option Entry} {m m' : Dict} {clock now : Int} {K : Key}
    {upd : Option Entry → Option Entry}
    (hr : ∀ k, rf_VRel (v k) (m.get k) clock) (hn : clock ≤ now)
    (hA : rf_Culled now (rf_at K (upd (v K)) v) v')
    (hB : ∀ k', m'.get k' = rf_at K (upd (m.get K)) m.get k')
    (hC : ∀ a d, rf_VRel a d now → rf_VRel (upd a) (upd d) now) :
    ∀ k, rf_VRel (v' k) (m'.get k) now := by
  intro k
  apply rf_VRel_culled hA
  rw [hB k]
  unfold rf_at
  split
  · exact hC _ _ (rf_VRel_mono (hr K) hn)
  · exact rf_VRel_mono (hr k) hn

/-- is there a live entry? -/
def rf_has (now : Int) (v : Option Entry) : Bool :=
  match v with
  | some e => e.live now
  | none => false

theorem rf_has_rel {v d : Option Entry} {now : Int} (h : rf_VRel v d now) : rf_has now v = rf_has now d := by
  rcases rf_VRel_cases h with h | ⟨h, e, hd, -, hl⟩
  · rw [h]
  · rw [h, hd]; simp [rf_has, hl]

theorem rf_VRel_refl (v : Option Entry) (now : Int) : rf_VRel v v now := by
  unfold rf_VRel
  split
  · exact .inl rfl
  · rfl

end DC.Cache
