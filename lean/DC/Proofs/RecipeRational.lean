/- helper lemmas for the rational token bucket (C20, DC/Properties/C20_Rational.lean) -/
import DC.Model.RecipesQ
import DC.Proofs.RecipeLemmas

namespace DC.Recipes

/-- the burst in scaled units: max(count, 1) tokens -/
def QBucket.burst (b : QBucket) : Int := ((max b.p b.q : Nat) : Int) * b.seconds

theorem QBucket.token_nonneg (b : QBucket) : 0 ≤ b.token :=
  Int.mul_nonneg (Int.natCast_nonneg _) (Int.natCast_nonneg _)

theorem QBucket.cap_nonneg (b : QBucket) : 0 ≤ b.cap :=
  Int.mul_nonneg (Int.natCast_nonneg _) (Int.natCast_nonneg _)

theorem QBucket.token_le_cap (b : QBucket) (h : b.q ≤ b.p) : b.token ≤ b.cap := by
  have h1 : (b.q : Int) ≤ (b.p : Int) := by omega
  exact Int.mul_le_mul_of_nonneg_right h1 (Int.natCast_nonneg _)

theorem QBucket.cap_le_token (b : QBucket) (h : b.p ≤ b.q) : b.cap ≤ b.token := by
  have h1 : (b.p : Int) ≤ (b.q : Int) := by omega
  exact Int.mul_le_mul_of_nonneg_right h1 (Int.natCast_nonneg _)

theorem QBucket.cap_lt_token (b : QBucket) (h : b.p < b.q) (hs : 0 < b.seconds) : b.cap < b.token := by
  have h1 : (b.p : Int) < (b.q : Int) := by omega
  have h2 : (0 : Int) < (b.seconds : Int) := by omega
  exact Int.mul_lt_mul_of_pos_right h1 h2

/-- burst = max(cap, token) -/
theorem QBucket.burst_cases (b : QBucket) :
    (b.q ≤ b.p ∧ b.burst = b.cap ∧ b.token ≤ b.cap) ∨ (b.p ≤ b.q ∧ b.burst = b.token ∧ b.cap ≤ b.token) := by
  by_cases h : b.q ≤ b.p
  · left
    refine ⟨h, ?_, b.token_le_cap h⟩
    simp [QBucket.burst, QBucket.cap, Nat.max_eq_left h]
  · right
    have h' : b.p ≤ b.q := by omega
    refine ⟨h', ?_, b.cap_le_token h'⟩
    simp [QBucket.burst, QBucket.token, Nat.max_eq_right h']

theorem QBucket.cap_le_burst (b : QBucket) : b.cap ≤ b.burst := by
  rcases b.burst_cases with ⟨_, h, _⟩ | ⟨_, h, h'⟩ <;> omega

theorem QBucket.token_le_burst (b : QBucket) : b.token ≤ b.burst := by
  rcases b.burst_cases with ⟨_, h, h'⟩ | ⟨_, h, _⟩ <;> omega

/-- the three outcomes of an attempt -/
theorem QBucket.attempt_cases (b : QBucket) (now : Int) :
    (b.tally + (now - b.last) > b.cap ∧
      b.attempt now = ({ b with last := now, tally := b.cap - b.token }, none)) ∨
    (b.tally + (now - b.last) ≤ b.cap ∧ b.tally + (now - b.last) ≥ b.token ∧
      b.attempt now = ({ b with last := now, tally := b.tally + (now - b.last) - b.token }, none)) ∨
    (b.tally + (now - b.last) ≤ b.cap ∧ b.tally + (now - b.last) < b.token ∧
      b.attempt now = (b, some (b.token - (b.tally + (now - b.last))))) := by
  by_cases h1 : b.tally + (now - b.last) > b.cap
  · left
    refine ⟨h1, ?_⟩
    simp only [QBucket.attempt, h1, if_true]
  · by_cases h2 : b.tally + (now - b.last) ≥ b.token
    · right; left
      refine ⟨by omega, h2, ?_⟩
      simp only [QBucket.attempt, h1, h2, if_true, if_false]
    · right; right
      refine ⟨by omega, by omega, ?_⟩
      simp only [QBucket.attempt, h1, h2, if_false]

/-- the parameters never change -/
theorem QBucket.attempt_params (b : QBucket) (now : Int) :
    (b.attempt now).1.p = b.p ∧ (b.attempt now).1.q = b.q ∧ (b.attempt now).1.seconds = b.seconds := by
  rcases b.attempt_cases now with ⟨_, he⟩ | ⟨_, _, he⟩ | ⟨_, _, he⟩ <;> rw [he] <;> exact ⟨rfl, rfl, rfl⟩

theorem QBucket.attempt_cap (b : QBucket) (now : Int) : (b.attempt now).1.cap = b.cap := by
  obtain ⟨h1, _, h3⟩ := b.attempt_params now
  simp [QBucket.cap, h1, h3]

theorem QBucket.attempt_token (b : QBucket) (now : Int) : (b.attempt now).1.token = b.token := by
  obtain ⟨_, h2, h3⟩ := b.attempt_params now
  simp [QBucket.token, h2, h3]

theorem QBucket.attempt_burst (b : QBucket) (now : Int) : (b.attempt now).1.burst = b.burst := by
  obtain ⟨h1, h2, h3⟩ := b.attempt_params now
  simp [QBucket.burst, h1, h2, h3]

theorem QBucket.passes_cons (b : QBucket) (now : Int) (rest : List Int) :
    b.passes (now :: rest) =
      (if (b.attempt now).2 = none then [now] else []) ++ (b.attempt now).1.passes rest := by
  rw [QBucket.passes]
  rcases h : b.attempt now with ⟨b', _ | d⟩ <;> simp

theorem QBucket.passesCapped_cons (b : QBucket) (now : Int) (rest : List Int) :
    b.passesCapped (now :: rest) =
      (if (b.attemptCapped now).2 = none then [now] else []) ++ (b.attemptCapped now).1.passesCapped rest := by
  rw [QBucket.passesCapped]
  rcases h : b.attemptCapped now with ⟨b', _ | d⟩ <;> simp

theorem QBucket.run_cons (b : QBucket) (now : Int) (rest : List Int) :
    b.run (now :: rest) = (b.attempt now).1.run rest := rfl

/-- the cap and the token of the embedded whole-number bucket -/
theorem QBucket.ofBucket_cap (b : Bucket) : (QBucket.ofBucket b).cap = (b.count : Int) * b.seconds := rfl

theorem QBucket.ofBucket_token (b : Bucket) : (QBucket.ofBucket b).token = b.seconds := by
  simp [QBucket.token, QBucket.ofBucket]

theorem QBucket.ofBucket_burst (b : Bucket) (hc : 0 < b.count) :
    (QBucket.ofBucket b).burst = (b.count : Int) * b.seconds := by
  have : max b.count 1 = b.count := Nat.max_eq_left hc
  simp [QBucket.burst, QBucket.ofBucket, this]

/-- a refused attempt does not touch the state -/
theorem QBucket.attempt_some_state (b : QBucket) (now : Int) (h : ¬ (b.attempt now).2 = none) :
    (b.attempt now).1 = b := by
  rcases b.attempt_cases now with ⟨_, he⟩ | ⟨_, _, he⟩ | ⟨_, _, he⟩ <;> rw [he] at h ⊢
  · simp at h
  · simp at h

/-- the first pass of a run is an attempt of the start state (refused attempts before it change
nothing), and the rest of the passes is a run from the state after it -/
theorem QBucket.first_pass (times : List Int) : ∀ (b : QBucket) (a : Int) (rest : List Int),
    b.passes times = a :: rest →
    (b.attempt a).2 = none ∧ ∃ times', (b.attempt a).1.passes times' = rest := by
  induction times with
  | nil => intro b a rest h; simp [QBucket.passes] at h
  | cons now more ih =>
    intro b a rest h
    rw [QBucket.passes_cons] at h
    by_cases hn : (b.attempt now).2 = none
    · rw [if_pos hn] at h
      simp only [List.cons_append, List.nil_append, List.cons.injEq] at h
      obtain ⟨h1, h2⟩ := h
      subst h1
      exact ⟨hn, more, h2⟩
    · rw [if_neg hn, List.nil_append, QBucket.attempt_some_state b now hn] at h
      exact ih b a rest h

/-- any suffix of the passes of a run is the passes of a run of a bucket with the same
parameters -/
theorem QBucket.passes_suffix (times : List Int) : ∀ (b : QBucket) (pre rest : List Int),
    b.passes times = pre ++ rest →
    ∃ (b' : QBucket) (times' : List Int), b'.p = b.p ∧ b'.q = b.q ∧ b'.seconds = b.seconds ∧
      b'.passes times' = rest := by
  induction times with
  | nil =>
    intro b pre rest h
    refine ⟨b, [], rfl, rfl, rfl, ?_⟩
    cases pre with
    | nil => simpa [QBucket.passes] using h
    | cons x xs => simp [QBucket.passes] at h
  | cons now more ih =>
    intro b pre rest h
    cases pre with
    | nil => exact ⟨b, now :: more, rfl, rfl, rfl, by simpa using h⟩
    | cons x pre' =>
      rw [QBucket.passes_cons] at h
      obtain ⟨h1, h2, h3⟩ := b.attempt_params now
      by_cases hn : (b.attempt now).2 = none
      · rw [if_pos hn] at h
        simp only [List.cons_append, List.nil_append, List.cons.injEq] at h
        obtain ⟨b', t', g1, g2, g3, g4⟩ := ih _ pre' rest h.2
        exact ⟨b', t', by rw [g1, h1], by rw [g2, h2], by rw [g3, h3], g4⟩
      · rw [if_neg hn, List.nil_append] at h
        obtain ⟨b', t', g1, g2, g3, g4⟩ := ih _ (x :: pre') rest h
        exact ⟨b', t', by rw [g1, h1], by rw [g2, h2], by rw [g3, h3], g4⟩

theorem QBucket.passes_append (xs : List Int) : ∀ (b : QBucket) (ys : List Int),
    b.passes (xs ++ ys) = b.passes xs ++ (b.run xs).passes ys := by
  induction xs with
  | nil => intro b ys; rfl
  | cons x xs ih =>
    intro b ys
    rw [List.cons_append, QBucket.passes_cons, QBucket.passes_cons, QBucket.run_cons, ih, List.append_assoc]

/-- attempts that are all refused leave the state as it was -/
theorem QBucket.run_of_no_pass (xs : List Int) : ∀ (b : QBucket), b.passes xs = [] → b.run xs = b := by
  induction xs with
  | nil => intro b _; rfl
  | cons x xs ih =>
    intro b h
    rw [QBucket.passes_cons] at h
    by_cases hn : (b.attempt x).2 = none
    · rw [if_pos hn] at h; simp at h
    · rw [if_neg hn, List.nil_append, QBucket.attempt_some_state b x hn] at h
      rw [QBucket.run_cons, QBucket.attempt_some_state b x hn]
      exact ih b h

/-! ### several callers -/

/-- the instant from which an attempt on this state is certainly let through: where the tally
reaches one token -/
def QBucket.deadline (b : QBucket) : Int := b.last + (b.token - b.tally)

/-- calls whose next attempt may still be refused in the present state -/
def QSys.stale (s : QSys) : Nat := s.waiting.countP (fun w => decide (w < s.b.deadline))

/-- termination measure: every attempt lowers it -/
def QSys.measure (s : QSys) : Nat := tri s.waiting.length + s.stale

theorem tri_ge (n : Nat) : n ≤ tri n := by
  induction n with
  | zero => exact Nat.le_refl _
  | succ n ih => simp only [tri]; omega

theorem countP_set_getD {α : Type} (p : α → Bool) : ∀ (l : List α) (i : Nat) (d v : α),
    i < l.length → p (l.getD i d) = true → p v = false →
    (l.set i v).countP p + 1 = l.countP p := by
  intro l
  induction l with
  | nil => intro i d v h; simp at h
  | cons x xs ih =>
    intro i d v h hp hv
    cases i with
    | zero =>
      simp only [List.getD_cons_zero] at hp
      simp [hp, hv]
    | succ j =>
      simp only [List.getD_cons_succ] at hp
      simp only [List.length_cons, Nat.add_lt_add_iff_right] at h
      have := ih j d v h hp hv
      simp only [List.set_cons_succ, List.countP_cons]
      omega

/-- a refused attempt was before the deadline, and the sleep ends exactly at the deadline -/
theorem QBucket.refused_deadline (b : QBucket) (now d : Int) (h : (b.attempt now).2 = some d) :
    now < b.deadline ∧ now + d = b.deadline := by
  unfold QBucket.deadline
  rcases b.attempt_cases now with ⟨_, he⟩ | ⟨_, _, he⟩ | ⟨_, h2, he⟩ <;> rw [he] at h
  · simp at h
  · simp at h
  · simp only [Option.some.injEq] at h
    omega

/-- the two outcomes of a scheduled attempt -/
theorem QSys.step_cases (s : QSys) (pick : Nat × Nat) (w0 : Int) (ws : List Int) (hw : s.waiting = w0 :: ws) :
    (((s.b.attempt ((w0 :: ws).getD (pick.1 % (ws.length + 1)) w0 + (pick.2 : Int))).2 = none ∧
      s.step pick = { b := (s.b.attempt ((w0 :: ws).getD (pick.1 % (ws.length + 1)) w0 + (pick.2 : Int))).1,
                      waiting := (w0 :: ws).eraseIdx (pick.1 % (ws.length + 1)),
                      log := ((w0 :: ws).getD (pick.1 % (ws.length + 1)) w0 + (pick.2 : Int)) :: s.log }) ∨
     (∃ d, (s.b.attempt ((w0 :: ws).getD (pick.1 % (ws.length + 1)) w0 + (pick.2 : Int))).2 = some d ∧
      s.step pick = { s with
        waiting := (w0 :: ws).set (pick.1 % (ws.length + 1))
          ((w0 :: ws).getD (pick.1 % (ws.length + 1)) w0 + (pick.2 : Int) + d),
        log := ((w0 :: ws).getD (pick.1 % (ws.length + 1)) w0 + (pick.2 : Int)) :: s.log })) := by
  unfold QSys.step
  rw [hw]
  simp only
  rcases h : s.b.attempt ((w0 :: ws).getD (pick.1 % (ws.length + 1)) w0 + (pick.2 : Int)) with ⟨b', _ | d⟩
  · left; exact ⟨rfl, rfl⟩
  · right; exact ⟨d, rfl, rfl⟩

theorem QSys.step_of_nil (s : QSys) (pick : Nat × Nat) (hw : s.waiting = []) : s.step pick = s := by
  unfold QSys.step
  rw [hw]

theorem QSys.run_cons (s : QSys) (pick : Nat × Nat) (rest : List (Nat × Nat)) :
    s.run (pick :: rest) = (s.step pick).run rest := rfl

theorem QSys.run_of_nil (sched : List (Nat × Nat)) : ∀ (s : QSys), s.waiting = [] → s.run sched = s := by
  induction sched with
  | nil => intro s _; rfl
  | cons pick rest ih => intro s h; rw [QSys.run_cons, QSys.step_of_nil s pick h]; exact ih s h

/-- every scheduled attempt lowers the measure: a pass removes a call, a refusal turns a call
that was before the deadline into one that sleeps exactly until the deadline -/
theorem QSys.step_measure (s : QSys) (pick : Nat × Nat) (hne : s.waiting ≠ []) :
    (s.step pick).measure < s.measure ∧
    ((s.step pick).waiting.length = s.waiting.length ∨ (s.step pick).waiting.length + 1 = s.waiting.length) := by
  cases hw : s.waiting with
  | nil => exact absurd hw hne
  | cons w0 ws =>
    have hi : pick.1 % (ws.length + 1) < (w0 :: ws).length := by
      simp only [List.length_cons]; exact Nat.mod_lt _ (Nat.succ_pos _)
    rcases QSys.step_cases s pick w0 ws hw with ⟨_, he⟩ | ⟨d, hd, he⟩ <;> rw [he]
    · unfold QSys.measure QSys.stale
      simp only [hw]
      have hlen : ((w0 :: ws).eraseIdx (pick.1 % (ws.length + 1))).length = ws.length := by
        rw [List.length_eraseIdx, if_pos hi]; simp
      have hc := List.countP_le_length (p := fun w => decide (w < (s.b.attempt ((w0 :: ws).getD (pick.1 % (ws.length + 1)) w0 + (pick.2 : Int))).1.deadline))
        (l := (w0 :: ws).eraseIdx (pick.1 % (ws.length + 1)))
      rw [hlen] at hc ⊢
      simp only [List.length_cons, tri]
      exact ⟨by omega, by first | trivial | simp | omega⟩
    · obtain ⟨hlt, heq⟩ := QBucket.refused_deadline s.b _ d hd
      unfold QSys.measure QSys.stale
      simp only [hw, List.length_set]
      rw [heq]
      have hstale : (fun w => decide (w < s.b.deadline)) ((w0 :: ws).getD (pick.1 % (ws.length + 1)) w0) = true := by
        simp only [decide_eq_true_eq]
        have : (0 : Int) ≤ (pick.2 : Int) := Int.natCast_nonneg _
        omega
      have hfresh : (fun w => decide (w < s.b.deadline)) s.b.deadline = false := by
        simp
      have := countP_set_getD (fun w => decide (w < s.b.deadline)) (w0 :: ws) (pick.1 % (ws.length + 1)) w0
        s.b.deadline hi hstale hfresh
      exact ⟨by omega, by first | trivial | simp | omega⟩

end DC.Recipes
