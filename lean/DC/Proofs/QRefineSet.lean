/-
Helper lemmas for C10_Refine, part 6: `set` on an ordinary key, on a state that
also holds queues.  `set` rewrites or appends the row of its key and then culls
(`_cull`): the queue rows are neither (`qr_frame`).
-/
import DC.Proofs.QRefineKeyed

namespace DC.Cache
open DC.Spec DC.QSpec

/-- with `cull_limit = 0` a `set` keeps every row of the other keys -/
theorem set_keeps_rows (s : Cache) (E : Externals) (now : Int) (k v : PyVal) (ttl : Option Int)
    (read : Bool) (tag : SqlVal) (hg : Good s) (h0 : s.cfg.cullLimit = 0) :
    ∀ r ∈ s.rows, keyMatch (keyOf E s.cfg k).1 (keyOf E s.cfg k).2 r = false →
      r ∈ (s.set E now k v ttl read tag).1.rows := by
  have hst := rf_store s E v read hg.pi
  cases hpl : place E s.cfg.disk s.cfg.minFileSize v read with
  | error e =>
    rw [hpl] at hst
    simp only at hst
    rw [set_eq, hst]
    intro r hr _; exact hr
  | ok p =>
    rw [hpl] at hst
    obtain ⟨s1, c, hst, hrows, hcfg, hP1, -, -, -, -, -⟩ := hst
    have hS : s.set E now k v ttl read tag =
        s1.transact (fresh := c.file) (setBody (keyOf E s.cfg k).1 (keyOf E s.cfg k).2 now
          { c with expT := ttl.map (now + ·), tag := tag }) := by
      rw [set_eq, hst]; rfl
    rw [hS]
    obtain ⟨hR, -, -, -⟩ := rf_transact s1 (setBody (keyOf E s.cfg k).1 (keyOf E s.cfg k).2 now
          { c with expT := ttl.map (now + ·), tag := tag }) c.file hP1.depth
    have hi1 : TableInv (s1.log .begin) := log_inv _ (store_inv hst hg.tinv).1
    have hnn : (keyOf E s.cfg k).1 ≠ .null := put_ne_null_fl E s.cfg.disk k
    intro r hr hkm
    rw [hR]
    by_cases hb : bindable (keyOf E s.cfg k).1 = true ∧
        ({ c with expT := ttl.map (now + ·), tag := tag } : Cols).bindable = true
    · obtain ⟨hok, -, hfacts, -, -⟩ := rf_setBody_ok_gen (s1.log .begin) (keyOf E s.cfg k).1
        (keyOf E s.cfg k).2 now { c with expT := ttl.map (now + ·), tag := tag } hi1 hnn hb.1 hb.2
      rw [hok]
      simp only [if_true]
      have hkeep := rf_setRows_keep hi1 (keyOf E s.cfg k) now
        { c with expT := ttl.map (now + ·), tag := tag } r (by show r ∈ s1.rows; rw [hrows]; exact hr) hkm
      have hcnt := hfacts.count
      rw [show (s1.log .begin).cfg = s.cfg from hcfg, h0] at hcnt
      apply Classical.byContradiction
      intro hnot
      cases hex : expired now r with
      | true =>
        have : r ∈ expGone now (setRows (keyOf E s.cfg k).1 (keyOf E s.cfg k).2 now
            { c with expT := ttl.map (now + ·), tag := tag } (s1.log .begin))
            (setBody (keyOf E s.cfg k).1 (keyOf E s.cfg k).2 now
              { c with expT := ttl.map (now + ·), tag := tag } (s1.log .begin)).s.rows := by
          unfold expGone
          exact List.mem_filter.2 ⟨hkeep, by simp [hex, hnot]⟩
        have hl := List.length_pos_of_mem this
        omega
      | false =>
        have := mem_lostRows.2 ⟨hkeep, hex, hnot⟩
        have hl := List.length_pos_of_mem this
        omega
    · obtain ⟨hok, -, -, -⟩ := rf_setBody_fail (s1.log .begin) (keyOf E s.cfg k).1
        (keyOf E s.cfg k).2 now { c with expT := ttl.map (now + ·), tag := tag } hb
      rw [hok]
      simp only [Bool.false_eq_true, if_false]
      rw [hrows]; exact hr

/-- **the frame of a write to an ordinary key**: the view changes at `K` only, up to the lazy
cull (`hV`); the rows of the other keys come from the state before (`h1`) and, when
`cull_limit = 0`, all stay (`h2`).  Then every queue is what it was. -/
theorem qr_frame {c c' : Cache} {n : Nat} {now : Int} {K : Key} {u : Option Entry}
    (hok : QOk c n) (hg' : Good c') (hK : isQueueKey K = false)
    (hV : rf_Culled now (rf_at K u (rf_view c)) (rf_view c'))
    (h1 : ∀ r ∈ c'.rows, keyMatch K.1 K.2 r = false → r ∈ c.rows)
    (h2 : c.cfg.cullLimit = 0 → ∀ r ∈ c.rows, keyMatch K.1 K.2 r = false → r ∈ c'.rows) :
    ∀ p, c'.queueRows p = c.queueRows p ∧ ∀ r ∈ c.queueRows p, rf_ent c' r = rf_ent c r := by
  have hg := hok.good
  -- a queue row of `c` is a row of `c'` denoting the same entry
  have hkeep : ∀ p, ∀ r ∈ c.queueRows p, r ∈ c'.rows ∧ rf_ent c' r = rf_ent c r := by
    intro p r hr
    rw [queueRows_eq] at hr
    obtain ⟨hrr, hq⟩ := mem_qrows.1 hr
    have hraw := qfilter_raw hq
    have hkm : keyMatch K.1 K.2 r = false := keyMatch_ordinary hK hq
    have hself : keyMatch r.key r.raw r = true := by
      simp [keyMatch, eqv_self (hg.tinv.tbl.nonnull r hrr)]
    have hns : sameKey K (r.key, r.raw) = false := by
      cases hs : sameKey K (r.key, r.raw) with
      | false => rfl
      | true =>
        have := rf_keyMatch_congr hs r
        rw [hkm] at this
        simp only at this
        rw [hself] at this; cases this
    have hvc : rf_view c (r.key, r.raw) = some (rf_ent c r) := by
      unfold rf_view rf_look
      rw [rf_find_of_mem hg.tinv.tbl.uniq hrr hself]; rfl
    have hat : rf_at K u (rf_view c) (r.key, r.raw) = some (rf_ent c r) := by
      unfold rf_at; rw [hns]; exact hvc
    -- the row is still there
    have hmem : r ∈ c'.rows := by
      rcases hok.quiet with h0 | h0
      · exact h2 h0 r hrr hkm
      · rcases hV (r.key, r.raw) with hv | ⟨-, e, he1, he2⟩
        · rw [hat] at hv
          unfold rf_view rf_look at hv
          cases hf : c'.rows.find? (keyMatch r.key r.raw) with
          | none => rw [hf] at hv; cases hv
          | some x =>
            have hx := List.mem_of_find?_eq_some hf
            have hkx : keyMatch r.key r.raw x = true := List.find?_some hf
            have hxK : keyMatch K.1 K.2 x = false := by
              cases hxk : keyMatch K.1 K.2 x with
              | false => rfl
              | true =>
                have hs1 : sameKey (x.key, x.raw) K = true := hxk
                have hs2 : sameKey (x.key, x.raw) (r.key, r.raw) = true := hkx
                rw [rf_sameKey_trans (rf_sameKey_symm hs1) hs2] at hns; cases hns
            have hxc := h1 x hx hxK
            have := keysUnique_eq hg.tinv.tbl.uniq hxc hrr hkx hself
            rw [← this]; exact hx
        · rw [hat] at he1
          cases he1
          have : (rf_ent c r).expired now = expired now r := rfl
          rw [this, expired_of_expT_none (h0 p r (by rw [queueRows_eq]; exact hr))] at he2
          cases he2
    refine ⟨hmem, ?_⟩
    have hvc' : rf_view c' (r.key, r.raw) = some (rf_ent c' r) := by
      unfold rf_view rf_look
      rw [rf_find_of_mem hg'.tinv.tbl.uniq hmem hself]; rfl
    rcases hV (r.key, r.raw) with hv | ⟨hv, -⟩
    · rw [hat, hvc'] at hv
      exact Option.some.inj hv
    · rw [hvc'] at hv; cases hv
  intro p
  refine ⟨?_, fun r hr => (hkeep p r hr).2⟩
  rw [queueRows_eq c']
  apply qrows_eq_of_mem hg'.tinv.tbl.uniq hg'.tinv.tbl.nonnull
  · rw [queueRows_eq]; exact qrows_sorted hg.tinv.tbl.uniq hg.tinv.tbl.nonnull p
  · intro x
    constructor
    · intro hx
      exact ⟨(hkeep p x hx).1, by rw [queueRows_eq] at hx; exact (mem_qrows.1 hx).2⟩
    · rintro ⟨hx, hq⟩
      rw [queueRows_eq]
      exact mem_qrows.2 ⟨h1 x hx (keyMatch_ordinary hK hq), hq⟩

/-- the queues are what they were, the configuration too: relation and invariant carry over -/
theorem qr_frame_finish {c c' : Cache} {n : Nat} {q : QSpec.State} {clock now : Int}
    (hok : QOk c n) (hr : QRefines c q clock) (hg' : Good c') (hcfg : c'.cfg = c.cfg)
    (hF : ∀ p, c'.queueRows p = c.queueRows p ∧ ∀ r ∈ c.queueRows p, rf_ent c' r = rf_ent c r)
    (d' : Dict) (hwf : d'.WF) (hord : ∀ b ∈ d', isQueueKey b.1 = false)
    (hdict : ∀ k, isQueueKey k = false → rf_VRel (rf_view c' k) (d'.get k) now) :
    QRefines c' { q with dict := d' } now ∧ QOk c' n := by
  refine ⟨⟨?_, hwf, hord, fun k hk => (holdsKey_iff _ _ _ _).2 (hdict k hk)⟩, ?_⟩
  · intro p
    show _ = q.queues.get p
    rw [← hr.queues p]
    unfold absQueue
    rw [(hF p).1]
    apply List.map_congr_left
    intro r hr'
    unfold itemOfRow
    rw [entryOfRow_eq, entryOfRow_eq, (hF p).2 r hr']
  · refine ⟨hg', by rw [hcfg]; exact hok.pol, by rw [hcfg]; exact hok.page,
      fun p r hr' => hok.qok p r (by rw [← (hF p).1]; exact hr'),
      fun p r hr' => hok.room p r (by rw [← (hF p).1]; exact hr'), ?_,
      by rw [hcfg]; exact hok.originN, ?_, ?_⟩
    · unfold OriginOk; rw [hcfg]; exact hok.origin
    · intro p r hr'
      rw [(hF p).1] at hr'
      rw [entryOfRow_eq, (hF p).2 r hr']
      exact hok.readable p r hr'
    · rw [hcfg]
      rcases hok.quiet with h0 | h0
      · exact .inl h0
      · exact .inr (fun p r hr' => h0 p r (by rw [← (hF p).1]; exact hr'))

theorem ord_put {m : Dict} (h : ∀ b ∈ m, isQueueKey b.1 = false) {K : Key} (hK : isQueueKey K = false)
    (e : Entry) : ∀ b ∈ m.put K e, isQueueKey b.1 = false := by
  intro b hb
  rcases List.mem_cons.1 hb with rfl | hb
  · exact hK
  · exact ord_del h K b hb

theorem qr_set_step (c : Cache) (q : QSpec.State) (n : Nat) (clock now : Int) (E : Externals) (k v : PyVal)
    (ttl : Option Int) (read : Bool) (tag : SqlVal)
    (hok : QOk c n) (hr : QRefines c q clock) (hn : clock ≤ now)
    (hK : isQueueKey (keyOf E c.cfg k) = false) :
    (c.set E now k v ttl read tag).2 = (Spec.set q.dict E c.cfg now k v ttl read tag).2 ∧
    QRefines (c.set E now k v ttl read tag).1
      { q with dict := (Spec.set q.dict E c.cfg now k v ttl read tag).1 } now ∧
    QOk (c.set E now k v ttl read tag).1 n := by
  have hg := hok.good
  have hg' := set_good c E now k v ttl read tag hg
  have hA := rf_set_view c E now k v ttl read tag hg hok.pol
  have hcfg := rf_set_cfg c E now k v ttl read tag
  unfold Spec.set
  cases hpl : place E c.cfg.disk c.cfg.minFileSize v read with
  | error e =>
    rw [hpl] at hA
    simp only at hA ⊢
    rw [hA]
    exact ⟨rfl, hr.mono hn, hok⟩
  | ok p =>
    rw [hpl] at hA
    simp only at hA ⊢
    split
    · rename_i hb
      rw [if_pos hb] at hA
      refine ⟨hA.1, ?_⟩
      have hF := qr_frame hok hg' hK hA.2 (set_other_rows c E now k v ttl read tag hg.tinv)
        (fun h0 => set_keeps_rows c E now k v ttl read tag hg h0)
      exact qr_frame_finish hok hr hg' hcfg hF _ (rf_wf_put hr.wf _ _) (ord_put hr.ord hK _)
        (rf_assemble_ord (upd := fun _ => some (entryOf p (ttl.map (now + ·)) tag)) hr.vrel hn hK hA.2
          (fun k' => rf_get_put _ _ _ _) (fun _ _ _ => rf_VRel_refl _ _))
    · rename_i hb
      rw [if_neg hb] at hA
      refine ⟨hA.1, ?_⟩
      have hV : rf_Culled now (rf_at (keyOf E c.cfg k) (rf_view c (keyOf E c.cfg k)) (rf_view c))
          (rf_view (c.set E now k v ttl read tag).1) := by
        intro k'
        left
        rw [hA.2 k', rf_at_self (fun k'' h => rf_view_sameKey h c)]
      have hF := qr_frame hok hg' hK hV (set_other_rows c E now k v ttl read tag hg.tinv)
        (fun h0 => set_keeps_rows c E now k v ttl read tag hg h0)
      refine qr_frame_finish hok hr hg' hcfg hF _ hr.wf hr.ord ?_
      intro k' hk'
      rw [hA.2 k']
      exact rf_VRel_mono (hr.vrel k' hk') hn

end DC.Cache
