/-
Helper lemmas for C10_Refine, part 4: one `push` on a quiescent state that
satisfies `QOk` with budget left.
-/
import DC.Proofs.QRefineSteps

namespace DC.Cache
open DC.Spec DC.QSpec

/-- `_cull` without size-based eviction removes the expired page and nothing else -/
theorem qr_cullW_none (t : Cache) (now : Int) (hasc : RowidsAsc t.rows) (hp : t.cfg.policy = .none) :
    (t.cullW now).1.rows = t.rows.filter (fun r => decide (r ∉ t.selExpired now t.cfg.cullLimit)) := by
  obtain ⟨R1, P, hR1, -, h | ⟨hne, -, -⟩⟩ := cullW_spec t now hasc
  · rw [h, hR1]
  · exact absurd hp hne

theorem qr_selExpired_zero (t : Cache) (now : Int) (h : t.cfg.cullLimit = 0) :
    t.selExpired now t.cfg.cullLimit = [] := by
  unfold selExpired; simp [h]

/-- an unexpired row is not on the expired page -/
theorem qr_not_selExpired {t : Cache} {now : Int} {n : Nat} {x : Row} (h : expired now x = false) :
    decide (x ∉ t.selExpired now n) = true := by
  simp only [decide_eq_true_eq]
  intro hc
  have := (selExpired_mem hc).2
  rw [h] at this; cases this

theorem expired_of_expT_none {now : Int} {x : Row} (h : x.expT = none) : expired now x = false := by
  unfold expired; rw [h]

/-- the number `push` picks is the specification's, and it leaves room for `n` more pushes -/
theorem qr_pushNum {c : Cache} {n : Nat} (hok : QOk c (n + 1)) (p : Option Str) (back : Bool) :
    pushNum c p back = some (nextNum c.cfg back (absQueue c p)) ∧
    1 + (n : Int) ≤ nextNum c.cfg back (absQueue c p) ∧
    nextNum c.cfg back (absQueue c p) + (n : Int) ≤ 999999999999998 := by
  have he : (if back then lastRow? (c.queueRows p) else (c.queueRows p).head?) =
      endOf (!back) (c.queueRows p) := by
    unfold endOf lastRow?; cases back <;> rfl
  unfold pushNum nextNum absQueue
  rw [he, endOf_map]
  cases hh : endOf (!back) (c.queueRows p) with
  | none =>
    have := hok.originN
    simp only [Option.map_none]
    refine ⟨by first | rfl | trivial, ?_, ?_⟩ <;> omega
  | some r =>
    have hr := endOf_mem hh
    obtain ⟨m, h1, -, -, -⟩ := hok.qok p r hr
    have hroom := hok.room p r hr m h1
    simp only [Option.map_some, itemOfRow, h1, Option.getD_some]
    cases back with
    | true => simp only [if_true]; refine ⟨by first | rfl | trivial, ?_, ?_⟩ <;> omega
    | false => simp only [Bool.false_eq_true, if_false]; refine ⟨by first | rfl | trivial, ?_, ?_⟩ <;> omega

theorem qr_pushBody_unbindable (now : Int) (p : Option Str) (back : Bool) (c : Cols) (t : Cache)
    {num : Int} (hn : pushNum t p back = some num) (hsel : t.selKey (queueKey p num) true = none)
    (hb : (c.bindable && bindable (queueKey p num)) = false) :
    (pushBody now p back c t).ok = false ∧ (pushBody now p back c t).out = .exc "UnicodeEncodeError" := by
  unfold pushBody
  rw [hn]
  have hsel' : ((t.logSql "selQueueEnd").selKey (queueKey p num) true) = none := hsel
  have : (!c.bindable || !bindable (queueKey p num)) = true := by
    cases h1 : c.bindable <;> cases h2 : bindable (queueKey p num) <;> simp_all
  simp only [hsel', Option.isSome_none, Bool.false_eq_true, if_false, this, if_true]
  exact ⟨trivial, trivial⟩

/-- a stream value (`read=True`) is stored as a binary file, which reads back -/
theorem qr_place_readable (E : Externals) (dk : DiskKind) (mfs : Nat) (v : PyVal) (rd : Bool) (pl : Placement)
    (h : place E dk mfs v rd = .ok pl) (eT : Option Int) (tg : SqlVal) :
    drf_Readable (entryOf pl eT tg) := by
  cases rd with
  | false => exact drf_place_readable E dk mfs v pl h eT tg
  | true =>
    intro E' dk'
    apply drf_fetch_ioerror
    have h' : Disk.place E mfs v true = .ok pl := by
      unfold place at h
      cases dk <;> simpa using h
    unfold Disk.place at h'
    simp only [if_true] at h'
    cases v <;> simp only at h' <;> cases h' <;>
      simp [entryOf, Disk.fetch, MODE_RAW, MODE_BINARY]

theorem QRefines.mono {c : Cache} {q : QSpec.State} {clock now : Int} (h : QRefines c q clock)
    (hn : clock ≤ now) : QRefines c q now :=
  ⟨h.queues, h.wf, h.ord, fun k hk => by
    rw [holdsKey_iff]
    exact rf_VRel_mono ((holdsKey_iff _ _ _ _).1 (h.dict k hk)) hn⟩

/-- **one `push`**.  `n` is the budget left after it.
`hq`: the lazy cull of this write must not be able to remove the item pushed — `cull_limit = 0`
or no expiry time. -/
theorem qr_push_step (c : Cache) (q : QSpec.State) (n : Nat) (clock now : Int) (E : Externals)
    (v : PyVal) (p : Option Str) (back : Bool) (ttl : Option Int) (read : Bool) (tag : SqlVal)
    (hok : QOk c (n + 1)) (hr : QRefines c q clock) (hn : clock ≤ now)
    (hq : c.cfg.cullLimit = 0 ∨ ttl = none) :
    (c.push E now v p back ttl read tag).2 = (QSpec.push q E c.cfg now v p back ttl read tag).2 ∧
    QRefines (c.push E now v p back ttl read tag).1 (QSpec.push q E c.cfg now v p back ttl read tag).1 now ∧
    QOk (c.push E now v p back ttl read tag).1 n ∧ (c.push E now v p back ttl read tag).1.cfg = c.cfg := by
  have hg := hok.good
  have hg' := push_good c E now v p back ttl read tag hg
  have hst := rf_store c E v read hg.pi
  unfold QSpec.push
  cases hpl : place E c.cfg.disk c.cfg.minFileSize v read with
  | error e =>
    rw [hpl] at hst
    simp only at hst ⊢
    rw [push_eq, hst]
    exact ⟨rfl, hr.mono hn, hok.mono, rfl⟩
  | ok pl =>
    rw [hpl] at hst
    obtain ⟨s1, c0, hst, hrows, hcfg, hP1, hfsub, hexp, htag, hval, hent1⟩ := hst
    simp only
    rw [← hr.queues p]
    obtain ⟨hnum, hlo, hhi⟩ := qr_pushNum hok p back
    generalize nextNum c.cfg back (absQueue c p) = num at hnum hlo hhi ⊢
    have hS : c.push E now v p back ttl read tag = s1.transact (fresh := c0.file)
        (pushBody now p back { c0 with expT := ttl.map (now + ·), tag := tag }) := by
      rw [push_eq, hst]
    rw [hS] at hg' ⊢
    obtain ⟨hR, hF, hC, hO⟩ := rf_transact s1
      (pushBody now p back { c0 with expT := ttl.map (now + ·), tag := tag }) c0.file hP1.depth
    have hentS : ∀ r ∈ c.rows, rf_ent s1 r = rf_ent c r :=
      fun r hr' => (rf_ent_mono hfsub hP1.nodup (rf_good_ref hg hr')).symm
    have hi1 : TableInv (s1.log .begin) := log_inv _ (store_inv hst hg.tinv).1
    have hnum1 : pushNum (s1.log .begin) p back = some num := by
      rw [pushNum_congr (s := c) (t := s1.log .begin) hrows hcfg]; exact hnum
    obtain ⟨num', hnum', hfit, -, hord⟩ := pushNum_spec c p back hg.tinv (hok.qok p) hok.origin
    rw [hnum] at hnum'
    cases hnum'
    have h1 : 1 ≤ num := by omega
    have h2 : num ≤ 999999999999998 := by omega
    have hsel := selKey_new_none c p num h1 h2 back hord
    have hsel1 : (s1.log .begin).selKey (queueKey p num) true = none := by
      rw [selKey_congr (s := c) (t := s1.log .begin) hrows]; exact hsel
    rw [rf_entryOf_tag, rf_entryOf_val pl _ none _ .null, ← hval]
    by_cases hb : (bindable tag && bindable c0.val && bindable (queueKey p num)) = true
    · rw [if_pos hb]
      simp only [Bool.and_eq_true] at hb
      have hcb : ({ c0 with expT := ttl.map (now + ·), tag := tag } : Cols).bindable = true := by
        simp only [Cols.bindable, Bool.and_eq_true]; exact hb.1
      have hbody := pushBody_some (now := now) hnum1 hsel1 hcb hb.2
      rw [hbody] at hR hF hC hO
      simp only [if_true] at hR
      -- the table after the INSERT, before the lazy cull
      have hX : TableInv (((s1.log .begin).logSql "selQueueEnd").insRow (queueKey p num) true now
          { c0 with expT := ttl.map (now + ·), tag := tag }) :=
        insRow_inv _ _ _ _ (logSql_inv _ hi1) hsel1 (queueKey_ne_null p num)
      have hXrows : (((s1.log .begin).logSql "selQueueEnd").insRow (queueKey p num) true now
          { c0 with expT := ttl.map (now + ·), tag := tag }).rows =
          c.rows ++ [mkRow c.rows (queueKey p num) now { c0 with expT := ttl.map (now + ·), tag := tag }] := by
        rw [insRow_rows]
        show s1.rows ++ [mkRow s1.rows _ _ _] = _
        rw [hrows]
      have hXcfg : (((s1.log .begin).logSql "selQueueEnd").insRow (queueKey p num) true now
          { c0 with expT := ttl.map (now + ·), tag := tag }).cfg = c.cfg := hcfg
      rw [qr_cullW_none _ now hX.tbl.asc (by rw [hXcfg]; exact hok.pol)] at hR
      rw [cullW_cfg_eq, hXcfg] at hC
      rw [hXrows] at hR
      generalize hnew : mkRow c.rows (queueKey p num) now { c0 with expT := ttl.map (now + ·), tag := tag } = new at hR hXrows
      generalize hgdef : (fun r => decide (r ∉ (((s1.log .begin).logSql "selQueueEnd").insRow (queueKey p num) true now
          { c0 with expT := ttl.map (now + ·), tag := tag }).selExpired now
            (((s1.log .begin).logSql "selQueueEnd").insRow (queueKey p num) true now
          { c0 with expT := ttl.map (now + ·), tag := tag }).cfg.cullLimit)) = g at hR
      generalize hc' : (s1.transact (fresh := c0.file)
        (pushBody now p back { c0 with expT := ttl.map (now + ·), tag := tag })).1 = c' at hR hF hC hO hg' ⊢
      have hnewkey : new.key = queueKey p num := by rw [← hnew]; rfl
      have hnewraw : new.raw = true := by rw [← hnew]; rfl
      have hnewexp : new.expT = ttl.map (now + ·) := by rw [← hnew]; rfl
      have hqnew : qfilter p new = true :=
        qfilter_iff.2 ⟨by rw [hnewkey]; exact kfilter_queueKey p num h1 h2, hnewraw⟩
      have hU : KeysUnique (c.rows ++ [new]) := by rw [← hXrows]; exact hX.tbl.uniq
      have hNN : ∀ x ∈ c.rows ++ [new], x.key ≠ .null := by rw [← hXrows]; exact hX.tbl.nonnull
      -- the cull keeps the new row and every queue row
      have hgexp : ∀ x, g x = false → expired now x = true ∧ c.cfg.cullLimit ≠ 0 := by
        intro x hx
        rw [← hgdef] at hx
        simp only [decide_eq_false_iff_not, Decidable.not_not] at hx
        refine ⟨(selExpired_mem hx).2, ?_⟩
        intro h0
        have hz : ∀ t : Cache, t.selExpired now 0 = [] := by intro t; unfold selExpired; simp
        simp [hXcfg, h0, hz] at hx
      have hgkeep : ∀ x, x.expT = none → g x = true := by
        intro x hx
        cases hgx : g x with
        | true => rfl
        | false =>
          have := (hgexp x hgx).1
          rw [expired_of_expT_none hx] at this; cases this
      have hgnew : g new = true := by
        cases hgx : g new with
        | true => rfl
        | false =>
          obtain ⟨ha, hb'⟩ := hgexp new hgx
          rcases hq with h0 | h0
          · exact absurd h0 hb'
          · rw [expired_of_expT_none (by rw [hnewexp, h0]; rfl)] at ha; cases ha
      have hgq : ∀ p', ∀ x ∈ c.queueRows p', g x = true := by
        intro p' x hx
        cases hgx : g x with
        | true => rfl
        | false =>
          obtain ⟨ha, hb'⟩ := hgexp x hgx
          rcases hok.quiet with h0 | h0
          · exact absurd h0 hb'
          · rw [expired_of_expT_none (h0 p' x hx)] at ha; cases ha
      -- the queues afterwards
      have hQ : ∀ p', c'.queueRows p' =
          if p' = p then (if back then c.queueRows p ++ [new] else new :: c.queueRows p)
          else c.queueRows p' := by
        intro p'
        simp only [queueRows_eq]
        rw [hR, qrows_filter hU hNN]
        by_cases hp : p' = p
        · subst hp
          rw [if_pos rfl]
          cases back with
          | true =>
            simp only [if_true]
            rw [qrows_append_back new hU hNN p' hqnew (by
              intro x hx
              rw [← queueRows_eq] at hx
              have := hord x hx
              simp only [if_true] at this
              show x.key.lt new.key = true
              rw [hnewkey]; exact this)]
            rw [List.filter_eq_self]
            intro x hx
            rcases List.mem_append.1 hx with hx | hx
            · exact hgq p' x (by rw [queueRows_eq]; exact hx)
            · simp only [List.mem_singleton] at hx; subst hx; exact hgnew
          | false =>
            simp only [Bool.false_eq_true, if_false]
            rw [qrows_append_front new hU hNN p' hqnew (by
              intro x hx
              rw [← queueRows_eq] at hx
              have := hord x hx
              simp only [Bool.false_eq_true, if_false] at this
              show new.key.lt x.key = true
              rw [hnewkey]; exact this)]
            rw [List.filter_eq_self]
            intro x hx
            rcases List.mem_cons.1 hx with hx | hx
            · subst hx; exact hgnew
            · exact hgq p' x (by rw [queueRows_eq]; exact hx)
        · rw [if_neg hp, qrows_append_notin _ _ _ (qfilter_other (Ne.symm hp) num hfit new hnewkey),
            List.filter_eq_self]
          intro x hx
          exact hgq p' x (by rw [queueRows_eq]; exact hx)
      -- the entries afterwards
      have hfiles' : ∀ f ∈ c'.files, f ∈ s1.files := by
        intro f hf
        have := hF f hf
        rw [cullW_files] at this
        exact this
      have hrows'sub : ∀ r ∈ c'.rows, r ∈ c.rows ∨ r = new := by
        intro r hr'
        rw [hR] at hr'
        have := (List.mem_filter.1 hr').1
        rcases List.mem_append.1 this with h | h
        · exact .inl h
        · exact .inr (List.mem_singleton.1 h)
      have hent' : ∀ r ∈ c'.rows, rf_ent c' r = rf_ent s1 r :=
        fun r hr' => rf_ent_mono hfiles' hP1.nodup (rf_good_ref hg' hr')
      have hnewmem : new ∈ c'.rows := by
        rw [hR]; exact List.mem_filter.2 ⟨by simp, hgnew⟩
      have hentnew : rf_ent c' new = entryOf pl (ttl.map (now + ·)) tag := by
        rw [hent' new hnewmem, hent1 new (by rw [← hnew]; rfl) (by rw [← hnew]; rfl) (by rw [← hnew]; rfl),
          hnewexp]
        congr 1
        rw [← hnew]; rfl
      have hitemnew : itemOfRow c' new = ⟨num, entryOf pl (ttl.map (now + ·)) tag⟩ := by
        unfold itemOfRow
        rw [entryOfRow_eq, hentnew, hnewkey, queueNum_queueKey p num hfit]
        rfl
      have hitemold : ∀ p', ∀ r ∈ c.queueRows p', itemOfRow c' r = itemOfRow c r := by
        intro p' r hr'
        have hrr : r ∈ c.rows := by rw [queueRows_eq] at hr'; exact (mem_qrows.1 hr').1
        have hrc' : r ∈ c'.rows := by
          rw [hR]; exact List.mem_filter.2 ⟨List.mem_append_left _ hrr, hgq p' r hr'⟩
        unfold itemOfRow
        rw [entryOfRow_eq, entryOfRow_eq, hent' r hrc', hentS r hrr]
      have hAbs : ∀ p', absQueue c' p' =
          if p' = p then (if back then absQueue c p ++ [⟨num, entryOf pl (ttl.map (now + ·)) tag⟩]
            else ⟨num, entryOf pl (ttl.map (now + ·)) tag⟩ :: absQueue c p)
          else absQueue c p' := by
        intro p'
        unfold absQueue
        rw [hQ p']
        by_cases hp : p' = p
        · subst hp
          simp only [if_true]
          cases back with
          | true =>
            simp only [if_true, List.map_append, List.map_cons, List.map_nil, hitemnew]
            congr 1
            exact List.map_congr_left (hitemold p')
          | false =>
            simp only [Bool.false_eq_true, if_false, List.map_cons, hitemnew]
            congr 1
            exact List.map_congr_left (hitemold p')
        · simp only [if_neg hp]
          exact List.map_congr_left (hitemold p')
      refine ⟨hO, ⟨?_, hr.wf, hr.ord, ?_⟩, ?_, hC⟩
      · -- the queues correspond
        intro p'
        show _ = (q.queues.put p _).get p'
        rw [get_put, hAbs p', ← hr.queues p']
        by_cases hp : p' = p
        · subst hp; simp
        · rw [if_neg hp, if_neg (Ne.symm hp)]
      · -- the dictionary part: only expired rows of ordinary keys may be gone
        intro k hk
        rw [holdsKey_iff]
        have h0 := rf_VRel_mono ((holdsKey_iff _ _ _ _).1 (hr.dict k hk)) hn
        have hcul := rf_culled (c' := c') (b := s1) (X := c.rows ++ [new]) (now := now) hg' hU
          (fun r hr' => by rw [hR] at hr'; exact (List.mem_filter.1 hr').1)
          (fun r hr' hnot => by
            cases hgx : g r with
            | true => exact absurd (by rw [hR]; exact List.mem_filter.2 ⟨hr', hgx⟩) hnot
            | false => exact (hgexp r hgx).1)
          hfiles' hP1.nodup
        have hlook : rf_look (c.rows ++ [new]) s1 k = rf_view c k := by
          rw [rf_look_append, keyMatch_ordinary hk hqnew]
          simp only [Bool.false_eq_true, if_false, Option.or_none]
          exact rf_look_congr hentS k
        have := rf_VRel_culled hcul (k := k) (d := q.dict.get k) (by rw [hlook]; exact h0)
        exact this
      · -- the invariant, with one unit of the budget used
        have hmemq : ∀ p', ∀ r ∈ c'.queueRows p', r ∈ c.queueRows p' ∨ (p' = p ∧ r = new) := by
          intro p' r hr'
          rw [hQ p'] at hr'
          by_cases hp : p' = p
          · subst hp
            simp only [if_true] at hr'
            cases back with
            | true =>
              simp only [if_true] at hr'
              rcases List.mem_append.1 hr' with h | h
              · exact .inl h
              · exact .inr ⟨rfl, List.mem_singleton.1 h⟩
            | false =>
              simp only [Bool.false_eq_true, if_false] at hr'
              rcases List.mem_cons.1 hr' with h | h
              · exact .inr ⟨rfl, h⟩
              · exact .inl h
          · rw [if_neg hp] at hr'; exact .inl hr'
        refine ⟨hg', by rw [hC]; exact hok.pol, by rw [hC]; exact hok.page, ?_, ?_, ?_,
          ?_, ?_, ?_⟩
        · intro p' r hr'
          rcases hmemq p' r hr' with h | ⟨hp, rfl⟩
          · exact hok.qok p' r h
          · subst hp
            exact ⟨num, by rw [hnewkey]; exact queueNum_queueKey p' num hfit, hnewkey.symm, h1, h2⟩
        · intro p' r hr' k hk
          rcases hmemq p' r hr' with h | ⟨hp, rfl⟩
          · have := hok.room p' r h k hk
            constructor <;> omega
          · subst hp
            rw [hnewkey, queueNum_queueKey p' num hfit] at hk
            cases hk
            exact ⟨hlo, hhi⟩
        · unfold OriginOk; rw [hC]; exact hok.origin
        · rw [hC]
          have := hok.originN
          constructor <;> omega
        · intro p' r hr'
          rcases hmemq p' r hr' with h | ⟨hp, rfl⟩
          · have hi := hitemold p' r h
            have : entryOfRow c' r = entryOfRow c r := congrArg Item.ent hi
            rw [this]
            exact hok.readable p' r h
          · rw [entryOfRow_eq, hentnew]
            exact qr_place_readable E _ _ v read pl hpl _ _
        · rw [hC]
          rcases hok.quiet with h0 | h0
          · exact .inl h0
          · rcases hq with h0' | h0'
            · exact .inl h0'
            · right
              intro p' r hr'
              rcases hmemq p' r hr' with h | ⟨-, rfl⟩
              · exact h0 p' r h
              · rw [hnewexp, h0']; rfl
    · rw [if_neg hb]
      have hb' : (({ c0 with expT := ttl.map (now + ·), tag := tag } : Cols).bindable &&
          bindable (queueKey p num)) = false := by
        simp only [Cols.bindable]
        exact Bool.eq_false_iff.2 hb
      obtain ⟨hok', hout⟩ := qr_pushBody_unbindable now p back
        { c0 with expT := ttl.map (now + ·), tag := tag } (s1.log .begin) hnum1 hsel1 hb'
      rw [hok'] at hR
      simp only [Bool.false_eq_true, if_false] at hR
      refine ⟨hO.trans hout, ?_⟩
      -- nothing changed in the table; the value file (if one was written) is gone again
      have hcore_rows : (s1.transact (fresh := c0.file)
          (pushBody now p back { c0 with expT := ttl.map (now + ·), tag := tag })).1.rows = c.rows :=
        hR.trans hrows
      have hfb : (pushBody now p back { c0 with expT := ttl.map (now + ·), tag := tag }
          (s1.log .begin)).s.files = s1.files := by
        unfold pushBody
        rw [hnum1]
        have hsel' : (((s1.log .begin).logSql "selQueueEnd").selKey (queueKey p num) true) = none := hsel1
        have : (!({ c0 with expT := ttl.map (now + ·), tag := tag } : Cols).bindable ||
            !bindable (queueKey p num)) = true := by
          cases h1' : ({ c0 with expT := ttl.map (now + ·), tag := tag } : Cols).bindable <;>
            cases h2' : bindable (queueKey p num) <;> simp_all
        simp only [hsel', Option.isSome_none, Bool.false_eq_true, if_false, this, if_true]
        rfl
      have hcfgb : (pushBody now p back { c0 with expT := ttl.map (now + ·), tag := tag }
          (s1.log .begin)).s.cfg = c.cfg := by
        unfold pushBody
        rw [hnum1]
        have hsel' : (((s1.log .begin).logSql "selQueueEnd").selKey (queueKey p num) true) = none := hsel1
        have : (!({ c0 with expT := ttl.map (now + ·), tag := tag } : Cols).bindable ||
            !bindable (queueKey p num)) = true := by
          cases h1' : ({ c0 with expT := ttl.map (now + ·), tag := tag } : Cols).bindable <;>
            cases h2' : bindable (queueKey p num) <;> simp_all
        simp only [hsel', Option.isSome_none, Bool.false_eq_true, if_false, this, if_true]
        exact hcfg
      generalize (s1.transact (fresh := c0.file)
        (pushBody now p back { c0 with expT := ttl.map (now + ·), tag := tag })).1 = c' at hF hC hg' hcore_rows ⊢
      have hsame : ∀ r ∈ c.rows, rf_ent c' r = rf_ent c r := by
        intro r hr'
        have hrc' : r ∈ c'.rows := by rw [hcore_rows]; exact hr'
        rw [rf_ent_mono (a := c') (b := s1) (fun f hf => by have := hF f hf; rw [hfb] at this; exact this)
          hP1.nodup (rf_good_ref hg' hrc'), hentS r hr']
      have hsh : Shrunk c c' (fun _ => true) := by
        refine ⟨hg', by rw [filter_true']; exact hcore_rows, hC.trans hcfgb, ?_⟩
        -- files: not needed as a subset here; use the entries directly
        intro f hf
        have h1' := hF f hf
        rw [hfb] at h1'
        -- a file of `c'` is referenced by a row of `c'`, i.e. of `c`, whose file is in `c`
        obtain ⟨r, hr', hrf⟩ := hg'.noOrphan f hf
        rw [hcore_rows] at hr'
        obtain ⟨ct, hct, -⟩ := hg.finv.ref r hr' f.1 hrf
        have hm := hfsub _ (mem_of_fileGet hct)
        have e1 := fileGet_of_mem (s := s1) hP1.nodup hm
        have e2 := fileGet_of_mem (s := s1) hP1.nodup (show (f.1, f.2) ∈ s1.files from h1')
        rw [e1] at e2
        cases e2
        exact mem_of_fileGet hct
      exact ⟨qrefines_shrunk_id hg hr hn hsh (fun _ _ => rfl), hok.mono.shrunk hsh, hsh.cfg⟩

end DC.Cache
