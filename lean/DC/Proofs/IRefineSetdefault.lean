/-
C12_Refine, model side: `Index.setdefault` — a lock-free look-up; on a miss one
transaction block (look-up, `add`, look-up) that is committed when the second
look-up returns something and rolled back otherwise.
-/
import DC.Proofs.IRefineBlock

namespace DC.Cache
open DC.Spec

/-! ### look-ups at any depth -/

/-- a transaction whose body succeeds, hands nothing to cleanup and keeps `core` -/
theorem irf_transact_same (s : Cache) (body : Cache → Body) (o : Out)
    (hb : ∀ t, core t = core s →
      (body t).ok = true ∧ (body t).cleanup = [] ∧ core (body t).s = core s ∧ (body t).out = o) :
    core (s.transact body).1 = core s ∧ (s.transact body).2 = o := by
  unfold transact
  by_cases hd : s.depth > 0
  · obtain ⟨h1, h2, h3, h4⟩ := hb s rfl
    simp only [hd, if_true, h1, h2, List.append_nil]
    exact ⟨h3, h4⟩
  · obtain ⟨h1, h2, h3, h4⟩ := hb (s.log .begin) rfl
    simp only [hd, if_false, h1, if_true, h2]
    exact ⟨h3, h4⟩

/-- what a look-up returns, as a function of the table and the files -/
def irf_getOut (s : Cache) (E : Externals) (now : Int) (k : PyVal) : Out :=
  match s.selLive (keyOf E s.cfg k).1 (keyOf E s.cfg k).2 now with
  | none => .default
  | some r =>
    match (s.fetchRow E r false).2 with
    | .ioerror => .default
    | f => fetchedOut f

theorem irf_getOut_congr {a b : Cache} (E : Externals) (now : Int) (k : PyVal) (hr : a.rows = b.rows)
    (hc : a.cfg = b.cfg) (hf : ∀ r ∈ b.rows, (a.fetchRow E r false).2 = (b.fetchRow E r false).2) :
    irf_getOut a E now k = irf_getOut b E now k := by
  unfold irf_getOut
  rw [hc, selLive_congr hr]
  cases hs : b.selLive (keyOf E b.cfg k).1 (keyOf E b.cfg k).2 now with
  | none => rfl
  | some r => simp only; rw [hf r (selLive_mem hs)]

theorem irf_get_any (s : Cache) (E : Externals) (now : Int) (k : PyVal) (hp : s.cfg.policy = .none) :
    core (s.get E now k false false false).1 = core s ∧
    (s.get E now k false false false).2 = irf_getOut s E now k := by
  unfold get irf_getOut keyOf
  rcases DC.put E s.cfg.disk k with ⟨dbk, raw⟩
  simp only
  split
  · cases hsel : s.selLive dbk raw now with
    | none => exact ⟨rfl, rfl⟩
    | some r =>
      simp only
      have hf : ((s.logSql "selLive").fetchRow E r false).2 = (s.fetchRow E r false).2 :=
        fetchRow_snd_congr _ _ E r false rfl rfl
      have hc : core ((s.logSql "selLive").fetchRow E r false).1 = core s := by
        rw [core_fetchRow]; rfl
      rw [← hf]
      cases hfr : (s.logSql "selLive").fetchRow E r false with
      | mk t f =>
        rw [hfr] at hc
        cases f <;> exact ⟨hc, rfl⟩
  · apply irf_transact_same
    intro t ht
    have hsl : t.selLive dbk raw now = s.selLive dbk raw now := selLive_congr (congrArg Core.rows ht) _ _ _
    have hcf : t.cfg = s.cfg := congrArg Core.cfg ht
    simp only [hsl]
    cases hsel : s.selLive dbk raw now with
    | none =>
      simp only
      refine ⟨by first | rfl | trivial, by first | rfl | trivial, ?_, by first | rfl | trivial⟩
      split <;> first | exact ht | (core_simp; exact ht)
    | some r =>
      simp only
      have hf : ((t.logSql "selLive").fetchRow E r false).2 = (s.fetchRow E r false).2 :=
        fetchRow_snd_congr _ _ E r false hcf (congrArg Core.files ht)
      have hc : core ((t.logSql "selLive").fetchRow E r false).1 = core s := by
        rw [core_fetchRow]; exact ht
      rw [← hf]
      cases hfr : (t.logSql "selLive").fetchRow E r false with
      | mk t2 f =>
        rw [hfr] at hc
        simp only at hc ⊢
        have hpu : ∀ u : Cache, core u = core s → policyUpdates u.cfg.policy = false := by
          intro u hu
          have : u.cfg = s.cfg := congrArg Core.cfg hu
          rw [this, hp]; rfl
        cases f with
        | ioerror =>
          simp only
          refine ⟨by first | rfl | trivial, by first | rfl | trivial, ?_, by first | rfl | trivial⟩
          split <;> first | exact hc | (core_simp; exact hc)
        | val v =>
          simp only
          refine ⟨by first | rfl | trivial, by first | rfl | trivial, ?_, by first | rfl | trivial⟩
          split <;> split
          all_goals first
            | exact hc
            | (core_simp; exact hc)
            | (rename_i hx; rw [hpu _ (by first | exact hc | (core_simp; exact hc))] at hx; exact absurd hx (by simp))
        | handle b =>
          simp only
          refine ⟨by first | rfl | trivial, by first | rfl | trivial, ?_, by first | rfl | trivial⟩
          split <;> split
          all_goals first
            | exact hc
            | (core_simp; exact hc)
            | (rename_i hx; rw [hpu _ (by first | exact hc | (core_simp; exact hc))] at hx; exact absurd hx (by simp))

/-! ### `Disk.store` and `add`, explicitly -/

/-- the columns `Disk.store` produces for a placement, the value file (if any) named `n` -/
def irf_cols (p : Placement) (n : Nat) : Cols :=
  match p with
  | .inline mode sv => { expT := none, tag := .null, size := 0, mode := mode, file := none, val := sv }
  | .file mode c => { expT := none, tag := .null, size := c.size, mode := mode, file := some n, val := .null }

/-- the state after `Disk.store` -/
def irf_stored (s : Cache) (p : Placement) : Cache :=
  match p with
  | .inline _ _ => s
  | .file _ c => (s.fwrite c).1

theorem irf_store_eq (s : Cache) (E : Externals) (v : PyVal) :
    s.store E v false =
      match place E s.cfg.disk s.cfg.minFileSize v false with
      | .error e => .error e
      | .ok p => .ok (irf_stored s p, irf_cols p s.nfile) := by
  unfold store
  cases place E s.cfg.disk s.cfg.minFileSize v false with
  | error e => rfl
  | ok p => cases p <;> rfl

theorem irf_cols_id (p : Placement) (n : Nat) (now : Int) :
    ({ irf_cols p n with expT := (none : Option Int).map (now + ·), tag := .null } : Cols) = irf_cols p n := by
  cases p <;> rfl

theorem irf_cols_val (p : Placement) (n : Nat) : (irf_cols p n).val = (entryOf p none .null).val := by
  cases p <;> rfl

theorem irf_cols_bindable (p : Placement) (n : Nat) :
    (irf_cols p n).bindable = bindable (entryOf p none .null).val := by
  cases p <;> rfl

theorem irf_cullW_snd (t : Cache) (now : Int) (hp : t.cfg.policy = .none) (hne : NoExp t.rows) :
    (t.cullW now).2 = [] := by
  by_cases h0 : t.cfg.cullLimit = 0
  · unfold cullW; simp [h0]
  · have hE : t.selExpired now t.cfg.cullLimit = [] := by
      unfold selExpired
      have : t.rows.filter (expired now) = [] :=
        List.filter_eq_nil_iff.2 (fun r hr => by simp [expired_of_noexp (hne r hr) now])
      rw [this]; simp [isort]
    rw [cullW_eq t now h0, hE]
    simp [cullTail, hp]

/-- the transaction body of `add` on a table without expiry and without size limit: it inserts a
row for an unbound key (when key and value cells can be bound), and otherwise changes nothing -/
theorem irf_addBody_cases (t : Cache) (dbk : SqlVal) (raw : Bool) (now : Int) (c : Cols)
    (hp : t.cfg.policy = .none) (hne : NoExp t.rows) (hce : c.expT = none) :
    if (bindable dbk && c.bindable && (t.selKey dbk raw).isNone) = true then
      (rf_addBody dbk raw now c t).ok = true ∧ (rf_addBody dbk raw now c t).cleanup = [] ∧
      core (rf_addBody dbk raw now c t).s = { core t with rows := t.rows ++ [newRow t dbk raw now c] }
    else core (rf_addBody dbk raw now c t).s = core t := by
  unfold rf_addBody
  cases hb : bindable dbk with
  | false => simp only [Bool.false_and, Bool.false_eq_true, if_false, Bool.not_false, if_true]; rfl
  | true =>
    simp only [Bool.true_and, Bool.not_true, Bool.false_eq_true, if_false]
    cases hs : t.selKey dbk raw with
    | some r =>
      have hl : live now r = true := live_of_noexp (hne r (selKey_mem hs)) now
      simp only [Option.isNone_some, Bool.and_false, Bool.false_eq_true, if_false, hl, if_true]
      rfl
    | none =>
      simp only [Option.isNone_none, Bool.and_true]
      cases hcb : c.bindable with
      | false => simp only [Bool.false_eq_true, if_false, Bool.not_false, if_true]; rfl
      | true =>
        simp only [if_true, Bool.not_true, Bool.false_eq_true, if_false]
        have hneX : NoExp ((t.logSql "selKey").insRow dbk raw now c).rows :=
          noExp_insRow (t := t.logSql "selKey") hne dbk raw now c hce
        have hpX : ((t.logSql "selKey").insRow dbk raw now c).cfg.policy = .none := hp
        refine ⟨trivial, irf_cullW_snd _ now hpX hneX, ?_⟩
        rw [(cullW_core _ now).1, cullW_noexp _ now hpX hneX]
        rfl

/-- the file written for a transaction inside a block is registered in `created` -/
def irf_reg (s : Cache) (fresh : Option Nat) : Cache :=
  match fresh with
  | some f => { s with created := s.created ++ [f] }
  | none => s

/-- inside a block a transaction is its body -/
theorem irf_transact_pos (s : Cache) (body : Cache → Body) (fresh : Option Nat) (hd : 0 < s.depth) :
    s.transact body fresh =
      if (body (irf_reg s fresh)).ok then
        ({ (body (irf_reg s fresh)).s with
            pending := (body (irf_reg s fresh)).s.pending ++ (body (irf_reg s fresh)).cleanup },
          (body (irf_reg s fresh)).out)
      else ((body (irf_reg s fresh)).s, (body (irf_reg s fresh)).out) := by
  unfold transact
  rw [if_pos hd]
  rfl

/-- the state `add` hands to its transaction body inside a block: the value stored, its file
registered -/
def irf_staged (b : Cache) (p : Placement) : Cache :=
  irf_reg (irf_stored b p) (irf_cols p b.nfile).file

theorem irf_staged_keep (b : Cache) (p : Placement) :
    (irf_staged b p).rows = b.rows ∧ (irf_staged b p).cfg = b.cfg ∧ (irf_staged b p).depth = b.depth := by
  cases p <;> exact ⟨rfl, rfl, rfl⟩

/-- `add` inside a block, on a table without expiry and without size limit -/
theorem irf_add_pos (b : Cache) (E : Externals) (now : Int) (k v : PyVal) (hd : 0 < b.depth)
    (hp : b.cfg.policy = .none) (hne : NoExp b.rows) :
    match place E b.cfg.disk b.cfg.minFileSize v false with
    | .error _ => (b.add E now k v none false .null).1 = b
    | .ok p =>
      if (bindable (keyOf E b.cfg k).1 && bindable (entryOf p none .null).val &&
          (b.selKey (keyOf E b.cfg k).1 (keyOf E b.cfg k).2).isNone) = true then
        core (b.add E now k v none false .null).1 =
          { core (irf_staged b p) with
            rows := b.rows ++ [newRow b (keyOf E b.cfg k).1 (keyOf E b.cfg k).2 now (irf_cols p b.nfile)] }
      else
        ∃ pe, core (b.add E now k v none false .null).1 = { core (irf_staged b p) with pending := pe } := by
  rw [rf_add_eq, irf_store_eq]
  cases hpl : place E b.cfg.disk b.cfg.minFileSize v false with
  | error e => rfl
  | ok p =>
    simp only
    have hds : 0 < (irf_stored b p).depth := by cases p <;> exact hd
    rw [irf_transact_pos _ _ _ hds, irf_cols_id]
    obtain ⟨hr, hc, -⟩ := irf_staged_keep b p
    have hB := irf_addBody_cases (irf_staged b p) (keyOf E b.cfg k).1 (keyOf E b.cfg k).2 now
      (irf_cols p b.nfile) (by rw [hc]; exact hp) (by rw [hr]; exact hne) (by cases p <;> rfl)
    rw [irf_cols_bindable, selKey_congr hr] at hB
    have hnr : newRow (irf_staged b p) (keyOf E b.cfg k).1 (keyOf E b.cfg k).2 now (irf_cols p b.nfile) =
        newRow b (keyOf E b.cfg k).1 (keyOf E b.cfg k).2 now (irf_cols p b.nfile) := by
      unfold newRow; rw [hr]
    rw [hr, hnr] at hB
    have hst : (irf_stored b p).irf_reg (irf_cols p b.nfile).file = irf_staged b p := rfl
    rw [hst]
    generalize rf_addBody (keyOf E b.cfg k).1 (keyOf E b.cfg k).2 now (irf_cols p b.nfile) (irf_staged b p) = B at hB ⊢
    split
    · rename_i hcond
      rw [if_pos hcond] at hB
      obtain ⟨h1, h2, h3⟩ := hB
      rw [if_pos h1]
      simp only [h2, List.append_nil]
      exact h3
    · rename_i hcond
      rw [if_neg hcond] at hB
      by_cases hok : B.ok = true
      · rw [if_pos hok]
        refine ⟨B.s.pending ++ B.cleanup, ?_⟩
        simp only [core, Core.mk.injEq] at hB ⊢
        obtain ⟨h1, h2, h3, h4, h5, -, h7, h8, h9⟩ := hB
        exact ⟨h1, h2, h3, h4, h5, trivial, h7, h8, h9⟩
      · rw [if_neg hok]
        refine ⟨(irf_staged b p).pending, ?_⟩
        exact hB

/-- the result of `add` on a table without expiry: UnicodeEncodeError for a key or value cell that
cannot be bound, `False` for a bound key, `True` otherwise -/
def irf_addOut (dbk : SqlVal) (cb : Bool) (present : Bool) : Out :=
  if !bindable dbk then .exc "UnicodeEncodeError"
  else if present then .bool false
  else if cb then .bool true
  else .exc "UnicodeEncodeError"

theorem irf_addBody_out (t : Cache) (dbk : SqlVal) (raw : Bool) (now : Int) (c : Cols)
    (hne : NoExp t.rows) :
    (rf_addBody dbk raw now c t).out = irf_addOut dbk c.bindable (t.selKey dbk raw).isSome := by
  unfold rf_addBody irf_addOut
  cases hb : bindable dbk with
  | false => rfl
  | true =>
    simp only [Bool.not_true, Bool.false_eq_true, if_false]
    cases hs : t.selKey dbk raw with
    | some r =>
      have hl : live now r = true := live_of_noexp (hne r (selKey_mem hs)) now
      simp only [hl, if_true, Option.isSome_some]
    | none =>
      simp only [Option.isSome_none, Bool.false_eq_true, if_false]
      cases hcb : c.bindable <;> rfl

/-- the result of `add` inside a block -/
theorem irf_add_pos_out (b : Cache) (E : Externals) (now : Int) (k v : PyVal) (hd : 0 < b.depth)
    (hne : NoExp b.rows) :
    (b.add E now k v none false .null).2 =
      match place E b.cfg.disk b.cfg.minFileSize v false with
      | .error _ => .exc "UnicodeEncodeError"
      | .ok p => irf_addOut (keyOf E b.cfg k).1 (bindable (entryOf p none .null).val)
          (b.selKey (keyOf E b.cfg k).1 (keyOf E b.cfg k).2).isSome := by
  rw [rf_add_eq, irf_store_eq]
  cases hpl : place E b.cfg.disk b.cfg.minFileSize v false with
  | error e => rfl
  | ok p =>
    simp only
    have hds : 0 < (irf_stored b p).depth := by cases p <;> exact hd
    rw [irf_transact_pos _ _ _ hds, irf_cols_id]
    obtain ⟨hr, -, -⟩ := irf_staged_keep b p
    have hB := irf_addBody_out (irf_staged b p) (keyOf E b.cfg k).1 (keyOf E b.cfg k).2 now
      (irf_cols p b.nfile) (by rw [hr]; exact hne)
    rw [irf_cols_bindable, selKey_congr hr] at hB
    have hst : (irf_stored b p).irf_reg (irf_cols p b.nfile).file = irf_staged b p := rfl
    rw [hst, ← hB]
    split <;> rfl

/-! ### value files appended with fresh names do not disturb the rows that were there -/

theorem irf_fetch_append (g b : Cache) (E : Externals) (r : Row) (hc : b.cfg = g.cfg)
    (ex : List (Nat × Content)) (hf : b.files = g.files ++ ex)
    (href : ∀ f, r.file = some f → ∃ ct, g.fileGet f = some ct) :
    (b.fetchRow E r false).2 = (g.fetchRow E r false).2 := by
  unfold fetchRow
  cases hfl : r.file with
  | none => simp only [hc]
  | some f =>
    obtain ⟨ct, hct⟩ := href f hfl
    have hfg : b.fileGet f = g.fileGet f := by
      unfold fileGet at hct ⊢
      rw [hf, List.find?_append]
      cases hfind : g.files.find? (fun x => x.1 == f) with
      | none => rw [hfind] at hct; cases hct
      | some q => rfl
    simp only
    split <;> simp_all [fileGet, log]

theorem irf_abs_rows_files {a b : Cache} (hr : a.rows = b.rows) (hf : a.files = b.files) :
    irf_abs a = irf_abs b := by
  unfold irf_abs
  rw [hr]
  apply List.map_congr_left
  intro r _
  unfold rf_ent fileGet
  rw [hf]

/-! ### inside the block of `setdefault` -/

/-- the part of a state inside the block opened on `g` that the exits look at: depth, snapshot,
and the value files — those of `g`, plus at most one written since, with a fresh name and
registered in `created` -/
structure irf_InBlock (g : Cache) (K : Core) : Prop where
  depth : K.depth = 1
  snap : K.snap = some g.takeSnap
  cfg : K.cfg = g.cfg
  stat : K.statistics = g.statistics
  nfile : g.nfile ≤ K.nfile
  files : (K.files = g.files ∧ K.created = []) ∨
    (∃ ct, K.files = g.files ++ [(g.nfile, ct)] ∧ K.created = [g.nfile])

theorem irf_inBlock_tbegin (g : Cache) (hg : Good g) : irf_InBlock g (core g.tbegin) := by
  rw [irf_tbegin_core g hg]
  exact ⟨rfl, rfl, rfl, rfl, Nat.le_refl _, .inl ⟨rfl, hg.created⟩⟩

/-- leaving the block by the exception: the table is restored, the file written in the block (if
any) removed; only its name stays used up -/
theorem irf_exit_traise (g c : Cache) (hI : irf_Inv g) (hb : irf_InBlock g (core c)) (hti : TableInv c) :
    irf_abs (c.traise 1) = irf_abs g ∧ (c.traise 1).cfg = g.cfg ∧ irf_Inv (c.traise 1) := by
  have hg := hI.good
  have hcore : core (c.traise 1) = { core g with nfile := c.nfile } := by
    rw [irf_traise_core c g.takeSnap hb.depth hb.snap]
    have hfiles : c.files.filter (fun q => !(c.created.map some).contains (some q.1)) = g.files := by
      rcases hb.files with ⟨h1, h2⟩ | ⟨ct, h1, h2⟩
      · have h1' : c.files = g.files := h1
        have h2' : c.created = [] := h2
        rw [h1', h2', List.filter_eq_self]; intros; rfl
      · have h1' : c.files = g.files ++ [(g.nfile, ct)] := h1
        have h2' : c.created = [g.nfile] := h2
        rw [h1', h2', List.filter_append]
        have ha : g.files.filter (fun q => !([g.nfile].map some).contains (some q.1)) = g.files := by
          rw [List.filter_eq_self]
          intro q hq
          have := hg.finv.fresh q hq
          have hne : q.1 ≠ g.nfile := by omega
          simp [hne]
        rw [ha]
        simp
    simp only [core, Core.mk.injEq, hfiles]
    and_intros <;>
      first | rfl | trivial | exact hg.depth.symm | exact hg.snap.symm | exact hg.pending.symm | exact hg.created.symm | exact hb.cfg | exact hb.stat
  have hr : (c.traise 1).rows = g.rows := congrArg Core.rows hcore
  have hf : (c.traise 1).files = g.files := congrArg Core.files hcore
  have hcfg : (c.traise 1).cfg = g.cfg := congrArg Core.cfg hcore
  refine ⟨irf_abs_rows_files hr hf, hcfg,
    ⟨irf_good_nfile hg c.nfile hb.nfile hcore (traise_inv _ _ hti), by rw [hcfg]; exact hI.pol, ?_⟩⟩
  rw [hr]; exact hI.noexp

/-- the quiescent state the committed block is compared with: the value stored, the row inserted -/
theorem irf_insert_state (G : Cache) (E : Externals) (now : Int) (k v : PyVal) (p : Placement)
    (hI : irf_Inv G) (hpl : place E G.cfg.disk G.cfg.minFileSize v false = .ok p)
    (habs : G.selKey (keyOf E G.cfg k).1 (keyOf E G.cfg k).2 = none) :
    irf_Inv ((irf_stored G p).insRow (keyOf E G.cfg k).1 (keyOf E G.cfg k).2 now (irf_cols p G.nfile)) ∧
    irf_abs ((irf_stored G p).insRow (keyOf E G.cfg k).1 (keyOf E G.cfg k).2 now (irf_cols p G.nfile)) =
      irf_abs G ++ [(keyOf E G.cfg k, entryOf p none .null)] := by
  have hst := rf_store G E v false hI.good.pi
  rw [hpl] at hst
  obtain ⟨s1, c, hst, hrows, hcfg, hP1, hfsub, hexp, htag, -, hent1⟩ := hst
  have he := irf_store_eq G E v
  rw [hpl, hst] at he
  simp only [Except.ok.injEq, Prod.mk.injEq] at he
  obtain ⟨rfl, rfl⟩ := he
  obtain ⟨-, hfile⟩ := store_PI hst hI.good.pi
  have hti : TableInv ((irf_stored G p).insRow (keyOf E G.cfg k).1 (keyOf E G.cfg k).2 now (irf_cols p G.nfile)) :=
    insRow_inv _ _ _ _ (store_inv hst hI.good.tinv).1 ((selKey_congr hrows _ _).trans habs)
      (put_ne_null_fl E G.cfg.disk k)
  have hPI : PI (core ((irf_stored G p).insRow (keyOf E G.cfg k).1 (keyOf E G.cfg k).2 now (irf_cols p G.nfile))) [] := by
    refine PI_insRow (cl := [(irf_cols p G.nfile).file]) hP1 _ _ _ _ ?_ ?_
    · intro g hg; exact ⟨List.mem_singleton.2 hg.symm, hfile g hg⟩
    · intro f; simp; grind
  refine ⟨⟨good_of_pi hti hPI, ?_, ?_⟩, ?_⟩
  · show (irf_stored G p).cfg.policy = .none
    rw [hcfg]; exact hI.pol
  · exact noExp_insRow (t := irf_stored G p) (by rw [hrows]; exact hI.noexp) _ _ _ _ hexp
  · unfold irf_abs
    show List.map _ ((irf_stored G p).rows ++ [_]) = _
    rw [List.map_append, hrows]
    congr 1
    · apply List.map_congr_left
      intro r hr
      have := (rf_ent_mono hfsub hP1.nodup (rf_good_ref hI.good hr)).symm
      rw [← this]
      rfl
    · simp only [List.map_cons, List.map_nil]
      have := hent1 (newRow (irf_stored G p) (keyOf E G.cfg k).1 (keyOf E G.cfg k).2 now (irf_cols p G.nfile))
        rfl rfl rfl
      have h2 : (newRow (irf_stored G p) (keyOf E G.cfg k).1 (keyOf E G.cfg k).2 now (irf_cols p G.nfile)).expT = none := hexp
      have h3 : (newRow (irf_stored G p) (keyOf E G.cfg k).1 (keyOf E G.cfg k).2 now (irf_cols p G.nfile)).tag = .null := htag
      rw [h2, h3] at this
      rw [← this]
      rfl

/-! ### `setdefault` with its case distinctions as `if`s -/

def irf_isDefault : Out → Bool
  | .default => true
  | _ => false

def irf_isExc : Out → Bool
  | .exc _ => true
  | _ => false

/-- the dictionary after `OSpec.add`, in terms of `OSpec.setitem` -/
theorem irf_spec_add_fst (m : ODict) (E : Externals) (cfg : Cfg) (k v : PyVal) :
    (OSpec.add m E cfg k v).1 =
      if m.has (keyOf E cfg k) then m else (OSpec.setitem m E cfg k v).1 := by
  unfold OSpec.add OSpec.setitem
  cases place E cfg.disk cfg.minFileSize v false with
  | error e => simp only; split <;> rfl
  | ok p =>
    simp only
    cases bindable (keyOf E cfg k).1 <;> cases m.has (keyOf E cfg k) <;>
      cases bindable (entryOf p none .null).val <;> rfl

theorem irf_spec_setdefault_eq (m : ODict) (E : Externals) (cfg : Cfg) (k v : PyVal) :
    OSpec.setdefault m E cfg k v =
      if irf_isDefault (OSpec.look m E cfg (keyOf E cfg k)) then
        (if irf_isExc (OSpec.add m E cfg k v).2 then (m, (OSpec.add m E cfg k v).2)
         else
        (if irf_isDefault (OSpec.look (if m.has (keyOf E cfg k) then m else (OSpec.setitem m E cfg k v).1)
            E cfg (keyOf E cfg k)) then (m, .exc "KeyError")
         else ((if m.has (keyOf E cfg k) then m else (OSpec.setitem m E cfg k v).1),
           OSpec.look (if m.has (keyOf E cfg k) then m else (OSpec.setitem m E cfg k v).1)
            E cfg (keyOf E cfg k))))
      else (m, OSpec.look m E cfg (keyOf E cfg k)) := by
  unfold OSpec.setdefault
  generalize OSpec.look m E cfg (keyOf E cfg k) = o
  cases o <;> try rfl
  simp only [irf_isDefault, if_true]
  rw [← irf_spec_add_fst]
  cases OSpec.add m E cfg k v with
  | mk m' oa =>
    cases oa <;> simp only [irf_isExc, Bool.false_eq_true, if_false, if_true] <;>
      (generalize OSpec.look m' E cfg (keyOf E cfg k) = o'; cases o' <;> rfl)

/-- `Index.setdefault`, the matches on the look-up results written as `if`s -/
def irf_setdefault' (x : Index) (E : Externals) (now : Int) (k v : PyVal) : Index × Out :=
  if irf_isDefault (x.cache.get E now k false false false).2 then
    (if irf_isDefault ((x.cache.get E now k false false false).1.tbegin.get E now k false false false).2 then
      (if irf_isExc (((x.cache.get E now k false false false).1.tbegin.get E now k false false false).1.add
            E now k v none false .null).2 then
        ({ cache := (((x.cache.get E now k false false false).1.tbegin.get E now k false false false).1.add
            E now k v none false .null).1.traise 1 },
          (((x.cache.get E now k false false false).1.tbegin.get E now k false false false).1.add
            E now k v none false .null).2)
      else
      (if irf_isDefault (((((x.cache.get E now k false false false).1.tbegin.get E now k false false false).1.add
            E now k v none false .null).1).get E now k false false false).2 then
        ({ cache := (((((x.cache.get E now k false false false).1.tbegin.get E now k false false false).1.add
            E now k v none false .null).1).get E now k false false false).1.traise 1 }, .exc "KeyError")
      else
        ({ cache := (((((x.cache.get E now k false false false).1.tbegin.get E now k false false false).1.add
            E now k v none false .null).1).get E now k false false false).1.tend },
          (((((x.cache.get E now k false false false).1.tbegin.get E now k false false false).1.add
            E now k v none false .null).1).get E now k false false false).2)))
    else
      ({ cache := ((x.cache.get E now k false false false).1.tbegin.get E now k false false false).1.tend },
        ((x.cache.get E now k false false false).1.tbegin.get E now k false false false).2))
  else ({ cache := (x.cache.get E now k false false false).1 }, (x.cache.get E now k false false false).2)

theorem irf_setdefault_eq (x : Index) (E : Externals) (now : Int) (k v : PyVal) :
    x.setdefault E now k v = irf_setdefault' x E now k v := by
  unfold Index.setdefault irf_setdefault'
  cases x.cache.get E now k false false false with
  | mk c o =>
    cases o <;> try rfl
    simp only [irf_isDefault, if_true]
    cases c.tbegin.get E now k false false false with
    | mk c1 o1 =>
      cases o1 <;> try rfl
      simp only [if_true]
      cases c1.add E now k v none false .null with
      | mk c2 oa =>
        cases oa <;> simp only [irf_isExc, Bool.false_eq_true, if_false, if_true] <;>
          (cases c2.get E now k false false false with
           | mk c3 o3 => cases o3 <;> rfl)

/-! ### the block of `setdefault` -/

theorem irf_inBlock_staged (G b1 : Cache) (p : Placement) (hg : Good G)
    (hc1 : core b1 = { core G with depth := 1, snap := some G.takeSnap }) :
    irf_InBlock G (core (irf_staged b1 p)) ∧ (irf_staged b1 p).pending = [] ∧
    (irf_staged b1 p).rows = G.rows := by
  have hr1 : b1.rows = G.rows := congrArg Core.rows hc1
  have hcf1 : b1.cfg = G.cfg := congrArg Core.cfg hc1
  have hf1 : b1.files = G.files := congrArg Core.files hc1
  have hn1 : b1.nfile = G.nfile := congrArg Core.nfile hc1
  have hd1 : b1.depth = 1 := congrArg Core.depth hc1
  have hs1 : b1.snap = some G.takeSnap := congrArg Core.snap hc1
  have hp1 : b1.pending = [] := (congrArg Core.pending hc1).trans hg.pending
  have hcr1 : b1.created = [] := (congrArg Core.created hc1).trans hg.created
  have hst1 : b1.statistics = G.statistics := congrArg Core.statistics hc1
  cases p with
  | inline mode sv =>
    exact ⟨⟨hd1, hs1, hcf1, hst1, by show G.nfile ≤ b1.nfile; omega, .inl ⟨hf1, hcr1⟩⟩, hp1, hr1⟩
  | file mode ct =>
    refine ⟨⟨hd1, hs1, hcf1, hst1, by show G.nfile ≤ b1.nfile + 1; omega, .inr ⟨ct, ?_, ?_⟩⟩, hp1, hr1⟩
    · show b1.files ++ [(b1.nfile, ct)] = _
      rw [hf1, hn1]
    · show b1.created ++ [b1.nfile] = _
      rw [hcr1, hn1]; rfl

theorem irf_inBlock_rows {G : Cache} {K : Core} (h : irf_InBlock G K) (R : List Row) :
    irf_InBlock G { K with rows := R } := ⟨h.depth, h.snap, h.cfg, h.stat, h.nfile, h.files⟩

theorem irf_inBlock_pending {G : Cache} {K : Core} (h : irf_InBlock G K) (pe : List (Option Nat)) :
    irf_InBlock G { K with pending := pe } := ⟨h.depth, h.snap, h.cfg, h.stat, h.nfile, h.files⟩

/-- `add` inside the block opened on `G`: either the table is unchanged (and the dictionary's `add`
changes nothing), or a row is appended (and the dictionary's `add` appends the binding) -/
theorem irf_add_in_block (G b1 : Cache) (E : Externals) (now : Int) (k v : PyVal) (hI : irf_Inv G)
    (hc1 : core b1 = { core G with depth := 1, snap := some G.takeSnap }) :
    irf_InBlock G (core (b1.add E now k v none false .null).1) ∧
    (((b1.add E now k v none false .null).1.rows = G.rows ∧
      (if (irf_abs G).has (keyOf E G.cfg k) then irf_abs G else (OSpec.setitem (irf_abs G) E G.cfg k v).1) =
        irf_abs G) ∨
     (∃ p, place E G.cfg.disk G.cfg.minFileSize v false = .ok p ∧
      G.selKey (keyOf E G.cfg k).1 (keyOf E G.cfg k).2 = none ∧
      (if (irf_abs G).has (keyOf E G.cfg k) then irf_abs G else (OSpec.setitem (irf_abs G) E G.cfg k v).1) =
        irf_abs G ++ [(keyOf E G.cfg k, entryOf p none .null)] ∧
      core (b1.add E now k v none false .null).1 =
        { core (irf_staged b1 p) with
          rows := G.rows ++ [newRow G (keyOf E G.cfg k).1 (keyOf E G.cfg k).2 now (irf_cols p G.nfile)] })) := by
  have hg := hI.good
  have hr1 : b1.rows = G.rows := congrArg Core.rows hc1
  have hcf1 : b1.cfg = G.cfg := congrArg Core.cfg hc1
  have hn1 : b1.nfile = G.nfile := congrArg Core.nfile hc1
  have hd1 : b1.depth = 1 := congrArg Core.depth hc1
  have hadd := irf_add_pos b1 E now k v (by omega) (by rw [hcf1]; exact hI.pol) (by rw [hr1]; exact hI.noexp)
  have hnr : ∀ c, newRow b1 (keyOf E G.cfg k).1 (keyOf E G.cfg k).2 now c =
      newRow G (keyOf E G.cfg k).1 (keyOf E G.cfg k).2 now c := by
    intro c; unfold newRow; rw [hr1]
  rw [hcf1, selKey_congr hr1] at hadd
  have hhas : (irf_abs G).has (keyOf E G.cfg k) =
      !(G.selKey (keyOf E G.cfg k).1 (keyOf E G.cfg k).2).isNone := by
    rw [irf_abs_has]
    cases hs : G.selKey (keyOf E G.cfg k).1 (keyOf E G.cfg k).2 with
    | none => rw [selKey_none_iff.1 hs]; rfl
    | some r =>
      cases hany : G.rows.any (keyMatch (keyOf E G.cfg k).1 (keyOf E G.cfg k).2) with
      | true => rfl
      | false => rw [selKey_none_iff.2 hany] at hs; cases hs
  cases hpl : place E G.cfg.disk G.cfg.minFileSize v false with
  | error e =>
    rw [hpl] at hadd
    simp only at hadd
    rw [hadd]
    refine ⟨?_, .inl ⟨hr1, ?_⟩⟩
    · rw [hc1]
      exact ⟨rfl, rfl, rfl, rfl, Nat.le_refl _, .inl ⟨rfl, hg.created⟩⟩
    · unfold OSpec.setitem
      rw [hpl]
      split <;> rfl
  | ok p =>
    rw [hpl] at hadd
    simp only at hadd
    obtain ⟨hbS, hpS, hrS⟩ := irf_inBlock_staged G b1 p hg hc1
    by_cases hcond : (bindable (keyOf E G.cfg k).1 && bindable (entryOf p none .null).val &&
        (G.selKey (keyOf E G.cfg k).1 (keyOf E G.cfg k).2).isNone) = true
    · rw [if_pos hcond, hr1, hnr, hn1] at hadd
      simp only [Bool.and_eq_true, Option.isNone_iff_eq_none] at hcond
      refine ⟨by rw [hadd]; exact irf_inBlock_rows hbS _, .inr ⟨p, rfl, hcond.2, ?_, hadd⟩⟩
      have hh : (irf_abs G).has (keyOf E G.cfg k) = false := by rw [hhas, hcond.2]; rfl
      rw [hh]
      simp only [Bool.false_eq_true, if_false]
      unfold OSpec.setitem
      rw [hpl]
      simp only [hcond.1.1, hcond.1.2, Bool.and_self, if_true]
      unfold ODict.set
      rw [hh]
      rfl
    · rw [if_neg hcond] at hadd
      obtain ⟨pe, hpe⟩ := hadd
      refine ⟨by rw [hpe]; exact irf_inBlock_pending hbS _, .inl ⟨?_, ?_⟩⟩
      · have : (b1.add E now k v none false .null).1.rows = (irf_staged b1 p).rows := congrArg Core.rows hpe
        rw [this, hrS]
      · split
        · rfl
        · rename_i hh
          rw [hhas] at hh
          have hnone : (G.selKey (keyOf E G.cfg k).1 (keyOf E G.cfg k).2).isNone = true := by
            simpa using hh
          rw [hnone, Bool.and_true] at hcond
          unfold OSpec.setitem
          rw [hpl]
          simp only [hcond]
          rfl

/-- the result of `add` inside the block opened on `G` is the result of the dictionary's `add` -/
theorem irf_add_out_block (G b1 : Cache) (E : Externals) (now : Int) (k v : PyVal) (hI : irf_Inv G)
    (hc1 : core b1 = { core G with depth := 1, snap := some G.takeSnap }) :
    (b1.add E now k v none false .null).2 = (OSpec.add (irf_abs G) E G.cfg k v).2 := by
  have hr1 : b1.rows = G.rows := congrArg Core.rows hc1
  have hcf1 : b1.cfg = G.cfg := congrArg Core.cfg hc1
  have hd1 : b1.depth = 1 := congrArg Core.depth hc1
  rw [irf_add_pos_out b1 E now k v (by omega) (by rw [hr1]; exact hI.noexp), hcf1, selKey_congr hr1]
  have hhas : (irf_abs G).has (keyOf E G.cfg k) =
      (G.selKey (keyOf E G.cfg k).1 (keyOf E G.cfg k).2).isSome := by
    rw [irf_abs_has]
    cases hs : G.selKey (keyOf E G.cfg k).1 (keyOf E G.cfg k).2 with
    | none => rw [selKey_none_iff.1 hs]; rfl
    | some r =>
      cases hany : G.rows.any (keyMatch (keyOf E G.cfg k).1 (keyOf E G.cfg k).2) with
      | true => rfl
      | false => rw [selKey_none_iff.2 hany] at hs; cases hs
  unfold OSpec.add irf_addOut
  cases place E G.cfg.disk G.cfg.minFileSize v false with
  | error e => rfl
  | ok p =>
    simp only
    rw [hhas]
    cases bindable (keyOf E G.cfg k).1 <;>
      cases (G.selKey (keyOf E G.cfg k).1 (keyOf E G.cfg k).2).isSome <;>
      cases bindable (entryOf p none .null).val <;> rfl

/-- leaving the block normally after the insertion: the state is (up to ghost fields) the quiescent
state "value stored, row inserted" -/
theorem irf_block_commit (G b1 b3 : Cache) (p : Placement) (dbk : SqlVal) (raw : Bool) (now : Int)
    (hg : Good G) (hc1 : core b1 = { core G with depth := 1, snap := some G.takeSnap })
    (hc3 : core b3 = { core (irf_staged b1 p) with
      rows := G.rows ++ [newRow G dbk raw now (irf_cols p G.nfile)] }) :
    core b3.tend = core ((irf_stored G p).insRow dbk raw now (irf_cols p G.nfile)) ∧
    b3.rows = ((irf_stored G p).insRow dbk raw now (irf_cols p G.nfile)).rows ∧
    b3.files = ((irf_stored G p).insRow dbk raw now (irf_cols p G.nfile)).files ∧
    b3.cfg = ((irf_stored G p).insRow dbk raw now (irf_cols p G.nfile)).cfg := by
  have hcf1 : b1.cfg = G.cfg := congrArg Core.cfg hc1
  have hf1 : b1.files = G.files := congrArg Core.files hc1
  have hn1 : b1.nfile = G.nfile := congrArg Core.nfile hc1
  have hd1 : b1.depth = 1 := congrArg Core.depth hc1
  have hp1 : b1.pending = [] := (congrArg Core.pending hc1).trans hg.pending
  have hst1 : b1.statistics = G.statistics := congrArg Core.statistics hc1
  have hnil : ∀ l : List (Nat × Content),
      l.filter (fun q => !([] : List (Option Nat)).contains (some q.1)) = l := by
    intro l; rw [List.filter_eq_self]; intros; rfl
  cases p with
  | inline mode sv =>
    have e1 : b3.rows = G.rows ++ [newRow G dbk raw now (irf_cols (.inline mode sv) G.nfile)] :=
      congrArg Core.rows hc3
    have e2 : b3.files = G.files := (congrArg Core.files hc3).trans hf1
    have e3 : b3.nfile = G.nfile := (congrArg Core.nfile hc3).trans hn1
    have e4 : b3.depth = 1 := (congrArg Core.depth hc3).trans hd1
    have e5 : b3.pending = [] := (congrArg Core.pending hc3).trans hp1
    have e6 : b3.cfg = G.cfg := (congrArg Core.cfg hc3).trans hcf1
    have e7 : b3.statistics = G.statistics := (congrArg Core.statistics hc3).trans hst1
    refine ⟨?_, e1, e2, e6⟩
    rw [irf_tend_core b3 e4]
    show _ = core (G.insRow dbk raw now (irf_cols (.inline mode sv) G.nfile))
    rw [core_insRow]
    simp only [core, Core.mk.injEq, e1, e2, e3, e5, e6, e7, hnil]
    and_intros <;>
      first | rfl | trivial | exact hg.depth.symm | exact hg.snap.symm | exact hg.pending.symm | exact hg.created.symm
  | file mode ct =>
    have e1 : b3.rows = G.rows ++ [newRow G dbk raw now (irf_cols (.file mode ct) G.nfile)] :=
      congrArg Core.rows hc3
    have e2 : b3.files = G.files ++ [(G.nfile, ct)] := by
      have : b3.files = b1.files ++ [(b1.nfile, ct)] := congrArg Core.files hc3
      rw [this, hf1, hn1]
    have e3 : b3.nfile = G.nfile + 1 := by
      have : b3.nfile = b1.nfile + 1 := congrArg Core.nfile hc3
      rw [this, hn1]
    have e4 : b3.depth = 1 := (congrArg Core.depth hc3).trans hd1
    have e5 : b3.pending = [] := (congrArg Core.pending hc3).trans hp1
    have e6 : b3.cfg = G.cfg := (congrArg Core.cfg hc3).trans hcf1
    have e7 : b3.statistics = G.statistics := (congrArg Core.statistics hc3).trans hst1
    refine ⟨?_, e1, e2, e6⟩
    rw [irf_tend_core b3 e4]
    show _ = core ((G.fwrite ct).1.insRow dbk raw now (irf_cols (.file mode ct) G.nfile))
    rw [core_insRow]
    simp only [core, Core.mk.injEq, e1, e2, e3, e5, e6, e7, hnil]
    and_intros <;>
      first | rfl | trivial | exact hg.depth.symm | exact hg.snap.symm | exact hg.pending.symm | exact hg.created.symm

/-- **`setdefault`** on a quiescent Index state -/
theorem irf_setdefault (x : Index) (E : Externals) (now : Int) (k v : PyVal) (h : irf_Inv x.cache) :
    (x.setdefault E now k v).2 = (OSpec.setdefault (irf_abs x.cache) E x.cache.cfg k v).2 ∧
    irf_abs (x.setdefault E now k v).1.cache = (OSpec.setdefault (irf_abs x.cache) E x.cache.cfg k v).1 ∧
    (x.setdefault E now k v).1.cache.cfg = x.cache.cfg ∧ irf_Inv (x.setdefault E now k v).1.cache := by
  obtain ⟨s⟩ := x
  rw [irf_setdefault_eq, irf_spec_setdefault_eq]
  unfold irf_setdefault'
  simp only
  obtain ⟨hO, hC, hI⟩ := irf_get s E now k h
  rw [hO]
  generalize (s.get E now k false false false).1 = G at hC hI ⊢
  have hcfgG : G.cfg = s.cfg := congrArg Core.cfg hC
  have habsG : irf_abs G = irf_abs s := irf_abs_core hC
  rw [← habsG, ← hcfgG]
  by_cases hdef : irf_isDefault (OSpec.look (irf_abs G) E G.cfg (keyOf E G.cfg k)) = true
  case neg =>
    rw [if_neg hdef, if_neg hdef]
    exact ⟨rfl, rfl, rfl, hI⟩
  rw [if_pos hdef, if_pos hdef]
  have hgG := hI.good
  have hc0 := irf_tbegin_core G hgG
  have hoG : irf_getOut G E now k = OSpec.look (irf_abs G) E G.cfg (keyOf E G.cfg k) := by
    rw [← (irf_get_any G E now k hI.pol).2, (irf_get G E now k hI).1]
  obtain ⟨hc1, ho1⟩ := irf_get_any G.tbegin E now k
    (by rw [show G.tbegin.cfg = G.cfg from congrArg Core.cfg hc0]; exact hI.pol)
  have ho1' : (G.tbegin.get E now k false false false).2 =
      OSpec.look (irf_abs G) E G.cfg (keyOf E G.cfg k) := by
    rw [ho1, ← hoG]
    exact irf_getOut_congr E now k (congrArg Core.rows hc0) (congrArg Core.cfg hc0)
      (fun r _ => fetchRow_snd_congr _ _ E r false (congrArg Core.cfg hc0) (congrArg Core.files hc0))
  rw [ho1', if_pos hdef]
  have hti1 : TableInv (G.tbegin.get E now k false false false).1 :=
    get_inv _ _ _ _ _ _ _ (tbegin_inv _ hgG.tinv)
  generalize (G.tbegin.get E now k false false false).1 = b1 at hc1 hti1 ⊢
  rw [hc0] at hc1
  obtain ⟨hb2, hcase⟩ := irf_add_in_block G b1 E now k v hI hc1
  have hti2 : TableInv (b1.add E now k v none false .null).1 := add_inv _ _ _ _ _ _ _ _ hti1
  rw [irf_add_out_block G b1 E now k v hI hc1]
  generalize (b1.add E now k v none false .null).1 = b2 at hb2 hcase hti2 ⊢
  by_cases hexc : irf_isExc (OSpec.add (irf_abs G) E G.cfg k v).2 = true
  case pos =>
    -- `add` raised: the exception leaves the block, which is rolled back
    rw [if_pos hexc, if_pos hexc]
    have hexit2 := irf_exit_traise G b2 hI hb2 hti2
    exact ⟨rfl, hexit2.1, hexit2.2.1, hexit2.2.2⟩
  rw [if_neg hexc, if_neg hexc]
  have hcf2 : b2.cfg = G.cfg := hb2.cfg
  obtain ⟨hc3, ho3⟩ := irf_get_any b2 E now k (by rw [hcf2]; exact hI.pol)
  have hti3 : TableInv (b2.get E now k false false false).1 := get_inv _ _ _ _ _ _ _ hti2
  rw [ho3]
  generalize (b2.get E now k false false false).1 = b3 at hc3 hti3 ⊢
  have hb3 : irf_InBlock G (core b3) := by rw [hc3]; exact hb2
  have hexit := irf_exit_traise G b3 hI hb3 hti3
  rcases hcase with ⟨hrows, hm'⟩ | ⟨p, hpl, habs, hm', hcore2⟩
  · -- the table is unchanged: the second look-up misses again, the block is rolled back
    have hfiles : ∃ ex, b2.files = G.files ++ ex := by
      rcases hb2.files with ⟨h1, -⟩ | ⟨ct, h1, -⟩
      · exact ⟨[], by rw [List.append_nil]; exact h1⟩
      · exact ⟨_, h1⟩
    obtain ⟨ex, hex⟩ := hfiles
    have hout : irf_getOut b2 E now k = OSpec.look (irf_abs G) E G.cfg (keyOf E G.cfg k) := by
      rw [← hoG]
      exact irf_getOut_congr E now k hrows hcf2
        (fun r hr => irf_fetch_append G b2 E r hcf2 ex hex (rf_good_ref hgG hr))
    rw [hout, if_pos hdef, hm', if_pos hdef]
    exact ⟨rfl, hexit.1, hexit.2.1, hexit.2.2⟩
  · -- a row was appended
    rw [hm']
    obtain ⟨hIX, hAX⟩ := irf_insert_state G E now k v p hI hpl habs
    have hcore3 : core b3 = { core (irf_staged b1 p) with
        rows := G.rows ++ [newRow G (keyOf E G.cfg k).1 (keyOf E G.cfg k).2 now (irf_cols p G.nfile)] } :=
      hc3.trans hcore2
    obtain ⟨hcommit, hr3, hf3, hcf3⟩ := irf_block_commit G b1 b3 p (keyOf E G.cfg k).1 (keyOf E G.cfg k).2 now
      hgG hc1 hcore3
    generalize (irf_stored G p).insRow (keyOf E G.cfg k).1 (keyOf E G.cfg k).2 now (irf_cols p G.nfile) = X
      at hIX hAX hcommit hr3 hf3 hcf3
    have hcfX : X.cfg = G.cfg := hcf3.symm.trans ((congrArg Core.cfg hc3).trans hcf2)
    have hout : irf_getOut b2 E now k =
        OSpec.look (irf_abs G ++ [(keyOf E G.cfg k, entryOf p none .null)]) E G.cfg (keyOf E G.cfg k) := by
      have h1 : irf_getOut b2 E now k = irf_getOut X E now k :=
        irf_getOut_congr E now k ((congrArg Core.rows hc3).symm.trans hr3) (hcf2.trans hcfX.symm)
          (fun r _ => fetchRow_snd_congr _ _ E r false (hcf2.trans hcfX.symm)
            ((congrArg Core.files hc3).symm.trans hf3))
      rw [h1, ← (irf_get_any X E now k hIX.pol).2, (irf_get X E now k hIX).1, hAX, hcfX]
    rw [hout]
    by_cases hd2 : irf_isDefault (OSpec.look (irf_abs G ++ [(keyOf E G.cfg k, entryOf p none .null)]) E G.cfg
        (keyOf E G.cfg k)) = true
    · rw [if_pos hd2, if_pos hd2]
      exact ⟨rfl, hexit.1, hexit.2.1, hexit.2.2⟩
    · rw [if_neg hd2, if_neg hd2]
      refine ⟨rfl, ?_, ?_, irf_inv_core hIX hcommit (tend_inv _ hti3)⟩
      · show irf_abs b3.tend = _
        rw [irf_abs_core hcommit, hAX]
      · show b3.tend.cfg = G.cfg
        rw [show b3.tend.cfg = X.cfg from congrArg Core.cfg hcommit, hcfX]

end DC.Cache
