/-
Helper lemmas for C10_Refine, part 5: the key-addressed calls on ordinary keys and
the bulk removals, on a state that also holds queues.  The dictionary part is
the argument of DC/Properties/C03_Refine.lean restricted to the ordinary keys
(`rf_assemble_ord`); the queues are untouched because the state after the call is
the state before without some rows (`Shrunk`), none of them a queue row — or, for
the bulk removals, without the rows the specification drops as well.

Covered here: get, contains, pop, delitem, delete, clear, evict, expire, cull.
-/
import DC.Proofs.QRefinePush

namespace DC.Cache
open DC.Spec DC.QSpec

/-- `rf_assemble` for a relation that holds on the ordinary keys only -/
theorem rf_assemble_ord {v v' : Key → Option Entry} {m m' : Dict} {clock now : Int} {K : Key}
    {upd : Option Entry → Option Entry}
    (hr : ∀ k, isQueueKey k = false → rf_VRel (v k) (m.get k) clock) (hn : clock ≤ now)
    (hK : isQueueKey K = false)
    (hA : rf_Culled now (rf_at K (upd (v K)) v) v')
    (hB : ∀ k', m'.get k' = rf_at K (upd (m.get K)) m.get k')
    (hC : ∀ a d, rf_VRel a d now → rf_VRel (upd a) (upd d) now) :
    ∀ k, isQueueKey k = false → rf_VRel (v' k) (m'.get k) now := by
  intro k hk
  apply rf_VRel_culled hA
  rw [hB k]
  unfold rf_at
  split
  · exact hC _ _ (rf_VRel_mono (hr K hK) hn)
  · exact rf_VRel_mono (hr k hk) hn

theorem QRefines.vrel {c : Cache} {q : QSpec.State} {clock : Int} (h : QRefines c q clock) :
    ∀ k, isQueueKey k = false → rf_VRel (rf_view c k) (q.dict.get k) clock :=
  fun k hk => (holdsKey_iff _ _ _ _).1 (h.dict k hk)

/-- rows are removed, none of them a queue row; the dictionary part is given -/
theorem qr_keyed_shrunk {c c' : Cache} {f : Row → Bool} {q : QSpec.State} {clock now : Int} {n : Nat}
    (hok : QOk c n) (hr : QRefines c q clock) (hsh : Shrunk c c' f)
    (hfq : ∀ p, ∀ r ∈ c.queueRows p, f r = true) (d' : Dict) (hwf : d'.WF)
    (hord : ∀ b ∈ d', isQueueKey b.1 = false)
    (hdict : ∀ k, isQueueKey k = false → rf_VRel (rf_view c' k) (d'.get k) now) :
    QRefines c' { q with dict := d' } now ∧ QOk c' n := by
  refine ⟨⟨?_, hwf, hord, fun k hk => (holdsKey_iff _ _ _ _).2 (hdict k hk)⟩, hok.shrunk hsh⟩
  intro p
  show _ = q.queues.get p
  rw [← hr.queues p]
  exact hsh.absQ_same hok.good p (hfq p)

theorem ord_del {m : Dict} (h : ∀ b ∈ m, isQueueKey b.1 = false) (K : Key) :
    ∀ b ∈ m.del K, isQueueKey b.1 = false :=
  fun b hb => h b (List.mem_filter.1 hb).1

theorem ord_del_if {m : Dict} (h : ∀ b ∈ m, isQueueKey b.1 = false) (K : Key) (now : Int) :
    ∀ b ∈ (if rf_has now (m.get K) then m.del K else m), isQueueKey b.1 = false := by
  split
  · exact ord_del h K
  · exact h

/-! ### `get`, `contains` -/

theorem qr_get_step (c : Cache) (q : QSpec.State) (n : Nat) (clock now : Int) (E : Externals) (k : PyVal)
    (read et tg : Bool) (hok : QOk c n) (hr : QRefines c q clock) (hn : clock ≤ now)
    (hK : isQueueKey (keyOf E c.cfg k) = false) :
    (c.get E now k read et tg).2 = (Spec.get q.dict E c.cfg now k read et tg).2 ∧
    QRefines (c.get E now k read et tg).1 { q with dict := (Spec.get q.dict E c.cfg now k read et tg).1 } now ∧
    QOk (c.get E now k read et tg).1 n := by
  have hg := hok.good
  have hKr := rf_VRel_mono (hr.vrel _ hK) hn
  have hm : (Spec.get q.dict E c.cfg now k read et tg).1 = q.dict := by
    unfold Spec.get; split
    · split <;> rfl
    · rfl
  have hsh : Shrunk c (c.get E now k read et tg).1 (fun _ => true) :=
    Shrunk.of_core (get_good _ _ _ _ _ _ _ hg) (rf_get_core c E now k read et tg hg.depth hok.pol)
  refine ⟨?_, ?_⟩
  · rw [rf_get_out' _ _ _ _ _ _ _ hg]
    unfold Spec.get
    rcases rf_VRel_cases hKr with h | ⟨h, e, hd, -, hl⟩
    · rw [h]; cases q.dict.get (keyOf E c.cfg k) with
      | none => rfl
      | some e => simp only; split <;> rfl
    · rw [h, hd]; simp [hl]
  · rw [hm]
    exact ⟨qrefines_shrunk_id hg hr hn hsh (fun _ _ => rfl), hok.shrunk hsh⟩

theorem qr_contains_step (c : Cache) (q : QSpec.State) (n : Nat) (clock now : Int) (E : Externals) (k : PyVal)
    (hok : QOk c n) (hr : QRefines c q clock) (hn : clock ≤ now)
    (hK : isQueueKey (keyOf E c.cfg k) = false) :
    (c.contains E now k).2 = (Spec.contains q.dict E c.cfg now k).2 ∧
    QRefines (c.contains E now k).1 { q with dict := (Spec.contains q.dict E c.cfg now k).1 } now ∧
    QOk (c.contains E now k).1 n := by
  have hg := hok.good
  have hKr := rf_VRel_mono (hr.vrel _ hK) hn
  have hg' : Good (c.contains E now k).1 :=
    ⟨hg.tinv.same rfl rfl rfl rfl, ⟨hg.finv.ref, hg.finv.inj, hg.finv.fresh, hg.finv.nodup⟩,
      hg.noOrphan, hg.depth, hg.snap, hg.pending, hg.created⟩
  have hsh : Shrunk c (c.contains E now k).1 (fun _ => true) :=
    Shrunk.of_core hg' (rf_contains_core c E now k)
  refine ⟨?_, qrefines_shrunk_id hg hr hn hsh (fun _ _ => rfl), hok.shrunk hsh⟩
  rw [rf_contains_out _ _ _ _ hg]
  unfold Spec.contains Dict.has
  rcases rf_VRel_cases hKr with h | ⟨h, e, hd, -, hl⟩
  · rw [h]; rfl
  · rw [h, hd]; simp [hl]

/-! ### `delitem`, `delete`, `pop`: the live row of the key leaves, nothing else changes -/

/-- the dictionary part after a removal by key -/
theorem qr_del_dict {c c' : Cache} {q : QSpec.State} {clock now : Int} {K : Key}
    (hr : QRefines c q clock) (hn : clock ≤ now) (hK : isQueueKey K = false)
    (hV : ∀ k', rf_view c' k' = rf_at K (rf_delU now (rf_view c K)) (rf_view c) k') :
    ∀ k, isQueueKey k = false →
      rf_VRel (rf_view c' k) ((if rf_has now (q.dict.get K) then q.dict.del K else q.dict).get k) now :=
  rf_assemble_ord (upd := rf_delU now) hr.vrel hn hK (fun k' => .inl (hV k'))
    (fun k' => rf_del_spec q.dict _ now k') (fun _ _ h => rf_delU_rel h)

/-- a row that is gone from the view of an ordinary key only: no queue row is gone -/
theorem qr_del_rows_queue {c : Cache} (hg : Good c) {K : Key} (hK : isQueueKey K = false)
    {r0 : Row} (hk0 : keyMatch K.1 K.2 r0 = true) (hr0 : r0 ∈ c.rows) :
    ∀ p, ∀ r ∈ c.queueRows p, (r.rowid != r0.rowid) = true := by
  intro p r hr
  rw [queueRows_eq] at hr
  obtain ⟨hrr, hq⟩ := mem_qrows.1 hr
  apply qr_other_rowid hg hr0 hrr
  intro e
  subst e
  have := keyMatch_ordinary hK hq
  rw [hk0] at this; cases this

theorem qr_delitem_shrunk (c : Cache) (E : Externals) (now : Int) (k : PyVal) (hg : Good c)
    (hK : isQueueKey (keyOf E c.cfg k) = false) :
    ∃ f, Shrunk c (c.delitem E now k).1 f ∧ ∀ p, ∀ r ∈ c.queueRows p, f r = true := by
  have hg' := delitem_good c E now k hg
  have hrows := delete_rows c E now k hg.tinv
  rw [delete_fst] at hrows
  have hcfg := rf_delitem_cfg c E now k
  have hfiles : ∀ f ∈ (c.delitem E now k).1.files, f ∈ c.files := by
    rw [rf_delitem_eq]
    obtain ⟨-, hF, -, -⟩ := rf_transact c (rf_delBody (keyOf E c.cfg k).1 (keyOf E c.cfg k).2 now) none hg.depth
    intro f hf
    have := hF f hf
    unfold rf_delBody at this
    simp only at this
    split at this
    · exact this
    · rw [rf_delRow_files] at this; exact this
  cases hsel : c.selLive (DC.put E c.cfg.disk k).1 (DC.put E c.cfg.disk k).2 now with
  | none =>
    rw [hsel] at hrows
    exact ⟨fun _ => true, ⟨hg', by rw [filter_true']; exact hrows, hcfg, hfiles⟩, fun _ _ _ => rfl⟩
  | some r0 =>
    rw [hsel] at hrows
    have hr0 : r0 ∈ c.rows := List.mem_of_find?_eq_some hsel
    have hk0 : keyMatch (keyOf E c.cfg k).1 (keyOf E c.cfg k).2 r0 = true := by
      have := List.find?_some hsel
      simp only [Bool.and_eq_true] at this
      exact this.1
    exact ⟨fun x => x.rowid != r0.rowid, ⟨hg', hrows, hcfg, hfiles⟩, qr_del_rows_queue hg hK hk0 hr0⟩

theorem qr_delitem_step (c : Cache) (q : QSpec.State) (n : Nat) (clock now : Int) (E : Externals) (k : PyVal)
    (hok : QOk c n) (hr : QRefines c q clock) (hn : clock ≤ now)
    (hK : isQueueKey (keyOf E c.cfg k) = false) :
    (c.delitem E now k).2 = (Spec.delitem q.dict E c.cfg now k).2 ∧
    QRefines (c.delitem E now k).1 { q with dict := (Spec.delitem q.dict E c.cfg now k).1 } now ∧
    QOk (c.delitem E now k).1 n := by
  have hg := hok.good
  obtain ⟨hO, hV⟩ := rf_delitem_view c E now k hg
  have hKr := rf_VRel_mono (hr.vrel _ hK) hn
  have hm : (Spec.delitem q.dict E c.cfg now k).1 =
      if rf_has now (q.dict.get (keyOf E c.cfg k)) then q.dict.del (keyOf E c.cfg k) else q.dict := by
    unfold Spec.delitem; rw [rf_has_dict]; split <;> rfl
  obtain ⟨f, hsh, hfq⟩ := qr_delitem_shrunk c E now k hg hK
  refine ⟨?_, ?_⟩
  · rw [hO, rf_has_rel hKr]
    unfold Spec.delitem; rw [rf_has_dict]; split <;> rfl
  · rw [hm]
    exact qr_keyed_shrunk hok hr hsh hfq _ (rf_del_wf hr.wf _ _) (ord_del_if hr.ord _ _)
      (qr_del_dict hr hn hK hV)

theorem qr_delete_step (c : Cache) (q : QSpec.State) (n : Nat) (clock now : Int) (E : Externals) (k : PyVal)
    (hok : QOk c n) (hr : QRefines c q clock) (hn : clock ≤ now)
    (hK : isQueueKey (keyOf E c.cfg k) = false) :
    (c.delete E now k).2 = (Spec.delete q.dict E c.cfg now k).2 ∧
    QRefines (c.delete E now k).1 { q with dict := (Spec.delete q.dict E c.cfg now k).1 } now ∧
    QOk (c.delete E now k).1 n := by
  have hg := hok.good
  obtain ⟨hO, hV⟩ := rf_delete_view c E now k hg
  have hKr := rf_VRel_mono (hr.vrel _ hK) hn
  have hm : (Spec.delete q.dict E c.cfg now k).1 =
      if rf_has now (q.dict.get (keyOf E c.cfg k)) then q.dict.del (keyOf E c.cfg k) else q.dict := by
    unfold Spec.delete; rw [rf_has_dict]; split <;> rfl
  obtain ⟨f, hsh, hfq⟩ := qr_delitem_shrunk c E now k hg hK
  rw [← delete_fst] at hsh
  refine ⟨?_, ?_⟩
  · rw [hO, rf_has_rel hKr]
    unfold Spec.delete; rw [rf_has_dict]; split <;> simp_all
  · rw [hm]
    exact qr_keyed_shrunk hok hr hsh hfq _ (rf_del_wf hr.wf _ _) (ord_del_if hr.ord _ _)
      (qr_del_dict hr hn hK hV)

theorem qr_pop_shrunk (c : Cache) (E : Externals) (now : Int) (k : PyVal) (et tg : Bool) (hg : Good c)
    (hK : isQueueKey (keyOf E c.cfg k) = false) :
    ∃ f, Shrunk c (c.pop E now k et tg).1 f ∧ ∀ p, ∀ r ∈ c.queueRows p, f r = true := by
  have hg' := pop_good c E now k et tg hg
  cases hsel : c.selLive (DC.put E c.cfg.disk k).1 (DC.put E c.cfg.disk k).2 now with
  | none =>
    rw [rf_pop_none hsel] at hg' ⊢
    have hc : core (c.transact fun s => { s := s.logSql "selLive", out := .none }).1 = core c :=
      rf_transact_core_same c _ none hg.depth ⟨rfl, rfl, rfl⟩
    exact ⟨fun _ => true, Shrunk.of_core hg' hc, fun _ _ _ => rfl⟩
  | some r0 =>
    rw [rf_pop_some hsel] at hg' ⊢
    have hr0 : r0 ∈ c.rows := List.mem_of_find?_eq_some hsel
    have hk0 : keyMatch (keyOf E c.cfg k).1 (keyOf E c.cfg k).2 r0 = true := by
      have := List.find?_some hsel
      simp only [Bool.and_eq_true] at this
      exact this.1
    have h1 : core (c.transact fun s => { s := (s.logSql "selLive").delRow r0.rowid, out := .none }).1 =
        { core c with rows := c.rows.filter (fun a => ![r0.rowid].contains a.rowid) } := by
      rw [transact_ok_core c _ none hg.depth rfl]
      simp only [core_delRow, core_logSql, core_log, core_files, drf_filter_nil_cl]
      rfl
    generalize (c.transact fun s => { s := (s.logSql "selLive").delRow r0.rowid, out := .none }).1 = t1 at h1 hg' ⊢
    have hd2 : (t1.fetchRow E r0 false).1.depth = 0 := by
      have := congrArg Core.depth ((core_fetchRow t1 E r0 false).trans h1)
      simp only [core_depth] at this
      rw [this]; exact hg.depth
    have hc : core ((t1.fetchRow E r0 false).1.removeCommitted r0.file) =
        { core c with rows := c.rows.filter (fun a => ![r0.rowid].contains a.rowid),
                      files := c.files.filter (fun p => ![r0.file].contains (some p.1)) } := by
      rw [removeCommitted_zero _ _ hd2, core_fremoveAll, core_fetchRow, h1]
      rfl
    refine ⟨fun x => x.rowid != r0.rowid, ⟨hg', ?_, congrArg Core.cfg hc, ?_⟩, qr_del_rows_queue hg hK hk0 hr0⟩
    · have : ((t1.fetchRow E r0 false).1.removeCommitted r0.file).rows =
          c.rows.filter (fun a => ![r0.rowid].contains a.rowid) := congrArg Core.rows hc
      rw [this]
      apply List.filter_congr
      intro x _
      by_cases h : x.rowid = r0.rowid <;> simp [h]
    · intro f hf
      have : ((t1.fetchRow E r0 false).1.removeCommitted r0.file).files =
          c.files.filter (fun p => ![r0.file].contains (some p.1)) := congrArg Core.files hc
      rw [this] at hf
      exact (List.mem_filter.1 hf).1

theorem qr_pop_step (c : Cache) (q : QSpec.State) (n : Nat) (clock now : Int) (E : Externals) (k : PyVal)
    (et tg : Bool) (hok : QOk c n) (hr : QRefines c q clock) (hn : clock ≤ now)
    (hK : isQueueKey (keyOf E c.cfg k) = false) :
    (c.pop E now k et tg).2 = (Spec.pop q.dict E c.cfg now k et tg).2 ∧
    QRefines (c.pop E now k et tg).1 { q with dict := (Spec.pop q.dict E c.cfg now k et tg).1 } now ∧
    QOk (c.pop E now k et tg).1 n := by
  have hg := hok.good
  obtain ⟨hO, hV⟩ := rf_pop_view c E now k et tg hg
  have hKr := rf_VRel_mono (hr.vrel _ hK) hn
  have hm : (Spec.pop q.dict E c.cfg now k et tg).1 =
      if rf_has now (q.dict.get (keyOf E c.cfg k)) then q.dict.del (keyOf E c.cfg k) else q.dict := by
    unfold Spec.pop rf_has
    cases q.dict.get (keyOf E c.cfg k) with
    | none => rfl
    | some e => simp only; split <;> simp_all
  obtain ⟨f, hsh, hfq⟩ := qr_pop_shrunk c E now k et tg hg hK
  refine ⟨?_, ?_⟩
  · rw [hO]
    unfold Spec.pop
    rcases rf_VRel_cases hKr with h | ⟨h, e, hd, -, hl⟩
    · rw [h]; cases q.dict.get (keyOf E c.cfg k) with
      | none => rfl
      | some e => simp only; split <;> rfl
    · rw [h, hd]; simp [hl]
  · rw [hm]
    exact qr_keyed_shrunk hok hr hsh hfq _ (rf_del_wf hr.wf _ _) (ord_del_if hr.ord _ _)
      (qr_del_dict hr hn hK hV)

/-! ### bulk removal: the rows failing a test on the entry leave, in the queues as in the dictionary -/

theorem qr_bulk {c c' : Cache} {f : Row → Bool} {q : QSpec.State} {clock now : Int} {n : Nat}
    (hok : QOk c n) (hr : QRefines c q clock) (hn : clock ≤ now) (hsh : Shrunk c c' f)
    (keep : Entry → Bool) (hfk : ∀ r, f r = keep (rf_ent c r)) :
    QRefines c' { queues := q.queues.keep keep, dict := q.dict.filter (fun b => keep b.2) } now ∧
    QOk c' n := by
  have hg := hok.good
  refine ⟨⟨?_, rf_wf_filter hr.wf _, fun b hb => hr.ord b (List.mem_filter.1 hb).1, ?_⟩, hok.shrunk hsh⟩
  · intro p
    show _ = (q.queues.keep keep).get p
    rw [get_keep, ← hr.queues p, hsh.absQ hg]
    unfold absQueue
    rw [List.filter_map]
    congr 1
    apply List.filter_congr
    intro r _
    exact hfk r
  · intro k hk
    rw [holdsKey_iff]
    show rf_VRel _ (Dict.get (q.dict.filter (fun b => keep b.2)) k) now
    rw [rf_view_filter hg hsh.good f keep hfk hsh.rows hsh.files k, rf_get_filter hr.wf]
    exact rf_VRel_filter keep (rf_VRel_mono (hr.vrel k hk) hn)

theorem qr_clear_step (c : Cache) (q : QSpec.State) (n : Nat) (clock : Int)
    (hok : QOk c n) (hr : QRefines c q clock) :
    QRefines (c.clear).1 {} clock ∧ QOk (c.clear).1 n := by
  have hg := hok.good
  have hg' := clear_good c hg
  have hrows := (clear_all c hg.tinv.tbl.asc hg.tinv.tbl.pos hok.page).1
  have hsh : Shrunk c (c.clear).1 (fun _ => false) := by
    refine ⟨hg', by rw [hrows]; simp, rf_clear_cfg c, ?_⟩
    intro f hf
    obtain ⟨r, hr', -⟩ := hg'.noOrphan f hf
    rw [hrows] at hr'; cases hr'
  have := qr_bulk hok hr (Int.le_refl _) hsh (fun _ => false) (fun _ => rfl)
  refine ⟨⟨?_, rf_wf_nil, (fun _ hb => by cases hb), ?_⟩, this.2⟩
  · intro p
    have h1 := this.1.queues p
    rw [h1, get_keep]
    show List.filter (fun _ => false) (q.queues.get p) = []
    simp
  · intro k _
    rw [holdsKey_iff, rf_view_nil hrows]
    exact rf_VRel_refl _ _

theorem qr_evict_step (c : Cache) (q : QSpec.State) (n : Nat) (clock : Int) (tag : SqlVal)
    (hok : QOk c n) (hr : QRefines c q clock) :
    QRefines (c.evict tag).1
      { queues := q.queues.keep (fun e => !e.tag.eqv tag), dict := (Spec.evict q.dict tag).1 } clock ∧
    QOk (c.evict tag).1 n := by
  have hg := hok.good
  have hrows := (evict_exact c tag hg.tinv.tbl.asc hg.tinv.tbl.pos hok.page).1
  have hsh : Shrunk c (c.evict tag).1 (fun r => !(r.tag.eqv tag)) :=
    ⟨evict_good c tag hg, hrows, rf_evict_cfg c tag, rf_evict_files c tag⟩
  exact qr_bulk hok hr (Int.le_refl _) hsh (fun e => !e.tag.eqv tag) (fun _ => rfl)

theorem qr_expire_step (c : Cache) (q : QSpec.State) (n : Nat) (clock now : Int)
    (hok : QOk c n) (hr : QRefines c q clock) (hn : clock ≤ now) :
    QRefines (c.expire now).1
      { queues := q.queues.keep (fun e => !e.expired now), dict := (Spec.expire q.dict now).1 } now ∧
    QOk (c.expire now).1 n := by
  have hg := hok.good
  have hrows := (expire_exact c now hg.tinv.tbl.asc hok.page).1
  have hsh : Shrunk c (c.expire now).1 (fun r => !(expired now r)) :=
    ⟨expire_good c now hg, hrows, rf_expire_cfg c now, rf_expire_files c now⟩
  exact qr_bulk hok hr hn hsh (fun e => !e.expired now) (fun _ => rfl)

theorem qr_cull_step (c : Cache) (q : QSpec.State) (n : Nat) (clock now : Int)
    (hok : QOk c n) (hr : QRefines c q clock) (hn : clock ≤ now) :
    QRefines (c.cull now).1
      { queues := q.queues.keep (fun e => !e.expired now), dict := (Spec.cull q.dict now).1 } now ∧
    QOk (c.cull now).1 n := by
  have hg := hok.good
  have hrows := (cull_none c now hg.tinv.tbl.asc hok.page hok.pol).1
  have hsh : Shrunk c (c.cull now).1 (fun r => !(expired now r)) :=
    ⟨cull_good c now hg, hrows, rf_cull_cfg c now hok.pol, rf_cull_files c now hg.tinv.tbl.asc hok.page hok.pol⟩
  exact qr_bulk hok hr hn hsh (fun e => !e.expired now) (fun _ => rfl)

end DC.Cache
