/-
C03_Lossy, generic part: the dictionary with dropped keys (`Spec.dropKeys`),
views that lost entries to eviction (`rf_Lossy`, the generalization of
`rf_Culled`), and the generic step `rf_lossy` (the generalization of
`rf_culled` to a state from which unexpired rows are missing as well).
-/
import DC.Proofs.RefineLemmas
import DC.Proofs.LossyCull

namespace DC.Cache
open DC.Spec

/-! ### the dictionary without some keys -/

theorem rf_sameKey_congr_right {a b : Key} (h : sameKey a b = true) (c : Key) :
    sameKey c a = sameKey c b := by
  rw [rf_sameKey_comm c a, rf_sameKey_comm c b]
  exact rf_sameKey_congr_left h c

theorem rf_keyIn_congr (ks : List Key) {a b : Key} (h : sameKey a b = true) :
    ks.any (fun l => sameKey l a) = ks.any (fun l => sameKey l b) := by
  have : (fun l => sameKey l a) = (fun l => sameKey l b) := by
    funext l; exact rf_sameKey_congr_right h l
  rw [this]

theorem rf_get_dropKeys (m : Dict) (ks : List Key) (k : Key) :
    (dropKeys m ks).get k = if ks.any (fun l => sameKey l k) then none else m.get k := by
  unfold dropKeys Dict.get
  rw [List.find?_filter]
  cases h : ks.any (fun l => sameKey l k) with
  | true =>
    simp only [if_true, Option.map_eq_none_iff, List.find?_eq_none]
    intro p _ hc
    simp only [decide_eq_true_eq] at hc
    rw [rf_keyIn_congr ks hc.2, h] at hc
    exact absurd hc.1 (by simp)
  | false =>
    simp only [Bool.false_eq_true, if_false]
    congr 1
    apply rf_find_congr
    intro p _
    cases h1 : sameKey p.1 k with
    | false => simp
    | true => rw [rf_keyIn_congr ks h1, h]; simp

theorem rf_wf_dropKeys {m : Dict} (h : m.WF) (ks : List Key) : (dropKeys m ks).WF := rf_wf_filter h _

theorem rf_dropKeys_nil (m : Dict) : dropKeys m [] = m := by
  unfold dropKeys
  rw [List.filter_eq_self]
  intro a _; rfl

/-! ### views that lost entries -/

/-- `v2` is `v1` except that the entries of the keys in `lost` were dropped, and possibly some
entries that were expired at `now` -/
def rf_Lossy (now : Int) (lost : List Key) (v1 v2 : Key → Option Entry) : Prop :=
  ∀ k, if lost.any (fun l => sameKey l k) then v2 k = none
       else v2 k = v1 k ∨ (v2 k = none ∧ ∃ e, v1 k = some e ∧ e.expired now = true)

theorem rf_Lossy_nil {now : Int} {v1 v2 : Key → Option Entry} :
    rf_Lossy now [] v1 v2 ↔ rf_Culled now v1 v2 := by
  unfold rf_Lossy rf_Culled
  simp

theorem rf_VRel_lossy {v1 v2 : Key → Option Entry} {now : Int} {lost : List Key}
    (hl : rf_Lossy now lost v1 v2) {m : Dict}
    (h : ∀ k, rf_VRel (v1 k) (m.get k) now) :
    ∀ k, rf_VRel (v2 k) ((dropKeys m lost).get k) now := by
  intro k
  rw [rf_get_dropKeys]
  have hk := hl k
  cases hin : lost.any (fun l => sameKey l k) with
  | true =>
    rw [hin] at hk
    simp only [if_true] at hk ⊢
    exact hk
  | false =>
    rw [hin] at hk
    simp only [Bool.false_eq_true, if_false] at hk ⊢
    exact rf_VRel_culled (v1 := fun _ => v1 k) (v2 := fun _ => v2 k) (fun _ => hk) (k := k) (h k)

/-- the lossy variant of `rf_assemble` -/
theorem rf_assemble_lossy {v v' : Key → Option Entry} {m m' : Dict} {clock now : Int} {K : Key}
    {lost : List Key} {upd : Option Entry → Option Entry}
    (hr : ∀ k, rf_VRel (v k) (m.get k) clock) (hn : clock ≤ now)
    (hA : rf_Lossy now lost (rf_at K (upd (v K)) v) v')
    (hB : ∀ k', m'.get k' = rf_at K (upd (m.get K)) m.get k')
    (hC : ∀ a d, rf_VRel a d now → rf_VRel (upd a) (upd d) now) :
    ∀ k, rf_VRel (v' k) ((dropKeys m' lost).get k) now :=
  rf_VRel_lossy hA (rf_assemble hr hn (rf_Culled_refl _ _) hB hC)

/-- an unexpired entry the cache view holds is the entry the dictionary holds -/
theorem rf_VRel_some {v d : Option Entry} {now : Int} {e : Entry} (h : rf_VRel v d now) (hv : v = some e) :
    d = some e := by
  unfold rf_VRel at h
  split at h
  · rcases h with h | ⟨h, -⟩
    · rw [← h, hv]
    · rw [hv] at h; cases h
  · rw [hv] at h; cases h

/-! ### the generic step -/

theorem rf_keyMatch_self {r : Row} (hnn : r.key ≠ .null) : keyMatch r.key r.raw r = true := by
  simp [keyMatch, eqv_self hnn]

theorem lostRows_sublist (now : Int) (X Y : List Row) : (lostRows now X Y).Sublist X :=
  List.filter_sublist

/-- `c'` holds a subset of the rows `X` and its files are files of `b`: then `c'` denotes what `X`
denotes (read against `b`), minus the keys of the unexpired missing rows, up to culling -/
theorem rf_lossy {c' b : Cache} {X : List Row} {now : Int} (hg' : Good c')
    (hu : KeysUnique X)
    (hsub : ∀ r ∈ c'.rows, r ∈ X)
    (hfiles : ∀ p ∈ c'.files, p ∈ b.files)
    (hnd : (b.files.map (·.1)).Nodup) :
    rf_Lossy now ((lostRows now X c'.rows).map rowKey) (rf_look X b) (rf_view c') := by
  have hent : ∀ r ∈ c'.rows, rf_ent c' r = rf_ent b r :=
    fun r hr => rf_ent_mono hfiles hnd (rf_good_ref hg' hr)
  intro k
  have hnone : ∀ x ∈ X, keyMatch k.1 k.2 x = true → x ∉ c'.rows →
      c'.rows.find? (keyMatch k.1 k.2) = none := by
    intro x hx hkx hxc
    rw [List.find?_eq_none]
    intro y hy hky
    have := keysUnique_eq hu (hsub y hy) hx hky hkx
    subst this
    exact hxc hy
  cases hin : ((lostRows now X c'.rows).map rowKey).any (fun l => sameKey l k) with
  | true =>
    simp only [if_true]
    obtain ⟨l, hl, hlk⟩ := List.any_eq_true.1 hin
    obtain ⟨r, hr, rfl⟩ := List.mem_map.1 hl
    obtain ⟨hrX, -, hrY⟩ := mem_lostRows.1 hr
    unfold rf_view rf_look
    rw [hnone r hrX hlk hrY]; rfl
  | false =>
    simp only [Bool.false_eq_true, if_false]
    unfold rf_view
    rw [rf_look_congr hent k]
    unfold rf_look
    cases hf : X.find? (keyMatch k.1 k.2) with
    | none =>
      left
      have : c'.rows.find? (keyMatch k.1 k.2) = none := by
        rw [List.find?_eq_none]
        intro x hx
        exact List.find?_eq_none.1 hf x (hsub x hx)
      rw [this]
    | some x =>
      have hx := List.mem_of_find?_eq_some hf
      have hkx : keyMatch k.1 k.2 x = true := List.find?_some hf
      by_cases hxc : x ∈ c'.rows
      · left
        rw [rf_find_of_mem hg'.tinv.tbl.uniq hxc hkx]
      · right
        rw [hnone x hx hkx hxc]
        refine ⟨rfl, rf_ent b x, rfl, ?_⟩
        rw [rf_ent_expired]
        cases hex : expired now x with
        | true => rfl
        | false =>
          have : ((lostRows now X c'.rows).map rowKey).any (fun l => sameKey l k) = true :=
            List.any_eq_true.2 ⟨rowKey x, List.mem_map.2 ⟨x, mem_lostRows.2 ⟨hx, hex, hxc⟩, rfl⟩, hkx⟩
          rw [hin] at this; cases this

/-- facts about the missing unexpired rows: what they denoted, that their keys are gone, and that
their keys are pairwise different -/
theorem rf_lost_facts {c' b : Cache} {X : List Row} {now : Int}
    (hu : KeysUnique X) (hnn : ∀ r ∈ X, r.key ≠ .null)
    (hsub : ∀ r ∈ c'.rows, r ∈ X) :
    (∀ r ∈ lostRows now X c'.rows, rf_look X b (rowKey r) = some (rf_ent b r)) ∧
    (∀ r ∈ lostRows now X c'.rows, expired now r = false) ∧
    (∀ r ∈ lostRows now X c'.rows, c'.selKey r.key r.raw = none) ∧
    KeysUnique (lostRows now X c'.rows) := by
  refine ⟨?_, ?_, ?_, List.Pairwise.sublist (lostRows_sublist now X c'.rows) hu⟩
  · intro r hr
    obtain ⟨hrX, -, -⟩ := mem_lostRows.1 hr
    unfold rf_look
    show (X.find? (keyMatch r.key r.raw)).map (rf_ent b) = _
    rw [rf_find_of_mem hu hrX (rf_keyMatch_self (hnn r hrX))]; rfl
  · intro r hr; exact (mem_lostRows.1 hr).2.1
  · intro r hr
    obtain ⟨hrX, -, hrY⟩ := mem_lostRows.1 hr
    unfold selKey
    rw [List.find?_eq_none]
    intro y hy hky
    have := keysUnique_eq hu (hsub y hy) hrX hky (rf_keyMatch_self (hnn r hrX))
    subst this
    exact hrY hy

/-! ### from the table-level facts to the call-level `Loss` -/

theorem fremoveAll_size_env (fs : List (Option Nat)) : ∀ s : Cache,
    (s.fremoveAll fs).size = s.size ∧ (s.fremoveAll fs).env = s.env := by
  induction fs with
  | nil => intro s; exact ⟨rfl, rfl⟩
  | cons a t ih =>
    intro s
    cases a with
    | none => exact ih s
    | some f => exact ih (s.fremove f)

/-- a committed transaction at depth 0 keeps the size counter of its body -/
theorem rf_transact_size (s : Cache) (body : Cache → Body) (fresh : Option Nat) (hd : s.depth = 0)
    (hok : (body (s.log .begin)).ok = true) :
    (s.transact body fresh).1.size = (body (s.log .begin)).s.size := by
  unfold transact
  simp only [hd, Nat.lt_irrefl, if_false, hok, if_true]
  exact (fremoveAll_size_env _ _).1

theorem store_env {s s1 : Cache} {E : Externals} {v : PyVal} {read : Bool} {c : Cols}
    (hs : s.store E v read = .ok (s1, c)) : s1.env = s.env := by
  unfold store at hs
  split at hs
  · cases hs
  · cases hs; rfl
  · cases hs; rfl

/-- the call-level statement: `c'` is the state after the call, `tb` the state at the end of the
transaction body (same rows, same size counter), `X` the table after the INSERT/UPDATE -/
theorem rf_lossy_finish {s c' b tb : Cache} {X : List Row} {now : Int} {K : Key}
    {v1 : Key → Option Entry}
    (hg : Good s) (hg' : Good c')
    (hfacts : CullFacts s.cfg s.env now X tb) (hrows : c'.rows = tb.rows) (hsize : c'.size = tb.size)
    (hu : KeysUnique X) (hnn : ∀ r ∈ X, r.key ≠ .null)
    (hfiles : ∀ p ∈ c'.files, p ∈ b.files) (hnd : (b.files.map (·.1)).Nodup)
    (hl : ∀ k', rf_look X b k' = v1 k')
    (hX : ∀ r ∈ s.rows, keyMatch K.1 K.2 r = false → r ∈ X)
    {w : Int} (hXsz : sumSizes X ≤ s.size + w) :
    ∃ L, rf_Lossy now (L.map rowKey) v1 (rf_view c') ∧ Loss s c' K now L ∧
      (∀ r ∈ L, ∃ e, v1 (rowKey r) = some e ∧ EntOf r e) ∧
      c'.size + sumSizes L ≤ s.size + w := by
  have hsub : ∀ r ∈ c'.rows, r ∈ X := by rw [hrows]; exact hfacts.sub
  have hv : rf_look X b = v1 := funext hl
  obtain ⟨f1, f2, f3, f4⟩ := rf_lost_facts (b := b) (now := now) hu hnn hsub
  refine ⟨lostRows now X c'.rows, ?_, ⟨?_, ?_, ?_, ?_, ?_, f2, f3, f4⟩, ?_⟩
  · rw [← hv]; exact rf_lossy hg' hu hsub hfiles hnd
  · intro _
    have h1 := hfacts.count
    rw [← hrows] at h1
    have h2 : expiredGone s c' K now ≤ (expGone now X c'.rows).length := by
      unfold expiredGone
      apply List.Nodup.length_le_of_subset (hg.tinv.tbl.asc.nodup.sublist List.filter_sublist)
      intro r hr
      obtain ⟨hr1, hr2⟩ := List.mem_filter.1 hr
      simp only [Bool.and_eq_true, Bool.not_eq_true', decide_eq_true_eq] at hr2
      unfold expGone
      exact List.mem_filter.2 ⟨hX r hr1 hr2.1.2, by simp [hr2.1.1, hr2.2]⟩
    omega
  · rw [hrows]; exact hfacts.polNone
  · rw [hrows]; exact hfacts.limZero
  · rw [hrows, hsize]; exact hfacts.vol
  · rw [hrows]; exact hfacts.order
  · refine ⟨?_, ?_⟩
    · intro r hr
      refine ⟨rf_ent b r, ?_, rfl, rfl, rfl, rfl⟩
      rw [← hv]; exact f1 r hr
    · have := hfacts.szle
      rw [← hrows, ← hsize] at this
      exact Int.le_trans this hXsz

theorem loss_nil (c c' : Cache) (K : Key) (now : Int) : Loss c c' K now [] where
  count := fun h => absurd rfl h
  polNone := fun _ => rfl
  limZero := fun _ => rfl
  vol := fun h => absurd rfl h
  order := fun _ h => absurd h List.not_mem_nil
  unexpired := fun _ h => absurd h List.not_mem_nil
  gone := fun _ h => absurd h List.not_mem_nil
  uniq := List.Pairwise.nil

end DC.Cache
