/-
C03_Lossy / C09, table level: what `_cull` (the lazy cull inside every write)
takes from a table — expired rows first, then, only with an eviction policy and
only when the observed volume is not below the limit, the first rows in the
policy's order.  `cullW_loss` collects everything the refinement proofs need
about the rows that were *evicted* (`lostRows`).
-/
import DC.Proofs.LossyDefs
import DC.Proofs.Inv

namespace DC.Cache

theorem sumSizes_filter_add (p : Row → Bool) (l : List Row) :
    sumSizes (l.filter p) + sumSizes (l.filter (fun r => !p r)) = sumSizes l := by
  induction l with
  | nil => rfl
  | cons a t ih =>
    unfold sumSizes at ih ⊢
    cases h : p a <;> simp [h] <;> omega

/-- the removed rows split into the evicted and the expired ones -/
theorem lost_exp_length (now : Int) (X Y : List Row) :
    (lostRows now X Y).length + (expGone now X Y).length =
      (X.filter (fun r => decide (r ∉ Y))).length := by
  unfold lostRows expGone
  induction X with
  | nil => rfl
  | cons a t ih =>
    simp only [List.filter_cons]
    by_cases hY : a ∈ Y
    · simp [hY]; simp at ih; omega
    · cases expired now a <;> simp [hY] <;> simp at ih <;> omega

theorem lostRows_eq_nil {now : Int} {X Y : List Row}
    (h : ∀ r ∈ X, r ∉ Y → expired now r = true) : lostRows now X Y = [] := by
  unfold lostRows
  rw [List.filter_eq_nil_iff]
  intro r hr
  by_cases hY : r ∈ Y
  · simp [hY]
  · simp [h r hr hY]

theorem mem_lostRows {now : Int} {X Y : List Row} {r : Row} :
    r ∈ lostRows now X Y ↔ r ∈ X ∧ expired now r = false ∧ r ∉ Y := by
  unfold lostRows
  simp [List.mem_filter]

/-- everything about the rows `_cull` evicts from a well-formed table -/
theorem cullW_loss (t : Cache) (now : Int) (hi : TableInv t) :
    (∀ r ∈ (t.cullW now).1.rows, r ∈ t.rows) ∧
    (lostRows now t.rows (t.cullW now).1.rows).length + (expGone now t.rows (t.cullW now).1.rows).length
      ≤ t.cfg.cullLimit ∧
    (t.cfg.policy = .none → lostRows now t.rows (t.cullW now).1.rows = []) ∧
    (t.cfg.cullLimit = 0 → lostRows now t.rows (t.cullW now).1.rows = []) ∧
    (lostRows now t.rows (t.cullW now).1.rows ≠ [] → ∀ pb rest, t.env = pb :: rest →
      belowLimit t.cfg ((pb : Int) + (t.cullW now).1.size +
        sumSizes (lostRows now t.rows (t.cullW now).1.rows)) = false) ∧
    (∀ r ∈ lostRows now t.rows (t.cullW now).1.rows, ∀ w ∈ (t.cullW now).1.rows,
      policyKey t.cfg.policy r ≤ policyKey t.cfg.policy w) := by
  have hasc := hi.tbl.asc
  have hsl := cullW_sublist t now hasc
  refine ⟨fun r hr => hsl.subset hr, ?_, ?_, ?_, ?_, ?_⟩
  · rw [lost_exp_length]
    have h1 := length_filter_not_mem hasc.nodup (hasc.nodup.sublist hsl) (fun x hx => hsl.subset hx)
    have h2 := cullW_length t now hasc
    omega
  · intro hp
    apply lostRows_eq_nil
    intro r hr hnot
    cases hex : expired now r with
    | true => rfl
    | false => exact absurd hp (cullW_removed t now hasc r hr hnot hex).1
  · intro h0
    apply lostRows_eq_nil
    intro r hr hnot
    rw [(cull_zero t now h0).1] at hnot
    exact absurd hr hnot
  · intro hne pb rest henv
    obtain ⟨r0, hr0⟩ := List.exists_mem_of_ne_nil _ hne
    obtain ⟨hr0X, hr0e, hr0Y⟩ := mem_lostRows.1 hr0
    have hv := (cullW_removed t now hasc r0 hr0X hr0Y hr0e).2.1 pb rest henv
    -- the size counter before the eviction is the final one plus what was evicted
    have hsz : (t.delIn ((t.selExpired now t.cfg.cullLimit).map (·.rowid))).size =
        (t.cullW now).1.size + sumSizes (lostRows now t.rows (t.cullW now).1.rows) := by
      have hR1 : (t.delIn ((t.selExpired now t.cfg.cullLimit).map (·.rowid))).rows =
          t.rows.filter (fun r => decide (r ∉ t.selExpired now t.cfg.cullLimit)) := by
        rw [delIn_rows_ec, filter_rowids_eq hasc (fun x hx => (selExpired_mem hx).1)]
      rw [(delIn_inv _ hi).tbl.size, (cullW_inv now none hi).tbl.size, hR1]
      obtain ⟨R1, P, hR1d, hP, h⟩ := cullW_spec t now hasc
      have hr0E : r0 ∉ t.selExpired now t.cfg.cullLimit := by
        intro hx; have := (selExpired_mem hx).2; rw [hr0e] at this; cases this
      have hr0R1 : r0 ∈ R1 := by rw [hR1d]; exact List.mem_filter.2 ⟨hr0X, by simpa using hr0E⟩
      rcases h with h | ⟨-, -, h⟩
      · rw [h] at hr0Y; exact absurd hr0R1 hr0Y
      · have hr0P : r0 ∈ P := by
          apply Classical.byContradiction; intro hc
          rw [h] at hr0Y
          exact hr0Y (List.mem_filter.2 ⟨hr0R1, by simpa using hc⟩)
        -- the policy part ran with a positive remaining limit: every expired row is in the page
        have hlt : (t.selExpired now t.cfg.cullLimit).length < t.cfg.cullLimit := by
          apply Classical.byContradiction; intro hc
          have : t.cfg.cullLimit - (t.selExpired now t.cfg.cullLimit).length = 0 := by omega
          rw [this] at hP
          rw [hP] at hr0P
          simp at hr0P
        have hall : ∀ x ∈ t.rows, expired now x = true → x ∈ t.selExpired now t.cfg.cullLimit := by
          intro x hx he
          apply selExpired_all _ hx he
          have : (t.selExpired now t.cfg.cullLimit).length =
              min t.cfg.cullLimit (t.rows.filter (expired now)).length := by
            unfold selExpired
            rw [List.length_take, length_isort_ec]
          omega
        have hL : lostRows now t.rows (t.cullW now).1.rows = R1.filter (fun r => !decide (r ∉ P)) := by
          rw [hR1d, List.filter_filter]
          unfold lostRows
          apply List.filter_congr
          intro x hx
          rw [h, hR1d]
          by_cases hxe : expired now x = true
          · have := hall x hx hxe
            simp [hxe, this]
          · have hxe' : expired now x = false := by simpa using hxe
            have hxE : x ∉ t.selExpired now t.cfg.cullLimit := by
              intro hc; have := (selExpired_mem hc).2; rw [hxe'] at this; cases this
            by_cases hxP : x ∈ P <;> simp [hxe', hxE, hxP, hx]
        rw [hL, h, ← hR1d]
        exact (sumSizes_filter_add (fun r => decide (r ∉ P)) R1).symm
    rw [Int.add_assoc, ← hsz]
    exact hv
  · intro r hr w hw
    obtain ⟨hrX, hre, hrY⟩ := mem_lostRows.1 hr
    have h := (cullW_removed t now hasc r hrX hrY hre).2.2 w hw
    revert h
    cases t.cfg.policy <;> simp [policyLt, policyKey]

/-! ### sizes -/

theorem filter_mem_sublist {α} [DecidableEq α] {Y X : List α} (h : Y.Sublist X) (hn : X.Nodup) :
    X.filter (fun r => decide (r ∈ Y)) = Y := by
  induction h with
  | slnil => rfl
  | cons a h ih =>
    rename_i Y' X'
    have hn' := List.nodup_cons.1 hn
    have : a ∉ Y' := fun hc => hn'.1 (h.subset hc)
    rw [List.filter_cons_of_neg (by simpa using this)]
    exact ih hn'.2
  | cons_cons a h ih =>
    rename_i Y' X'
    have hn' := List.nodup_cons.1 hn
    rw [List.filter_cons_of_pos (by simp)]
    congr 1
    refine Eq.trans (List.filter_congr ?_) (ih hn'.2)
    intro x hx
    have : x ≠ a := fun hc => hn'.1 (hc ▸ hx)
    simp [this]

theorem sumSizes_two_filters_le (p q : Row → Bool) (l : List Row)
    (hpq : ∀ r, p r = true → q r = true → False) :
    sumSizes (l.filter p) + sumSizes (l.filter q) ≤ sumSizes l := by
  induction l with
  | nil => exact Int.le_refl _
  | cons a t ih =>
    unfold sumSizes at ih ⊢
    cases hp : p a <;> cases hq : q a
    · simp [hp, hq]; omega
    · simp [hp, hq]; omega
    · simp [hp, hq]; omega
    · exact absurd hq (fun h => hpq a hp h)

/-- what is left plus what was evicted is at most what there was -/
theorem kept_lost_size_le {now : Int} {X Y : List Row} (h : Y.Sublist X) (hn : X.Nodup) :
    sumSizes Y + sumSizes (lostRows now X Y) ≤ sumSizes X := by
  have := sumSizes_two_filters_le (fun r => decide (r ∈ Y))
    (fun r => !expired now r && decide (r ∉ Y)) X (by intro r h1 h2; simp_all)
  rw [filter_mem_sublist h hn] at this
  exact this

/-- the size counter after `_cull` plus the sizes of the evicted rows is at most the size
counter before -/
theorem cullW_size_le (t : Cache) (now : Int) (hi : TableInv t) :
    (t.cullW now).1.size + sumSizes (lostRows now t.rows (t.cullW now).1.rows) ≤ t.size := by
  rw [(cullW_inv now none hi).tbl.size, hi.tbl.size]
  exact kept_lost_size_le (cullW_sublist t now hi.tbl.asc) hi.tbl.asc.nodup

/-- the conclusions of `cullW_loss`, for a table `X` culled into the state `t'` -/
structure CullFacts (cfg : Cfg) (env : List Nat) (now : Int) (X : List Row) (t' : Cache) : Prop where
  sub : ∀ r ∈ t'.rows, r ∈ X
  count : (lostRows now X t'.rows).length + (expGone now X t'.rows).length ≤ cfg.cullLimit
  polNone : cfg.policy = .none → lostRows now X t'.rows = []
  limZero : cfg.cullLimit = 0 → lostRows now X t'.rows = []
  vol : lostRows now X t'.rows ≠ [] → ∀ pb rest, env = pb :: rest →
    belowLimit cfg ((pb : Int) + t'.size + sumSizes (lostRows now X t'.rows)) = false
  order : ∀ r ∈ lostRows now X t'.rows, ∀ w ∈ t'.rows, policyKey cfg.policy r ≤ policyKey cfg.policy w
  szle : t'.size + sumSizes (lostRows now X t'.rows) ≤ sumSizes X

theorem cullW_facts (t : Cache) (now : Int) (hi : TableInv t) :
    CullFacts t.cfg t.env now t.rows (t.cullW now).1 := by
  obtain ⟨h1, h2, h3, h4, h5, h6⟩ := cullW_loss t now hi
  exact ⟨h1, h2, h3, h4, h5, h6, by rw [← hi.tbl.size]; exact cullW_size_le t now hi⟩

end DC.Cache
