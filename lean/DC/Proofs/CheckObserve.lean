/-
helpers for C08_Check: (1) on a directory whose rows, files and counters agree, `check` is its
directory walk and nothing else; (2) `Good` depends only on the rows, the files and the
transaction bookkeeping, so the read-only calls keep it.
-/
import DC.Proofs.CheckTop
import DC.Proofs.Files
import DC.Model.Run

namespace DC.Check

/-- `Clean` without the two clauses about empty directories -/
structure ItemsClean (s : St) : Prop where
  ref : ∀ r ∈ s.rows, ∀ f, r.file = some f → ∃ ff ∈ s.files, ff.id = f ∧ ff.size = r.size
  known : ∀ ff ∈ s.files, ff.db = false → ∃ r ∈ s.rows, r.file = some ff.id
  count : s.count = s.rows.length
  size : s.size = sumSizes s.rows

theorem rows'_of_itemsClean (s : St) (fnd : (s.files.map (·.id)).Nodup) (c : ItemsClean s) :
    rows' s = s.rows := by
  apply filterMap_eq_self
  intro r hr
  cases hf : r.file with
  | none => exact fixRow_none hf
  | some f =>
    obtain ⟨ff, hm, hid, hsz⟩ := c.ref r hr f hf
    have := find_id_of_mem fnd hm
    rw [hid] at this
    rw [fixRow_found hf this, hsz]

theorem files'_of_itemsClean (s : St) (c : ItemsClean s) : files' s = s.files := by
  apply filter_eq_self'
  intro f hf
  cases hdb : f.db with
  | true => simp
  | false =>
    obtain ⟨r, hr, e⟩ := c.known f hf hdb
    simp only [Bool.or_false, List.contains_eq_mem, List.mem_filterMap, decide_eq_true_eq]
    exact ⟨r, hr, e⟩

/-- rows, files and counters agree: `check` reports what its directory walk reports, and
`check(fix=True)` does what its directory walk does, nothing else -/
theorem check_of_itemsClean (s : St) (nd : (s.rows.map (·.rowid)).Nodup)
    (fnd : (s.files.map (·.id)).Nodup) (c : ItemsClean s) :
    (check false s).2 = (dirPass false s).2 ∧ check true s = dirPass true s := by
  have er := rows'_of_itemsClean s fnd c
  have ef := files'_of_itemsClean s c
  have hR : rowWarns s.files s.rows = [] := by
    rw [rowWarns_nil_iff]
    intro r hr f hf
    obtain ⟨ff, hm, hid, hsz⟩ := c.ref r hr f hf
    have := find_id_of_mem fnd hm
    rw [hid] at this
    exact ⟨ff, this, hsz⟩
  have hU : (filePass false (s.rows.filterMap (·.file)) s).2 = [] := (filePass_nil_iff false s).2 c.known
  have hC : counterWarns s.count s.size s.rows = [] := counterWarns_nil_iff.2 ⟨c.count, c.size⟩
  constructor
  · rw [check_false_snd', hR, hU, hC]; simp
  · apply Prod.ext
    · show (check true s).1 = (dirPass true s).1
      rw [check_true_fst' s nd, dirPass_fst_true, er, ← c.count, ← c.size]
      have e2 : dirs2' s = s.dirs2.filter (fun d => !dir2Empty s d) := by
        simp only [dirs2', ef, dir2Empty, Bool.not_not]
      have e1 : dirs1' s = s.dirs1.filter (fun d =>
          (s.dirs2.filter (fun d => !dir2Empty s d)).any (·.1 == d) || s.files.any (·.under d)) := by
        simp only [dirs1', e2, ef]
      rw [e1, e2, ef]
    · show (check true s).2 = (dirPass true s).2
      obtain ⟨c', z', hc', hz', e⟩ := check_true_snd_exact s nd
      have es : ({ s with files := files' s } : St) = s := by rw [ef]
      rw [e, hR, hU, es, er]
      have : counterWarns c' z' s.rows = [] := by
        rw [counterWarns_nil_iff]
        rw [er] at hc' hz'
        have := c.count; have := c.size
        constructor <;> omega
      simp [this]

/-- what the fixing directory walk removes is what it reports -/
theorem dirPass_true_removed (s : St) :
    (dirPass true s).1.rows = s.rows ∧ (dirPass true s).1.count = s.count ∧
    (dirPass true s).1.size = s.size ∧ (dirPass true s).1.files = s.files ∧
    (∀ d ∈ s.dirs2, d ∉ (dirPass true s).1.dirs2 ↔ Warn.emptyDir2 d.1 d.2 ∈ (dirPass true s).2) ∧
    (∀ d ∈ s.dirs1, d ∉ (dirPass true s).1.dirs1 ↔ Warn.emptyDir1 d ∈ (dirPass true s).2) ∧
    (∀ d ∈ (dirPass true s).1.dirs2, d ∈ s.dirs2) ∧ (∀ d ∈ (dirPass true s).1.dirs1, d ∈ s.dirs1) := by
  rw [dirPass_fst_true, dirPass_snd_true]
  refine ⟨rfl, rfl, rfl, rfl, ?_, ?_, fun d hd => (List.mem_filter.1 hd).1, fun d hd => (List.mem_filter.1 hd).1⟩
  · intro d hd
    simp only [List.mem_filter, hd, true_and, List.mem_append, List.mem_map, reduceCtorEq, and_false,
      exists_false, or_false, Warn.emptyDir2.injEq]
    constructor
    · intro h
      exact ⟨d, ⟨hd, by simpa using h⟩, rfl, rfl⟩
    · rintro ⟨d', ⟨_, he⟩, e1, e2⟩
      have : d' = d := Prod.ext e1 e2
      subst this
      simpa using he
  · intro d hd
    simp only [List.mem_filter, hd, true_and, List.mem_append, List.mem_map, reduceCtorEq, and_false,
      exists_false, false_or, Warn.emptyDir1.injEq, exists_eq_right]
    constructor
    · intro h
      simpa using h
    · intro h
      simpa using h

end DC.Check

namespace DC.Cache

/-- `Good` reads only these seven fields of the state -/
theorem good_of_same {s t : Cache} (hg : Good s) (ht : TableInv t)
    (h1 : t.rows = s.rows) (h2 : t.files = s.files) (h3 : t.nfile = s.nfile) (h4 : t.depth = s.depth)
    (h5 : t.snap = s.snap) (h6 : t.pending = s.pending) (h7 : t.created = s.created) : Good t := by
  refine ⟨ht, ⟨?_, ?_, ?_, ?_⟩, ?_, by rw [h4]; exact hg.depth, by rw [h5]; exact hg.snap,
    by rw [h6]; exact hg.pending, by rw [h7]; exact hg.created⟩
  · intro r hr f hf
    rw [h1] at hr
    have : t.fileGet f = s.fileGet f := by unfold fileGet; rw [h2]
    rw [this]
    exact hg.finv.ref r hr f hf
  · rw [h1]; exact hg.finv.inj
  · rw [h2, h3]; exact hg.finv.fresh
  · rw [h2]; exact hg.finv.nodup
  · intro p hp
    rw [h2] at hp
    rw [h1]
    exact hg.noOrphan p hp

theorem iterLoop_same (asc : Bool) (bound : Nat) : ∀ (fuel : Nat) (s : Cache) (cur : Nat) (acc : List Row),
    core (iterLoop asc bound fuel s cur acc).1 = core s := by
  intro fuel
  induction fuel with
  | zero => intro s cur acc; rfl
  | succ k ih =>
    intro s cur acc
    simp only [iterLoop]
    split
    · rfl
    · rw [ih]; rfl

theorem iterkeysLoop_same (rev : Bool) : ∀ (fuel : Nat) (s : Cache) (cur : Row) (acc : List Row),
    core (iterkeysLoop rev fuel s cur acc).1 = core s := by
  intro fuel
  induction fuel with
  | zero => intro s cur acc; rfl
  | succ k ih =>
    intro s cur acc
    simp only [iterkeysLoop]
    split
    · rfl
    · rw [ih]; rfl

theorem good_of_core {s t : Cache} (hg : Good s) (ht : TableInv t) (hc : core t = core s) : Good t := by
  simp only [core, Core.mk.injEq] at hc
  obtain ⟨h1, h2, h3, h4, h5, h6, h7, -, -⟩ := hc
  exact good_of_same hg ht h1 h2 h3 h4 h5 h6 h7

theorem iter_core (s : Cache) (E : Externals) (asc : Bool) : core (s.iter E asc).1 = core s := by
  unfold iter
  simp only
  split
  · rfl
  · rw [iterLoop_same]; rfl

theorem iterkeys_core (s : Cache) (E : Externals) (rev : Bool) : core (s.iterkeys E rev).1 = core s := by
  unfold iterkeys
  simp only
  split
  · rfl
  · rw [iterkeysLoop_same]; rfl

end DC.Cache
