/-
Helper lemmas for C19_Lossy: clocks of concatenated Django histories, the lossy Django-level
specification through the translation to Cache calls, and the frame property of the lossy
specification (a call that does not write to a key leaves its binding alone; only a drop can
remove it).
-/
import DC.Properties.C13_Lossy
import DC.Properties.C19_Refine

namespace DC.Django
open DC.Cache DC.Spec DC.Fanout DC.DjSpec

/-! ### clocks -/

/-- the clock after a history -/
def dlastClock (t : Int) (ops : List DOp) : Int := ops.foldl (fun t op => (dclock op).getD t) t

theorem djlz_lastClock (C : Conf) (t : Int) (ops : List DOp) :
    lastClock t (ops.map (toOp C)) = dlastClock t ops := by
  unfold lastClock dlastClock
  induction ops generalizing t with
  | nil => rfl
  | cons op ops ih =>
    rw [List.map_cons, List.foldl_cons, List.foldl_cons, djrf_opClock]
    exact ih _

theorem djlz_dmonotone_cons (t : Int) (op : DOp) (ops : List DOp) :
    DMonotone t (op :: ops) ↔
      (∀ n, dclock op = some n → t ≤ n) ∧ DMonotone ((dclock op).getD t) ops := by
  unfold DMonotone
  rw [dmonotoneB]
  cases dclock op with
  | none => simp
  | some n => simp

theorem djlz_dmonotone_append (t : Int) (a b : List DOp) :
    DMonotone t (a ++ b) ↔ DMonotone t a ∧ DMonotone (dlastClock t a) b := by
  induction a generalizing t with
  | nil => exact ⟨fun h => ⟨rfl, h⟩, fun h => h.2⟩
  | cons op a ih =>
    rw [List.cons_append, djlz_dmonotone_cons, djlz_dmonotone_cons, ih]
    exact ⟨fun ⟨h1, h2, h3⟩ => ⟨⟨h1, h2⟩, h3⟩, fun ⟨⟨h1, h2⟩, h3⟩ => ⟨h1, h2, h3⟩⟩

theorem djlz_dmonotone_le {t : Int} {a : List DOp} (h : DMonotone t a) : t ≤ dlastClock t a := by
  induction a generalizing t with
  | nil => exact Int.le_refl _
  | cons op a ih =>
    obtain ⟨h1, h2⟩ := (djlz_dmonotone_cons t op a).1 h
    have := ih h2
    show t ≤ dlastClock ((dclock op).getD t) a
    cases hc : dclock op with
    | none => rw [hc] at this; exact this
    | some n => rw [hc] at this; exact Int.le_trans (h1 n hc) this

/-! ### the lossy Django-level specification is the lossy dictionary under the namespaced keys -/

theorem djlz_spec_runLossy (m : Spec.Dict) (C : Conf) (cfg : Cfg) (ops : List DOp)
    (drops : List (List Spec.Key)) :
    DjSpec.runLossy m C cfg ops drops = Spec.runLossy m cfg (ops.map (toOp C)) drops := by
  induction ops generalizing m drops with
  | nil => rfl
  | cons op ops ih =>
    show DjSpec.runLossy (dropKeys (DjSpec.step m C cfg op).1 (drops.headD [])) C cfg ops drops.tail = _
    rw [ih, djrf_spec_step]
    rfl

theorem djlz_spec_outsLossy (m : Spec.Dict) (C : Conf) (cfg : Cfg) (ops : List DOp)
    (drops : List (List Spec.Key)) :
    DjSpec.outsLossy m C cfg ops drops = postAll ops (Spec.outsLossy m cfg (ops.map (toOp C)) drops) := by
  induction ops generalizing m drops with
  | nil => rfl
  | cons op ops ih =>
    rw [DjSpec.outsLossy, List.map_cons, Spec.outsLossy, postAll, ih, djrf_spec_step]

theorem djlz_runLossy_cons (m : Spec.Dict) (C : Conf) (cfg : Cfg) (op : DOp) (ops : List DOp)
    (D : List Spec.Key) (Ds : List (List Spec.Key)) :
    DjSpec.runLossy m C cfg (op :: ops) (D :: Ds) =
      DjSpec.runLossy (dropKeys (DjSpec.step m C cfg op).1 D) C cfg ops Ds := rfl

/-! ### frames -/

/-- **calls that do not write to `(key, version)` leave its binding alone on the lossy
specification too — unless the key is dropped**: afterwards the key is bound as before, or it is
unbound and occurs in one of the drop lists -/
theorem djlz_runLossy_frame (m : Spec.Dict) (C : Conf) (cfg : Cfg) (hd : cfg.disk = .pickle)
    (ops : List DOp) (drops : List (List Spec.Key)) (E : Externals) (k : Str) (ver : Option Int)
    (hw : ∀ op ∈ ops, writesTo C k (ver.getD C.version) op = false) :
    (DjSpec.runLossy m C cfg ops drops).get (keyOf E cfg (key C k ver)) =
        m.get (keyOf E cfg (key C k ver)) ∨
    ((DjSpec.runLossy m C cfg ops drops).get (keyOf E cfg (key C k ver)) = none ∧
      ∃ D ∈ drops.take ops.length, D.any (fun l => sameKey l (keyOf E cfg (key C k ver))) = true) := by
  induction ops generalizing m drops with
  | nil => exact .inl rfl
  | cons op ops ih =>
    have hfr := djrf_frame m C cfg hd op E k ver (hw op List.mem_cons_self)
    have hw' : ∀ o ∈ ops, writesTo C k (ver.getD C.version) o = false :=
      fun o ho => hw o (List.mem_cons_of_mem _ ho)
    have hstep : DjSpec.runLossy m C cfg (op :: ops) drops =
        DjSpec.runLossy (dropKeys (DjSpec.step m C cfg op).1 (drops.headD [])) C cfg ops drops.tail := rfl
    rw [hstep]
    have hmem : ∀ D, (D = drops.headD [] ∧ D ≠ []) ∨ D ∈ drops.tail.take ops.length →
        D ∈ drops.take (op :: ops).length := by
      intro D hD
      cases drops with
      | nil =>
        rcases hD with ⟨h1, h2⟩ | h
        · exact absurd h1 h2
        · simp at h
      | cons d ds =>
        rw [List.length_cons, List.take_succ_cons]
        rcases hD with ⟨h1, -⟩ | h
        · rw [h1]; exact List.mem_cons_self
        · exact List.mem_cons_of_mem _ h
    have hget : (dropKeys (DjSpec.step m C cfg op).1 (drops.headD [])).get (keyOf E cfg (key C k ver)) =
        if (drops.headD []).any (fun l => sameKey l (keyOf E cfg (key C k ver))) then none
        else m.get (keyOf E cfg (key C k ver)) := by
      rw [rf_get_dropKeys, hfr]
    rcases ih (dropKeys (DjSpec.step m C cfg op).1 (drops.headD [])) drops.tail hw' with h | ⟨h1, D, hD, hany⟩
    · cases ha : (drops.headD []).any (fun l => sameKey l (keyOf E cfg (key C k ver))) with
      | false =>
        rw [ha] at hget
        exact .inl (h.trans hget)
      | true =>
        rw [ha] at hget
        refine .inr ⟨h.trans hget, drops.headD [], hmem _ (.inl ⟨rfl, ?_⟩), ha⟩
        intro h0
        rw [h0] at ha
        cases ha
    · exact .inr ⟨h1, D, hmem D (.inr hD), hany⟩

end DC.Django
