/-
Helper lemmas for C10_LooseRefine, part 2: `push` under the loose relation — any
`cull_limit`, an expiry time on the pushed item allowed: the lazy cull of the write may remove
expired rows from every queue (`Thinned`), and the number of the new item is whatever the cache
picks (`last physical key ± 1`); the reference is told (`QSpec.pushAt`).
-/
import DC.Proofs.QLooseSteps

namespace DC.Cache
open DC.Spec DC.QSpec

/-- rows of one queue with well-formed keys are told apart by their numbers -/
theorem rows_num_inj {R : List Row} (hu : KeysUnique R) (hn : ∀ r ∈ R, r.key ≠ .null) (p : Option Str)
    {L : List Row} (hsub : ∀ r ∈ L, r ∈ R)
    (hk : ∀ r ∈ L, r.raw = true ∧ ∃ m, queueNum r.key = some m ∧ queueKey p m = r.key) :
    ∀ x ∈ L, ∀ y ∈ L, (queueNum x.key).getD 0 = (queueNum y.key).getD 0 → x = y := by
  intro x hx y hy he
  obtain ⟨rx, mx, h1, h2⟩ := hk x hx
  obtain ⟨ry, my, h3, h4⟩ := hk y hy
  rw [h1, h3] at he
  simp only [Option.getD_some] at he
  subst he
  have hkey : x.key = y.key := by rw [← h2, ← h4]
  have hsx : keyMatch x.key true x = true := by simp [keyMatch, eqv_self (hn x (hsub x hx)), rx]
  have hsy : keyMatch x.key true y = true := by
    rw [hkey]; simp [keyMatch, eqv_self (hn y (hsub y hy)), ry]
  exact keysUnique_eq hu (hsub x hx) (hsub y hy) hsx hsy

/-- **one `push`, loosely**.  `num` is the number the cache gives the new item; it is the number
of no item physically present in that queue — in particular of no live item.
`httl`: the item is not pushed already expired (`expire ≥ 0`). -/
theorem ql_push_step (c : Cache) (q : QSpec.State) (n : Nat) (clock now : Int) (E : Externals)
    (v : PyVal) (p : Option Str) (back : Bool) (ttl : Option Int) (read : Bool) (tag : SqlVal)
    (hok : QOkL c (n + 1)) (hr : QLoose c q clock) (hn : clock ≤ now) (httl : TtlOk ttl) :
    ∃ num : Int,
      (c.push E now v p back ttl read tag).2 = (QSpec.pushAt q E c.cfg now v p back ttl read tag num).2 ∧
      QLoose (c.push E now v p back ttl read tag).1 (QSpec.pushAt q E c.cfg now v p back ttl read tag num).1 now ∧
      QOkL (c.push E now v p back ttl read tag).1 n ∧
      (c.push E now v p back ttl read tag).1.cfg = c.cfg ∧
      (∀ it ∈ absQueue c p, it.num ≠ num) := by
  have hg := hok.good
  have hg' := push_good c E now v p back ttl read tag hg
  obtain ⟨hnum, hlo, hhi⟩ := qr_pushNum hok p back
  refine ⟨nextNum c.cfg back (absQueue c p), ?_⟩
  generalize nextNum c.cfg back (absQueue c p) = num at hnum hlo hhi ⊢
  obtain ⟨num', hnum', hfit, -, hord⟩ := pushNum_spec c p back hg.tinv (hok.qok p) hok.origin
  rw [hnum] at hnum'
  cases hnum'
  have h1 : 1 ≤ num := by omega
  have h2 : num ≤ 999999999999998 := by omega
  have hsel := selKey_new_none c p num h1 h2 back hord
  have hfresh : ∀ it ∈ absQueue c p, it.num ≠ num := by
    intro it hit
    obtain ⟨r, hr', rfl⟩ := List.mem_map.1 hit
    obtain ⟨m, hm1, hm2, -, -⟩ := hok.qok p r hr'
    intro e
    simp only [itemOfRow, hm1, Option.getD_some] at e
    subst e
    have := hord r hr'
    rw [← hm2] at this
    cases back <;> simp [SqlVal.lt_irrefl] at this
  have hst := rf_store c E v read hg.pi
  unfold QSpec.pushAt
  cases hpl : place E c.cfg.disk c.cfg.minFileSize v read with
  | error e =>
    rw [hpl] at hst
    simp only at hst ⊢
    rw [push_eq, hst]
    exact ⟨rfl, hr.mono hn, hok.mono, rfl, hfresh⟩
  | ok pl =>
    rw [hpl] at hst
    obtain ⟨s1, c0, hst, hrows, hcfg, hP1, hfsub, hexp, htag, hval, hent1⟩ := hst
    simp only
    have hS : c.push E now v p back ttl read tag = s1.transact (fresh := c0.file)
        (pushBody now p back { c0 with expT := ttl.map (now + ·), tag := tag }) := by
      rw [push_eq, hst]
    rw [hS] at hg' ⊢
    obtain ⟨hR, hF, hC, hO⟩ := rf_transact s1
      (pushBody now p back { c0 with expT := ttl.map (now + ·), tag := tag }) c0.file hP1.depth
    have hentS : ∀ r ∈ c.rows, rf_ent s1 r = rf_ent c r :=
      fun r hr' => (rf_ent_mono hfsub hP1.nodup (rf_good_ref hg hr')).symm
    have hi1 : TableInv (s1.log .begin) := log_inv _ (store_inv hst hg.tinv).1
    have hnum1 : pushNum (s1.log .begin) p back = some num := by
      rw [pushNum_congr (s := c) (t := s1.log .begin) hrows hcfg]; exact hnum
    have hsel1 : (s1.log .begin).selKey (queueKey p num) true = none := by
      rw [selKey_congr (s := c) (t := s1.log .begin) hrows]; exact hsel
    rw [rf_entryOf_tag, rf_entryOf_val pl _ none _ .null, ← hval]
    by_cases hb : (bindable tag && bindable c0.val && bindable (queueKey p num)) = true
    · rw [if_pos hb]
      simp only [Bool.and_eq_true] at hb
      have hcb : ({ c0 with expT := ttl.map (now + ·), tag := tag } : Cols).bindable = true := by
        simp only [Cols.bindable, Bool.and_eq_true]; exact hb.1
      have hbody := pushBody_some (now := now) hnum1 hsel1 hcb hb.2
      rw [hbody] at hR hF hC hO
      simp only [if_true] at hR
      -- the table after the INSERT, before the lazy cull
      have hX : TableInv (((s1.log .begin).logSql "selQueueEnd").insRow (queueKey p num) true now
          { c0 with expT := ttl.map (now + ·), tag := tag }) :=
        insRow_inv _ _ _ _ (logSql_inv _ hi1) hsel1 (queueKey_ne_null p num)
      have hXrows : (((s1.log .begin).logSql "selQueueEnd").insRow (queueKey p num) true now
          { c0 with expT := ttl.map (now + ·), tag := tag }).rows =
          c.rows ++ [mkRow c.rows (queueKey p num) now { c0 with expT := ttl.map (now + ·), tag := tag }] := by
        rw [insRow_rows]
        show s1.rows ++ [mkRow s1.rows _ _ _] = _
        rw [hrows]
      have hXcfg : (((s1.log .begin).logSql "selQueueEnd").insRow (queueKey p num) true now
          { c0 with expT := ttl.map (now + ·), tag := tag }).cfg = c.cfg := hcfg
      rw [qr_cullW_none _ now hX.tbl.asc (by rw [hXcfg]; exact hok.pol)] at hR
      rw [cullW_cfg_eq, hXcfg] at hC
      rw [hXrows] at hR
      generalize hnew : mkRow c.rows (queueKey p num) now { c0 with expT := ttl.map (now + ·), tag := tag } = new at hR hXrows
      generalize hgdef : (fun r => decide (r ∉ (((s1.log .begin).logSql "selQueueEnd").insRow (queueKey p num) true now
          { c0 with expT := ttl.map (now + ·), tag := tag }).selExpired now
            (((s1.log .begin).logSql "selQueueEnd").insRow (queueKey p num) true now
          { c0 with expT := ttl.map (now + ·), tag := tag }).cfg.cullLimit)) = g at hR
      generalize hc' : (s1.transact (fresh := c0.file)
        (pushBody now p back { c0 with expT := ttl.map (now + ·), tag := tag })).1 = c' at hR hF hC hO hg' ⊢
      have hnewkey : new.key = queueKey p num := by rw [← hnew]; rfl
      have hnewraw : new.raw = true := by rw [← hnew]; rfl
      have hnewexp : new.expT = ttl.map (now + ·) := by rw [← hnew]; rfl
      have hqnew : qfilter p new = true :=
        qfilter_iff.2 ⟨by rw [hnewkey]; exact kfilter_queueKey p num h1 h2, hnewraw⟩
      have hU : KeysUnique (c.rows ++ [new]) := by rw [← hXrows]; exact hX.tbl.uniq
      have hNN : ∀ x ∈ c.rows ++ [new], x.key ≠ .null := by rw [← hXrows]; exact hX.tbl.nonnull
      have hgexp : ∀ x, g x = false → expired now x = true ∧ c.cfg.cullLimit ≠ 0 := by
        intro x hx
        rw [← hgdef] at hx
        simp only [decide_eq_false_iff_not, Decidable.not_not] at hx
        refine ⟨(selExpired_mem hx).2, ?_⟩
        intro h0
        have hz : ∀ t : Cache, t.selExpired now 0 = [] := by intro t; unfold selExpired; simp
        simp [hXcfg, h0, hz] at hx
      have hnewlive : expired now new = false := by
        unfold expired
        rw [hnewexp]
        cases ht : ttl with
        | none => rfl
        | some d => have := httl d ht; simp only [Option.map_some, decide_eq_false_iff_not]; omega
      have hgnew : g new = true := by
        cases hgx : g new with
        | true => rfl
        | false => rw [(hgexp new hgx).1] at hnewlive; cases hnewlive
      -- the queues afterwards: the queue with the new row at its end, culled
      have hQ : ∀ p', c'.queueRows p' =
          (if p' = p then (if back then c.queueRows p ++ [new] else new :: c.queueRows p)
          else c.queueRows p').filter g := by
        intro p'
        simp only [queueRows_eq]
        rw [hR, qrows_filter hU hNN]
        congr 1
        by_cases hp : p' = p
        · subst hp
          rw [if_pos rfl]
          cases back with
          | true =>
            simp only [if_true]
            exact qrows_append_back new hU hNN p' hqnew (by
              intro x hx
              rw [← queueRows_eq] at hx
              have := hord x hx
              simp only [if_true] at this
              show x.key.lt new.key = true
              rw [hnewkey]; exact this)
          | false =>
            simp only [Bool.false_eq_true, if_false]
            exact qrows_append_front new hU hNN p' hqnew (by
              intro x hx
              rw [← queueRows_eq] at hx
              have := hord x hx
              simp only [Bool.false_eq_true, if_false] at this
              show new.key.lt x.key = true
              rw [hnewkey]; exact this)
        · rw [if_neg hp]
          exact qrows_append_notin _ _ _ (qfilter_other (Ne.symm hp) num hfit new hnewkey)
      -- the entries afterwards, read in the state `s1` (value file written, before the insert)
      have hfiles' : ∀ f ∈ c'.files, f ∈ s1.files := by
        intro f hf
        have := hF f hf
        rw [cullW_files] at this
        exact this
      have hent' : ∀ r ∈ c'.rows, rf_ent c' r = rf_ent s1 r :=
        fun r hr' => rf_ent_mono hfiles' hP1.nodup (rf_good_ref hg' hr')
      have hentnew : rf_ent s1 new = entryOf pl (ttl.map (now + ·)) tag := by
        rw [hent1 new (by rw [← hnew]; rfl) (by rw [← hnew]; rfl) (by rw [← hnew]; rfl), hnewexp]
        congr 1
        rw [← hnew]; rfl
      have hitem' : ∀ r ∈ c'.rows, itemOfRow c' r = itemOfRow s1 r := by
        intro r hr'
        unfold itemOfRow
        rw [entryOfRow_eq, entryOfRow_eq, hent' r hr']
      have hitemold : ∀ p', ∀ r ∈ c.queueRows p', itemOfRow s1 r = itemOfRow c r := by
        intro p' r hr'
        have hrr : r ∈ c.rows := by rw [queueRows_eq] at hr'; exact (mem_qrows.1 hr').1
        unfold itemOfRow
        rw [entryOfRow_eq, entryOfRow_eq, hentS r hrr]
      have hitemnew : itemOfRow s1 new = ⟨num, entryOf pl (ttl.map (now + ·)) tag⟩ := by
        unfold itemOfRow
        rw [entryOfRow_eq, hentnew, hnewkey, queueNum_queueKey p num hfit]
        rfl
      -- the rows of the queues before the cull
      have hXsub : ∀ p', ∀ r ∈ (if p' = p then (if back then c.queueRows p ++ [new] else new :: c.queueRows p)
          else c.queueRows p'), (r ∈ c.queueRows p' ∨ (p' = p ∧ r = new)) := by
        intro p' r hr'
        by_cases hp : p' = p
        · subst hp
          simp only [if_true] at hr'
          cases back with
          | true =>
            simp only [if_true] at hr'
            rcases List.mem_append.1 hr' with h | h
            · exact .inl h
            · exact .inr ⟨rfl, List.mem_singleton.1 h⟩
          | false =>
            simp only [Bool.false_eq_true, if_false] at hr'
            rcases List.mem_cons.1 hr' with h | h
            · exact .inr ⟨rfl, h⟩
            · exact .inl h
        · rw [if_neg hp] at hr'; exact .inl hr'
      have hXmap : ∀ p', (if p' = p then (if back then c.queueRows p ++ [new] else new :: c.queueRows p)
          else c.queueRows p').map (itemOfRow s1) =
          (if p' = p then (if back then absQueue c p ++ [⟨num, entryOf pl (ttl.map (now + ·)) tag⟩]
            else ⟨num, entryOf pl (ttl.map (now + ·)) tag⟩ :: absQueue c p) else absQueue c p') := by
        intro p'
        unfold absQueue
        by_cases hp : p' = p
        · subst hp
          simp only [if_true]
          cases back with
          | true =>
            simp only [if_true, List.map_append, List.map_cons, List.map_nil, hitemnew]
            congr 1
            exact List.map_congr_left (hitemold p')
          | false =>
            simp only [Bool.false_eq_true, if_false, List.map_cons, hitemnew]
            congr 1
            exact List.map_congr_left (hitemold p')
        · simp only [if_neg hp]
          exact List.map_congr_left (hitemold p')
      have hAbs : ∀ p', Thinned now (absQueue c' p')
          (if p' = p then (if back then absQueue c p ++ [⟨num, entryOf pl (ttl.map (now + ·)) tag⟩]
            else ⟨num, entryOf pl (ttl.map (now + ·)) tag⟩ :: absQueue c p) else absQueue c p') := by
        intro p'
        have e1 : absQueue c' p' = ((if p' = p then (if back then c.queueRows p ++ [new] else new :: c.queueRows p)
            else c.queueRows p').filter g).map (itemOfRow s1) := by
          unfold absQueue
          rw [← hQ p']
          apply List.map_congr_left
          intro r hr'
          rw [queueRows_eq] at hr'
          exact hitem' r (mem_qrows.1 hr').1
        rw [e1, ← hXmap p']
        apply thinned_map_filter
        · have hkk : ∀ r ∈ (if p' = p then (if back then c.queueRows p ++ [new] else new :: c.queueRows p)
              else c.queueRows p'), r.raw = true ∧ ∃ m, queueNum r.key = some m ∧ queueKey p' m = r.key := by
            intro r hr'
            rcases hXsub p' r hr' with h | ⟨hp, rfl⟩
            · obtain ⟨m, a1, a2, -, -⟩ := hok.qok p' r h
              rw [queueRows_eq] at h
              exact ⟨qfilter_raw (mem_qrows.1 h).2, m, a1, a2⟩
            · subst hp
              exact ⟨hnewraw, num, by rw [hnewkey]; exact queueNum_queueKey p' num hfit, hnewkey.symm⟩
          have hss : ∀ r ∈ (if p' = p then (if back then c.queueRows p ++ [new] else new :: c.queueRows p)
              else c.queueRows p'), r ∈ c.rows ++ [new] := by
            intro r hr'
            rcases hXsub p' r hr' with h | ⟨-, rfl⟩
            · rw [queueRows_eq] at h; exact List.mem_append_left _ (mem_qrows.1 h).1
            · simp
          intro x hx y hy hxy
          exact rows_num_inj hU hNN p' hss hkk x hx y hy (congrArg Item.num hxy)
        · intro x _ hgx
          exact (hgexp x hgx).1
      refine ⟨hO, ⟨?_, hr.wf, hr.ord, ?_⟩, ?_, hC, hfresh⟩
      · -- the queues correspond
        intro p'
        show Thinned now _ ((q.queues.put p _).get p')
        rw [get_put]
        refine (hAbs p').trans ?_
        by_cases hp : p' = p
        · subst hp
          rw [if_pos rfl, if_pos rfl]
          exact ((hr.queues p').mono hn).add _ (by
            show Spec.Entry.expired now (entryOf pl (ttl.map (now + ·)) tag) = false
            have : (entryOf pl (ttl.map (now + ·)) tag).expired now = expired now new := by
              rw [← hentnew]; rfl
            rw [this]; exact hnewlive) back
        · rw [if_neg hp, if_neg (Ne.symm hp)]
          exact (hr.queues p').mono hn
      · -- the dictionary part: only expired rows of ordinary keys may be gone
        intro k hk
        rw [holdsKey_iff]
        have h0 := rf_VRel_mono ((holdsKey_iff _ _ _ _).1 (hr.dict k hk)) hn
        have hcul := rf_culled (c' := c') (b := s1) (X := c.rows ++ [new]) (now := now) hg' hU
          (fun r hr' => by rw [hR] at hr'; exact (List.mem_filter.1 hr').1)
          (fun r hr' hnot => by
            cases hgx : g r with
            | true => exact absurd (by rw [hR]; exact List.mem_filter.2 ⟨hr', hgx⟩) hnot
            | false => exact (hgexp r hgx).1)
          hfiles' hP1.nodup
        have hlook : rf_look (c.rows ++ [new]) s1 k = rf_view c k := by
          rw [rf_look_append, keyMatch_ordinary hk hqnew]
          simp only [Bool.false_eq_true, if_false, Option.or_none]
          exact rf_look_congr hentS k
        have := rf_VRel_culled hcul (k := k) (d := q.dict.get k) (by rw [hlook]; exact h0)
        exact this
      · -- the invariant, with one unit of the budget used
        have hmemq : ∀ p', ∀ r ∈ c'.queueRows p', r ∈ c.queueRows p' ∨ (p' = p ∧ r = new) := by
          intro p' r hr'
          rw [hQ p'] at hr'
          exact hXsub p' r (List.mem_filter.1 hr').1
        refine ⟨hg', by rw [hC]; exact hok.pol, by rw [hC]; exact hok.page, ?_, ?_, ?_, ?_, ?_⟩
        · intro p' r hr'
          rcases hmemq p' r hr' with h | ⟨hp, rfl⟩
          · exact hok.qok p' r h
          · subst hp
            exact ⟨num, by rw [hnewkey]; exact queueNum_queueKey p' num hfit, hnewkey.symm, h1, h2⟩
        · intro p' r hr' k hk
          rcases hmemq p' r hr' with h | ⟨hp, rfl⟩
          · have := hok.room p' r h k hk
            constructor <;> omega
          · subst hp
            rw [hnewkey, queueNum_queueKey p' num hfit] at hk
            cases hk
            exact ⟨hlo, hhi⟩
        · unfold OriginOk; rw [hC]; exact hok.origin
        · rw [hC]
          have := hok.originN
          constructor <;> omega
        · intro p' r hr'
          have hrc' : r ∈ c'.rows := by rw [queueRows_eq] at hr'; exact (mem_qrows.1 hr').1
          have e0 : entryOfRow c' r = entryOfRow s1 r := congrArg Item.ent (hitem' r hrc')
          rcases hmemq p' r hr' with h | ⟨hp, rfl⟩
          · have : entryOfRow s1 r = entryOfRow c r := congrArg Item.ent (hitemold p' r h)
            rw [e0, this]
            exact hok.readable p' r h
          · rw [e0, entryOfRow_eq, hentnew]
            exact qr_place_readable E _ _ v read pl hpl _ _
    · rw [if_neg hb]
      have hb' : (({ c0 with expT := ttl.map (now + ·), tag := tag } : Cols).bindable &&
          bindable (queueKey p num)) = false := by
        simp only [Cols.bindable]
        exact Bool.eq_false_iff.2 hb
      obtain ⟨hok', hout⟩ := qr_pushBody_unbindable now p back
        { c0 with expT := ttl.map (now + ·), tag := tag } (s1.log .begin) hnum1 hsel1 hb'
      rw [hok'] at hR
      simp only [Bool.false_eq_true, if_false] at hR
      refine ⟨hO.trans hout, ?_⟩
      -- nothing changed in the table; the value file (if one was written) is gone again
      have hcore_rows : (s1.transact (fresh := c0.file)
          (pushBody now p back { c0 with expT := ttl.map (now + ·), tag := tag })).1.rows = c.rows :=
        hR.trans hrows
      have hfb : (pushBody now p back { c0 with expT := ttl.map (now + ·), tag := tag }
          (s1.log .begin)).s.files = s1.files := by
        unfold pushBody
        rw [hnum1]
        have hsel' : (((s1.log .begin).logSql "selQueueEnd").selKey (queueKey p num) true) = none := hsel1
        have : (!({ c0 with expT := ttl.map (now + ·), tag := tag } : Cols).bindable ||
            !bindable (queueKey p num)) = true := by
          cases h1' : ({ c0 with expT := ttl.map (now + ·), tag := tag } : Cols).bindable <;>
            cases h2' : bindable (queueKey p num) <;> simp_all
        simp only [hsel', Option.isSome_none, Bool.false_eq_true, if_false, this, if_true]
        rfl
      have hcfgb : (pushBody now p back { c0 with expT := ttl.map (now + ·), tag := tag }
          (s1.log .begin)).s.cfg = c.cfg := by
        unfold pushBody
        rw [hnum1]
        have hsel' : (((s1.log .begin).logSql "selQueueEnd").selKey (queueKey p num) true) = none := hsel1
        have : (!({ c0 with expT := ttl.map (now + ·), tag := tag } : Cols).bindable ||
            !bindable (queueKey p num)) = true := by
          cases h1' : ({ c0 with expT := ttl.map (now + ·), tag := tag } : Cols).bindable <;>
            cases h2' : bindable (queueKey p num) <;> simp_all
        simp only [hsel', Option.isSome_none, Bool.false_eq_true, if_false, this, if_true]
        exact hcfg
      generalize (s1.transact (fresh := c0.file)
        (pushBody now p back { c0 with expT := ttl.map (now + ·), tag := tag })).1 = c' at hF hC hg' hcore_rows ⊢
      have hsame : ∀ r ∈ c.rows, rf_ent c' r = rf_ent c r := by
        intro r hr'
        have hrc' : r ∈ c'.rows := by rw [hcore_rows]; exact hr'
        rw [rf_ent_mono (a := c') (b := s1) (fun f hf => by have := hF f hf; rw [hfb] at this; exact this)
          hP1.nodup (rf_good_ref hg' hrc'), hentS r hr']
      have hsh : Shrunk c c' (fun _ => true) := by
        refine ⟨hg', by rw [filter_true']; exact hcore_rows, hC.trans hcfgb, ?_⟩
        -- files: not needed as a subset here; use the entries directly
        intro f hf
        have h1' := hF f hf
        rw [hfb] at h1'
        -- a file of `c'` is referenced by a row of `c'`, i.e. of `c`, whose file is in `c`
        obtain ⟨r, hr', hrf⟩ := hg'.noOrphan f hf
        rw [hcore_rows] at hr'
        obtain ⟨ct, hct, -⟩ := hg.finv.ref r hr' f.1 hrf
        have hm := hfsub _ (mem_of_fileGet hct)
        have e1 := fileGet_of_mem (s := s1) hP1.nodup hm
        have e2 := fileGet_of_mem (s := s1) hP1.nodup (show (f.1, f.2) ∈ s1.files from h1')
        rw [e1] at e2
        cases e2
        exact mem_of_fileGet hct
      exact ⟨qloose_shrunk_id hg hr hn hsh (fun _ _ => rfl), hok.mono.shrunk hsh, hsh.cfg, hfresh⟩


end DC.Cache
