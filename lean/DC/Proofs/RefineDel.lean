/-
C03_Refine, model side, the removing calls: `delitem`, `delete`, `pop`.
-/
import DC.Proofs.RefineOps

namespace DC.Cache
open DC.Spec

/-- remove a live entry -/
def rf_delU (now : Int) (v : Option Entry) : Option Entry :=
  match v with
  | some e => if e.live now then none else some e
  | none => none

theorem rf_delU_rel {v d : Option Entry} {now : Int} (h : rf_VRel v d now) :
    rf_VRel (rf_delU now v) (rf_delU now d) now := by
  rcases rf_VRel_cases h with h1 | ⟨h1, e, hd, he, hl⟩
  · rw [h1]; exact rf_VRel_refl _ _
  · rw [h1, hd]
    simp only [rf_delU, hl, Bool.false_eq_true, if_false]
    exact .inr ⟨rfl, he⟩

/-- the table without the row of key `K` -/
theorem rf_look_del {s : Cache} (hi : TableInv s) {r : Row} (hr : r ∈ s.rows) {K : Key}
    (hk : keyMatch K.1 K.2 r = true) (k' : Key) :
    rf_look (s.rows.filter (·.rowid != r.rowid)) s k' = rf_at K none (rf_view s) k' := by
  rw [rf_look_filter hi.tbl.uniq]
  unfold rf_at rf_view rf_look
  cases hkk : sameKey K k' with
  | true =>
    have hk' : keyMatch k'.1 k'.2 r = true := by rw [← rf_keyMatch_congr hkk]; exact hk
    rw [rf_find_of_mem hi.tbl.uniq hr hk']
    simp [Option.filter]
  | false =>
    simp only [Bool.false_eq_true, if_false]
    cases hf : s.rows.find? (keyMatch k'.1 k'.2) with
    | none => rfl
    | some x =>
      have hx := List.mem_of_find?_eq_some hf
      have hkx : keyMatch k'.1 k'.2 x = true := List.find?_some hf
      have hne : x.rowid ≠ r.rowid := by
        intro hid
        have := rowidsAsc_eq_of_rowid hi.tbl.asc hx hr hid
        subst this
        rw [rf_keyMatch_sameKey] at hk hkx
        rw [rf_sameKey_trans (rf_sameKey_symm hk) hkx] at hkk
        cases hkk
      simp [Option.filter, hne]

/-- the live row of a key, in terms of the view -/
theorem rf_selLive_cases {s : Cache} (hi : TableInv s) (E : Externals) (k : PyVal) (now : Int) :
    (∃ r, s.selLive (DC.put E s.cfg.disk k).1 (DC.put E s.cfg.disk k).2 now = some r ∧ r ∈ s.rows ∧
      keyMatch (keyOf E s.cfg k).1 (keyOf E s.cfg k).2 r = true ∧
      rf_view s (keyOf E s.cfg k) = some (rf_ent s r) ∧ (rf_ent s r).live now = true) ∨
    (s.selLive (DC.put E s.cfg.disk k).1 (DC.put E s.cfg.disk k).2 now = none ∧
      rf_has now (rf_view s (keyOf E s.cfg k)) = false) := by
  have hv := rf_selLive_view hi.tbl.uniq E k now
  cases hsel : s.selLive (DC.put E s.cfg.disk k).1 (DC.put E s.cfg.disk k).2 now with
  | some r =>
    left
    have hr := selLive_mem hsel
    have hk : keyMatch (DC.put E s.cfg.disk k).1 (DC.put E s.cfg.disk k).2 r = true ∧ live now r = true := by
      have := List.find?_some hsel
      simpa using this
    refine ⟨r, rfl, hr, hk.1, ?_, hk.2⟩
    unfold rf_view rf_look
    show (s.rows.find? (keyMatch (DC.put E s.cfg.disk k).1 (DC.put E s.cfg.disk k).2)).map _ = _
    rw [rf_find_of_mem hi.tbl.uniq hr hk.1]; rfl
  | none =>
    right
    refine ⟨rfl, ?_⟩
    rw [hsel] at hv
    simp only [Option.map_none] at hv
    cases hvv : rf_view s (keyOf E s.cfg k) with
    | none => rfl
    | some e =>
      rw [hvv] at hv
      simp only [Option.filter] at hv
      unfold rf_has
      simp only
      cases hl : e.live now with
      | false => rfl
      | true => simp [hl] at hv

/-! ### `delitem`, `delete` -/

/-- the transaction body of `delitem` -/
def rf_delBody (dbk : SqlVal) (raw : Bool) (now : Int) (s : Cache) : Body :=
  let hit := s.selLive dbk raw now
  let s := s.logSql "selLive"
  match hit with
  | none => { s := s, out := .exc "KeyError", ok := false }
  | some r => { s := s.delRow r.rowid, out := .bool true, cleanup := [r.file] }

theorem rf_delitem_eq (s : Cache) (E : Externals) (now : Int) (k : PyVal) :
    s.delitem E now k = s.transact (rf_delBody (keyOf E s.cfg k).1 (keyOf E s.cfg k).2 now) := rfl

theorem rf_delBody_some {t : Cache} {dbk : SqlVal} {raw : Bool} {now : Int} {r : Row}
    (h : t.selLive dbk raw now = some r) :
    rf_delBody dbk raw now t =
      { s := (t.logSql "selLive").delRow r.rowid, out := .bool true, cleanup := [r.file] } := by
  unfold rf_delBody; simp only [h]

theorem rf_delBody_none {t : Cache} {dbk : SqlVal} {raw : Bool} {now : Int}
    (h : t.selLive dbk raw now = none) :
    rf_delBody dbk raw now t = { s := t.logSql "selLive", out := .exc "KeyError", ok := false } := by
  unfold rf_delBody; simp only [h]

theorem rf_delRow_rows (t : Cache) (id : Nat) : (t.delRow id).rows = t.rows.filter (·.rowid != id) := by
  show ((t.delRowQuiet id).logSql "delRow").rows = _
  rw [logSql_rows, delRowQuiet_rows]

theorem rf_delRow_files (t : Cache) (id : Nat) : (t.delRow id).files = t.files := by
  show ((t.delRowQuiet id).logSql "delRow").files = _
  rw [logSql_files, delRowQuiet_files]

theorem rf_delU_of_not_has {now : Int} {v : Option Entry} (hh : rf_has now v = false) : rf_delU now v = v := by
  unfold rf_has at hh
  unfold rf_delU
  cases v with
  | none => rfl
  | some e => simp only at hh ⊢; rw [hh]; rfl

theorem rf_delitem_view (s : Cache) (E : Externals) (now : Int) (k : PyVal) (hg : Good s) :
    (s.delitem E now k).2 =
      (if rf_has now (rf_view s (keyOf E s.cfg k)) then .bool true else .exc "KeyError") ∧
    ∀ k', rf_view (s.delitem E now k).1 k' =
      rf_at (keyOf E s.cfg k) (rf_delU now (rf_view s (keyOf E s.cfg k))) (rf_view s) k' := by
  have hg' := delitem_good s E now k hg
  rw [rf_delitem_eq] at hg' ⊢
  obtain ⟨hR, hF, -, hO⟩ := rf_transact s (rf_delBody (keyOf E s.cfg k).1 (keyOf E s.cfg k).2 now) none hg.depth
  rcases rf_selLive_cases hg.tinv E k now with ⟨r, hsel, hr, hk, hv, hl⟩ | ⟨hsel, hh⟩
  · have hsel' : (s.log .begin).selLive (keyOf E s.cfg k).1 (keyOf E s.cfg k).2 now = some r := hsel
    rw [rf_delBody_some hsel'] at hR hF hO
    simp only [if_true] at hR hF hO
    have hhas : rf_has now (rf_view s (keyOf E s.cfg k)) = true := by rw [hv]; exact hl
    refine ⟨by rw [hO, hhas]; rfl, ?_⟩
    intro k'
    rw [rf_same hg' (b := s) (by
      intro q hq
      have := hF q hq
      rw [rf_delRow_files] at this
      exact this) hg.finv.nodup, hR, rf_delRow_rows]
    show rf_look (s.rows.filter (·.rowid != r.rowid)) s k' = _
    rw [rf_look_del hg.tinv hr hk k', hv]
    simp [rf_delU, hl]
  · have hsel' : (s.log .begin).selLive (keyOf E s.cfg k).1 (keyOf E s.cfg k).2 now = none := hsel
    rw [rf_delBody_none hsel'] at hR hF hO
    simp only [Bool.false_eq_true, if_false] at hR hF hO
    refine ⟨by rw [hO, hh]; rfl, ?_⟩
    intro k'
    rw [rf_same hg' (b := s) hF hg.finv.nodup, hR, rf_delU_of_not_has hh,
      rf_at_self (fun k'' h => rf_view_sameKey h s)]
    rfl

theorem rf_delete_view (s : Cache) (E : Externals) (now : Int) (k : PyVal) (hg : Good s) :
    (s.delete E now k).2 = .bool (rf_has now (rf_view s (keyOf E s.cfg k))) ∧
    ∀ k', rf_view (s.delete E now k).1 k' =
      rf_at (keyOf E s.cfg k) (rf_delU now (rf_view s (keyOf E s.cfg k))) (rf_view s) k' := by
  obtain ⟨h1, h2⟩ := rf_delitem_view s E now k hg
  rw [delete_fst_fl]
  refine ⟨?_, h2⟩
  unfold delete
  cases hh : rf_has now (rf_view s (keyOf E s.cfg k)) with
  | true =>
    rw [hh] at h1
    simp only [if_true] at h1
    split
    · rename_i heq; rw [heq] at h1; cases h1
    · exact h1
  | false =>
    rw [hh] at h1
    simp only [Bool.false_eq_true, if_false] at h1
    split
    · rfl
    · rename_i hne
      exfalso
      apply hne (s.delitem E now k).1
      rw [← h1]

end DC.Cache

namespace DC.Cache
open DC.Spec

/-! ### `pop` -/

theorem rf_pop_some {s : Cache} {E : Externals} {now : Int} {k : PyVal} {et tg : Bool} {r : Row}
    (hsel : s.selLive (DC.put E s.cfg.disk k).1 (DC.put E s.cfg.disk k).2 now = some r) :
    s.pop E now k et tg =
      ((((s.transact fun s => { s := (s.logSql "selLive").delRow r.rowid, out := .none }).1.fetchRow E r false).1.removeCommitted r.file),
        match ((s.transact fun s => { s := (s.logSql "selLive").delRow r.rowid, out := .none }).1.fetchRow E r false).2 with
        | .ioerror => defaultFlags et tg
        | f => withFlags (fetchedOut f) et tg r.expT r.tag) := by
  unfold pop
  generalize DC.put E s.cfg.disk k = K at hsel
  rcases K with ⟨dbk, raw⟩
  simp only at hsel ⊢
  simp only [hsel]
  split <;> simp_all

theorem rf_pop_none {s : Cache} {E : Externals} {now : Int} {k : PyVal} {et tg : Bool}
    (hsel : s.selLive (DC.put E s.cfg.disk k).1 (DC.put E s.cfg.disk k).2 now = none) :
    s.pop E now k et tg =
      ((s.transact fun s => { s := s.logSql "selLive", out := .none }).1, defaultFlags et tg) := by
  unfold pop
  generalize DC.put E s.cfg.disk k = K at hsel
  rcases K with ⟨dbk, raw⟩
  simp only at hsel ⊢
  simp only [hsel]

theorem rf_pop_view (s : Cache) (E : Externals) (now : Int) (k : PyVal) (et tg : Bool) (hg : Good s) :
    (s.pop E now k et tg).2 =
      (match rf_view s (keyOf E s.cfg k) with
       | some e => if e.live now then e.out E s.cfg false et tg else defaultFlags et tg
       | none => defaultFlags et tg) ∧
    ∀ k', rf_view (s.pop E now k et tg).1 k' =
      rf_at (keyOf E s.cfg k) (rf_delU now (rf_view s (keyOf E s.cfg k))) (rf_view s) k' := by
  have hg' := pop_good s E now k et tg hg
  rcases rf_selLive_cases hg.tinv E k now with ⟨r, hsel, hr, hk, hv, hl⟩ | ⟨hsel, hh⟩
  · rw [rf_pop_some hsel] at hg' ⊢
    have hc := transact_ok_core s (fun s => { s := (s.logSql "selLive").delRow r.rowid, out := .none })
      none hg.depth rfl
    generalize (s.transact fun s => { s := (s.logSql "selLive").delRow r.rowid, out := .none }).1 = t1 at *
    have hnil : ∀ l : List (Nat × Content),
        l.filter (fun p => !([] : List (Option Nat)).contains (some p.1)) = l := by
      intro l; rw [List.filter_eq_self]; intros; rfl
    simp only [core_files, hnil] at hc
    have hrows : t1.rows = s.rows.filter (·.rowid != r.rowid) := by
      have := congrArg Core.rows hc
      simp only [core_rows] at this
      rw [this, rf_delRow_rows]; rfl
    have hfiles : t1.files = s.files := by
      have := congrArg Core.files hc
      simp only [core_files] at this
      rw [this, rf_delRow_files]; rfl
    have hcfg : t1.cfg = s.cfg := by
      have := congrArg Core.cfg hc
      simp only [core_cfg] at this
      rw [this]
      show (((s.log .begin).logSql "selLive").delRowQuiet r.rowid).cfg = _
      rw [delRowQuiet_cfg]; rfl
    have hd1 : t1.depth = 0 := by
      have := congrArg Core.depth hc
      simp only [core_depth] at this
      rw [this]
      show (((s.log .begin).logSql "selLive").delRowQuiet r.rowid).depth = _
      rw [delRowQuiet_depth]; exact hg.depth
    refine ⟨?_, ?_⟩
    · simp only
      have h1 := rf_out s E r false et tg (rf_good_ref hg hr)
      rw [fetchRow_snd_congr t1 s E r false hcfg hfiles, hv]
      simp only [hl, if_true]
      exact h1
    · intro k'
      simp only at hg' ⊢
      rw [rf_same hg' (b := s) (by
        intro q hq
        rw [removeCommitted_zero _ _ (by
          have := congrArg Core.depth (core_fetchRow t1 E r false)
          simp only [core_depth] at this
          rw [this]; exact hd1)] at hq
        have h2 := mem_of_fremoveAll hq
        have h3 := congrArg Core.files (core_fetchRow t1 E r false)
        simp only [core_files] at h3
        rw [h3, hfiles] at h2
        exact h2) hg.finv.nodup]
      rw [removeCommitted_rows, fetchRow_rows, hrows, rf_look_del hg.tinv hr hk k', hv]
      simp [rf_delU, hl]
  · rw [rf_pop_none hsel] at hg' ⊢
    have hc := rf_transact_core_same s (fun s => { s := s.logSql "selLive", out := .none }) none hg.depth
      ⟨rfl, rfl, rfl⟩
    refine ⟨?_, ?_⟩
    · simp only
      unfold rf_has at hh
      cases hvv : rf_view s (keyOf E s.cfg k) with
      | none => rfl
      | some e => rw [hvv] at hh; simp only at hh ⊢; rw [hh]; rfl
    · intro k'
      simp only
      rw [rf_view_core hc, rf_delU_of_not_has hh, rf_at_self (fun k'' h => rf_view_sameKey h s)]

end DC.Cache

namespace DC.Cache
open DC.Spec

/-! ### the dictionary side of the removing calls -/

theorem rf_has_dict (m : Dict) (K : Key) (now : Int) : m.has K now = rf_has now (m.get K) := by
  unfold Dict.has rf_has
  cases m.get K <;> rfl

theorem rf_del_spec (m : Dict) (K : Key) (now : Int) (k' : Key) :
    (if rf_has now (m.get K) then m.del K else m).get k' = rf_at K (rf_delU now (m.get K)) m.get k' := by
  cases hh : rf_has now (m.get K) with
  | true =>
    simp only [if_true]
    rw [rf_get_del]
    unfold rf_has at hh
    unfold rf_at rf_delU
    cases hv : m.get K with
    | none => simp [hv] at hh
    | some e => simp only [hv] at hh ⊢; rw [hh]; simp
  | false =>
    simp only [Bool.false_eq_true, if_false]
    rw [rf_delU_of_not_has hh, rf_at_self (fun k'' h => rf_get_sameKey h m)]

theorem rf_del_wf {m : Dict} (h : m.WF) (K : Key) (now : Int) :
    Dict.WF (if rf_has now (m.get K) then m.del K else m) := by
  split
  · exact rf_wf_del h K
  · exact h

end DC.Cache
