/- helper lemmas for memoize_stampede (C16, DC/Properties/C16_Stampede.lean) -/
import DC.Model.MemoStampede
import DC.Proofs.MemoLemmas

namespace DC.Memo

theorem SCache.look_some {R} (c : SCache R) (k : List Tok) (now : Int) (x : Entry R × Option Int)
    (h : c.look k now = some x) : c k = some x := by
  unfold SCache.look at h
  cases hck : c k with
  | none => rw [hck] at h; simp at h
  | some y =>
    obtain ⟨v, e⟩ := y
    rw [hck] at h
    cases e with
    | none => simpa using h
    | some t =>
      simp only at h
      split at h
      · exact h
      · simp at h

theorem SCache.put_self {R} (c : SCache R) (k : List Tok) (v : Entry R) (e : Option Int) :
    (c.put k v e) k = some (v, e) := by simp [SCache.put]

theorem SCache.put_other {R} (c : SCache R) (k k' : List Tok) (v : Entry R) (e : Option Int) (h : k' ≠ k) :
    (c.put k v e) k' = c k' := by simp [SCache.put, h]

theorem SCache.look_put_other {R} (c : SCache R) (k k' : List Tok) (v : Entry R) (e : Option Int) (now : Int)
    (h : k' ≠ k) : (c.put k v e).look k' now = c.look k' now := by
  simp [SCache.look, SCache.put_other c k k' v e h]

theorem SCache.look_put_self_live {R} (c : SCache R) (k : List Tok) (v : Entry R) (t now : Int) (h : t > now) :
    (c.put k v (some t)).look k now = some (v, some t) := by
  simp [SCache.look, SCache.put_self, h]

theorem mem_keepArgs (args : List Arg) (ign : List Nat) (a : Arg) (h : a ∈ keepArgs args ign) : a ∈ args := by
  unfold keepArgs at h
  rw [List.mem_map] at h
  obtain ⟨p, hp, rfl⟩ := h
  have : p.2 ∈ (enumFrom 0 args).map (·.2) := List.mem_map.mpr ⟨p, (List.mem_filter.mp hp).1, rfl⟩
  rwa [enumFrom_map_snd] at this

theorem mem_keepKw (kw : Kwargs) (ign : List Nat) (p : Nat × Arg) (h : p ∈ keepKw kw ign) : p ∈ kw := by
  unfold keepKw at h
  rw [DC.mem_isort] at h
  exact (List.mem_filter.mp h).1

end DC.Memo
