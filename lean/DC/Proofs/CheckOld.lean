/-
The model of `Cache.check` as it was before files outside the value tree were added to the
observation (verbatim, namespace `Tree`), and the proof that on a directory all of whose files lie
in the value tree `xx/yy/` and none of whose paths contains the text `cache.db` the extended model
computes exactly what the earlier one did: nothing the differential tests validated has moved.
`rowPass` and `counterPass` are textually unchanged.
-/
import DC.Proofs.CheckLemmas

namespace DC.Check

namespace Tree

def filePass (fix : Bool) (named : List Nat) (s : St) : St × List Warn :=
  let unk := s.files.filter (fun f => !named.contains f.id)
  let s' := if fix then { s with files := s.files.filter (fun f => named.contains f.id) } else s
  (s', unk.map (fun f => .unknown f.id))

def dir2Empty (s : St) (d : Nat × Nat) : Bool := !s.files.any (fun f => f.d1 == d.1 && f.d2 == d.2)

def dirPass (fix : Bool) (s : St) : St × List Warn :=
  let e2 := s.dirs2.filter (dir2Empty s)
  let s2 := if fix then { s with dirs2 := s.dirs2.filter (fun d => !dir2Empty s d) } else s
  let e1 := s2.dirs1.filter (fun d => !s2.dirs2.any (·.1 == d) && !s2.files.any (·.d1 == d))
  let s1 := if fix then { s2 with dirs1 := s2.dirs1.filter (fun d => !e1.contains d) } else s2
  (s1, e2.map (fun d => .emptyDir2 d.1 d.2) ++ e1.map .emptyDir1)

def check (fix : Bool) (s : St) : St × List Warn :=
  let named := s.rows.filterMap (·.file)
  let (s1, w1) := rowPass fix s s.rows
  let (s2, w2) := filePass fix named s1
  let (s3, w3) := dirPass fix s2
  let (s4, w4) := counterPass fix s3
  (s4, w1 ++ w2 ++ w3 ++ w4)

end Tree

/-- every file lies in the value tree and no path contains the text `cache.db` -/
def TreeOnly (s : St) : Prop := ∀ f ∈ s.files, f.level = .leaf ∧ f.db = false

theorem any_congr' {α} {l : List α} {p q : α → Bool} (h : ∀ a ∈ l, p a = q a) : l.any p = l.any q := by
  induction l with
  | nil => rfl
  | cons a l ih =>
    simp only [List.mem_cons, forall_eq_or_imp] at h
    simp [List.any_cons, h.1, ih h.2]

theorem filePass_tree (fix : Bool) (named : List Nat) (s : St) (h : TreeOnly s) :
    filePass fix named s = Tree.filePass fix named s := by
  have e1 : s.files.filter (fun f => !named.contains f.id && !f.db) =
      s.files.filter (fun f => !named.contains f.id) :=
    List.filter_congr (fun f hf => by simp [(h f hf).2])
  have e2 : s.files.filter (fun f => named.contains f.id || f.db) =
      s.files.filter (fun f => named.contains f.id) :=
    List.filter_congr (fun f hf => by simp [(h f hf).2])
  simp only [filePass, Tree.filePass, e1, e2]

theorem dir2Empty_tree (s : St) (h : TreeOnly s) : dir2Empty s = Tree.dir2Empty s := by
  funext d
  simp only [dir2Empty, Tree.dir2Empty]
  congr 1
  exact any_congr' (fun f hf => by simp [FsFile.inDir2, (h f hf).1])

theorem dirPass_tree (fix : Bool) (s : St) (h : TreeOnly s) : dirPass fix s = Tree.dirPass fix s := by
  have e := dir2Empty_tree s h
  have u : ∀ d, s.files.any (·.under d) = s.files.any (·.d1 == d) :=
    fun d => any_congr' (fun f hf => by simp [FsFile.under, (h f hf).1])
  cases fix <;> simp [dirPass, Tree.dirPass, e, u]

theorem check_tree (fix : Bool) (s : St) (h : TreeOnly s) : check fix s = Tree.check fix s := by
  have hf := (rowPass_frame fix s.rows s).1
  have h1 : TreeOnly (rowPass fix s s.rows).1 := by
    intro f hm; rw [hf] at hm; exact h f hm
  have h2 : TreeOnly (Tree.filePass fix (s.rows.filterMap (·.file)) (rowPass fix s s.rows).1).1 := by
    intro f hm
    cases fix
    · exact h1 f hm
    · simp only [Tree.filePass, if_true] at hm
      exact h1 f (List.mem_filter.1 hm).1
  show (let named := s.rows.filterMap (·.file)
     let r1 := rowPass fix s s.rows
     let r2 := filePass fix named r1.1
     let r3 := dirPass fix r2.1
     let r4 := counterPass fix r3.1
     (r4.1, r1.2 ++ r2.2 ++ r3.2 ++ r4.2)) =
    (let named := s.rows.filterMap (·.file)
     let r1 := rowPass fix s s.rows
     let r2 := Tree.filePass fix named r1.1
     let r3 := Tree.dirPass fix r2.1
     let r4 := counterPass fix r3.1
     (r4.1, r1.2 ++ r2.2 ++ r3.2 ++ r4.2))
  simp only [filePass_tree _ _ _ h1, dirPass_tree _ _ h2]

end DC.Check
