/- helper lemmas for Deque (C11) -/
import DC.Proofs.LayerLemmas
import DC.Properties.C10

namespace DC.Deque

end DC.Deque
