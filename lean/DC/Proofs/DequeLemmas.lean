/- helper lemmas for Deque (C11) -/
import DC.Proofs.LayerLemmas
import DC.Proofs.Block
import DC.Properties.C03_Inv
import DC.Properties.C10

namespace DC.Cache

/-! ### a table whose rows are all members of one queue -/

theorem qrows_length_all {rows : List Row} {p : Option Str} (h : ∀ r ∈ rows, r ∈ qrows rows p) :
    (qrows rows p).length = rows.length := by
  unfold qrows
  rw [length_isort, List.filter_eq_self.2 (fun r hr => (mem_qrows.1 (h r hr)).2)]

theorem keyRawLtRow_raw {a b : Row} (ha : a.raw = true) : keyRawLtRow a b = klt a b := by
  unfold keyRawLtRow keyRawLt klt
  simp [ha]

/-- the `(key, raw)` order and the key order list such a table in the same way -/
theorem isort_keyRaw_eq_qrows {rows : List Row} (hu : KeysUnique rows) (hn : ∀ r ∈ rows, r.key ≠ .null)
    {p : Option Str} (h : ∀ r ∈ rows, r ∈ qrows rows p) : isort keyRawLtRow rows = qrows rows p := by
  symm
  apply qrows_eq_of_mem hu hn
  · have hs := isort_sorted_strict keyRawLtRow keyRawLtRow_trans rows (keysUnique_comparable rows hu hn)
    refine List.Pairwise.imp_of_mem ?_ hs
    intro a b ha _ hab
    rw [mem_isort] at ha
    rw [← keyRawLtRow_raw (qfilter_raw (mem_qrows.1 (h a ha)).2)]
    exact hab
  · intro x
    rw [mem_isort]
    exact ⟨fun hx => ⟨hx, (mem_qrows.1 (h x hx)).2⟩, fun hx => hx.1⟩

/-! ### `tbegin` / `tend` keep the table -/

@[simp] theorem tbegin_rows (s : Cache) : s.tbegin.rows = s.rows := by
  unfold tbegin; split <;> rfl
@[simp] theorem tbegin_cfg (s : Cache) : s.tbegin.cfg = s.cfg := by
  unfold tbegin; split <;> rfl
@[simp] theorem tbegin_count (s : Cache) : s.tbegin.count = s.count := by
  unfold tbegin; split <;> rfl
@[simp] theorem tbegin_files (s : Cache) : s.tbegin.files = s.files := by
  unfold tbegin; split <;> rfl
theorem tbegin_depth_pos (s : Cache) : 0 < s.tbegin.depth := by
  unfold tbegin; split
  · exact Nat.one_pos
  · exact Nat.succ_pos _

@[simp] theorem tend_rows (s : Cache) : s.tend.rows = s.rows := by
  unfold tend; split
  · simp only [fremoveAll_rows]; rfl
  · rfl

/-! ### the files after a `push` inside a block -/

theorem cullW_files (s : Cache) (now : Int) : (s.cullW now).1.files = s.files :=
  congrArg Core.files (cullW_core s now).1

theorem cullW_cfg_eq (s : Cache) (now : Int) : (s.cullW now).1.cfg = s.cfg :=
  congrArg Core.cfg (cullW_core s now).1

theorem pushBody_keep (now : Int) (p : Option Str) (back : Bool) (c : Cols) (t : Cache) :
    (pushBody now p back c t).s.files = t.files ∧ (pushBody now p back c t).s.cfg = t.cfg := by
  unfold pushBody
  split
  · exact ⟨rfl, rfl⟩
  · simp only
    split
    · exact ⟨rfl, rfl⟩
    · split
      · exact ⟨rfl, rfl⟩
      · exact ⟨by rw [cullW_files]; rfl, by rw [cullW_cfg_eq]; rfl⟩

theorem transact_pos_fresh (s : Cache) (body : Cache → Body) (fresh : Option Nat) (hd : s.depth > 0) :
    ∃ t, t.files = s.files ∧ t.cfg = s.cfg ∧
      (s.transact body fresh).1.files = (body t).s.files ∧
      (s.transact body fresh).1.cfg = (body t).s.cfg := by
  unfold transact
  simp only [hd, if_true]
  cases fresh with
  | none =>
    refine ⟨s, rfl, rfl, ?_⟩
    simp only
    cases h : (body s).ok <;> simp
  | some f =>
    refine ⟨{ s with created := s.created ++ [f] }, rfl, rfl, ?_⟩
    simp only
    cases h : (body { s with created := s.created ++ [f] }).ok <;> simp

theorem store_files {s s1 : Cache} {E : Externals} {v : PyVal} {rd : Bool} {c : Cols}
    (hst : s.store E v rd = .ok (s1, c)) : ∃ l, s1.files = s.files ++ l := by
  unfold store at hst
  split at hst
  · cases hst
  · cases hst; exact ⟨[], by simp⟩
  · cases hst; exact ⟨_, rfl⟩

/-- inside a block `push` removes no file and keeps the configuration -/
theorem push_keep_pos (s : Cache) (E : Externals) (now : Int) (v : PyVal) (p : Option Str) (back : Bool)
    (ttl : Option Int) (tag : SqlVal) (hd : 0 < s.depth) :
    (∃ l, (s.push E now v p back ttl false tag).1.files = s.files ++ l) ∧
    (s.push E now v p back ttl false tag).1.cfg = s.cfg := by
  rw [push_eq]
  cases hst : s.store E v false with
  | error e => exact ⟨⟨[], by simp⟩, rfl⟩
  | ok sc =>
    obtain ⟨s1, c⟩ := sc
    obtain ⟨-, h2, h3⟩ := store_spec hst
    obtain ⟨l, hl⟩ := store_files hst
    simp only
    obtain ⟨t, ht1, ht2, hf, hc⟩ := transact_pos_fresh s1
      (pushBody now p back { c with expT := ttl.map (now + ·), tag := tag }) c.file (by rw [h3]; exact hd)
    obtain ⟨k1, k2⟩ := pushBody_keep now p back { c with expT := ttl.map (now + ·), tag := tag } t
    exact ⟨⟨l, by rw [hf, k1, ht1, hl]⟩, by rw [hc, k2, ht2, h2]⟩

theorem fileGet_append {a b : Cache} {l : List (Nat × Content)} (h : b.files = a.files ++ l) {f : Nat}
    {ct : Content} (hf : a.fileGet f = some ct) : b.fileGet f = some ct := by
  unfold fileGet at hf ⊢
  rw [h, List.find?_append]
  cases hx : a.files.find? (·.1 == f) with
  | none => rw [hx] at hf; cases hf
  | some x => rw [hx] at hf; simpa using hf

/-! ### a fetch that works without its file does not depend on the file -/

theorem Disk.fetch_none_indep (E : Externals) (mode : Nat) (file : Option Content) (v : SqlVal) (rd : Bool)
    (h : Disk.fetch E mode none true v rd ≠ .ioerror) :
    Disk.fetch E mode file true v rd = Disk.fetch E mode none true v rd := by
  unfold Disk.fetch at h ⊢
  split
  · rfl
  · split
    · rename_i h1 h2; simp [h1, h2] at h
    · split
      · rename_i h1 h2 h3; simp [h1, h2, h3] at h
      · split
        · rename_i h1 h2 h3 h4; simp [h1, h2, h3, h4] at h
        · rfl

theorem fetch_none_indep (E : Externals) (d : DiskKind) (mode : Nat) (file : Option Content) (v : SqlVal)
    (rd : Bool) (h : fetch E d mode none true v rd ≠ .ioerror) :
    fetch E d mode file true v rd = fetch E d mode none true v rd := by
  cases d with
  | pickle => exact Disk.fetch_none_indep E mode file v rd h
  | json =>
    have h' : Disk.fetch E mode none true v rd ≠ .ioerror := by
      intro e; apply h; unfold fetch; simp only [e]
    unfold fetch
    simp only [Disk.fetch_none_indep E mode file v rd h']

theorem fetchRow_snd_some (s : Cache) (E : Externals) (r : Row) (rd : Bool) {f : Nat} (hf : r.file = some f) :
    (s.fetchRow E r rd).2 = fetch E s.cfg.disk r.mode (s.fileGet f) true r.val rd := by
  unfold fetchRow
  rw [hf]
  simp only
  split <;> rfl

theorem fetchRow_snd_none (s : Cache) (E : Externals) (r : Row) (rd : Bool) (hf : r.file = none) :
    (s.fetchRow E r rd).2 = fetch E s.cfg.disk r.mode none false r.val rd := by
  unfold fetchRow
  rw [hf]

/-- a fetch that succeeds still succeeds, with the same result, when files are only added -/
theorem fetchRow_snd_mono (a b : Cache) (E : Externals) (r : Row) (rd : Bool) (hc : b.cfg = a.cfg)
    (hf : ∀ f ct, a.fileGet f = some ct → b.fileGet f = some ct)
    (h : (a.fetchRow E r rd).2 ≠ .ioerror) : (b.fetchRow E r rd).2 = (a.fetchRow E r rd).2 := by
  cases hr : r.file with
  | none => rw [fetchRow_snd_none _ _ _ _ hr, fetchRow_snd_none _ _ _ _ hr, hc]
  | some f =>
    rw [fetchRow_snd_some _ _ _ _ hr] at h ⊢
    rw [fetchRow_snd_some _ _ _ _ hr, hc]
    cases hg : a.fileGet f with
    | some ct => rw [hf f ct hg]
    | none =>
      rw [hg] at h
      exact fetch_none_indep E a.cfg.disk r.mode _ r.val rd h

/-! ### `push` at any transaction depth -/

theorem tbegin_queueRows (s : Cache) (p : Option Str) : s.tbegin.queueRows p = s.queueRows p := by
  rw [queueRows_eq, queueRows_eq, tbegin_rows]

theorem tend_queueRows (s : Cache) (p : Option Str) : s.tend.queueRows p = s.queueRows p := by
  rw [queueRows_eq, queueRows_eq, tend_rows]

/-- `push_back` / `push_front` of C10 without the depth hypothesis, and with the table itself -/
theorem push_spec_any (s : Cache) (E : Externals) (now : Int) (v : PyVal) (p : Option Str) (back : Bool)
    (ttl : Option Int) (tag : SqlVal) (hinv : TableInv s) (hq : QueueOk s p)
    {s1 : Cache} {c : Cols} (hst : s.store E v false = .ok (s1, c))
    (hb : (colsOf c ttl now tag).bindable = true) (hnc : Quiet s now) (httl : TtlOk ttl)
    (hor : OriginOk s) (hroom : Room s p) (hp : ∀ q, p = some q → (utf8enc q).isSome = true) :
    ∃ r : Row, (s.push E now v p back ttl false tag).1.rows = s.rows ++ [r] ∧
      (s.push E now v p back ttl false tag).1.queueRows p =
        (if back then s.queueRows p ++ [r] else r :: s.queueRows p) ∧
      r.mode = c.mode ∧ r.val = c.val ∧ r.file = c.file := by
  obtain ⟨num, hnum, hfit, hrm, hord⟩ := pushNum_spec s p back hinv hq hor
  obtain ⟨hn1, hn2⟩ := hrm hroom
  have hsel := selKey_new_none s p num hn1 hn2 back hord
  have hbk := bindable_queueKey p num hfit hp
  obtain ⟨t, ht1, ht2, hrows, -⟩ := push_ok s E now v p back ttl tag hst hnum hsel hb hbk
  have hcull := insRow_cullW_quiet ht1 ht2 now (queueKey p num) (colsOf c ttl now tag) hnc
    (colsOf_live c now tag httl)
  have hinv' := insRow_inv (queueKey p num) true now (colsOf c ttl now tag) hinv hsel
    (queueKey_ne_null p num)
  have hR : (s.push E now v p back ttl false tag).1.rows =
      s.rows ++ [mkRow s.rows (queueKey p num) now (colsOf c ttl now tag)] := hrows.trans hcull
  refine ⟨mkRow s.rows (queueKey p num) now (colsOf c ttl now tag), hR, ?_, rfl, rfl, rfl⟩
  rw [queueRows_eq, hR, queueRows_eq]
  cases back with
  | true =>
    simp only [if_true]
    apply qrows_append_back (rows := s.rows) _ hinv'.tbl.uniq hinv'.tbl.nonnull
    · exact qfilter_iff.2 ⟨kfilter_queueKey p num hn1 hn2, rfl⟩
    · intro x hx
      rw [← queueRows_eq] at hx
      have := hord x hx
      simp only [if_true] at this
      exact this
  | false =>
    simp only [Bool.false_eq_true, if_false]
    apply qrows_append_front (rows := s.rows) _ hinv'.tbl.uniq hinv'.tbl.nonnull
    · exact qfilter_iff.2 ⟨kfilter_queueKey p num hn1 hn2, rfl⟩
    · intro x hx
      rw [← queueRows_eq] at hx
      have := hord x hx
      simp only [Bool.false_eq_true, if_false] at this
      exact this

/-! ### `peek` on an empty queue -/

theorem peek_empty (s : Cache) (E : Externals) (now : Int) (p : Option Str) (front et tg : Bool)
    (hq : s.queueRows p = []) :
    (s.peek E now p front et tg).2 = defaultFlags et tg ∧ (s.peek E now p front et tg).1.rows = s.rows := by
  have hh : qhead s p front = none := by unfold qhead; rw [hq]; cases front <;> rfl
  unfold peek
  rw [peekLoop_succ]
  simp only [hh]
  exact ⟨trivial, (pullSel_spec s).1⟩

/-- `pull_front` / `pull_back` of C10 in one statement -/
theorem pull_end (s : Cache) (E : Externals) (now : Int) (p : Option Str) (left : Bool) (hinv : TableInv s)
    (r : Row) (hr : (if left then (s.queueRows p).head? else (s.queueRows p).getLast?) = some r)
    (hlive : expired now r = false) (hf : (s.fetchRow E r false).2 ≠ .ioerror) :
    (s.pull E now p left false false).2 = .tup [.val (column r.key), fetchedOut (s.fetchRow E r false).2] ∧
    (s.pull E now p left false false).1.queueRows p =
      (if left then (s.queueRows p).tail else (s.queueRows p).dropLast) := by
  cases left with
  | true =>
    simp only [if_true] at hr ⊢
    cases hq : s.queueRows p with
    | nil => rw [hq] at hr; cases hr
    | cons x rest =>
      rw [hq] at hr
      simp only [List.head?_cons, Option.some.injEq] at hr
      subst hr
      exact pull_front s E now p hinv x rest hq hlive hf
  | false =>
    simp only [Bool.false_eq_true, if_false] at hr ⊢
    rcases List.eq_nil_or_concat (s.queueRows p) with hq | ⟨front, x, hq⟩
    · rw [hq] at hr; cases hr
    · rw [List.concat_eq_append] at hq
      rw [hq] at hr
      simp only [List.getLast?_append, List.getLast?_singleton, Option.some_or, Option.some.injEq] at hr
      subst hr
      rw [hq, List.dropLast_concat]
      exact pull_back s E now p hinv x front hq hlive hf

/-! ### looking a row up again by its integer key -/

theorem selLive_of_mem {s : Cache} (hu : KeysUnique s.rows) {r : Row} {k : SqlVal} {raw : Bool} {now : Int}
    (hr : r ∈ s.rows) (hk : keyMatch k raw r = true) (hl : live now r = true) :
    s.selLive k raw now = some r := by
  unfold selLive
  cases h : s.rows.find? (fun r => keyMatch k raw r && live now r) with
  | none =>
    have := List.find?_eq_none.1 h r hr
    simp [hk, hl] at this
  | some r' =>
    have h1 := List.find?_some h
    have h2 := List.mem_of_find?_eq_some h
    simp only [Bool.and_eq_true] at h1
    rw [keysUnique_eq hu h2 hr h1.1 hk]

theorem fetchedOut_ne_default (f : Fetched) : fetchedOut f ≠ .default := by
  cases f <;> simp [fetchedOut]

/-- `get` of the key read back from a row with an integer key finds that row (pickle disk) -/
theorem get_int_row (s : Cache) (E : Externals) (now : Int) (r : Row) (i : Int) (hinv : TableInv s)
    (hr : r ∈ s.rows) (hk : r.key = .int i) (hraw : r.raw = true) (hi : inI64 i = true)
    (hexp : r.expT = none) (hst : s.statistics = false) (hpol : s.cfg.policy = .none)
    (hdisk : s.cfg.disk = .pickle) (hf : (s.fetchRow E r false).2 ≠ .ioerror) :
    (s.get E now (DC.get E s.cfg.disk r.key r.raw) false false false).2 =
      fetchedOut (s.fetchRow E r false).2 := by
  have hkey : DC.get E s.cfg.disk r.key r.raw = .int i := by rw [hdisk, hk, hraw]; rfl
  have hput : DC.put E s.cfg.disk (.int i) = (.int i, true) := by
    rw [hdisk]; show Disk.put E (.int i) = _
    unfold Disk.put; simp [hi]
  have hkm : keyMatch (.int i) true r = true := by
    unfold keyMatch; rw [hk, hraw]; simp [SqlVal.eqv]
  have hlive : live now r = true := by unfold live; rw [hexp]
  have hsel := selLive_of_mem (now := now) hinv.tbl.uniq hr hkm hlive
  have hfe : ((s.logSql "selLive").fetchRow E r false).2 = (s.fetchRow E r false).2 :=
    fetchRow_snd_congr_q _ _ E r false rfl rfl
  unfold get
  rw [hkey, hput]
  simp only [hst, hpol, policyUpdates, hsel]
  rw [if_pos (by decide), hfe]
  generalize (s.fetchRow E r false).2 = f at hf ⊢
  cases f <;> simp [withFlags] at hf ⊢

end DC.Cache

namespace DC.Deque
open DC.Cache

/-! ### positional access -/

theorem rowAt_eq (d : Deque) (L : List Row) (hL : sortedRows d.cache = L)
    (hc : d.cache.count = (L.length : Int)) (i : Int) :
    (0 ≤ i ∧ i < (L.length : Int) → d.rowAt i = L[i.toNat]?) ∧
    (-(L.length : Int) ≤ i ∧ i < 0 → d.rowAt i = L[((L.length : Int) + i).toNat]?) ∧
    (i ≥ (L.length : Int) ∨ i < -(L.length : Int) → d.rowAt i = none) := by
  unfold rowAt
  simp only [hL, hc]
  refine ⟨?_, ?_, ?_⟩
  · rintro ⟨h0, h1⟩
    rw [if_pos h0, if_neg (by omega)]
  · rintro ⟨h0, h1⟩
    rw [if_neg (by omega), if_neg (by omega), List.getElem?_reverse (by omega)]
    congr 1
    omega
  · rintro (h | h)
    · by_cases h0 : i ≥ 0
      · rw [if_pos h0, if_pos h]
      · omega
    · rw [if_neg (by omega), if_pos h]

theorem rowAt_mem (d : Deque) (i : Int) (r : Row) (h : d.rowAt i = some r) : r ∈ d.cache.rows := by
  unfold rowAt at h
  simp only at h
  have hm : ∀ {l : List Row} {k : Nat}, l[k]? = some r → r ∈ l := fun h => List.mem_of_getElem? h
  split at h
  · split at h
    · cases h
    · exact (mem_isort _).1 (hm h)
  · split at h
    · cases h
    · exact (mem_isort _).1 (List.mem_reverse.1 (hm h))

theorem getitem_none (d : Deque) (E : Externals) (now : Int) (i : Int) (h : d.rowAt i = none) :
    (d.getitem E now i).2 = .exc "IndexError" := by
  unfold getitem; rw [h]

theorem getitem_some (d : Deque) (E : Externals) (now : Int) (i : Int) (r : Row) (h : d.rowAt i = some r)
    (f : Fetched) (hg : (d.cache.get E now (keyOfRow E d.cache r) false false false).2 = fetchedOut f) :
    (d.getitem E now i).2 = fetchedOut f := by
  unfold getitem; rw [h]
  simp only
  rw [hg]
  cases f <;> rfl

/-! ### `append` / `appendleft` -/

/-- the state after the push of `append`, before trimming -/
def pushed (d : Deque) (E : Externals) (now : Int) (v : PyVal) (left : Bool) : Cache :=
  (d.cache.tbegin.push E now v none (!left) none false .null).1

/-- the result of the push of `append` -/
def pushOut (d : Deque) (E : Externals) (now : Int) (v : PyVal) (left : Bool) : Out :=
  (d.cache.tbegin.push E now v none (!left) none false .null).2

theorem append_eq (d : Deque) (E : Externals) (now : Int) (v : PyVal) (left : Bool) :
    d.append E now v left =
      match pushOut d E now v left with
      | .exc e => ({ d with cache := (pushed d E now v left).traise 1 }, .exc e)
      | _ => ({ d with cache := (if d.tooLong (pushed d E now v left) then
                ((pushed d E now v left).pull E now none (!left) false false).1
               else pushed d E now v left).tend }, .none) := rfl

/-- `append` whose push did not raise (it returns the new key) -/
theorem append_cache (d : Deque) (E : Externals) (now : Int) (v : PyVal) (left : Bool)
    (k : PyVal) (hk : pushOut d E now v left = .val k) :
    (d.append E now v left).1.cache =
      (if d.tooLong (pushed d E now v left) then
        ((pushed d E now v left).pull E now none (!left) false false).1
       else pushed d E now v left).tend := by
  rw [append_eq, hk]

theorem append_out (d : Deque) (E : Externals) (now : Int) (v : PyVal) (left : Bool)
    (k : PyVal) (hk : pushOut d E now v left = .val k) : (d.append E now v left).2 = .none := by
  rw [append_eq, hk]

/-- `append` whose push raised: the block is rolled back, the exception propagates -/
theorem append_exc (d : Deque) (E : Externals) (now : Int) (v : PyVal) (left : Bool)
    (e : String) (he : pushOut d E now v left = .exc e) :
    (d.append E now v left).1 = { d with cache := (pushed d E now v left).traise 1 } ∧
    (d.append E now v left).2 = .exc e := by
  rw [append_eq, he]
  exact ⟨rfl, rfl⟩

theorem append_maxlen (d : Deque) (E : Externals) (now : Int) (v : PyVal) (left : Bool) :
    (d.append E now v left).1.maxlen = d.maxlen := by
  rw [append_eq]
  split <;> rfl

theorem pushed_spec (d : Deque) (E : Externals) (now : Int) (v : PyVal) (left : Bool)
    (inv : TableInv d.cache) (pol : d.cache.cfg.policy = .none)
    (noexp : ∀ r ∈ d.cache.rows, r.expT = none) (qok : QueueOk d.cache none) (room : Room d.cache none)
    (origin : OriginOk d.cache) {s1 : Cache} {c : Cols}
    (hst : d.cache.tbegin.store E v false = .ok (s1, c)) (hcb : c.bindable = true) :
    ∃ r : Row, (pushed d E now v left).rows = d.cache.rows ++ [r] ∧
      (pushed d E now v left).queueRows none =
        (if left then r :: d.cache.queueRows none else d.cache.queueRows none ++ [r]) ∧
      r.mode = c.mode ∧ r.val = c.val ∧ r.file = c.file ∧
      TableInv (pushed d E now v left) ∧ (pushed d E now v left).cfg = d.cache.cfg ∧
      (∀ f ct, d.cache.fileGet f = some ct → (pushed d E now v left).fileGet f = some ct) := by
  have hinv : TableInv d.cache.tbegin := tbegin_inv _ inv
  have hq : QueueOk d.cache.tbegin none := by unfold QueueOk; rw [tbegin_queueRows]; exact qok
  have hroom : Room d.cache.tbegin none := by unfold Room; rw [tbegin_queueRows]; exact room
  have hor : OriginOk d.cache.tbegin := by unfold OriginOk; rw [tbegin_cfg]; exact origin
  have hnc : Quiet d.cache.tbegin now := by
    refine Or.inr ⟨by rw [tbegin_cfg]; exact pol, fun r hr => ?_⟩
    rw [tbegin_rows] at hr
    unfold expired; rw [noexp r hr]
  have httl : TtlOk none := by intro t ht; cases ht
  have hb : (colsOf c none now .null).bindable = true := by
    unfold Cols.bindable at hcb ⊢
    simp only [Bool.and_eq_true] at hcb
    show (DC.Cache.bindable .null && DC.Cache.bindable c.val) = true
    rw [hcb.2]; rfl
  obtain ⟨r, h1, h2, h3, h4, h5⟩ := push_spec_any d.cache.tbegin E now v none (!left) none .null hinv hq hst
    hb hnc httl hor hroom (by intro q hq; cases hq)
  obtain ⟨⟨l, hl⟩, hcfg⟩ := push_keep_pos d.cache.tbegin E now v none (!left) none .null (tbegin_depth_pos _)
  rw [tbegin_rows] at h1
  rw [tbegin_cfg] at hcfg
  refine ⟨r, h1, ?_, h3, h4, h5, push_inv _ _ _ _ _ _ _ _ _ hinv, hcfg, ?_⟩
  · rw [tbegin_queueRows] at h2
    show (d.cache.tbegin.push E now v none (!left) none false .null).1.queueRows none = _
    rw [h2]
    cases left <;> rfl
  · intro f ct hf
    rw [tbegin_files] at hl
    exact fileGet_append hl hf

/-- under the hypotheses of `pushed_spec` the push does not raise: it returns the new key -/
theorem pushed_out (d : Deque) (E : Externals) (now : Int) (v : PyVal) (left : Bool)
    (inv : TableInv d.cache) (pol : d.cache.cfg.policy = .none)
    (noexp : ∀ r ∈ d.cache.rows, r.expT = none) (qok : QueueOk d.cache none) (room : Room d.cache none)
    (origin : OriginOk d.cache) {s1 : Cache} {c : Cols}
    (hst : d.cache.tbegin.store E v false = .ok (s1, c)) (hcb : c.bindable = true) :
    ∃ k, pushOut d E now v left = .val k := by
  obtain ⟨r, h1, -⟩ := pushed_spec d E now v left inv pol noexp qok room origin hst hcb
  rcases push_cases d.cache.tbegin E now v none (!left) none .null with h | ⟨_, _, num, _, _, _, _, _, _, _, ho⟩
  · have h1' : (d.cache.tbegin.push E now v none (!left) none false .null).1.rows = d.cache.rows ++ [r] := h1
    rw [h, tbegin_rows] at h1'
    have := congrArg List.length h1'
    simp at this
  · exact ⟨_, ho⟩

end DC.Deque
