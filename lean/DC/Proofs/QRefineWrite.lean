/-
Helper lemmas for C10_Refine, part 8: `add`, `touch`, `incr` on an ordinary key, on
a state that also holds queues.  The dictionary part is the argument of
DC/Properties/C03_Refine.lean (`add_refines`, `touch_refines`, `incr_refines`) with
`rf_assemble_ord`; the queues are untouched by `qr_frame` and the frames of
DC/Proofs/QRefineFrame.lean.
-/
import DC.Proofs.QRefineFrame

namespace DC.Cache
open DC.Spec DC.QSpec

theorem culled_of_same {c c' : Cache} (K : Key) (now : Int) (h : ∀ k', rf_view c' k' = rf_view c k') :
    rf_Culled now (rf_at K (rf_view c K) (rf_view c)) (rf_view c') := by
  intro k'
  left
  rw [h k', rf_at_self (fun k'' hs => rf_view_sameKey hs c)]

theorem culled_of_eq {c c' : Cache} {K : Key} {u : Option Entry} (now : Int)
    (h : ∀ k', rf_view c' k' = rf_at K u (rf_view c) k') :
    rf_Culled now (rf_at K u (rf_view c)) (rf_view c') := fun k' => .inl (h k')

/-- a write to the ordinary key `K` with the frame property: relation and invariant carry over,
given the dictionary part -/
theorem qr_write_finish {c c' : Cache} {n : Nat} {q : QSpec.State} {clock now : Int} {K : Key}
    {u : Option Entry}
    (hok : QOk c n) (hr : QRefines c q clock) (hg' : Good c') (hcfg : c'.cfg = c.cfg)
    (hK : isQueueKey K = false) (hfr : Fr K.1 K.2 c.cfg.cullLimit c.rows c'.rows)
    (hV : rf_Culled now (rf_at K u (rf_view c)) (rf_view c'))
    (d' : Dict) (hwf : d'.WF) (hord : ∀ b ∈ d', isQueueKey b.1 = false)
    (hdict : ∀ k, isQueueKey k = false → rf_VRel (rf_view c' k) (d'.get k) now) :
    QRefines c' { q with dict := d' } now ∧ QOk c' n :=
  qr_frame_finish hok hr hg' hcfg (qr_frame hok hg' hK hV hfr.1 hfr.2) d' hwf hord hdict

/-- … when the call changed nothing in the view -/
theorem qr_write_same {c c' : Cache} {n : Nat} {q : QSpec.State} {clock now : Int} {K : Key}
    (hok : QOk c n) (hr : QRefines c q clock) (hn : clock ≤ now) (hg' : Good c') (hcfg : c'.cfg = c.cfg)
    (hK : isQueueKey K = false) (hfr : Fr K.1 K.2 c.cfg.cullLimit c.rows c'.rows)
    (h : ∀ k', rf_view c' k' = rf_view c k') :
    QRefines c' { q with dict := q.dict } now ∧ QOk c' n :=
  qr_write_finish hok hr hg' hcfg hK hfr (culled_of_same K now h) q.dict hr.wf hr.ord
    (fun k hk => by rw [h k]; exact rf_VRel_mono (hr.vrel k hk) hn)

/-! ### `add` -/

theorem qr_add_step (c : Cache) (q : QSpec.State) (n : Nat) (clock now : Int) (E : Externals) (k v : PyVal)
    (ttl : Option Int) (read : Bool) (tag : SqlVal)
    (hok : QOk c n) (hr : QRefines c q clock) (hn : clock ≤ now)
    (hK : isQueueKey (keyOf E c.cfg k) = false) :
    (c.add E now k v ttl read tag).2 = (Spec.add q.dict E c.cfg now k v ttl read tag).2 ∧
    QRefines (c.add E now k v ttl read tag).1
      { q with dict := (Spec.add q.dict E c.cfg now k v ttl read tag).1 } now ∧
    QOk (c.add E now k v ttl read tag).1 n := by
  have hg := hok.good
  have hg' := add_good c E now k v ttl read tag hg
  have hA := rf_add_view c E now k v ttl read tag hg hok.pol
  have hcfg := rf_add_cfg c E now k v ttl read tag
  have hfr := add_frame c E now k v ttl read tag hg
  have hKr := rf_VRel_mono (hr.vrel _ hK) hn
  unfold Spec.add
  cases hpl : place E c.cfg.disk c.cfg.minFileSize v read with
  | error e =>
    rw [hpl] at hA
    simp only at hA ⊢
    rw [hA]
    exact ⟨rfl, hr.mono hn, hok⟩
  | ok p =>
    rw [hpl] at hA
    simp only at hA ⊢
    rw [rf_has_dict, ← rf_has_rel hKr]
    split
    · rename_i hb
      rw [if_pos hb] at hA
      exact ⟨hA.1, qr_write_same hok hr hn hg' hcfg hK hfr hA.2⟩
    · rename_i hb
      rw [if_neg hb] at hA
      split
      · rename_i hh
        rw [if_pos hh] at hA
        exact ⟨hA.1, qr_write_same hok hr hn hg' hcfg hK hfr hA.2⟩
      · rename_i hh
        rw [if_neg hh] at hA
        split
        · rename_i hcb
          rw [if_pos hcb] at hA
          refine ⟨hA.1, ?_⟩
          exact qr_write_finish hok hr hg' hcfg hK hfr hA.2 _ (rf_wf_put hr.wf _ _) (ord_put hr.ord hK _)
            (rf_assemble_ord (upd := fun _ => some (entryOf p (ttl.map (now + ·)) tag)) hr.vrel hn hK hA.2
              (fun k' => rf_get_put _ _ _ _) (fun _ _ _ => rf_VRel_refl _ _))
        · rename_i hcb
          rw [if_neg hcb] at hA
          exact ⟨hA.1, qr_write_same hok hr hn hg' hcfg hK hfr hA.2⟩

/-! ### `touch` -/

theorem qr_touch_step (c : Cache) (q : QSpec.State) (n : Nat) (clock now : Int) (E : Externals) (k : PyVal)
    (ttl : Option Int)
    (hok : QOk c n) (hr : QRefines c q clock) (hn : clock ≤ now)
    (hK : isQueueKey (keyOf E c.cfg k) = false) :
    (c.touch E now k ttl).2 = (Spec.touch q.dict E c.cfg now k ttl).2 ∧
    QRefines (c.touch E now k ttl).1 { q with dict := (Spec.touch q.dict E c.cfg now k ttl).1 } now ∧
    QOk (c.touch E now k ttl).1 n := by
  have hg := hok.good
  have hg' := touch_good c E now k ttl hg
  obtain ⟨hO, hV⟩ := rf_touch_view c E now k ttl hg
  have hcfg := rf_touch_cfg c E now k ttl
  have hfr := touch_frame c E now k ttl hg
  have hKr := rf_VRel_mono (hr.vrel _ hK) hn
  have hspec : (Spec.touch q.dict E c.cfg now k ttl).2 = .bool (rf_has now (q.dict.get (keyOf E c.cfg k))) ∧
      (Spec.touch q.dict E c.cfg now k ttl).1.WF ∧
      (∀ b ∈ (Spec.touch q.dict E c.cfg now k ttl).1, isQueueKey b.1 = false) ∧
      ∀ k', (Spec.touch q.dict E c.cfg now k ttl).1.get k' =
        rf_at (keyOf E c.cfg k) (rf_touchU now (ttl.map (now + ·)) (q.dict.get (keyOf E c.cfg k))) q.dict.get k' := by
    unfold Spec.touch rf_has rf_touchU
    cases hd : q.dict.get (keyOf E c.cfg k) with
    | none =>
      refine ⟨rfl, hr.wf, hr.ord, fun k' => ?_⟩
      simp only
      rw [← hd, rf_at_self (fun k'' h => rf_get_sameKey h q.dict)]
    | some e =>
      simp only
      cases hl : e.live now with
      | true =>
        simp only [if_true]
        exact ⟨trivial, rf_wf_put hr.wf _ _, ord_put hr.ord hK _, fun k' => rf_get_put _ _ _ _⟩
      | false =>
        simp only [Bool.false_eq_true, if_false]
        refine ⟨trivial, hr.wf, hr.ord, fun k' => ?_⟩
        rw [← hd, rf_at_self (fun k'' h => rf_get_sameKey h q.dict)]
  refine ⟨by rw [hO, hspec.1, rf_has_rel hKr], ?_⟩
  exact qr_write_finish hok hr hg' hcfg hK hfr (culled_of_eq now hV) _ hspec.2.1 hspec.2.2.1
    (rf_assemble_ord (upd := rf_touchU now (ttl.map (now + ·))) hr.vrel hn hK (fun k' => .inl (hV k'))
      hspec.2.2.2 (fun _ _ h => rf_touchU_rel _ h))

/-! ### `incr` -/

/-- the (re)creation branch -/
theorem qr_incr_fresh {c c' : Cache} {q : QSpec.State} {n : Nat} {clock now : Int} {o : Out} {E : Externals}
    {k : PyVal} {delta : Int} {dflt : Option Int}
    (hok : QOk c n) (hr : QRefines c q clock) (hn : clock ≤ now) (hg' : Good c') (hcfg : c'.cfg = c.cfg)
    (hK : isQueueKey (keyOf E c.cfg k) = false)
    (hfr : Fr (keyOf E c.cfg k).1 (keyOf E c.cfg k).2 c.cfg.cullLimit c.rows c'.rows)
    (hF : rf_IncrFresh c c' o E (keyOf E c.cfg k) now delta dflt) :
    o = (specIncrFresh q.dict E c.cfg k delta dflt).2 ∧
    QRefines c' { q with dict := (specIncrFresh q.dict E c.cfg k delta dflt).1 } now ∧ QOk c' n := by
  unfold rf_IncrFresh at hF
  unfold specIncrFresh
  cases dflt with
  | none => exact ⟨hF.1, qr_write_same hok hr hn hg' hcfg hK hfr hF.2⟩
  | some d =>
    simp only at hF ⊢
    cases hpl : place E c.cfg.disk c.cfg.minFileSize (.int (d + delta)) false with
    | error e =>
      rw [hpl] at hF
      exact ⟨hF.1, qr_write_same hok hr hn hg' hcfg hK hfr hF.2⟩
    | ok p =>
      rw [hpl] at hF
      refine ⟨hF.1, ?_⟩
      exact qr_write_finish hok hr hg' hcfg hK hfr hF.2 _ (rf_wf_put hr.wf _ _) (ord_put hr.ord hK _)
        (rf_assemble_ord (upd := fun _ => some (entryOf p none .null)) hr.vrel hn hK hF.2
          (fun k' => rf_get_put _ _ _ _) (fun _ _ _ => rf_VRel_refl _ _))

theorem qr_incr_step (c : Cache) (q : QSpec.State) (n : Nat) (clock now : Int) (E : Externals) (k : PyVal)
    (delta : Int) (dflt : Option Int)
    (hok : QOk c n) (hr : QRefines c q clock) (hn : clock ≤ now)
    (hK : isQueueKey (keyOf E c.cfg k) = false) :
    (c.incr E now k delta dflt).2 = (Spec.incr q.dict E c.cfg now k delta dflt).2 ∧
    QRefines (c.incr E now k delta dflt).1 { q with dict := (Spec.incr q.dict E c.cfg now k delta dflt).1 } now ∧
    QOk (c.incr E now k delta dflt).1 n := by
  have hg := hok.good
  have hg' := incr_good c E now k delta dflt hg
  have hA := rf_incr_view c E now k delta dflt hg hok.pol
  have hcfg := rf_incr_cfg c E now k delta dflt
  have hfr := incr_frame c E now k delta dflt hg
  have hKr := rf_VRel_mono (hr.vrel _ hK) hn
  rw [specIncr_eq]
  rcases rf_VRel_cases hKr with h | ⟨h, e, hd, he, -⟩
  · rw [h] at hA
    cases hd : q.dict.get (keyOf E c.cfg k) with
    | none =>
      rw [hd] at hA
      exact qr_incr_fresh hok hr hn hg' hcfg hK hfr hA
    | some e =>
      rw [hd] at hA
      simp only at hA ⊢
      by_cases hx : e.expired now = true
      · rw [if_pos hx] at hA ⊢
        exact qr_incr_fresh hok hr hn hg' hcfg hK hfr hA
      · rw [if_neg hx] at hA ⊢
        cases hval : e.val with
        | int i =>
          rw [hval] at hA
          simp only at hA ⊢
          by_cases hin : inI64 (i + delta) = true
          · rw [if_pos hin] at hA ⊢
            refine ⟨hA.1, ?_⟩
            exact qr_write_finish hok hr hg' hcfg hK hfr (culled_of_eq now hA.2) _ (rf_wf_put hr.wf _ _)
              (ord_put hr.ord hK _)
              (rf_assemble_ord (upd := fun _ => some { e with val := .int (i + delta) }) hr.vrel hn hK
                (fun k' => .inl (hA.2 k')) (fun k' => rf_get_put _ _ _ _) (fun _ _ _ => rf_VRel_refl _ _))
          · rw [if_neg hin] at hA ⊢
            exact ⟨hA.1, qr_write_same hok hr hn hg' hcfg hK hfr hA.2⟩
        | null => rw [hval] at hA; exact ⟨hA.1, qr_write_same hok hr hn hg' hcfg hK hfr hA.2⟩
        | real b => rw [hval] at hA; exact ⟨hA.1, qr_write_same hok hr hn hg' hcfg hK hfr hA.2⟩
        | text b => rw [hval] at hA; exact ⟨hA.1, qr_write_same hok hr hn hg' hcfg hK hfr hA.2⟩
        | blob b => rw [hval] at hA; exact ⟨hA.1, qr_write_same hok hr hn hg' hcfg hK hfr hA.2⟩
  · rw [h] at hA
    rw [hd]
    simp only at hA ⊢
    rw [if_pos he]
    exact qr_incr_fresh hok hr hn hg' hcfg hK hfr hA

end DC.Cache
