/-
Definitions used in the statements of C10_LooseRefine (the regime `cull_limit > 0`
with expiry times on pushed items): the reference whose `push` takes the item
number from the cache's answer, the loose relation `QLoose`, and the generic facts
about `Thinned` (DC/Properties/C10_Loose.lean).
-/
import DC.Properties.C10_Loose

namespace DC.QSpec
open DC.Cache

/-- `QSpec.push` with the number of the new item given (by the cache's answer) instead of
computed by `nextNum` -/
def pushAt (q : State) (E : Externals) (cfg : Cfg) (now : Int) (v : PyVal) (p : Option Str)
    (back : Bool) (ttl : Option Int) (read : Bool) (tag : SqlVal) (num : Int) : State × Out :=
  match place E cfg.disk cfg.minFileSize v read with
  | .error _ => (q, .exc "UnicodeEncodeError")
  | .ok pl =>
    let e := Spec.entryOf pl (ttl.map (now + ·)) tag
    let l := q.queues.get p
    if bindable e.tag && bindable e.val && bindable (queueKey p num) then
      ({ q with queues := q.queues.put p (if back then l ++ [⟨num, e⟩] else ⟨num, e⟩ :: l) },
       .val (column (queueKey p num)))
    else (q, .exc "UnicodeEncodeError")

/-- `QSpec.push` is `pushAt` at the number `nextNum` computes -/
theorem push_eq_pushAt (q : State) (E : Externals) (cfg : Cfg) (now : Int) (v : PyVal) (p : Option Str)
    (back : Bool) (ttl : Option Int) (read : Bool) (tag : SqlVal) :
    push q E cfg now v p back ttl read tag =
      pushAt q E cfg now v p back ttl read tag (nextNum cfg back (q.queues.get p)) := rfl

/-- one call of the reference, the number of a pushed item given -/
def stepAt (q : State) (cfg : Cfg) (op : Cache.Op) (num : Int) : State × Out :=
  match op with
  | .push E now v p back ttl read tag => pushAt q E cfg now v p back ttl read tag num
  | op => step q cfg op

/-- a run of the reference along a history annotated with the numbers (one per call; used by the
pushes only) -/
def runAt (q : State) (cfg : Cfg) (ops : List (Cache.Op × Int)) : State :=
  ops.foldl (fun q x => (stepAt q cfg x.1 x.2).1) q

def outsAt (q : State) (cfg : Cfg) : List (Cache.Op × Int) → List Out
  | [] => []
  | x :: xs => (stepAt q cfg x.1 x.2).2 :: outsAt (stepAt q cfg x.1 x.2).1 cfg xs

/-! ### `Thinned` -/

theorem Thinned.refl (now : Int) (l : List Item) : Thinned now l l :=
  ⟨fun _ => true, (filter_true' l).symm, fun _ _ h => by cases h⟩

theorem expired_mono' {e : Spec.Entry} {clock now : Int} (h : e.expired clock = true) (hn : clock ≤ now) :
    e.expired now = true := by
  unfold Spec.Entry.expired at h ⊢
  split at h
  · cases h
  · simp only [decide_eq_true_eq] at h ⊢; omega

theorem Thinned.mono {clock now : Int} {l' l : List Item} (h : Thinned clock l' l) (hn : clock ≤ now) :
    Thinned now l' l := by
  obtain ⟨keep, h1, h2⟩ := h
  exact ⟨keep, h1, fun it hit hk => expired_mono' (h2 it hit hk) hn⟩

theorem Thinned.trans {now : Int} {a b c : List Item} (h1 : Thinned now a b) (h2 : Thinned now b c) :
    Thinned now a c := by
  obtain ⟨k1, e1, x1⟩ := h1
  obtain ⟨k2, e2, x2⟩ := h2
  refine ⟨fun it => k1 it && k2 it, by rw [e1, e2, List.filter_filter], ?_⟩
  intro it hit hk
  simp only at hk
  cases hk2 : k2 it with
  | false => exact x2 it hit hk2
  | true =>
    rw [hk2] at hk
    simp only [Bool.and_true] at hk
    exact x1 it (by rw [e2]; exact List.mem_filter.2 ⟨hit, hk2⟩) hk

/-- the same items are dropped from both -/
theorem Thinned.filter {now : Int} {l' l : List Item} (h : Thinned now l' l) (k : Item → Bool) :
    Thinned now (l'.filter k) (l.filter k) := by
  obtain ⟨keep, e, x⟩ := h
  refine ⟨keep, ?_, fun it hit hk => x it (List.mem_filter.1 hit).1 hk⟩
  rw [e, List.filter_filter, List.filter_filter]
  apply List.filter_congr
  intro a _
  exact Bool.and_comm _ _

/-- an item that is not expired is added at the same end of both -/
theorem Thinned.add {now : Int} {l' l : List Item} (h : Thinned now l' l) (x : Item)
    (hx : x.ent.expired now = false) (back : Bool) :
    Thinned now (if back then l' ++ [x] else x :: l') (if back then l ++ [x] else x :: l) := by
  obtain ⟨keep, e, hk⟩ := h
  have hkx : ∀ it ∈ l, (keep it || decide (it = x)) = keep it := by
    intro it hit
    cases h1 : keep it with
    | true => rfl
    | false =>
      have := hk it hit h1
      have hne : it ≠ x := by intro e'; rw [e', hx] at this; cases this
      simp [hne]
  refine ⟨fun it => keep it || decide (it = x), ?_, ?_⟩
  · cases back with
    | true =>
      simp only [if_true, List.filter_append, List.filter_cons, List.filter_nil, decide_true, Bool.or_true]
      rw [e, List.filter_congr hkx]
    | false =>
      simp only [Bool.false_eq_true, if_false, List.filter_cons, decide_true, Bool.or_true, if_true]
      rw [e, List.filter_congr hkx]
  · intro it hit hf
    simp only [Bool.or_eq_false_iff, decide_eq_false_iff_not] at hf
    have hmem : it ∈ l := by
      cases back with
      | true =>
        simp only [if_true] at hit
        rcases List.mem_append.1 hit with h1 | h1
        · exact h1
        · exact absurd (List.mem_singleton.1 h1) hf.2
      | false =>
        simp only [Bool.false_eq_true, if_false] at hit
        rcases List.mem_cons.1 hit with h1 | h1
        · exact absurd h1 hf.2
        · exact h1
    exact hk it hmem hf.1

/-- rows dropped by `g` (expired ones only), read as items by an injective `f` -/
theorem thinned_map_filter {α} (now : Int) (L : List α) (f : α → Item) (g : α → Bool)
    (hinj : ∀ x ∈ L, ∀ y ∈ L, f x = f y → x = y)
    (hg : ∀ x ∈ L, g x = false → (f x).ent.expired now = true) :
    Thinned now ((L.filter g).map f) (L.map f) := by
  refine ⟨fun b => L.any (fun x => g x && decide (f x = b)), ?_, ?_⟩
  · rw [List.filter_map]
    congr 1
    apply List.filter_congr
    intro x hx
    simp only [Function.comp]
    cases hgx : g x with
    | true =>
      symm
      rw [List.any_eq_true]
      exact ⟨x, hx, by simp [hgx]⟩
    | false =>
      symm
      rw [List.any_eq_false]
      intro y hy
      simp only [Bool.and_eq_true, decide_eq_true_eq, not_and]
      intro hgy hfy
      have := hinj y hy x hx hfy
      subst this
      rw [hgx] at hgy; cases hgy
  · intro b hb hk
    simp only at hk
    obtain ⟨x, hx, rfl⟩ := List.mem_map.1 hb
    apply hg x hx
    cases hgx : g x with
    | false => rfl
    | true =>
      have : (L.any fun y => g y && decide (f y = f x)) = true := by
        rw [List.any_eq_true]; exact ⟨x, hx, by simp [hgx]⟩
      rw [this] at hk; cases hk

/-- every item of the larger list that is not expired is in the thinner one -/
theorem Thinned.live_mem {now : Int} {l' l : List Item} (h : Thinned now l' l) {it : Item} (hit : it ∈ l)
    (hl : it.ent.expired now = false) : it ∈ l' := by
  obtain ⟨keep, e, hk⟩ := h
  rw [e]
  refine List.mem_filter.2 ⟨hit, ?_⟩
  cases h1 : keep it with
  | true => rfl
  | false => rw [hk it hit h1] at hl; cases hl

theorem Thinned.sublist {now : Int} {l' l : List Item} (h : Thinned now l' l) : l'.Sublist l := by
  obtain ⟨keep, e, -⟩ := h
  rw [e]; exact List.filter_sublist

end DC.QSpec

namespace DC.Cache
open DC.Spec DC.QSpec

/-- `c` represents the specification state `q` at clock `clock`, LOOSELY: for every prefix the
cache's queue is the specification's queue without some items that are expired at `clock` (the
lazy cull may have removed them physically) — in particular every item that is not expired is
there, in the same order —; the dictionary part is as in `QRefines`. -/
structure QLoose (c : Cache) (q : QSpec.State) (clock : Int) : Prop where
  queues : ∀ p, Thinned clock (absQueue c p) (q.queues.get p)
  wf : q.dict.WF
  ord : ∀ b ∈ q.dict, isQueueKey b.1 = false
  dict : ∀ k : Spec.Key, isQueueKey k = false → HoldsKey c k (q.dict.get k) clock

theorem QRefines.loose {c : Cache} {q : QSpec.State} {clock : Int} (h : QRefines c q clock) :
    QLoose c q clock :=
  ⟨fun p => by rw [h.queues p]; exact Thinned.refl _ _, h.wf, h.ord, h.dict⟩

theorem QLoose.vrel {c : Cache} {q : QSpec.State} {clock : Int} (h : QLoose c q clock) :
    ∀ k, isQueueKey k = false → rf_VRel (rf_view c k) (q.dict.get k) clock :=
  fun k hk => (holdsKey_iff _ _ _ _).1 (h.dict k hk)

theorem QLoose.mono {c : Cache} {q : QSpec.State} {clock now : Int} (h : QLoose c q clock)
    (hn : clock ≤ now) : QLoose c q now :=
  ⟨fun p => (h.queues p).mono hn, h.wf, h.ord, fun k hk => by
    rw [holdsKey_iff]
    exact rf_VRel_mono ((holdsKey_iff _ _ _ _).1 (h.dict k hk)) hn⟩

end DC.Cache
