/- helper lemmas about value files: FileInv / NoOrphan preservation (C01, C08) -/
import DC.Properties.C03_Inv

namespace DC.Cache

/-- a quiescent, fully consistent state: table invariant, file invariant, no orphan file,
no open transaction block -/
structure Good (s : Cache) : Prop where
  tinv : TableInv s
  finv : FileInv s
  noOrphan : NoOrphan s
  depth : s.depth = 0
  snap : s.snap = none
  pending : s.pending = []
  created : s.created = []

end DC.Cache
