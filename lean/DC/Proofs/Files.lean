/- helper lemmas about value files: FileInv / NoOrphan preservation (C01, C08) -/
import DC.Properties.C03_Inv
import DC.Proofs.Cull
import DC.Proofs.Keys

namespace DC.Cache

/-- a quiescent, fully consistent state: table invariant, file invariant, no orphan file,
no open transaction block -/
structure Good (s : Cache) : Prop where
  tinv : TableInv s
  finv : FileInv s
  noOrphan : NoOrphan s
  depth : s.depth = 0
  snap : s.snap = none
  pending : s.pending = []
  created : s.created = []

/-! ### the part of the state the file invariants talk about -/

/-- projection of a state on the fields `Good` (minus `TableInv`) depends on -/
structure Core where
  rows : List Row
  files : List (Nat × Content)
  nfile : Nat
  depth : Nat
  snap : Option Snap
  pending : List (Option Nat)
  created : List Nat
  cfg : Cfg
  statistics : Bool

def core (s : Cache) : Core :=
  { rows := s.rows, files := s.files, nfile := s.nfile, depth := s.depth, snap := s.snap,
    pending := s.pending, created := s.created, cfg := s.cfg, statistics := s.statistics }

/-- "files consistent once the files listed in `cl` are removed": membership form of
`FileInv ∧ NoOrphan` plus rowid uniqueness, with a pending cleanup list `cl`. -/
structure PI (c : Core) (cl : List (Option Nat)) : Prop where
  uid : ∀ a ∈ c.rows, ∀ b ∈ c.rows, a.rowid = b.rowid → a = b
  ref : ∀ r ∈ c.rows, ∀ f, r.file = some f → some f ∉ cl ∧ ∃ ct, (f, ct) ∈ c.files ∧ ct.size = r.size
  inj : ∀ a ∈ c.rows, ∀ b ∈ c.rows, ∀ f, a.file = some f → b.file = some f → a = b
  fresh : ∀ p ∈ c.files, p.1 < c.nfile
  nodup : (c.files.map (·.1)).Nodup
  orphan : ∀ p ∈ c.files, (∃ r ∈ c.rows, r.file = some p.1) ∨ some p.1 ∈ cl
  depth : c.depth = 0
  snap : c.snap = none
  pending : c.pending = []
  created : c.created = []

/-! ### `core` of the primitive steps -/

@[simp] theorem core_rows (s : Cache) : (core s).rows = s.rows := rfl
@[simp] theorem core_files (s : Cache) : (core s).files = s.files := rfl
@[simp] theorem core_nfile (s : Cache) : (core s).nfile = s.nfile := rfl
@[simp] theorem core_depth (s : Cache) : (core s).depth = s.depth := rfl
@[simp] theorem core_snap (s : Cache) : (core s).snap = s.snap := rfl
@[simp] theorem core_pending (s : Cache) : (core s).pending = s.pending := rfl
@[simp] theorem core_created (s : Cache) : (core s).created = s.created := rfl
@[simp] theorem core_cfg (s : Cache) : (core s).cfg = s.cfg := rfl
@[simp] theorem core_statistics (s : Cache) : (core s).statistics = s.statistics := rfl

@[simp] theorem core_log (s : Cache) (a : Act) : core (s.log a) = core s := rfl
@[simp] theorem core_logSql (s : Cache) (a : String) : core (s.logSql a) = core s := rfl

@[simp] theorem core_volume (s : Cache) : core s.volume.1 = core s := by
  unfold volume; simp only; split <;> rfl

theorem core_delRowQuiet (s : Cache) (id : Nat) :
    core (s.delRowQuiet id) = { core s with rows := (core s).rows.filter (·.rowid != id) } := by
  have h := delRowQuiet_rows s id
  unfold delRowQuiet at h ⊢
  split
  · rfl
  · rename_i hn
    rw [hn] at h
    simp only [core]; rw [← h]

theorem core_delIn (ids : List Nat) : ∀ s : Cache,
    core (s.delIn ids) = { core s with rows := (core s).rows.filter (fun r => !ids.contains r.rowid) } := by
  intro s
  have h1 := delIn_rows ids s
  have h2 : ∀ (ids : List Nat) (s : Cache), (s.delIn ids).files = s.files ∧ (s.delIn ids).nfile = s.nfile ∧
      (s.delIn ids).depth = s.depth ∧ (s.delIn ids).snap = s.snap ∧
      (s.delIn ids).pending = s.pending ∧ (s.delIn ids).created = s.created ∧
      (s.delIn ids).cfg = s.cfg ∧ (s.delIn ids).statistics = s.statistics := by
    intro ids
    induction ids with
    | nil => intro s; simp [delIn]
    | cons a t ih =>
      intro s
      have h3 := core_delRowQuiet s a
      have := ih (s.delRowQuiet a)
      simp only [core, Core.mk.injEq] at h3
      simp only [delIn, List.foldl_cons] at this ⊢
      grind
  have := h2 ids s
  simp only [core, Core.mk.injEq]
  grind

@[simp] theorem core_delRow (s : Cache) (id : Nat) :
    core (s.delRow id) = { core s with rows := (core s).rows.filter (fun r => ![id].contains r.rowid) } :=
  core_delIn [id] s

@[simp] theorem core_restore (s : Cache) (p : Snap) :
    core (s.restore p) = { core s with rows := p.rows } := rfl

theorem core_fremove (s : Cache) (f : Nat) :
    core (s.fremove f) = { core s with files := (core s).files.filter (·.1 != f) } := rfl

theorem core_fremoveAll (fs : List (Option Nat)) : ∀ s : Cache,
    core (s.fremoveAll fs) =
      { core s with files := (core s).files.filter (fun p => !fs.contains (some p.1)) } := by
  induction fs with
  | nil =>
    intro s
    have : (core s).files.filter (fun p => !([] : List (Option Nat)).contains (some p.1)) = (core s).files := by
      rw [List.filter_eq_self]; intros; rfl
    rw [this]; rfl
  | cons a t ih =>
    intro s
    cases a with
    | none =>
      have := ih s
      simp only [fremoveAll, List.foldl_cons] at this ⊢
      rw [this]
      simp
    | some f =>
      have := ih (s.fremove f)
      simp only [fremoveAll, List.foldl_cons] at this ⊢
      rw [this, core_fremove]
      simp only [List.filter_filter, Core.mk.injEq, true_and, and_true]
      apply List.filter_congr
      intro p _
      simp [Bool.and_comm]
      grind

/-! ### steps that preserve `PI` -/

theorem PI.cl_congr {c : Core} {cl cl2 : List (Option Nat)} (h : PI c cl)
    (hc : ∀ f, some f ∈ cl2 ↔ some f ∈ cl) : PI c cl2 := by
  constructor
  · exact h.uid
  · intro r hr f hf; have := h.ref r hr f hf; rw [hc]; exact this
  · exact h.inj
  · exact h.fresh
  · exact h.nodup
  · intro p hp; have := h.orphan p hp; rw [hc]; exact this
  · exact h.depth
  · exact h.snap
  · exact h.pending
  · exact h.created

theorem PI.rows_congr {c : Core} {cl : List (Option Nat)} (h : PI c cl) (rows' : List Row)
    (hc : ∀ x, x ∈ rows' ↔ x ∈ c.rows) : PI { c with rows := rows' } cl := by
  constructor
  · intro a ha b hb; exact h.uid a ((hc a).1 ha) b ((hc b).1 hb)
  · intro r hr; exact h.ref r ((hc r).1 hr)
  · intro a ha b hb; exact h.inj a ((hc a).1 ha) b ((hc b).1 hb)
  · exact h.fresh
  · exact h.nodup
  · intro p hp
    rcases h.orphan p hp with ⟨r, hr, hf⟩ | h2
    · exact .inl ⟨r, (hc r).2 hr, hf⟩
    · exact .inr h2
  · exact h.depth
  · exact h.snap
  · exact h.pending
  · exact h.created

theorem PI.delIn {c : Core} {cl : List (Option Nat)} (h : PI c cl) (page : List Row)
    (hp : ∀ r ∈ page, r ∈ c.rows) :
    PI { c with rows := c.rows.filter (fun r => !(page.map (·.rowid)).contains r.rowid) }
      (cl ++ page.map (·.file)) := by
  have key : ∀ r ∈ c.rows, (page.map (·.rowid)).contains r.rowid = true ↔ r ∈ page := by
    intro r hr
    simp only [List.contains_iff_mem, List.mem_map]
    constructor
    · rintro ⟨x, hx, hxr⟩
      rw [← h.uid x (hp x hx) r hr hxr]; exact hx
    · intro h1; exact ⟨r, h1, rfl⟩
  constructor
  · intro a ha b hb
    exact h.uid a (List.mem_filter.1 ha).1 b (List.mem_filter.1 hb).1
  · intro r hr f hf
    obtain ⟨hr1, hr2⟩ := List.mem_filter.1 hr
    obtain ⟨h1, h2⟩ := h.ref r hr1 f hf
    refine ⟨?_, h2⟩
    simp only [List.mem_append, List.mem_map, not_or]
    refine ⟨h1, ?_⟩
    rintro ⟨x, hx, hxf⟩
    have := h.inj x (hp x hx) r hr1 f hxf hf
    subst this
    simp at hr2
    exact hr2 x hx rfl
  · intro a ha b hb
    exact h.inj a (List.mem_filter.1 ha).1 b (List.mem_filter.1 hb).1
  · exact h.fresh
  · exact h.nodup
  · intro p hp'
    rcases h.orphan p hp' with ⟨r, hr, hf⟩ | h2
    · by_cases hrp : r ∈ page
      · right; simp only [List.mem_append, List.mem_map]; right; exact ⟨r, hrp, hf⟩
      · left; refine ⟨r, List.mem_filter.2 ⟨hr, ?_⟩, hf⟩
        have : ¬ (page.map (·.rowid)).contains r.rowid = true := fun hc => hrp ((key r hr).1 hc)
        simpa using this
    · right; simp [h2]
  · exact h.depth
  · exact h.snap
  · exact h.pending
  · exact h.created

theorem PI.ins {c : Core} {cl cl2 : List (Option Nat)} (h : PI c cl) (r : Row)
    (hid : ∀ a ∈ c.rows, a.rowid ≠ r.rowid)
    (hf : ∀ g, r.file = some g → some g ∈ cl ∧ ∃ ct, (g, ct) ∈ c.files ∧ ct.size = r.size)
    (hc : ∀ f, some f ∈ cl2 ↔ some f ∈ cl ∧ r.file ≠ some f) :
    PI { c with rows := c.rows ++ [r] } cl2 := by
  constructor
  · intro a ha b hb hab
    simp only [List.mem_append, List.mem_singleton] at ha hb
    rcases ha with ha | rfl <;> rcases hb with hb | rfl
    · exact h.uid a ha b hb hab
    · exact absurd hab (hid a ha)
    · exact absurd hab.symm (hid b hb)
    · rfl
  · intro a ha f hfa
    simp only [List.mem_append, List.mem_singleton] at ha
    rcases ha with ha | rfl
    · obtain ⟨h1, h2⟩ := h.ref a ha f hfa
      exact ⟨fun h3 => h1 ((hc f).1 h3).1, h2⟩
    · exact ⟨fun h3 => ((hc f).1 h3).2 hfa, (hf f hfa).2⟩
  · intro a ha b hb f hfa hfb
    simp only [List.mem_append, List.mem_singleton] at ha hb
    rcases ha with ha | rfl <;> rcases hb with hb | rfl
    · exact h.inj a ha b hb f hfa hfb
    · exact absurd (hf f hfb).1 (h.ref a ha f hfa).1
    · exact absurd (hf f hfa).1 (h.ref b hb f hfb).1
    · rfl
  · exact h.fresh
  · exact h.nodup
  · intro p hp
    rcases h.orphan p hp with ⟨a, ha, hfa⟩ | h2
    · exact .inl ⟨a, List.mem_append_left _ ha, hfa⟩
    · by_cases hrp : r.file = some p.1
      · exact .inl ⟨r, by simp, hrp⟩
      · exact .inr ((hc p.1).2 ⟨h2, hrp⟩)
  · exact h.depth
  · exact h.snap
  · exact h.pending
  · exact h.created

theorem PI.map {c : Core} {cl : List (Option Nat)} (h : PI c cl) (g : Row → Row)
    (hg : ∀ r, (g r).rowid = r.rowid ∧ (g r).file = r.file ∧ (g r).size = r.size) :
    PI { c with rows := c.rows.map g } cl := by
  constructor
  · intro a ha b hb hab
    obtain ⟨a', ha', rfl⟩ := List.mem_map.1 ha
    obtain ⟨b', hb', rfl⟩ := List.mem_map.1 hb
    rw [(hg a').1, (hg b').1] at hab
    rw [h.uid a' ha' b' hb' hab]
  · intro a ha f hfa
    obtain ⟨a', ha', rfl⟩ := List.mem_map.1 ha
    rw [(hg a').2.1] at hfa
    rw [(hg a').2.2]
    exact h.ref a' ha' f hfa
  · intro a ha b hb f hfa hfb
    obtain ⟨a', ha', rfl⟩ := List.mem_map.1 ha
    obtain ⟨b', hb', rfl⟩ := List.mem_map.1 hb
    rw [(hg a').2.1] at hfa
    rw [(hg b').2.1] at hfb
    rw [h.inj a' ha' b' hb' f hfa hfb]
  · exact h.fresh
  · exact h.nodup
  · intro p hp
    rcases h.orphan p hp with ⟨a, ha, hfa⟩ | h2
    · exact .inl ⟨g a, List.mem_map.2 ⟨a, ha, rfl⟩, by rw [(hg a).2.1]; exact hfa⟩
    · exact .inr h2
  · exact h.depth
  · exact h.snap
  · exact h.pending
  · exact h.created

theorem PI.fwrite {c : Core} (h : PI c []) (ct : Content) :
    PI { c with files := c.files ++ [(c.nfile, ct)], nfile := c.nfile + 1 } [some c.nfile] := by
  constructor
  · exact h.uid
  · intro r hr f hf
    obtain ⟨-, ct', h1, h2⟩ := h.ref r hr f hf
    have := h.fresh _ h1
    refine ⟨?_, ct', List.mem_append_left _ h1, h2⟩
    simp only [List.mem_singleton, Option.some.injEq]
    simp only at this; omega
  · exact h.inj
  · intro p hp
    simp only [List.mem_append, List.mem_singleton] at hp
    rcases hp with hp | rfl
    · have := h.fresh p hp; simp only at this ⊢; omega
    · simp
  · simp only [List.map_append, List.map_cons, List.map_nil]
    rw [List.nodup_append]
    refine ⟨h.nodup, by simp, ?_⟩
    intro a ha b hb
    simp only [List.mem_singleton] at hb
    obtain ⟨p, hp, rfl⟩ := List.mem_map.1 ha
    have := h.fresh p hp
    omega
  · intro p hp
    simp only [List.mem_append, List.mem_singleton] at hp
    rcases hp with hp | rfl
    · rcases h.orphan p hp with h1 | h2
      · exact .inl h1
      · cases h2
    · right; simp
  · exact h.depth
  · exact h.snap
  · exact h.pending
  · exact h.created

theorem PI.finish {c : Core} {cl extra : List (Option Nat)} (h : PI c (cl ++ extra)) :
    PI { c with files := c.files.filter (fun p => !cl.contains (some p.1)) } extra := by
  constructor
  · exact h.uid
  · intro r hr f hf
    obtain ⟨h1, ct, h2, h3⟩ := h.ref r hr f hf
    simp only [List.mem_append, not_or] at h1
    refine ⟨h1.2, ct, List.mem_filter.2 ⟨h2, ?_⟩, h3⟩
    simpa using h1.1
  · exact h.inj
  · intro p hp; exact h.fresh p (List.mem_filter.1 hp).1
  · exact h.nodup.sublist (List.filter_sublist.map _)
  · intro p hp
    obtain ⟨hp1, hp2⟩ := List.mem_filter.1 hp
    rcases h.orphan p hp1 with h1 | h2
    · exact .inl h1
    · simp only [List.mem_append] at h2
      rcases h2 with h2 | h2
      · simp [h2] at hp2
      · exact .inr h2
  · exact h.depth
  · exact h.snap
  · exact h.pending
  · exact h.created

/-! ### `Good` in terms of `PI` -/

theorem fileGet_of_mem {s : Cache} (hn : (s.files.map (·.1)).Nodup) {f : Nat} {ct : Content}
    (h : (f, ct) ∈ s.files) : s.fileGet f = some ct := by
  unfold fileGet
  generalize s.files = l at hn h
  induction l with
  | nil => cases h
  | cons p t ih =>
    simp only [List.map_cons, List.nodup_cons] at hn
    rcases List.mem_cons.1 h with rfl | h'
    · simp
    · have : p.1 ≠ f := by
        intro hpf; apply hn.1; rw [hpf]; exact List.mem_map.2 ⟨(f, ct), h', rfl⟩
      rw [List.find?_cons_of_neg (by simpa using this)]
      exact ih hn.2 h'

theorem mem_of_fileGet {s : Cache} {f : Nat} {ct : Content} (h : s.fileGet f = some ct) :
    (f, ct) ∈ s.files := by
  unfold fileGet at h
  simp only [Option.map_eq_some_iff] at h
  obtain ⟨p, hp, rfl⟩ := h
  have h1 := List.mem_of_find?_eq_some hp
  have h2 := List.find?_some hp
  simp only [beq_iff_eq] at h2
  subst h2
  exact h1

theorem pairwise_mem_cases {α} {R : α → α → Prop} {l : List α} (h : l.Pairwise R) {a b : α}
    (ha : a ∈ l) (hb : b ∈ l) : a = b ∨ R a b ∨ R b a := by
  induction l with
  | nil => cases ha
  | cons x xs ih =>
    rw [List.pairwise_cons] at h
    rcases List.mem_cons.1 ha with rfl | ha' <;> rcases List.mem_cons.1 hb with rfl | hb'
    · exact .inl rfl
    · exact .inr (.inl (h.1 b hb'))
    · exact .inr (.inr (h.1 a ha'))
    · exact ih h.2 ha' hb'

theorem Good.pi {s : Cache} (h : Good s) : PI (core s) [] := by
  constructor
  · intro a ha b hb hab; exact rowidsAsc_eq_of_rowid h.tinv.tbl.asc ha hb hab
  · intro r hr f hf
    obtain ⟨ct, h1, h2⟩ := h.finv.ref r hr f hf
    exact ⟨by simp, ct, mem_of_fileGet h1, h2⟩
  · intro a ha b hb f hfa hfb
    rcases pairwise_mem_cases h.finv.inj ha hb with h1 | h1 | h1
    · exact h1
    · exact absurd hfb (h1 f hfa)
    · exact absurd hfa (h1 f hfb)
  · exact h.finv.fresh
  · exact h.finv.nodup
  · intro p hp; exact .inl (h.noOrphan p hp)
  · exact h.depth
  · exact h.snap
  · exact h.pending
  · exact h.created

theorem good_of_pi {s : Cache} (ht : TableInv s) (h : PI (core s) []) : Good s := by
  refine ⟨ht, ⟨?_, ?_, h.fresh, h.nodup⟩, ?_, h.depth, h.snap, h.pending, h.created⟩
  · intro r hr f hf
    obtain ⟨-, ct, h1, h2⟩ := h.ref r hr f hf
    exact ⟨ct, fileGet_of_mem h.nodup h1, h2⟩
  · have hnd : s.rows.Nodup := ht.tbl.asc.nodup
    refine List.Pairwise.imp_of_mem ?_ hnd
    intro a b ha hb hab f hfa hfb
    exact hab (h.inj a ha b hb f hfa hfb)
  · intro p hp
    rcases h.orphan p hp with h1 | h1
    · exact h1
    · cases h1

/-! ### transactions at depth 0 -/

/-- what a transaction body must establish (at depth 0) -/
def BodyOK (s : Cache) (b : Body) (fresh : Option Nat) (extra : List (Option Nat)) : Prop :=
  (b.ok = true ∧ PI (core b.s) (b.cleanup ++ extra)) ∨
  (b.ok = false ∧ core b.s = core s ∧ PI (core s) (fresh :: extra))

theorem transact_PI (s : Cache) (body : Cache → Body) (fresh : Option Nat)
    (extra : List (Option Nat)) (hd : s.depth = 0)
    (hb : BodyOK s (body (s.log .begin)) fresh extra) :
    PI (core (s.transact body fresh).1) extra := by
  unfold transact
  simp only [hd, Nat.lt_irrefl, if_false]
  rcases hb with ⟨hok, h⟩ | ⟨hok, hc, h⟩
  · rw [if_pos hok]
    simp only [core_fremoveAll, core_log]
    exact h.finish
  · rw [if_neg (by simp [hok])]
    have hc' : { core (body (s.log .begin)).s with rows := s.takeSnap.rows } = core s := by
      rw [hc]; rfl
    cases fresh with
    | none =>
      simp only [core_log, core_restore, hc']
      exact h.cl_congr (by simp)
    | some f =>
      have := core_fremoveAll [some f] (((body (s.log .begin)).s.restore s.takeSnap).log .rollback)
      simp only [fremoveAll, List.foldl_cons, List.foldl_nil, core_log, core_restore, hc'] at this
      simp only [this]
      have h2 : PI (core s) ([some f] ++ extra) := h
      have := h2.finish
      simpa using this

/-! ### INSERT / UPDATE -/

/-- the row written by `INSERT` -/
def newRow (s : Cache) (k : SqlVal) (raw : Bool) (now : Int) (c : Cols) : Row :=
  { rowid := maxRowid s.rows + 1, key := k, raw := raw, storeT := now,
    expT := c.expT, accT := now, accN := 0, tag := c.tag, size := c.size,
    mode := c.mode, file := c.file, val := c.val }

/-- the row transformation of `UPDATE … WHERE rowid = ?` -/
def updF (rowid : Nat) (now : Int) (c : Cols) (r : Row) : Row :=
  if r.rowid == rowid then
    { r with storeT := now, expT := c.expT, accT := now, accN := 0, tag := c.tag,
             size := c.size, mode := c.mode, file := c.file, val := c.val } else r

theorem core_insRow (s : Cache) (k : SqlVal) (raw : Bool) (now : Int) (c : Cols) :
    core (s.insRow k raw now c) = { core s with rows := (core s).rows ++ [newRow s k raw now c] } := rfl

theorem core_updRow (s : Cache) (rowid : Nat) (now : Int) (c : Cols) :
    core (s.updRow rowid now c) = { core s with rows := (core s).rows.map (updF rowid now c) } := rfl

theorem PI_insRow {s : Cache} {cl cl2 : List (Option Nat)} (h : PI (core s) cl)
    (k : SqlVal) (raw : Bool) (now : Int) (c : Cols)
    (hf : ∀ g, c.file = some g → some g ∈ cl ∧ ∃ ct, (g, ct) ∈ s.files ∧ ct.size = c.size)
    (hc : ∀ f, some f ∈ cl2 ↔ some f ∈ cl ∧ c.file ≠ some f) :
    PI (core (s.insRow k raw now c)) cl2 := by
  rw [core_insRow]
  refine h.ins (newRow s k raw now c) ?_ hf hc
  intro a ha
  have := le_maxRowid s.rows a ha
  show a.rowid ≠ maxRowid s.rows + 1
  omega

theorem PI_updRow {s : Cache} {cl cl2 : List (Option Nat)} (h : PI (core s) cl)
    (old : Row) (hold : old ∈ s.rows) (now : Int) (c : Cols)
    (hf : ∀ g, c.file = some g → some g ∈ cl ∧ ∃ ct, (g, ct) ∈ s.files ∧ ct.size = c.size)
    (hc : ∀ f, some f ∈ cl2 ↔ (some f ∈ cl ∧ c.file ≠ some f) ∨ old.file = some f) :
    PI (core (s.updRow old.rowid now c)) cl2 := by
  rw [core_updRow]
  have hne : ∀ f, old.file = some f → c.file ≠ some f := by
    intro f h1 h2; exact (h.ref old hold f h1).1 (hf f h2).1
  have h1 := h.delIn [old] (by intro r hr; simp at hr; subst hr; exact hold)
  have h2 := h1.ins (cl2 := cl2) (updF old.rowid now c old) ?_ ?_ ?_
  · refine (h2.rows_congr ((core s).rows.map (updF old.rowid now c)) ?_)
    intro x
    simp only [List.mem_map, List.mem_append, List.mem_filter, List.mem_singleton]
    constructor
    · rintro ⟨r, hr, rfl⟩
      by_cases hid : r.rowid = old.rowid
      · right; rw [h.uid r hr old hold hid]
      · left
        have : updF old.rowid now c r = r := by simp [updF, hid]
        rw [this]; exact ⟨hr, by simpa using hid⟩
    · rintro (⟨hx, hid⟩ | rfl)
      · refine ⟨x, hx, ?_⟩
        have hid : x.rowid ≠ old.rowid := by simpa using hid
        simp [updF, hid]
      · exact ⟨old, hold, rfl⟩
  · intro a ha
    have := (List.mem_filter.1 ha).2
    simp only [updF, beq_self_eq_true, if_true]
    simpa using this
  · intro g hg
    have hg : c.file = some g := by simpa [updF] using hg
    obtain ⟨h3, h4⟩ := hf g hg
    refine ⟨by simp [h3], ?_⟩
    simpa [updF] using h4
  · intro f
    rw [hc f]
    simp [updF]
    grind

/-! ### the other statements, `_cull`, `Disk.store` -/

theorem PI_updExp {s : Cache} {cl : List (Option Nat)} (h : PI (core s) cl) (id : Nat) (e : Option Int) :
    PI (core (s.updExp id e)) cl := by
  have : core (s.updExp id e) = { core s with rows := List.map (fun (r : Row) => if r.rowid == id then { r with expT := e } else r) (core s).rows } := rfl
  rw [this]
  apply h.map
  intro r; split <;> simp

theorem touchPolicy_keep_fl (p : Policy) (now : Int) (r : Row) :
    (touchPolicy p now r).rowid = r.rowid ∧ (touchPolicy p now r).file = r.file ∧
    (touchPolicy p now r).size = r.size := by
  cases p <;> simp [touchPolicy]

theorem PI_updGet {s : Cache} {cl : List (Option Nat)} (h : PI (core s) cl) (id : Nat) (now : Int) :
    PI (core (s.updGet id now)) cl := by
  have : core (s.updGet id now) = { core s with rows := List.map (fun (r : Row) => if r.rowid == id then touchPolicy s.cfg.policy now r else r) (core s).rows } := rfl
  rw [this]
  apply h.map
  intro r; split
  · exact touchPolicy_keep_fl _ _ _
  · simp

theorem PI_updIncr {s : Cache} {cl : List (Option Nat)} (h : PI (core s) cl) (id : Nat) (now : Int)
    (v : SqlVal) : PI (core (s.updIncr id now v)) cl := by
  have : core (s.updIncr id now v) = { core s with rows := List.map (fun (r : Row) => if r.rowid == id then touchPolicy s.cfg.policy now { r with storeT := now, val := v } else r) (core s).rows } := rfl
  rw [this]
  apply h.map
  intro r; split
  · exact touchPolicy_keep_fl _ _ _
  · simp

theorem PI_delIn {s : Cache} {cl : List (Option Nat)} (h : PI (core s) cl) (page : List Row)
    (hp : ∀ r ∈ page, r ∈ s.rows) :
    PI (core (s.delIn (page.map (·.rowid)))) (cl ++ page.map (·.file)) := by
  rw [core_delIn]; exact h.delIn page hp

theorem PI_delRow {s : Cache} {cl : List (Option Nat)} (h : PI (core s) cl) (r : Row)
    (hr : r ∈ s.rows) : PI (core (s.delRow r.rowid)) (cl ++ [r.file]) := by
  have := PI_delIn h [r] (by intro x hx; simp at hx; subst hx; exact hr)
  exact this

theorem cullTail_PI (t : Cache) (cl : List (Option Nat)) (n : Nat) (pre : List (Option Nat))
    (h : PI (core t) (pre ++ cl)) :
    PI (core (cullTail t cl n).1) (pre ++ (cullTail t cl n).2) := by
  unfold cullTail
  split
  · exact h
  split
  · exact h
  simp only
  split
  · simpa using h
  split
  · simpa using h
  · simp only [core_logSql]
    rw [← List.append_assoc]
    apply PI_delIn
    · simpa using h
    · intro r hr
      have := selPolicy_mem hr
      simpa using this

theorem cullW_PI (s : Cache) (now : Int) (pre : List (Option Nat)) (h : PI (core s) pre) :
    PI (core (s.cullW now).1) (pre ++ (s.cullW now).2) := by
  by_cases h0 : s.cfg.cullLimit = 0
  · have h1 : s.cullW now = (s, []) := by unfold cullW; simp [h0]
    rw [h1]; simpa using h
  · rw [cullW_eq s now h0]
    split
    · apply cullTail_PI; simpa using h
    · apply cullTail_PI
      simp only [core_logSql]
      apply PI_delIn
      · simpa using h
      · intro r hr; exact (selExpired_mem hr).1

theorem store_PI {s s1 : Cache} {E : Externals} {v : PyVal} {read : Bool} {c : Cols}
    (hs : s.store E v read = .ok (s1, c)) (h : PI (core s) []) :
    PI (core s1) [c.file] ∧
    (∀ g, c.file = some g → ∃ ct, (g, ct) ∈ s1.files ∧ ct.size = c.size) := by
  unfold store at hs
  split at hs
  · cases hs
  · cases hs
    exact ⟨h.cl_congr (by simp), by simp⟩
  · rename_i mode ct _
    cases hs
    refine ⟨?_, ?_⟩
    · exact h.fwrite ct
    · intro g hg
      simp only [Option.some.injEq] at hg
      subst hg
      exact ⟨ct, by simp, rfl⟩


/-! ### reads -/

@[simp] theorem core_fetchRow (s : Cache) (E : Externals) (r : Row) (read : Bool) :
    core (s.fetchRow E r read).1 = core s := by
  unfold fetchRow
  split
  · simp only; split <;> rfl
  · rfl

theorem fetchRow_snd_congr (s t : Cache) (E : Externals) (r : Row) (read : Bool)
    (hc : s.cfg = t.cfg) (hf : s.files = t.files) :
    (s.fetchRow E r read).2 = (t.fetchRow E r read).2 := by
  unfold fetchRow
  split
  · split <;> simp_all [fileGet, log]
  · simp [hc]

theorem removeCommitted_zero (s : Cache) (f : Option Nat) (hd : s.depth = 0) :
    s.removeCommitted f = s.fremoveAll [f] := by
  unfold removeCommitted
  cases f with
  | none => rfl
  | some f => simp [hd, fremoveAll]


@[simp] theorem core_setMisses (s : Cache) (m : Int) : core { s with misses := m } = core s := rfl
@[simp] theorem core_setHits (s : Cache) (m : Int) : core { s with hits := m } = core s := rfl

/-- normalise `core` of a state that differs from `s` by ghost / statistics fields only -/
macro "core_simp" : tactic =>
  `(tactic| simp only [core_setMisses, core_setHits, core_logSql, core_log, core_fetchRow, core_volume])

theorem selLive_mem {s : Cache} {k : SqlVal} {raw : Bool} {now : Int} {r : Row}
    (h : s.selLive k raw now = some r) : r ∈ s.rows := List.mem_of_find?_eq_some h

theorem selKey_mem {s : Cache} {k : SqlVal} {raw : Bool} {r : Row}
    (h : s.selKey k raw = some r) : r ∈ s.rows := List.mem_of_find?_eq_some h

/-! ### loops and small transaction shapes -/

theorem delete_fst_fl (s : Cache) (E : Externals) (now : Int) (k : PyVal) :
    (s.delete E now k).1 = (s.delitem E now k).1 := by
  unfold delete
  split <;> simp_all

theorem store_keep {s s1 : Cache} {E : Externals} {v : PyVal} {read : Bool} {c : Cols}
    (hs : s.store E v read = .ok (s1, c)) :
    s1.rows = s.rows ∧ s1.cfg = s.cfg ∧ s1.count = s.count ∧ s1.size = s.size ∧
    s1.statistics = s.statistics := by
  unfold store at hs
  split at hs
  · cases hs
  · cases hs; simp
  · cases hs; simp [log]

theorem deletePage_PI {s : Cache} (h : PI (core s) []) (page : List Row) (sel : String)
    (hp : ∀ r ∈ page, r ∈ s.rows) : PI (core (s.deletePage page sel)) [] := by
  rw [deletePage_eq]
  apply transact_PI _ _ _ _ h.depth
  left
  refine ⟨pageBody_ok _ _ _, ?_⟩
  rw [pageBody_cleanup]
  unfold pageBody
  simp only
  split
  · rename_i he
    have : page = [] := List.isEmpty_iff.1 he
    subst this
    simpa using h
  · simp only [core_logSql, List.append_nil]
    have := PI_delIn (s := (s.log .begin).logSql sel) (cl := []) (by simpa using h) page hp
    simpa using this

theorem clearLoop_PI : ∀ (fuel : Nat) (s : Cache) (cur n : Nat), PI (core s) [] →
    PI (core (clearLoop fuel s cur n).1) [] := by
  intro fuel
  induction fuel with
  | zero => intro s cur n h; exact h
  | succ k ih =>
    intro s cur n h
    unfold clearLoop
    simp only
    have h1 := deletePage_PI h ((s.rows.filter (fun r => r.rowid > cur)).take s.cfg.page) "pageRowid"
      (fun r hr => (List.mem_filter.1 (List.mem_of_mem_take hr)).1)
    split
    · exact h1
    · exact ih _ _ _ h1

theorem evictLoop_PI (tag : SqlVal) : ∀ (fuel : Nat) (s : Cache) (cur n : Nat), PI (core s) [] →
    PI (core (evictLoop tag fuel s cur n).1) [] := by
  intro fuel
  induction fuel with
  | zero => intro s cur n h; exact h
  | succ k ih =>
    intro s cur n h
    unfold evictLoop
    simp only
    have h1 := deletePage_PI h ((s.rows.filter (fun r => r.tag.eqv tag && r.rowid > cur)).take s.cfg.page) "pageTag"
      (fun r hr => (List.mem_filter.1 (List.mem_of_mem_take hr)).1)
    split
    · exact h1
    · exact ih _ _ _ h1

theorem expireLoop_PI (now : Int) : ∀ (fuel : Nat) (s : Cache) (lo : Option Int) (n : Nat), PI (core s) [] →
    PI (core (expireLoop now fuel s lo n).1) [] := by
  intro fuel
  induction fuel with
  | zero => intro s lo n h; exact h
  | succ k ih =>
    intro s lo n h
    unfold expireLoop
    simp only
    split
    · apply deletePage_PI h
      intro r hr
      exact (List.mem_filter.1 (mem_of_mem_take_isort hr)).1
    · apply ih
      apply deletePage_PI h
      intro r hr
      exact (List.mem_filter.1 (mem_of_mem_take_isort hr)).1

theorem cullLoop_PI : ∀ (fuel : Nat) (s : Cache) (n : Nat), PI (core s) [] →
    PI (core (cullLoop fuel s n).1) [] := by
  intro fuel
  induction fuel with
  | zero => intro s n h; exact h
  | succ k ih =>
    intro s n h
    unfold cullLoop
    simp only
    have hv : PI (core s.volume.1) [] := by simpa using h
    split
    · exact hv
    split
    · apply transact_PI _ _ _ _ hv.depth
      left
      exact ⟨rfl, by simpa using hv⟩
    · apply ih
      apply transact_PI _ _ _ _ hv.depth
      left
      refine ⟨rfl, ?_⟩
      simp only [core_logSql, List.append_nil]
      have := PI_delIn (s := (s.volume.1.log .begin).logSql "selPolicy") (cl := []) (by simpa using hv)
        (s.volume.1.selPolicy s.volume.1.cfg.batch) (fun r hr => selPolicy_mem hr)
      simpa using this

theorem queueHead_mem {s : Cache} {pfx : Option Str} {front : Bool} {r : Row}
    (h : (if front then (s.queueRows pfx).head? else lastRow? (s.queueRows pfx)) = some r) :
    r ∈ s.rows := by
  have : r ∈ s.queueRows pfx := by
    split at h
    · exact List.mem_of_head? h
    · exact lastRow?_mem h
  unfold queueRows at this
  exact (List.mem_filter.1 (mem_isort_ec.1 this)).1

theorem removeCommitted_PI {t : Cache} {f : Option Nat} (ht : PI (core t) [f]) :
    PI (core (t.removeCommitted f)) [] := by
  rw [removeCommitted_zero _ _ ht.depth, core_fremoveAll]
  exact PI.finish (cl := [f]) (extra := []) (by simpa using ht)

theorem transact_log_PI {s : Cache} (h : PI (core s) []) (sel : String) :
    PI (core (s.transact fun s => { s := s.logSql sel, out := .none }).1) [] := by
  apply transact_PI _ _ _ _ h.depth
  left
  exact ⟨rfl, by simpa using h⟩

theorem transact_delRow_cleanup_PI {s : Cache} (h : PI (core s) []) (sel : String) (r : Row)
    (hr : r ∈ s.rows) :
    PI (core (s.transact fun s =>
      { s := (s.logSql sel).delRow r.rowid, out := .none, cleanup := [r.file] }).1) [] := by
  apply transact_PI _ _ _ _ h.depth
  left
  refine ⟨rfl, ?_⟩
  have := PI_delRow (s := (s.log .begin).logSql sel) (cl := []) (by simpa using h) r hr
  simpa using this

theorem transact_delRow_PI {s : Cache} (h : PI (core s) []) (sel : String) (r : Row)
    (hr : r ∈ s.rows) :
    PI (core (s.transact fun s =>
      { s := (s.logSql sel).delRow r.rowid, out := .none }).1) [r.file] := by
  apply transact_PI _ _ _ _ h.depth
  left
  refine ⟨rfl, ?_⟩
  have := PI_delRow (s := (s.log .begin).logSql sel) (cl := []) (by simpa using h) r hr
  simpa using this

theorem pullLoop_PI (E : Externals) (now : Int) (pfx : Option Str) (front et tg : Bool) :
    ∀ (fuel : Nat) (s : Cache), PI (core s) [] →
    PI (core (pullLoop E now pfx front et tg fuel s).1) [] := by
  intro fuel
  induction fuel with
  | zero => intro s h; exact h
  | succ k ih =>
    intro s h
    unfold pullLoop
    simp only
    split
    · exact transact_log_PI h _
    · rename_i r hr
      have hmem := queueHead_mem hr
      split
      · exact ih _ (transact_delRow_cleanup_PI h _ r hmem)
      · have h1 := transact_delRow_PI h "selQueueHead" r hmem
        have h2 : PI (core (((s.transact fun s =>
            { s := (s.logSql "selQueueHead").delRow r.rowid, out := .none }).1.fetchRow E r false).1.removeCommitted r.file)) [] :=
          removeCommitted_PI (by simpa using h1)
        split
        · exact ih _ h2
        · exact h2

theorem peekLoop_PI (E : Externals) (now : Int) (pfx : Option Str) (front et tg : Bool) :
    ∀ (fuel : Nat) (s : Cache), PI (core s) [] →
    PI (core (peekLoop E now pfx front et tg fuel s).1) [] := by
  intro fuel
  induction fuel with
  | zero => intro s h; exact h
  | succ k ih =>
    intro s h
    unfold peekLoop
    simp only
    split
    · exact transact_log_PI h _
    · rename_i r hr
      have hmem := queueHead_mem hr
      split
      · exact ih _ (transact_delRow_cleanup_PI h _ r hmem)
      · have h2 : PI (core ((s.transact fun s =>
            { s := s.logSql "selQueueHead", out := .none }).1.fetchRow E r false).1) [] := by
          simpa using transact_log_PI h "selQueueHead"
        split
        · exact ih _ h2
        · exact h2

theorem peekitemLoop_PI (E : Externals) (now : Int) (last et tg : Bool) :
    ∀ (fuel : Nat) (s : Cache), PI (core s) [] →
    PI (core (peekitemLoop E now last et tg fuel s).1) [] := by
  intro fuel
  induction fuel with
  | zero => intro s h; exact h
  | succ k ih =>
    intro s h
    unfold peekitemLoop
    simp only
    split
    · apply transact_PI _ _ _ _ h.depth
      right
      exact ⟨rfl, rfl, h.cl_congr (by simp)⟩
    · rename_i r hr
      have hmem : r ∈ s.rows := by
        split at hr
        · exact lastRow?_mem hr
        · exact List.mem_of_head? hr
      split
      · exact ih _ (transact_delRow_cleanup_PI h _ r hmem)
      · have h2 : PI (core ((s.transact fun s =>
            { s := s.logSql "selEdge", out := .none }).1.fetchRow E r false).1) [] := by
          simpa using transact_log_PI h "selEdge"
        split
        · exact ih _ h2
        · exact h2

/-! ### shape of `_cull` and of a committed transaction (for C01) -/

theorem cullTail_core (t : Cache) (cl : List (Option Nat)) (n : Nat) :
    core (cullTail t cl n).1 = { core t with rows := (cullTail t cl n).1.rows } ∧
    ∀ r ∈ (cullTail t cl n).1.rows, r ∈ t.rows := by
  unfold cullTail
  split
  · exact ⟨rfl, fun r hr => hr⟩
  split
  · exact ⟨rfl, fun r hr => hr⟩
  simp only
  split
  · refine ⟨?_, fun r hr => by simpa using hr⟩
    rw [core_volume]; simp; rfl
  split
  · refine ⟨?_, fun r hr => by simpa using hr⟩
    rw [core_logSql, core_volume]; simp; rfl
  · refine ⟨?_, ?_⟩
    · rw [core_logSql, core_delIn, core_logSql, core_volume]
      simp [delIn_rows]
    · intro r hr
      simp only [logSql_rows, delIn_rows, volume_rows] at hr
      exact (List.mem_filter.1 hr).1

theorem cullW_core (s : Cache) (now : Int) :
    core (s.cullW now).1 = { core s with rows := (s.cullW now).1.rows } ∧
    ∀ r ∈ (s.cullW now).1.rows, r ∈ s.rows := by
  by_cases h0 : s.cfg.cullLimit = 0
  · have h1 : s.cullW now = (s, []) := by unfold cullW; simp [h0]
    rw [h1]; exact ⟨rfl, fun r hr => hr⟩
  · rw [cullW_eq s now h0]
    split
    · have := cullTail_core (s.logSql "selExpired") [] s.cfg.cullLimit
      simpa using this
    · have := cullTail_core (((s.logSql "selExpired").delIn ((s.selExpired now s.cfg.cullLimit).map (·.rowid))).logSql "delExpired")
        ((s.selExpired now s.cfg.cullLimit).map (·.file))
        (s.cfg.cullLimit - (s.selExpired now s.cfg.cullLimit).length)
      obtain ⟨h1, h2⟩ := this
      refine ⟨?_, ?_⟩
      · rw [h1, core_logSql, core_delIn, core_logSql]
      · intro r hr
        have := h2 r hr
        simp only [logSql_rows, delIn_rows] at this
        exact (List.mem_filter.1 this).1

theorem transact_snd (s : Cache) (body : Cache → Body) (fresh : Option Nat) (hd : s.depth = 0) :
    (s.transact body fresh).2 = (body (s.log .begin)).out := by
  unfold transact
  simp only [hd, Nat.lt_irrefl, if_false]
  split <;> rfl

theorem transact_ok_core (s : Cache) (body : Cache → Body) (fresh : Option Nat) (hd : s.depth = 0)
    (hok : (body (s.log .begin)).ok = true) :
    core (s.transact body fresh).1 = { core (body (s.log .begin)).s with
      files := (core (body (s.log .begin)).s).files.filter
        (fun p => !(body (s.log .begin)).cleanup.contains (some p.1)) } := by
  unfold transact
  simp only [hd, Nat.lt_irrefl, if_false, hok, if_true, core_fremoveAll, core_log]

/-! ### `set`: the row it writes (for C01) -/

theorem put_ne_null_fl (E : Externals) (d : DiskKind) (k : PyVal) : (DC.put E d k).1 ≠ .null := by
  cases d <;> cases k <;> simp [DC.put, Disk.put, JSONDisk.put] <;> split <;> simp

theorem keyMatch_unique {rows : List Row} (hu : KeysUnique rows) {k : SqlVal} {raw : Bool} {a b : Row}
    (ha : a ∈ rows) (hb : b ∈ rows) (hka : keyMatch k raw a = true) (hkb : keyMatch k raw b = true) :
    a = b := by
  simp only [keyMatch, Bool.and_eq_true, beq_iff_eq] at hka hkb
  have h1 : a.key.eqv b.key = true :=
    SqlVal.eqv_trans _ _ _ hka.1 (SqlVal.eqv_symm _ _ hkb.1)
  have h2 : b.key.eqv a.key = true := SqlVal.eqv_symm _ _ h1
  rcases pairwise_mem_cases hu ha hb with h | h | h
  · exact h
  · exact absurd ⟨h1, hka.2.trans hkb.2.symm⟩ h
  · exact absurd ⟨h2, hkb.2.trans hka.2.symm⟩ h

/-- the transaction body of `set` -/
def setBody (dbk : SqlVal) (raw : Bool) (now : Int) (c : Cols) (s : Cache) : Body :=
  if !bindable dbk then { s := s.log (.sqlFail "selKey"), out := .exc "UnicodeEncodeError", ok := false } else
  let old := s.selKey dbk raw
  let s := s.logSql "selKey"
  if !c.bindable then
    { s := s.log (.sqlFail (if old.isSome then "updRow" else "insRow")), out := .exc "UnicodeEncodeError", ok := false }
  else
  let (s, cl) := match old with
    | some r => (s.updRow r.rowid now c, [r.file])
    | none => (s.insRow dbk raw now c, [])
  let (s, cl2) := s.cullW now
  { s := s, out := .bool true, cleanup := cl ++ cl2 }

theorem set_eq (s : Cache) (E : Externals) (now : Int) (k v : PyVal) (ttl : Option Int) (read : Bool)
    (tag : SqlVal) :
    s.set E now k v ttl read tag =
      match s.store E v read with
      | .error _ => (s, .exc "UnicodeEncodeError")
      | .ok (s1, c) =>
        s1.transact (fresh := c.file) (setBody (DC.put E s.cfg.disk k).1 (DC.put E s.cfg.disk k).2 now
          { c with expT := ttl.map (now + ·), tag := tag }) := rfl

/-- the table `set` leaves before its lazy cull -/
def setRows (dbk : SqlVal) (raw : Bool) (now : Int) (c : Cols) (s : Cache) : List Row :=
  match s.selKey dbk raw with
  | some r => s.rows.map (updF r.rowid now c)
  | none => s.rows ++ [newRow s dbk raw now c]

theorem setBody_true (dbk : SqlVal) (raw : Bool) (now : Int) (c : Cols) (s : Cache)
    (h : (setBody dbk raw now c s).out = .bool true) :
    (setBody dbk raw now c s).ok = true ∧
    ∃ R, core (setBody dbk raw now c s).s = { core s with rows := R } ∧
      ∀ r ∈ R, r ∈ setRows dbk raw now c s := by
  unfold setBody at h ⊢
  split at h
  · cases h
  simp only at h ⊢
  rename_i hb
  simp only [hb]
  split at h
  · cases h
  rename_i hb2
  simp only [hb2]
  refine ⟨rfl, ?_⟩
  unfold setRows
  simp only [Bool.false_eq_true, if_false]
  cases hsel : s.selKey dbk raw with
  | some r =>
    simp only
    obtain ⟨h1, h2⟩ := cullW_core ((s.logSql "selKey").updRow r.rowid now c) now
    exact ⟨_, by rw [h1, core_updRow, core_logSql], h2⟩
  | none =>
    simp only
    obtain ⟨h1, h2⟩ := cullW_core ((s.logSql "selKey").insRow dbk raw now c) now
    exact ⟨_, by rw [h1, core_insRow, core_logSql], h2⟩


theorem setRows_match {s : Cache} (hu : KeysUnique s.rows) {dbk : SqlVal} {raw : Bool} {now : Int}
    {c : Cols} {r : Row} (hr : r ∈ setRows dbk raw now c s) (hk : keyMatch dbk raw r = true) :
    r.mode = c.mode ∧ r.file = c.file ∧ r.val = c.val := by
  unfold setRows at hr
  split at hr
  · rename_i old hold
    have hold' : old ∈ s.rows := selKey_mem hold
    have hko : keyMatch dbk raw old = true := by
      have := List.find?_some hold; exact this
    obtain ⟨x, hx, rfl⟩ := List.mem_map.1 hr
    have hkx : keyMatch dbk raw x = true := by
      unfold updF at hk; split at hk
      · exact hk
      · exact hk
    have := keyMatch_unique hu hx hold' hkx hko
    subst this
    simp [updF]
  · rename_i hnone
    rcases List.mem_append.1 hr with h1 | h1
    · have := List.find?_eq_none.1 hnone r h1
      simp [hk] at this
    · simp only [List.mem_singleton] at h1
      subst h1
      simp [newRow]


theorem set_PI (s : Cache) (E : Externals) (now : Int) (k v : PyVal) (ttl : Option Int) (read : Bool)
    (tag : SqlVal) (hP : PI (core s) []) : PI (core (s.set E now k v ttl read tag).1) [] := by
  unfold set
  simp only
  cases hst : s.store E v read with
  | error e => exact hP
  | ok p =>
    obtain ⟨s1, c⟩ := p
    obtain ⟨hP1, hfile⟩ := store_PI hst hP
    simp only
    apply transact_PI _ _ _ _ hP1.depth
    split
    · right; exact ⟨rfl, rfl, hP1.cl_congr (by simp)⟩
    split
    · right; exact ⟨rfl, rfl, hP1.cl_congr (by simp)⟩
    left
    refine ⟨rfl, ?_⟩
    simp only [selKey_log, List.append_nil]
    split
    · rename_i r hr
      simp only
      apply cullW_PI
      refine PI_updRow (cl := [c.file]) ?_ r (selKey_mem hr) now _ ?_ ?_
      · first | exact hP1 | (core_simp; exact hP1)
      · intro g hg; exact ⟨List.mem_singleton.2 hg.symm, hfile g hg⟩
      · intro f; simp; grind
    · simp only
      apply cullW_PI
      refine PI_insRow (cl := [c.file]) ?_ _ _ _ _ ?_ ?_
      · first | exact hP1 | (core_simp; exact hP1)
      · intro g hg; exact ⟨List.mem_singleton.2 hg.symm, hfile g hg⟩
      · intro f; simp; grind

end DC.Cache
