/-
C03_Lossy, model side: `get` under an eviction policy.  Under `lru` / `lfu` a
successful `get` rewrites the policy column (access_time / access_count) of the
row it read; the *view* of the state (`rf_view`: key ↦ entry) does not see
these columns, so `get` leaves the view alone under every policy.
-/
import DC.Proofs.RefineCfg
import DC.Proofs.LossyLemmas

namespace DC.Cache
open DC.Spec

/-- a row without its policy bookkeeping (access time, access count) -/
def stripRow (r : Row) : Row := { r with accT := 0, accN := 0 }

/-- the core of a state without the policy bookkeeping of its rows -/
def stripCore (c : Core) : Core := { c with rows := c.rows.map stripRow }

theorem stripRow_touchPolicy (p : Policy) (now : Int) (r : Row) :
    stripRow (touchPolicy p now r) = stripRow r := by
  cases p <;> rfl

theorem stripCore_updGet (t : Cache) (id : Nat) (now : Int) :
    stripCore (core (t.updGet id now)) = stripCore (core t) := by
  show ({ core t with rows := (t.rows.map (fun r => if r.rowid == id then touchPolicy t.cfg.policy now r else r)).map stripRow } : Core) = _
  rw [List.map_map]
  have : (stripRow ∘ fun r => if r.rowid == id then touchPolicy t.cfg.policy now r else r) = stripRow := by
    funext r
    simp only [Function.comp]
    split
    · exact stripRow_touchPolicy _ _ _
    · rfl
  rw [this]
  rfl

theorem rf_ent_strip (c : Cache) (r : Row) : rf_ent c (stripRow r) = rf_ent c r := rfl

/-- the view does not see the policy bookkeeping -/
theorem rf_look_strip (X : List Row) (c : Cache) (k : Key) :
    rf_look (X.map stripRow) c k = rf_look X c k := by
  rw [rf_look_map X c stripRow (fun _ => ⟨rfl, rfl⟩)]
  rfl

theorem rf_view_stripCore {a b : Cache} (h : stripCore (core a) = stripCore (core b)) (k : Key) :
    rf_view a k = rf_view b k := by
  have hr : a.rows.map stripRow = b.rows.map stripRow := congrArg Core.rows h
  have hf : a.files = b.files := congrArg Core.files h
  unfold rf_view
  rw [← rf_look_strip a.rows, hr, rf_look_strip]
  unfold rf_look
  congr 1
  funext r
  unfold rf_ent fileGet
  rw [hf]

/-- a committed transaction that changes neither files nor (up to policy bookkeeping) rows -/
theorem rf_transact_strip_same (s : Cache) (body : Cache → Body) (fresh : Option Nat) (hd : s.depth = 0)
    (hb : (body (s.log .begin)).ok = true ∧ (body (s.log .begin)).cleanup = [] ∧
      stripCore (core (body (s.log .begin)).s) = stripCore (core s)) :
    stripCore (core (s.transact body fresh).1) = stripCore (core s) := by
  rw [transact_ok_core s body fresh hd hb.1, hb.2.1, ← hb.2.2]
  have : ∀ l : List (Nat × Content),
      l.filter (fun p => !([] : List (Option Nat)).contains (some p.1)) = l := by
    intro l; rw [List.filter_eq_self]; intros; rfl
  simp only [core_files, this]
  rfl

theorem rf_get_strip (s : Cache) (E : Externals) (now : Int) (k : PyVal) (read et tg : Bool)
    (hd : s.depth = 0) :
    stripCore (core (s.get E now k read et tg).1) = stripCore (core s) := by
  unfold get
  rcases DC.put E s.cfg.disk k with ⟨dbk, raw⟩
  simp only
  split
  · split
    · rfl
    · split <;> simp
  · apply rf_transact_strip_same _ _ _ hd
    simp only [selLive_log]
    split
    · refine ⟨rfl, rfl, ?_⟩
      split <;> core_simp
    · split
      · refine ⟨rfl, rfl, ?_⟩
        split <;> core_simp
      · refine ⟨rfl, rfl, ?_⟩
        split <;> split
        all_goals first
          | (core_simp; done)
          | (rw [stripCore_updGet]; core_simp; done)

/-- `get` leaves the view alone, under every eviction policy -/
theorem rf_get_view (s : Cache) (E : Externals) (now : Int) (k : PyVal) (read et tg : Bool)
    (hg : Good s) (k' : Key) :
    rf_view (s.get E now k read et tg).1 k' = rf_view s k' :=
  rf_view_stripCore (rf_get_strip s E now k read et tg hg.depth) k'

/-! ### a write followed by the lazy cull, against the dictionary -/

theorem rf_expired_of_EntOf {r : Row} {e : Entry} {now : Int} (h : EntOf r e) :
    e.expired now = expired now r := by
  unfold Entry.expired expired
  rw [h.2.2.1]
  cases r.expT <;> rfl

/-- the cache wrote `e` under `K` and culled; the dictionary wrote `e` under `K`: the states
correspond once the keys of the evicted rows are dropped from the dictionary -/
theorem rf_wrote_refines {s c' : Cache} {m : Dict} {K : Key} {clock now : Int} {e : Entry}
    (hr : m.WF ∧ ∀ k, rf_VRel (rf_view s k) (m.get k) clock) (hn : clock ≤ now)
    (hW : rf_Wrote s c' K now e) :
    ∃ L, ((dropKeys (m.put K e) (L.map rowKey)).WF ∧
        ∀ k, rf_VRel (rf_view c' k) ((dropKeys (m.put K e) (L.map rowKey)).get k) now) ∧
      Loss s c' K now L ∧
      (∀ r ∈ L, ∃ e', (m.put K e).get (rowKey r) = some e' ∧ EntOf r e' ∧ e'.expired now = false) ∧
      c'.size + sumSizes L ≤ s.size + entrySize e := by
  obtain ⟨L, h1, h2, h3, h4⟩ := hW
  have hv1 : ∀ k, rf_VRel (rf_at K (some e) (rf_view s) k) ((m.put K e).get k) now :=
    rf_assemble (upd := fun _ => some e) hr.2 hn (rf_Culled_refl _ _)
      (fun k' => rf_get_put _ _ _ _) (fun _ _ _ => rf_VRel_refl _ _)
  refine ⟨L, ⟨rf_wf_dropKeys (rf_wf_put hr.1 _ _) _, rf_VRel_lossy h1 hv1⟩, h2, ?_, h4⟩
  intro r hr'
  obtain ⟨e', he', hent⟩ := h3 r hr'
  refine ⟨e', rf_VRel_some (hv1 (rowKey r)) he', hent, ?_⟩
  rw [rf_expired_of_EntOf hent]
  exact h2.unexpired r hr'

/-- nothing evicted, the view related to `m'`: the `[]`-lossy statement -/
theorem rf_same_refines {c' : Cache} {m' : Dict} {now : Int}
    (h : m'.WF ∧ ∀ k, rf_VRel (rf_view c' k) (m'.get k) now) :
    (dropKeys m' (([] : List Row).map rowKey)).WF ∧
      ∀ k, rf_VRel (rf_view c' k) ((dropKeys m' (([] : List Row).map rowKey)).get k) now := by
  rw [List.map_nil, rf_dropKeys_nil]
  exact h

end DC.Cache
