/- helper lemmas for the recipes (C15, C20) -/
import DC.Model.Recipes

namespace DC.Recipes

end DC.Recipes
