/- helper lemmas for the recipes (C15, C20) -/
import DC.Model.Recipes

namespace DC.Recipes

/-! ### Lock -/

def LockSys.Inv (s : LockSys) : Prop := s.holding.length = if s.st.held then 1 else 0

theorem LockSys.inv_init : LockSys.Inv {} := by simp [LockSys.Inv]

theorem LockSys.inv_step (s : LockSys) (e : Ev) (h : s.Inv) : (s.step e).1.Inv := by
  cases e with
  | acquire who =>
    unfold LockSys.Inv at *
    cases hh : s.st.held <;> simp_all [LockSys.step, LockSt.tryAcquire]
  | release who =>
    unfold LockSys.Inv at *
    by_cases hc : s.holding.contains who = true
    · have hm : who ∈ s.holding := by simpa using hc
      have hpos : 0 < s.holding.length := List.length_pos_of_mem hm
      simp only [LockSys.step, hc, if_true, LockSt.release, List.length_erase_of_mem hm]
      cases hh : s.st.held <;> simp_all
    · simp only [LockSys.step, hc]
      exact h

theorem LockSys.inv_run (s : LockSys) (evs : List Ev) (h : s.Inv) : (s.run evs).Inv := by
  induction evs generalizing s with
  | nil => exact h
  | cons e es ih => exact ih _ (LockSys.inv_step s e h)

/-! ### RLock -/

def RLockSys.Inv (s : RLockSys) : Prop :=
  (∀ a, s.depth a = if s.st.owner = some a then s.st.count else 0) ∧
  (s.st.owner = none → s.st.count = 0)

theorem RLockSys.inv_init : RLockSys.Inv {} := by simp [RLockSys.Inv]

theorem RLockSys.step_acquire_ok (s : RLockSys) (who : Nat)
    (hc : s.st.owner = some who ∨ s.st.count = 0) :
    s.step (.acquire who) =
      ({ st := { owner := some who, count := s.st.count + 1 },
         depth := fun c => if c = who then s.depth c + 1 else s.depth c }, true) := by
  have : (s.st.owner = some who || s.st.count == 0) = true := by
    simpa using hc
  simp [RLockSys.step, RLockSt.tryAcquire, this]

theorem RLockSys.step_acquire_fail (s : RLockSys) (who : Nat)
    (hc : ¬ (s.st.owner = some who ∨ s.st.count = 0)) :
    s.step (.acquire who) = (s, false) := by
  have : (s.st.owner = some who || s.st.count == 0) = false := by
    simpa using hc
  simp [RLockSys.step, RLockSt.tryAcquire, this]

theorem RLockSys.step_release_ok (s : RLockSys) (who : Nat)
    (hc : s.st.owner = some who ∧ 0 < s.st.count) :
    s.step (.release who) =
      ({ st := { s.st with count := s.st.count - 1 },
         depth := fun c => if c = who then s.depth c - 1 else s.depth c }, true) := by
  have : (s.st.owner = some who && s.st.count > 0) = true := by
    simpa using hc
  simp [RLockSys.step, RLockSt.release, this]

theorem RLockSys.step_release_fail (s : RLockSys) (who : Nat)
    (hc : ¬ (s.st.owner = some who ∧ 0 < s.st.count)) :
    s.step (.release who) = (s, false) := by
  have : (s.st.owner = some who && s.st.count > 0) = false := by
    simpa using hc
  simp [RLockSys.step, RLockSt.release, this]

theorem RLockSys.inv_step (s : RLockSys) (e : Ev) (h : s.Inv) : (s.step e).1.Inv := by
  obtain ⟨h1, h2⟩ := h
  cases e with
  | acquire who =>
    by_cases hc : s.st.owner = some who ∨ s.st.count = 0
    · rw [RLockSys.step_acquire_ok s who hc]
      refine ⟨fun a => ?_, by simp⟩
      simp only [Option.some.injEq]
      by_cases ha : a = who
      · subst ha
        simp only [if_true]
        rw [h1 a]
        rcases hc with hc | hc
        · simp [hc]
        · split <;> simp [hc]
      · have ha' : ¬ who = a := fun h => ha h.symm
        simp only [ha, ha', if_false]
        rw [h1 a]
        rcases hc with hc | hc
        · simp [hc, ha']
        · split <;> simp [hc]
    · rw [RLockSys.step_acquire_fail s who hc]
      exact ⟨h1, h2⟩
  | release who =>
    by_cases hc : s.st.owner = some who ∧ 0 < s.st.count
    · rw [RLockSys.step_release_ok s who hc]
      obtain ⟨ho, hc⟩ := hc
      refine ⟨fun a => ?_, by simp [ho]⟩
      simp only [ho, Option.some.injEq]
      by_cases ha : a = who
      · subst ha
        simp only [if_true]
        rw [h1 a]; simp [ho]
      · have ha' : ¬ who = a := fun h => ha h.symm
        simp only [ha, ha', if_false]
        rw [h1 a]; simp [ho, ha']
    · rw [RLockSys.step_release_fail s who hc]
      exact ⟨h1, h2⟩

theorem RLockSys.inv_run (s : RLockSys) (evs : List Ev) (h : s.Inv) : (s.run evs).Inv := by
  induction evs generalizing s with
  | nil => exact h
  | cons e es ih => exact ih _ (RLockSys.inv_step s e h)

theorem RLockSys.inv_facts (s : RLockSys) (h : s.Inv) :
    (∀ a b, 0 < s.depth a → 0 < s.depth b → a = b) ∧
    (∀ a, 0 < s.depth a → s.st.owner = some a ∧ s.st.count = s.depth a) ∧
    ((∀ a, s.depth a = 0) → s.st.count = 0) := by
  obtain ⟨h1, h2⟩ := h
  have key : ∀ a, 0 < s.depth a → s.st.owner = some a ∧ s.st.count = s.depth a := by
    intro a ha
    have := h1 a
    by_cases ho : s.st.owner = some a
    · rw [if_pos ho] at this; exact ⟨ho, this.symm⟩
    · rw [if_neg ho] at this; omega
  refine ⟨fun a b ha hb => ?_, key, fun hz => ?_⟩
  · have := (key a ha).1
    rw [(key b hb).1] at this
    exact (Option.some.inj this).symm
  · cases ho : s.st.owner with
    | none => exact h2 ho
    | some o =>
      have := h1 o
      rw [if_pos ho, hz o] at this
      exact this.symm

/-! ### Semaphore -/

def SemSys.Inv (n : Nat) (s : SemSys) : Prop :=
  s.holding.length + s.st.free = n ∧ s.st.limit = n

theorem SemSys.inv_step (n : Nat) (s : SemSys) (e : Ev) (h : s.Inv n) : (s.step e).1.Inv n := by
  obtain ⟨h1, h2⟩ := h
  cases e with
  | acquire who =>
    by_cases hc : s.st.free > 0
    · simp only [SemSys.step, SemSt.tryAcquire, hc, if_true]
      refine ⟨?_, h2⟩
      simp only [List.length_cons]
      omega
    · simp only [SemSys.step, SemSt.tryAcquire, hc, if_false]
      exact ⟨h1, h2⟩
  | release who =>
    by_cases hc : s.holding.contains who = true
    · have hm : who ∈ s.holding := by simpa using hc
      have hpos : 0 < s.holding.length := List.length_pos_of_mem hm
      by_cases hl : s.st.limit > s.st.free
      · simp only [SemSys.step, SemSt.release, hc, hl, if_true]
        refine ⟨?_, h2⟩
        simp only [List.length_erase_of_mem hm]
        omega
      · simp only [SemSys.step, SemSt.release, hc, hl, if_true, if_false]
        exact ⟨h1, h2⟩
    · simp only [SemSys.step, hc]
      exact ⟨h1, h2⟩

theorem SemSys.inv_run (n : Nat) (s : SemSys) (evs : List Ev) (h : s.Inv n) : (s.run evs).Inv n := by
  induction evs generalizing s with
  | nil => exact h
  | cons e es ih => exact ih _ (SemSys.inv_step n s e h)

/-! ### Averager -/

theorem AvgSt.run_cons (s : AvgSt) (e : AvgEv) (es : List AvgEv) :
    AvgSt.run s (e :: es) = AvgSt.run (s.step e) es := rfl

/-! ### throttle -/

theorem Bucket.sec_le (C S : Nat) (hc : 0 < C) : (S : Int) ≤ (C : Int) * S := by
  have h1 : (1 : Int) ≤ (C : Int) := by omega
  have := Int.mul_le_mul_of_nonneg_right h1 (Int.natCast_nonneg S)
  simpa using this

theorem Bucket.pred_mul (C S : Int) : (C - 1) * S = C * S - S := by
  rw [Int.sub_mul, Int.one_mul]

/-- the three outcomes of an attempt -/
theorem Bucket.attempt_cases (b : Bucket) (now : Int) :
    (b.tally + (now - b.last) > (b.count : Int) * b.seconds ∧
      b.attempt now = ({ b with last := now, tally := (b.count : Int) * b.seconds - b.seconds }, none)) ∨
    (b.tally + (now - b.last) ≤ (b.count : Int) * b.seconds ∧ b.tally + (now - b.last) ≥ b.seconds ∧
      b.attempt now = ({ b with last := now, tally := b.tally + (now - b.last) - b.seconds }, none)) ∨
    (b.tally + (now - b.last) ≤ (b.count : Int) * b.seconds ∧ b.tally + (now - b.last) < b.seconds ∧
      b.attempt now = (b, some ((b.seconds : Int) - (b.tally + (now - b.last))))) := by
  by_cases h1 : b.tally + (now - b.last) > (b.count : Int) * b.seconds
  · left
    refine ⟨h1, ?_⟩
    simp only [Bucket.attempt, h1, if_true, Bucket.pred_mul]
  · by_cases h2 : b.tally + (now - b.last) ≥ b.seconds
    · right; left
      refine ⟨by omega, h2, ?_⟩
      simp only [Bucket.attempt, h1, h2, if_true, if_false]
    · right; right
      refine ⟨by omega, by omega, ?_⟩
      simp only [Bucket.attempt, h1, h2, if_false]

theorem Bucket.passes_cons (b : Bucket) (now : Int) (rest : List Int) :
    b.passes (now :: rest) =
      (if (b.attempt now).2 = none then [now] else []) ++ (b.attempt now).1.passes rest := by
  rw [Bucket.passes]
  rcases h : b.attempt now with ⟨b', _ | d⟩ <;> simp

end DC.Recipes
