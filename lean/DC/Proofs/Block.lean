/- helper lemmas for transaction blocks (C06) -/
import DC.Proofs.Inv
import DC.Model.Run

namespace DC.Cache

end DC.Cache
