/- helper lemmas for transaction blocks (C06) -/
import DC.Proofs.Inv
import DC.Proofs.Files
import DC.Model.Run

namespace DC.Cache

/-- `Blk a x`: `x` is reached from `a` inside an open block (`a.depth > 0`) by steps that keep
the nesting depth and the snapshot, remove no file, never decrease the allocation counter and
register only freshly allocated files in `created`. -/
structure Blk (a x : Cache) : Prop where
  pos : 0 < a.depth
  depth : x.depth = a.depth
  snap : x.snap = a.snap
  files : ∀ p ∈ a.files, p ∈ x.files
  nfile : a.nfile ≤ x.nfile
  created : ∀ f ∈ x.created, f ∈ a.created ∨ a.nfile ≤ f

theorem Blk.refl {s : Cache} (h : 0 < s.depth) : Blk s s :=
  ⟨h, rfl, rfl, fun _ h => h, Nat.le_refl _, fun _ h => .inl h⟩

theorem Blk.pos' {a x : Cache} (h : Blk a x) : 0 < x.depth := by
  rw [h.depth]; exact h.pos

theorem Blk.trans {a x y : Cache} (h : Blk a x) (h2 : Blk x y) : Blk a y := by
  refine ⟨h.pos, h2.depth.trans h.depth, h2.snap.trans h.snap,
    fun p hp => h2.files p (h.files p hp), Nat.le_trans h.nfile h2.nfile, ?_⟩
  intro f hf
  rcases h2.created f hf with h3 | h3
  · exact h.created f h3
  · exact .inr (Nat.le_trans h.nfile h3)

/-- a step that keeps the five fields -/
theorem Blk.same {a x y : Cache} (h : Blk a x) (hd : y.depth = x.depth) (hs : y.snap = x.snap)
    (hf : y.files = x.files) (hn : y.nfile = x.nfile) (hc : y.created = x.created) : Blk a y := by
  refine ⟨h.pos, hd.trans h.depth, hs.trans h.snap, ?_, ?_, ?_⟩
  · rw [hf]; exact h.files
  · rw [hn]; exact h.nfile
  · rw [hc]; exact h.created

/-- a step that only changes the rows (and fields outside `core`) -/
theorem Blk.core {a x y : Cache} (h : Blk a x) (R : List Row)
    (hc : core y = { core x with rows := R }) : Blk a y := by
  simp only [DC.Cache.core, Core.mk.injEq] at hc
  obtain ⟨-, hf, hn, hd, hs, -, hcr, -, -⟩ := hc
  exact h.same hd hs hf hn hcr

theorem Blk.core' {a x y : Cache} (h : Blk a x) (hc : DC.Cache.core y = DC.Cache.core x) : Blk a y :=
  h.core x.rows (by rw [hc]; rfl)

/-! ### statement functions -/

theorem Blk.log {a x : Cache} (h : Blk a x) (act : Act) : Blk a (x.log act) :=
  h.same rfl rfl rfl rfl rfl

theorem Blk.logSql {a x : Cache} (h : Blk a x) (id : String) : Blk a (x.logSql id) :=
  h.same rfl rfl rfl rfl rfl

theorem Blk.setMisses {a x : Cache} (h : Blk a x) (m : Int) : Blk a { x with misses := m } :=
  h.same rfl rfl rfl rfl rfl

theorem Blk.setHits {a x : Cache} (h : Blk a x) (m : Int) : Blk a { x with hits := m } :=
  h.same rfl rfl rfl rfl rfl

theorem Blk.fwrite {a x : Cache} (h : Blk a x) (c : Content) :
    Blk a (x.fwrite c).1 ∧ a.nfile ≤ (x.fwrite c).2 := by
  refine ⟨⟨h.pos, h.depth, h.snap, ?_, ?_, h.created⟩, h.nfile⟩
  · intro p hp
    show p ∈ x.files ++ [(x.nfile, c)]
    exact List.mem_append_left _ (h.files p hp)
  · show a.nfile ≤ x.nfile + 1
    exact Nat.le_succ_of_le h.nfile

theorem Blk.store {a x x' : Cache} {E : Externals} {v : PyVal} {read : Bool} {c : Cols}
    (h : Blk a x) (hst : x.store E v read = .ok (x', c)) :
    Blk a x' ∧ ∀ f, c.file = some f → a.nfile ≤ f := by
  unfold DC.Cache.store at hst
  split at hst
  · cases hst
  · cases hst
    exact ⟨h, by intro f hf; cases hf⟩
  · rename_i mode ct _
    simp only [Except.ok.injEq, Prod.mk.injEq] at hst
    obtain ⟨h1, h2⟩ := hst
    subst h1 h2
    refine ⟨(h.fwrite ct).1, ?_⟩
    intro f hf
    simp only [Option.some.injEq] at hf
    subst hf
    exact (h.fwrite ct).2

/-- the file `incr` wrote inside its transaction is recorded as created by the block -/
theorem Blk.regCreated {a x : Cache} (h : Blk a x) (f : Option Nat)
    (hf : ∀ g, f = some g → a.nfile ≤ g) : Blk a (x.regCreated f) := by
  rcases regCreated_cases x f with e | ⟨g, hg, -, e⟩
  · rw [e]; exact h
  · rw [e]
    refine ⟨h.pos, h.depth, h.snap, h.files, h.nfile, ?_⟩
    intro k hk
    rcases List.mem_append.1 hk with hk | hk
    · exact h.created k hk
    · simp only [List.mem_singleton] at hk
      subst hk
      exact .inr (hf _ hg)

theorem Blk.fetchRow {a x : Cache} (h : Blk a x) (E : Externals) (r : Row) (read : Bool) :
    Blk a (x.fetchRow E r read).1 :=
  h.core' (core_fetchRow x E r read)

theorem Blk.volume {a x : Cache} (h : Blk a x) : Blk a x.volume.1 :=
  h.core' (core_volume x)

theorem Blk.insRow {a x : Cache} (h : Blk a x) (k : SqlVal) (raw : Bool) (now : Int) (c : Cols) :
    Blk a (x.insRow k raw now c) :=
  h.same rfl rfl rfl rfl rfl

theorem Blk.updRow {a x : Cache} (h : Blk a x) (rowid : Nat) (now : Int) (c : Cols) :
    Blk a (x.updRow rowid now c) :=
  h.same rfl rfl rfl rfl rfl

theorem Blk.updExp {a x : Cache} (h : Blk a x) (rowid : Nat) (e : Option Int) :
    Blk a (x.updExp rowid e) :=
  h.same rfl rfl rfl rfl rfl

theorem Blk.updGet {a x : Cache} (h : Blk a x) (rowid : Nat) (now : Int) :
    Blk a (x.updGet rowid now) :=
  h.same rfl rfl rfl rfl rfl

theorem Blk.updIncr {a x : Cache} (h : Blk a x) (rowid : Nat) (now : Int) (v : SqlVal) :
    Blk a (x.updIncr rowid now v) :=
  h.same rfl rfl rfl rfl rfl

theorem Blk.delRowQuiet {a x : Cache} (h : Blk a x) (rowid : Nat) : Blk a (x.delRowQuiet rowid) :=
  h.core _ (core_delRowQuiet x rowid)

theorem Blk.delRow {a x : Cache} (h : Blk a x) (rowid : Nat) : Blk a (x.delRow rowid) :=
  h.core _ (core_delRow x rowid)

theorem Blk.delIn {a x : Cache} (h : Blk a x) (ids : List Nat) : Blk a (x.delIn ids) :=
  h.core _ (core_delIn ids x)

theorem Blk.cullW {a x : Cache} (h : Blk a x) (now : Int) : Blk a (x.cullW now).1 :=
  h.core _ (cullW_core x now).1

/-- inside a block `_remove_committed` only defers the removal -/
theorem Blk.removeCommitted {a x : Cache} (h : Blk a x) (f : Option Nat) :
    Blk a (x.removeCommitted f) := by
  unfold DC.Cache.removeCommitted
  cases f with
  | none => exact h
  | some f =>
    simp only [h.pos', if_true]
    exact h.same rfl rfl rfl rfl rfl

/-- inside a block a transaction is just its body (no BEGIN, no COMMIT, no ROLLBACK, no file
removal); the file written for it is registered in `created` -/
theorem Blk.transact {a x : Cache} (h : Blk a x) (body : Cache → Body) (fresh : Option Nat)
    (hfr : ∀ f, fresh = some f → a.nfile ≤ f)
    (hb : ∀ t, Blk a t → Blk a (body t).s) :
    Blk a (x.transact body fresh).1 := by
  unfold DC.Cache.transact
  simp only [gt_iff_lt, h.pos', if_true]
  cases fresh with
  | none =>
    simp only
    have h2 := hb _ h
    split
    · exact h2.same rfl rfl rfl rfl rfl
    · exact h2
  | some f =>
    simp only
    have h1 : Blk a { x with created := x.created ++ [f] } := by
      refine ⟨h.pos, h.depth, h.snap, h.files, h.nfile, ?_⟩
      intro g hg
      rcases List.mem_append.1 hg with hg | hg
      · exact h.created g hg
      · simp only [List.mem_singleton] at hg
        subst hg
        exact .inr (hfr _ rfl)
    have h2 := hb _ h1
    split
    · exact h2.same rfl rfl rfl rfl rfl
    · exact h2

theorem Blk.transact' {a x : Cache} (h : Blk a x) (body : Cache → Body)
    (hb : ∀ t, Blk a t → Blk a (body t).s) :
    Blk a (x.transact body).1 :=
  h.transact body none (by intro f hf; cases hf) hb

theorem Blk.deletePage {a x : Cache} (h : Blk a x) (page : List Row) (sel : String) :
    Blk a (x.deletePage page sel) := by
  rw [deletePage_eq]
  apply h.transact'
  intro t ht
  unfold pageBody
  simp only
  split
  · exact ht.logSql _
  · exact ((ht.logSql _).delIn _).logSql _

/-- close goals `Blk a (f (g (… t)))` for compositions of statement functions -/
macro "blk_auto" : tactic => `(tactic| repeat' first
    | assumption
    | contradiction
    | with_reducible apply Blk.logSql
    | with_reducible apply Blk.log
    | with_reducible apply Blk.delIn
    | with_reducible apply Blk.volume
    | with_reducible apply Blk.cullW
    | with_reducible apply Blk.insRow
    | with_reducible apply Blk.updRow
    | with_reducible apply Blk.updExp
    | with_reducible apply Blk.updGet
    | with_reducible apply Blk.updIncr
    | with_reducible apply Blk.delRow
    | with_reducible apply Blk.delRowQuiet
    | with_reducible apply Blk.fetchRow
    | with_reducible apply Blk.removeCommitted
    | with_reducible apply Blk.deletePage
    | with_reducible refine Blk.transact' ?_ _ (fun _ _ => ?_)
    | split)

/-! ### public methods -/

theorem set_blk {a s : Cache} (h : Blk a s) (E : Externals) (now : Int) (k v : PyVal) (ttl : Option Int)
    (read : Bool) (tag : SqlVal) : Blk a (s.set E now k v ttl read tag).1 := by
  unfold DC.Cache.set
  rcases DC.put E s.cfg.disk k with ⟨dbk, raw⟩
  simp only
  split
  · exact h
  · rename_i s' c hst
    obtain ⟨h', hfile⟩ := h.store hst
    apply h'.transact _ _ hfile
    intro t ht
    blk_auto

theorem add_blk {a s : Cache} (h : Blk a s) (E : Externals) (now : Int) (k v : PyVal) (ttl : Option Int)
    (read : Bool) (tag : SqlVal) : Blk a (s.add E now k v ttl read tag).1 := by
  unfold DC.Cache.add
  rcases DC.put E s.cfg.disk k with ⟨dbk, raw⟩
  simp only
  split
  · exact h
  · rename_i s' c hst
    obtain ⟨h', hfile⟩ := h.store hst
    apply h'.transact _ _ hfile
    intro t ht
    blk_auto

theorem touch_blk {a s : Cache} (h : Blk a s) (E : Externals) (now : Int) (k : PyVal) (ttl : Option Int) :
    Blk a (s.touch E now k ttl).1 := by
  unfold DC.Cache.touch
  rcases DC.put E s.cfg.disk k with ⟨dbk, raw⟩
  simp only
  apply h.transact'
  intro t ht
  blk_auto

theorem incr_blk {a s : Cache} (h : Blk a s) (E : Externals) (now : Int) (k : PyVal) (delta : Int)
    (dflt : Option Int) : Blk a (s.incr E now k delta dflt).1 := by
  unfold DC.Cache.incr
  rcases DC.put E s.cfg.disk k with ⟨dbk, raw⟩
  simp only
  apply h.transact'
  intro t ht
  cases hold : t.selKey dbk raw with
  | none =>
    simp only
    split
    · blk_auto
    · split
      · blk_auto
      · rename_i s' c hst
        obtain ⟨h', hfile⟩ := (ht.logSql "selKey").store hst
        have h'' := h'.regCreated c.file hfile
        blk_auto
  | some r =>
    simp only
    split
    · split
      · blk_auto
      · split
        · blk_auto
        · rename_i s' c hst
          obtain ⟨h', hfile⟩ := (ht.logSql "selKey").store hst
          have h'' := h'.regCreated c.file hfile
          blk_auto
    · blk_auto

theorem get_blk {a s : Cache} (h : Blk a s) (E : Externals) (now : Int) (k : PyVal) (read et tg : Bool) :
    Blk a (s.get E now k read et tg).1 := by
  unfold DC.Cache.get
  rcases DC.put E s.cfg.disk k with ⟨dbk, raw⟩
  simp only
  split
  · blk_auto
  · apply h.transact'
    intro t ht
    blk_auto
    all_goals (first | with_reducible apply Blk.setMisses | with_reducible apply Blk.setHits)
    all_goals blk_auto

theorem contains_blk {a s : Cache} (h : Blk a s) (E : Externals) (now : Int) (k : PyVal) :
    Blk a (s.contains E now k).1 :=
  h.logSql _

theorem pop_blk {a s : Cache} (h : Blk a s) (E : Externals) (now : Int) (k : PyVal) (et tg : Bool) :
    Blk a (s.pop E now k et tg).1 := by
  unfold DC.Cache.pop
  rcases DC.put E s.cfg.disk k with ⟨dbk, raw⟩
  simp only
  blk_auto

theorem delitem_blk {a s : Cache} (h : Blk a s) (E : Externals) (now : Int) (k : PyVal) :
    Blk a (s.delitem E now k).1 := by
  unfold DC.Cache.delitem
  rcases DC.put E s.cfg.disk k with ⟨dbk, raw⟩
  simp only
  apply h.transact'
  intro t ht
  blk_auto

theorem delete_blk {a s : Cache} (h : Blk a s) (E : Externals) (now : Int) (k : PyVal) :
    Blk a (s.delete E now k).1 := by
  rw [delete_fst]
  exact delitem_blk h E now k

theorem push_blk {a s : Cache} (h : Blk a s) (E : Externals) (now : Int) (v : PyVal) (pfx : Option Str)
    (back : Bool) (ttl : Option Int) (read : Bool) (tag : SqlVal) :
    Blk a (s.push E now v pfx back ttl read tag).1 := by
  unfold DC.Cache.push
  split
  · exact h
  · rename_i s' c hst
    obtain ⟨h', hfile⟩ := h.store hst
    apply h'.transact _ _ hfile
    intro t ht
    simp only
    blk_auto

/-! ### loops -/

theorem pullLoop_blk (E : Externals) (now : Int) (pfx : Option Str) (front et tg : Bool) {a : Cache} :
    ∀ (fuel : Nat) {s : Cache}, Blk a s → Blk a (pullLoop E now pfx front et tg fuel s).1 := by
  intro fuel
  induction fuel with
  | zero => intro s h; exact h
  | succ n ih =>
    intro s h
    simp only [pullLoop]
    split
    · blk_auto
    · split
      · apply ih; blk_auto
      · split
        · apply ih; blk_auto
        · blk_auto

theorem peekLoop_blk (E : Externals) (now : Int) (pfx : Option Str) (front et tg : Bool) {a : Cache} :
    ∀ (fuel : Nat) {s : Cache}, Blk a s → Blk a (peekLoop E now pfx front et tg fuel s).1 := by
  intro fuel
  induction fuel with
  | zero => intro s h; exact h
  | succ n ih =>
    intro s h
    simp only [peekLoop]
    split
    · blk_auto
    · split
      · apply ih; blk_auto
      · split
        · apply ih; blk_auto
        · blk_auto

theorem peekitemLoop_blk (E : Externals) (now : Int) (last et tg : Bool) {a : Cache} :
    ∀ (fuel : Nat) {s : Cache}, Blk a s → Blk a (peekitemLoop E now last et tg fuel s).1 := by
  intro fuel
  induction fuel with
  | zero => intro s h; exact h
  | succ n ih =>
    intro s h
    simp only [peekitemLoop]
    split
    · blk_auto
    · split
      · apply ih; blk_auto
      · split
        · apply ih; blk_auto
        · blk_auto

theorem clearLoop_blk {a : Cache} : ∀ (fuel : Nat) {s : Cache} (cur n : Nat), Blk a s →
    Blk a (clearLoop fuel s cur n).1 := by
  intro fuel
  induction fuel with
  | zero => intro s cur n h; exact h
  | succ k ih =>
    intro s cur n h
    simp only [clearLoop]
    split
    · blk_auto
    · apply ih; blk_auto

theorem evictLoop_blk (tag : SqlVal) {a : Cache} : ∀ (fuel : Nat) {s : Cache} (cur n : Nat), Blk a s →
    Blk a (evictLoop tag fuel s cur n).1 := by
  intro fuel
  induction fuel with
  | zero => intro s cur n h; exact h
  | succ k ih =>
    intro s cur n h
    simp only [evictLoop]
    split
    · blk_auto
    · apply ih; blk_auto

theorem expireLoop_blk (now : Int) {a : Cache} : ∀ (fuel : Nat) {s : Cache} (lo : Option Int) (n : Nat),
    Blk a s → Blk a (expireLoop now fuel s lo n).1 := by
  intro fuel
  induction fuel with
  | zero => intro s lo n h; exact h
  | succ k ih =>
    intro s lo n h
    simp only [expireLoop]
    split
    · blk_auto
    · apply ih; blk_auto

theorem cullLoop_blk {a : Cache} : ∀ (fuel : Nat) {s : Cache} (n : Nat), Blk a s →
    Blk a (cullLoop fuel s n).1 := by
  intro fuel
  induction fuel with
  | zero => intro s n h; exact h
  | succ k ih =>
    intro s n h
    rw [cullLoop_succ]
    split
    · blk_auto
    · split
      · unfold cullEmpty; blk_auto
      · apply ih; unfold cullStep; blk_auto

theorem iterLoop_blk (asc : Bool) (bound : Nat) {a : Cache} :
    ∀ (fuel : Nat) {s : Cache} (cur : Nat) (acc : List Row),
    Blk a s → Blk a (iterLoop asc bound fuel s cur acc).1 := by
  intro fuel
  induction fuel with
  | zero => intro s cur acc h; exact h
  | succ k ih =>
    intro s cur acc h
    simp only [iterLoop]
    split
    · blk_auto
    · apply ih; blk_auto

theorem iterkeysLoop_blk (rev : Bool) {a : Cache} :
    ∀ (fuel : Nat) {s : Cache} (cur : Row) (acc : List Row),
    Blk a s → Blk a (iterkeysLoop rev fuel s cur acc).1 := by
  intro fuel
  induction fuel with
  | zero => intro s cur acc h; exact h
  | succ k ih =>
    intro s cur acc h
    simp only [iterkeysLoop]
    split
    · blk_auto
    · apply ih; blk_auto

theorem cull_blk {a s : Cache} (h : Blk a s) (now : Int) : Blk a (s.cull now).1 := by
  rw [cull_eq]
  split
  · exact expireLoop_blk now _ _ _ h
  · exact cullLoop_blk _ _ (expireLoop_blk now _ _ _ h)

theorem iter_blk {a s : Cache} (h : Blk a s) (E : Externals) (asc : Bool) : Blk a (s.iter E asc).1 := by
  unfold DC.Cache.iter
  simp only
  split
  · exact h.logSql _
  · exact iterLoop_blk asc _ _ _ _ (h.logSql _)

theorem iterkeys_blk {a s : Cache} (h : Blk a s) (E : Externals) (rev : Bool) :
    Blk a (s.iterkeys E rev).1 := by
  unfold DC.Cache.iterkeys
  simp only
  split
  · exact h.logSql _
  · exact iterkeysLoop_blk rev _ _ _ (h.logSql _)

theorem stats_blk {a s : Cache} (h : Blk a s) (enable reset : Bool) : Blk a (s.stats enable reset).1 := by
  unfold DC.Cache.stats
  simp only
  split
  · exact h.same rfl rfl rfl rfl rfl
  · exact h.same rfl rfl rfl rfl rfl

/-! ### leaving the outermost block -/

theorem fremoveAll_stats (fs : List (Option Nat)) : ∀ s : Cache,
    (s.fremoveAll fs).hits = s.hits ∧ (s.fremoveAll fs).misses = s.misses := by
  induction fs with
  | nil => intro s; exact ⟨rfl, rfl⟩
  | cons a t ih =>
    intro s
    cases a with
    | none => exact ih s
    | some f => exact ih (s.fremove f)

theorem fremoveAll_files (s : Cache) (fs : List (Option Nat)) :
    (s.fremoveAll fs).files = s.files.filter (fun p => !fs.contains (some p.1)) :=
  congrArg Core.files (core_fremoveAll fs s)

theorem fremoveAll_snap (s : Cache) (fs : List (Option Nat)) : (s.fremoveAll fs).snap = s.snap :=
  congrArg Core.snap (core_fremoveAll fs s)

theorem fremoveAll_depth (s : Cache) (fs : List (Option Nat)) : (s.fremoveAll fs).depth = s.depth :=
  congrArg Core.depth (core_fremoveAll fs s)

theorem mem_fremoveAll {s : Cache} {fs : List (Option Nat)} {p : Nat × Content} (hp : p ∈ s.files)
    (hn : some p.1 ∉ fs) : p ∈ (s.fremoveAll fs).files := by
  rw [fremoveAll_files]
  exact List.mem_filter.2 ⟨hp, by simpa using hn⟩

theorem mem_of_fremoveAll {s : Cache} {fs : List (Option Nat)} {p : Nat × Content}
    (hp : p ∈ (s.fremoveAll fs).files) : p ∈ s.files := by
  rw [fremoveAll_files] at hp
  exact (List.mem_filter.1 hp).1

theorem tend_one (s : Cache) (hd : s.depth = 1) :
    s.tend = { ({ (s.log .commit) with depth := 0, snap := none }.fremoveAll s.pending) with
      pending := [], created := [] } := by
  unfold DC.Cache.tend
  rw [if_pos (by simp [hd])]
  rfl

theorem traise_outer (s : Cache) (n : Nat) (p : Snap) (hn : s.depth ≤ n) (hd : 0 < s.depth)
    (hs : s.snap = some p) :
    s.traise n = { ({ ((s.restore p).log .rollback) with depth := 0, snap := none }.fremoveAll
      (s.created.map some)) with pending := [], created := [] } := by
  unfold DC.Cache.traise
  rw [if_pos (by simp [hn, hd])]
  simp only [hs]
  rfl

theorem traise_inner (s : Cache) (n : Nat) (hn : n < s.depth) :
    s.traise n = { s with depth := s.depth - n } := by
  unfold DC.Cache.traise
  have : ¬ (s.depth ≤ n) := by omega
  simp [this]

end DC.Cache
