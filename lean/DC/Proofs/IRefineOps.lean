/-
C12_Refine, model side: what the single-call methods of an Index (`get`, `set`
without ttl, `delitem`, `pop`, `len`, `iter`, `clear`) do to the ordered
abstraction `irf_abs` of a quiescent state without expiry and without size
limit (`irf_Inv`).  Each lemma has the shape "the abstraction of the new state
is the ordered-dictionary call on the abstraction of the old one".
-/
import DC.Proofs.IRefineLemmas
import DC.Properties.C03_Paging
import DC.Proofs.RefineCfg

namespace DC.Cache
open DC.Spec

/-- a quiescent Index state: table and file invariants, no open block, no size limit, no expiry -/
structure irf_Inv (c : Cache) : Prop where
  good : Good c
  pol : c.cfg.policy = .none
  noexp : NoExp c.rows

theorem irf_inv_core {a b : Cache} (hb : irf_Inv b) (hc : core a = core b) (ht : TableInv a) :
    irf_Inv a :=
  ⟨irf_good_core hb.good hc ht, by rw [show a.cfg = b.cfg from congrArg Core.cfg hc]; exact hb.pol,
    by rw [show a.rows = b.rows from congrArg Core.rows hc]; exact hb.noexp⟩

/-- without expiry a look-up of the view is `OSpec.look` on the abstraction -/
theorem irf_look_view {c : Cache} (hne : NoExp c.rows) (E : Externals) (K : Key) (now : Int) :
    (match rf_view c K with
      | some e => if e.live now then e.out E c.cfg false false false else defaultFlags false false
      | none => defaultFlags false false) = OSpec.look (irf_abs c) E c.cfg K := by
  unfold OSpec.look
  rw [irf_abs_get]
  cases hv : rf_view c K with
  | none => rfl
  | some e =>
    simp only
    rw [irf_live_noexp (irf_view_noexp hne hv) now]
    rfl

/-! ### `get` -/

theorem irf_get (c : Cache) (E : Externals) (now : Int) (k : PyVal) (h : irf_Inv c) :
    (c.get E now k false false false).2 = OSpec.look (irf_abs c) E c.cfg (keyOf E c.cfg k) ∧
    core (c.get E now k false false false).1 = core c ∧
    irf_Inv (c.get E now k false false false).1 := by
  have hc := rf_get_core c E now k false false false h.good.depth h.pol
  refine ⟨?_, hc, irf_inv_core h hc (get_good c E now k false false false h.good).tinv⟩
  rw [rf_get_out' _ _ _ _ _ _ _ h.good]
  exact irf_look_view h.noexp E _ now

/-! ### `set` without ttl and tag -/

theorem irf_entryOf_noexp (p : Placement) : (entryOf p none .null).expT = none := by
  cases p <;> rfl

theorem irf_set_keys (s : Cache) (E : Externals) (now : Int) (k v : PyVal) (h : irf_Inv s) :
    (s.set E now k v none false .null).1.rows.map irf_key =
      (OSpec.setitem (irf_abs s) E s.cfg k v).1.keys := by
  have hst := rf_store s E v false h.good.pi
  unfold OSpec.setitem
  cases hpl : place E s.cfg.disk s.cfg.minFileSize v false with
  | error e =>
    rw [hpl] at hst
    simp only at hst ⊢
    rw [set_eq, hst]
    exact (irf_abs_keys s).symm
  | ok p =>
    rw [hpl] at hst
    obtain ⟨s1, c, hst, hrows, hcfg, hP1, -, -, -, hval, -⟩ := hst
    simp only
    by_cases hb : (bindable (keyOf E s.cfg k).1 && bindable (entryOf p none .null).val) = true
    · rw [if_pos hb]
      simp only [Bool.and_eq_true] at hb
      have hcb : Cols.bindable { c with expT := none, tag := .null } = true := by
        simp only [Cols.bindable, Bool.and_eq_true]
        exact ⟨rfl, by rw [hval]; exact hb.2⟩
      rw [set_rows_noexp s E now k v .null h.good.depth h.pol h.noexp s1 c hst hb.1 hcb,
        irf_keys_set, irf_abs_has, irf_abs_keys]
      unfold setRows
      show List.map irf_key (match s.selKey (keyOf E s.cfg k).1 (keyOf E s.cfg k).2 with
        | some r => _ | none => _) = _
      cases hsel : s.selKey (keyOf E s.cfg k).1 (keyOf E s.cfg k).2 with
      | some r =>
        have hany : s.rows.any (keyMatch (keyOf E s.cfg k).1 (keyOf E s.cfg k).2) = true := by
          cases hany : s.rows.any (keyMatch (keyOf E s.cfg k).1 (keyOf E s.cfg k).2) with
          | true => rfl
          | false => rw [selKey_none_iff.2 hany] at hsel; cases hsel
        simp only [hany, if_true]
        rw [List.map_map]
        apply List.map_congr_left
        intro x _
        simp only [Function.comp, irf_key, (rf_updF_key _ _ _ x).1, (rf_updF_key _ _ _ x).2]
      | none =>
        rw [selKey_none_iff.1 hsel]
        simp only [Bool.false_eq_true, if_false, List.map_append, List.map_cons, List.map_nil]
        rfl
    · rw [if_neg hb]
      rw [irf_abs_keys, set_eq, hst]
      simp only
      have hfail := rf_setBody_fail (s1.log .begin) (keyOf E s.cfg k).1 (keyOf E s.cfg k).2 now
        { c with expT := (none : Option Int).map (now + ·), tag := .null }
        (by
          intro hc
          apply hb
          have h2 := hc.2
          simp only [Cols.bindable, Bool.and_eq_true] at h2
          simp only [Bool.and_eq_true]
          exact ⟨hc.1, by rw [← hval]; exact h2.2⟩)
      have hR := (rf_transact s1 (setBody (keyOf E s.cfg k).1 (keyOf E s.cfg k).2 now
        { c with expT := (none : Option Int).map (now + ·), tag := .null }) c.file hP1.depth).1
      rw [hfail.1] at hR
      simp only [Bool.false_eq_true, if_false] at hR
      show List.map irf_key (s1.transact (setBody (keyOf E s.cfg k).1 (keyOf E s.cfg k).2 now
        { c with expT := (none : Option Int).map (now + ·), tag := .null }) c.file).1.rows = _
      rw [hR, hrows]

theorem irf_set_view (s : Cache) (E : Externals) (now : Int) (k v : PyVal) (h : irf_Inv s) (k' : Key) :
    rf_view (s.set E now k v none false .null).1 k' =
      (OSpec.setitem (irf_abs s) E s.cfg k v).1.get k' := by
  have hA := rf_set_view s E now k v none false .null h.good h.pol
  unfold OSpec.setitem
  cases hpl : place E s.cfg.disk s.cfg.minFileSize v false with
  | error e =>
    rw [hpl] at hA
    simp only at hA ⊢
    rw [hA, irf_abs_get]
  | ok p =>
    rw [hpl] at hA
    simp only [Option.map_none] at hA ⊢
    have ht : bindable (entryOf p none .null).tag = true := by rw [rf_entryOf_tag]; rfl
    rw [ht, Bool.and_true] at hA
    by_cases hb : (bindable (keyOf E s.cfg k).1 && bindable (entryOf p none .null).val) = true
    · rw [if_pos hb] at hA ⊢
      have := irf_culled_eq hA.2 (by
        intro q e he
        unfold rf_at at he
        split at he
        · cases he; exact irf_entryOf_noexp p
        · exact irf_view_noexp h.noexp he) k'
      rw [this, irf_get_set, irf_abs_get]
      rfl
    · rw [if_neg hb] at hA ⊢
      rw [hA.2 k', irf_abs_get]

/-- the result of the assignment: `None`, or the exception of `Cache.set` -/
theorem irf_set_out (s : Cache) (E : Externals) (now : Int) (k v : PyVal) (h : irf_Inv s) :
    (match (s.set E now k v none false .null).2 with | .exc e => Out.exc e | _ => .none) =
      (OSpec.setitem (irf_abs s) E s.cfg k v).2 := by
  have hA := rf_set_view s E now k v none false .null h.good h.pol
  unfold OSpec.setitem
  cases hpl : place E s.cfg.disk s.cfg.minFileSize v false with
  | error e =>
    rw [hpl] at hA
    simp only at hA ⊢
    rw [hA]
  | ok p =>
    rw [hpl] at hA
    simp only [Option.map_none] at hA ⊢
    have ht : bindable (entryOf p none .null).tag = true := by rw [rf_entryOf_tag]; rfl
    rw [ht, Bool.and_true] at hA
    by_cases hb : (bindable (keyOf E s.cfg k).1 && bindable (entryOf p none .null).val) = true
    · rw [if_pos hb] at hA ⊢
      rw [hA.1]
    · rw [if_neg hb] at hA ⊢
      rw [hA.1]

theorem irf_set (s : Cache) (E : Externals) (now : Int) (k v : PyVal) (h : irf_Inv s) :
    irf_abs (s.set E now k v none false .null).1 = (OSpec.setitem (irf_abs s) E s.cfg k v).1 ∧
    (s.set E now k v none false .null).1.cfg = s.cfg ∧
    irf_Inv (s.set E now k v none false .null).1 := by
  have hg' := set_good s E now k v none false .null h.good
  obtain ⟨-, hcfg, hne⟩ := set_keeps s E now k v .null h.good.depth h.noexp
  exact ⟨irf_abs_of hg'.tinv (irf_set_keys s E now k v h) (irf_set_view s E now k v h), hcfg,
    ⟨hg', by rw [hcfg]; exact h.pol, hne⟩⟩

/-! ### `delitem` -/

theorem irf_filter_keys (rows : List Row) (K : Key) :
    (rows.filter (fun x => !keyMatch K.1 K.2 x)).map irf_key =
      (rows.map irf_key).filter (fun q => !sameKey q K) := by
  rw [List.filter_map]
  rfl

theorem irf_delU_noexp {c : Cache} (hne : NoExp c.rows) (K : Key) (now : Int) :
    rf_delU now (rf_view c K) = none := by
  unfold rf_delU
  cases hv : rf_view c K with
  | none => rfl
  | some e => simp only; rw [irf_live_noexp (irf_view_noexp hne hv) now]; rfl

theorem irf_has_noexp {c : Cache} (hne : NoExp c.rows) (K : Key) (now : Int) :
    rf_has now (rf_view c K) = (irf_abs c).has K := by
  rw [irf_has_eq, irf_abs_get]
  unfold rf_has
  cases hv : rf_view c K with
  | none => rfl
  | some e => simp only; rw [irf_live_noexp (irf_view_noexp hne hv) now]; rfl

/-- the rows after removing the binding of `K` from a table (by key) -/
theorem irf_del_rows (s : Cache) (E : Externals) (now : Int) (k : PyVal) (h : irf_Inv s) :
    (s.delitem E now k).1.rows = s.rows.filter (fun x => !keyMatch (keyOf E s.cfg k).1 (keyOf E s.cfg k).2 x) ∧
    (s.delitem E now k).1.cfg = s.cfg := by
  have hsel := selLive_eq_selKey h.noexp (DC.put E s.cfg.disk k).1 (DC.put E s.cfg.disk k).2 now
  cases hs : s.selKey (DC.put E s.cfg.disk k).1 (DC.put E s.cfg.disk k).2 with
  | some r =>
    obtain ⟨-, h2, h3, -⟩ := delitem_some s E now k r (hsel.trans hs)
    refine ⟨?_, h3⟩
    rw [h2]
    exact filter_rowid_eq_filter_key h.good.tinv.tbl.asc h.good.tinv.tbl.uniq (selKey_mem hs)
      (List.find?_some hs)
  | none =>
    obtain ⟨-, h2, h3, -⟩ := delitem_none s E now k (hsel.trans hs)
    refine ⟨?_, h3⟩
    rw [h2, eq_comm, List.filter_eq_self]
    intro x hx
    have := List.find?_eq_none.1 hs x hx
    simp only [keyOf]
    simpa using this

theorem irf_delitem (s : Cache) (E : Externals) (now : Int) (k : PyVal) (h : irf_Inv s) :
    (match (s.delitem E now k).2 with | .bool true => Out.none | o => o) =
      (OSpec.delitem (irf_abs s) E s.cfg k).2 ∧
    irf_abs (s.delitem E now k).1 = (OSpec.delitem (irf_abs s) E s.cfg k).1 ∧
    (s.delitem E now k).1.cfg = s.cfg ∧
    irf_Inv (s.delitem E now k).1 := by
  have hg' := delitem_good s E now k h.good
  obtain ⟨hO, hV⟩ := rf_delitem_view s E now k h.good
  obtain ⟨hR, hcfg⟩ := irf_del_rows s E now k h
  have hm : (OSpec.delitem (irf_abs s) E s.cfg k).1 = (irf_abs s).del (keyOf E s.cfg k) := by
    unfold OSpec.delitem
    split
    · rfl
    · rename_i hh
      simp only
      rw [irf_del_absent]
      rw [irf_has_eq] at hh
      cases hg : (irf_abs s).get (keyOf E s.cfg k) with
      | none => rfl
      | some e => rw [hg] at hh; exact absurd rfl hh
  refine ⟨?_, ?_, hcfg, ⟨hg', by rw [hcfg]; exact h.pol, ?_⟩⟩
  · rw [hO, irf_has_noexp h.noexp]
    unfold OSpec.delitem
    cases (irf_abs s).has (keyOf E s.cfg k) <;> rfl
  · rw [hm]
    apply irf_abs_of hg'.tinv
    · rw [hR, irf_filter_keys, irf_keys_del, irf_abs_keys]
    · intro k'
      rw [hV k', irf_delU_noexp h.noexp, irf_get_del, irf_abs_get]
      rfl
  · rw [hR]
    intro y hy
    exact h.noexp y (List.mem_filter.1 hy).1

/-! ### `pop` -/

theorem irf_pop_rows (s : Cache) (E : Externals) (now : Int) (k : PyVal) (h : irf_Inv s) :
    (s.pop E now k false false).1.rows =
      s.rows.filter (fun x => !keyMatch (keyOf E s.cfg k).1 (keyOf E s.cfg k).2 x) ∧
    (s.pop E now k false false).1.cfg = s.cfg := by
  have hsel := selLive_eq_selKey h.noexp (DC.put E s.cfg.disk k).1 (DC.put E s.cfg.disk k).2 now
  cases hs : s.selKey (DC.put E s.cfg.disk k).1 (DC.put E s.cfg.disk k).2 with
  | some r =>
    rw [rf_pop_some (hsel.trans hs)]
    have hc := transact_ok_core s (fun s => { s := (s.logSql "selLive").delRow r.rowid, out := .none })
      none h.good.depth rfl
    generalize (s.transact fun s => { s := (s.logSql "selLive").delRow r.rowid, out := .none }).1 = t1 at *
    have hrows : t1.rows = s.rows.filter (·.rowid != r.rowid) := by
      have := congrArg Core.rows hc
      simp only [core_rows] at this
      rw [this, rf_delRow_rows]; rfl
    have hcfg : t1.cfg = s.cfg := by
      have := congrArg Core.cfg hc
      simp only [core_cfg] at this
      rw [this]
      show (((s.log .begin).logSql "selLive").delRowQuiet r.rowid).cfg = _
      rw [delRowQuiet_cfg]; rfl
    refine ⟨?_, ?_⟩
    · simp only
      rw [removeCommitted_rows, fetchRow_rows, hrows]
      exact filter_rowid_eq_filter_key h.good.tinv.tbl.asc h.good.tinv.tbl.uniq (selKey_mem hs)
        (List.find?_some hs)
    · simp only
      rw [rf_removeCommitted_cfg, rf_fetchRow_cfg, hcfg]
  | none =>
    rw [rf_pop_none (hsel.trans hs)]
    have hc := rf_transact_core_same s (fun s => { s := s.logSql "selLive", out := .none }) none
      h.good.depth ⟨rfl, rfl, rfl⟩
    refine ⟨?_, congrArg Core.cfg hc⟩
    simp only
    rw [show (s.transact fun s => { s := s.logSql "selLive", out := .none }).1.rows = s.rows from
      congrArg Core.rows hc, eq_comm, List.filter_eq_self]
    intro x hx
    have := List.find?_eq_none.1 hs x hx
    simp only [keyOf]
    simpa using this

theorem irf_pop (s : Cache) (E : Externals) (now : Int) (k : PyVal) (h : irf_Inv s) :
    (s.pop E now k false false).2 = OSpec.look (irf_abs s) E s.cfg (keyOf E s.cfg k) ∧
    irf_abs (s.pop E now k false false).1 = (irf_abs s).del (keyOf E s.cfg k) ∧
    (s.pop E now k false false).1.cfg = s.cfg ∧
    irf_Inv (s.pop E now k false false).1 := by
  have hg' := pop_good s E now k false false h.good
  obtain ⟨hO, hV⟩ := rf_pop_view s E now k false false h.good
  obtain ⟨hR, hcfg⟩ := irf_pop_rows s E now k h
  refine ⟨?_, ?_, hcfg, ⟨hg', by rw [hcfg]; exact h.pol, ?_⟩⟩
  · rw [hO]
    exact irf_look_view h.noexp E _ now
  · apply irf_abs_of hg'.tinv
    · rw [hR, irf_filter_keys, irf_keys_del, irf_abs_keys]
    · intro k'
      rw [hV k', irf_delU_noexp h.noexp, irf_get_del, irf_abs_get]
      rfl
  · rw [hR]
    intro y hy
    exact h.noexp y (List.mem_filter.1 hy).1

/-! ### `len`, `iter`, `clear` -/

theorem irf_len (s : Cache) (h : irf_Inv s) :
    (s.len).2 = .int (irf_abs s).length ∧ core (s.len).1 = core s ∧ irf_Inv (s.len).1 := by
  refine ⟨?_, rfl, irf_inv_core h rfl (len_inv s h.good.tinv)⟩
  rw [len_exact s h.good.tinv, irf_abs_length]

theorem irf_iterLoop_core (asc : Bool) (bound : Nat) : ∀ (fuel : Nat) (s : Cache) (cur : Nat) (acc : List Row),
    core (iterLoop asc bound fuel s cur acc).1 = core s := by
  intro fuel
  induction fuel with
  | zero => intro s cur acc; rfl
  | succ n ih =>
    intro s cur acc
    simp only [iterLoop]
    split
    · rfl
    · rw [ih]; rfl

theorem irf_iter_core (s : Cache) (E : Externals) (asc : Bool) : core (s.iter E asc).1 = core s := by
  unfold iter
  simp only
  split
  · rfl
  · simp only
    rw [irf_iterLoop_core]; rfl

theorem irf_iter (s : Cache) (E : Externals) (asc : Bool) (h : irf_Inv s) (hpg : 0 < s.cfg.page) :
    (s.iter E asc).2 =
      .list ((if asc then irf_abs s else (irf_abs s).reverse).map
        (fun p => keyOut E s.cfg.disk p.1.1 p.1.2)) ∧
    core (s.iter E asc).1 = core s ∧ irf_Inv (s.iter E asc).1 := by
  refine ⟨?_, irf_iter_core s E asc, irf_inv_core h (irf_iter_core s E asc) (iter_inv s E asc h.good.tinv)⟩
  cases asc with
  | true =>
    rw [iter_all s E h.good.tinv.tbl.asc h.good.tinv.tbl.pos hpg]
    simp only [if_true, irf_abs, List.map_map]
    rfl
  | false =>
    rw [riter_all s E h.good.tinv.tbl.asc h.good.tinv.tbl.pos hpg]
    simp only [Bool.false_eq_true, if_false, irf_abs, ← List.map_reverse, List.map_map]
    rfl

theorem irf_clear (s : Cache) (h : irf_Inv s) (hpg : 0 < s.cfg.page) :
    irf_abs (s.clear).1 = [] ∧ (s.clear).1.cfg = s.cfg ∧ irf_Inv (s.clear).1 := by
  have hr := (clear_all s h.good.tinv.tbl.asc h.good.tinv.tbl.pos hpg).1
  have hcfg := rf_clear_cfg s
  refine ⟨?_, hcfg, ⟨clear_good s h.good, by rw [hcfg]; exact h.pol, ?_⟩⟩
  · unfold irf_abs; rw [hr]; rfl
  · intro r hx
    rw [hr] at hx
    cases hx

end DC.Cache
