/-
C11_Refine, list facts about the single rotation steps of DC/Model/DSpec.lean: `rotl` and `rotr`
undo each other, a full turn (`len` steps) is the identity, so only `steps mod len` matters.
-/
import DC.Model.DSpec

namespace DC.DSpec

theorem iter_succ' {α} (f : α → α) : ∀ (k : Nat) (a : α), iter_ f (k + 1) a = f (iter_ f k a)
  | 0, _ => rfl
  | k + 1, a => iter_succ' f k (f a)

theorem iter_add {α} (f : α → α) : ∀ (a b : Nat) (x : α), iter_ f (a + b) x = iter_ f b (iter_ f a x)
  | 0, b, x => by rw [Nat.zero_add]; rfl
  | a + 1, b, x => by
    rw [show a + 1 + b = (a + b) + 1 by omega]
    exact iter_add f a b (f x)

theorem rotr_rotl {α} (l : List α) : rotr (rotl l) = l := by
  cases l with
  | nil => rfl
  | cons x t =>
    unfold rotl rotr
    simp [List.getLast?_append]

theorem rotl_rotr {α} (l : List α) : rotl (rotr l) = l := by
  unfold rotr
  rcases List.eq_nil_or_concat l with h | ⟨t, x, h⟩
  · subst h; rfl
  · subst h
    simp [List.concat_eq_append, List.getLast?_append, rotl]

theorem rotl_length {α} (l : List α) : (rotl l).length = l.length := by
  cases l <;> simp [rotl]

theorem rotr_length {α} (l : List α) : (rotr l).length = l.length := by
  have := rotl_length (rotr l)
  rw [rotl_rotr] at this
  exact this.symm

/-- `k ≤ len` steps to the left: the first `k` items move to the back -/
theorem iter_rotl_drop_take {α} : ∀ (k : Nat) (l : List α), k ≤ l.length →
    iter_ rotl k l = l.drop k ++ l.take k
  | 0, l, _ => by simp [iter_]
  | k + 1, [], h => by simp at h
  | k + 1, x :: t, h => by
    have hk : k ≤ t.length := by simpa using h
    show iter_ rotl k (t ++ [x]) = _
    rw [iter_rotl_drop_take k (t ++ [x]) (by simp; omega)]
    rw [List.drop_append_of_le_length hk, List.take_append_of_le_length hk]
    simp

/-- a full turn to the left is the identity -/
theorem iter_rotl_len {α} (l : List α) : iter_ rotl l.length l = l := by
  rw [iter_rotl_drop_take l.length l (Nat.le_refl _)]
  simp

/-- `k` steps to the right undo `k` steps to the left -/
theorem iter_rotr_rotl {α} : ∀ (k : Nat) (l : List α), iter_ rotr k (iter_ rotl k l) = l
  | 0, _ => rfl
  | k + 1, l => by
    rw [iter_succ' rotl k l]
    show iter_ rotr k (rotr (rotl (iter_ rotl k l))) = l
    rw [rotr_rotl]
    exact iter_rotr_rotl k l

/-- **a full turn to the right is the identity** -/
theorem iter_rotr_len {α} (l : List α) : iter_ rotr l.length l = l := by
  have := iter_rotr_rotl l.length l
  rw [iter_rotl_len] at this
  exact this

theorem iter_length {α} (f : List α → List α) (hf : ∀ l, (f l).length = l.length) :
    ∀ (k : Nat) (l : List α), (iter_ f k l).length = l.length
  | 0, _ => rfl
  | k + 1, l => by
    show (iter_ f k (f l)).length = _
    rw [iter_length f hf k (f l), hf]

/-- whole turns do nothing -/
theorem iter_turns {α} (f : List α → List α) (hlen : ∀ l, (f l).length = l.length)
    (hfull : ∀ l, iter_ f l.length l = l) (l : List α) : ∀ q : Nat, iter_ f (l.length * q) l = l
  | 0 => rfl
  | q + 1 => by
    rw [Nat.mul_succ, iter_add, iter_turns f hlen hfull l q]
    exact hfull l

/-- only `k mod len` matters -/
theorem iter_mod {α} (f : List α → List α) (hlen : ∀ l, (f l).length = l.length)
    (hfull : ∀ l, iter_ f l.length l = l) (l : List α) (k : Nat) :
    iter_ f k l = iter_ f (k % l.length) l := by
  conv => lhs; rw [← Nat.div_add_mod k l.length]
  rw [iter_add, iter_turns f hlen hfull l]

theorem iter_nil {α} (f : List α → List α) (hf : f [] = []) : ∀ k, iter_ f k ([] : List α) = []
  | 0 => rfl
  | k + 1 => by show iter_ f k (f []) = []; rw [hf]; exact iter_nil f hf k

end DC.DSpec
