/-
C03_Refine, model side, the writing calls: `set`, `add`, `incr`, `touch`.
All three of set/add/incr end in "INSERT or UPDATE the row of the key, then
`_cull`"; `rf_look_setRows` says what the table denotes after the first step
and `rf_cull_tail` what the lazy cull may take away (policy `none`: expired
rows only).
-/
import DC.Proofs.RefineOps
import DC.Proofs.LossyLemmas

namespace DC.Cache
open DC.Spec

/-- `Disk.store` in terms of `place`: on success the new columns denote `entryOf` of the
placement, read against the state with the value file written -/
theorem rf_store (s : Cache) (E : Externals) (v : PyVal) (read : Bool) (hP : PI (core s) []) :
    match place E s.cfg.disk s.cfg.minFileSize v read with
    | .error e => s.store E v read = .error e
    | .ok p => ∃ s1 c, s.store E v read = .ok (s1, c) ∧ s1.rows = s.rows ∧ s1.cfg = s.cfg ∧
        PI (core s1) [c.file] ∧ (∀ q ∈ s.files, q ∈ s1.files) ∧ c.expT = none ∧ c.tag = .null ∧
        c.val = (entryOf p none .null).val ∧
        (∀ r : Row, r.mode = c.mode → r.val = c.val → r.file = c.file →
          rf_ent s1 r = entryOf p r.expT r.tag) := by
  unfold store
  cases hpl : place E s.cfg.disk s.cfg.minFileSize v read with
  | error e => rfl
  | ok p =>
    cases p with
    | inline mode sv =>
      refine ⟨s, _, rfl, rfl, rfl, hP.cl_congr (by simp), fun q hq => hq, rfl, rfl, rfl, ?_⟩
      intro r h1 h2 h3
      simp only at h1 h2 h3
      unfold rf_ent entryOf
      simp [h1, h2, h3]
    | file mode ct =>
      have hP1 := hP.fwrite ct
      refine ⟨(s.fwrite ct).1, _, rfl, rfl, rfl, hP1, ?_, rfl, rfl, rfl, ?_⟩
      · intro q hq
        show q ∈ s.files ++ [(s.nfile, ct)]
        exact List.mem_append_left _ hq
      · intro r h1 h2 h3
        simp only at h1 h2 h3
        have hmem : (s.nfile, ct) ∈ (s.fwrite ct).1.files := by
          show (s.nfile, ct) ∈ s.files ++ [(s.nfile, ct)]
          simp
        have hget := fileGet_of_mem (s := (s.fwrite ct).1) hP1.nodup hmem
        unfold rf_ent entryOf
        simp [h1, h2, h3, hget]

theorem rf_updF_key (id : Nat) (now : Int) (c : Cols) (r : Row) :
    (updF id now c r).key = r.key ∧ (updF id now c r).raw = r.raw := by
  unfold updF; split <;> exact ⟨rfl, rfl⟩

/-- what the table denotes after the INSERT-or-UPDATE of `set`/`add`/`incr` -/
theorem rf_look_setRows {s s1 t : Cache} (hi : TableInv s) (ht : t.rows = s.rows)
    (hent : ∀ r ∈ s.rows, rf_ent s1 r = rf_ent s r)
    (K : Key) (now : Int) (c : Cols) (e : Entry)
    (he : ∀ r : Row, r.mode = c.mode → r.val = c.val → r.file = c.file → r.expT = c.expT →
      r.tag = c.tag → rf_ent s1 r = e)
    (k' : Key) :
    rf_look (setRows K.1 K.2 now c t) s1 k' = rf_at K (some e) (rf_view s) k' := by
  have hu := hi.tbl.uniq
  have hsel : t.selKey K.1 K.2 = s.selKey K.1 K.2 := selKey_congr ht _ _
  have hold : rf_look s.rows s1 k' = rf_view s k' := rf_look_congr hent k'
  unfold setRows rf_at
  rw [hsel, ht]
  cases hs : s.selKey K.1 K.2 with
  | some r0 =>
    have hr0 : r0 ∈ s.rows := selKey_mem hs
    have hk0 : keyMatch K.1 K.2 r0 = true := List.find?_some hs
    simp only
    rw [rf_look_map _ _ _ (rf_updF_key _ _ _)]
    cases hk : sameKey K k' with
    | true =>
      have hk0' : keyMatch k'.1 k'.2 r0 = true := by rw [← rf_keyMatch_congr hk]; exact hk0
      rw [rf_find_of_mem hu hr0 hk0']
      simp only [Option.map_some, if_true]
      congr 1
      apply he <;> simp [updF]
    | false =>
      simp only [Bool.false_eq_true, if_false]
      rw [← hold]
      unfold rf_look
      cases hf : s.rows.find? (keyMatch k'.1 k'.2) with
      | none => rfl
      | some x =>
        have hx := List.mem_of_find?_eq_some hf
        have hkx : keyMatch k'.1 k'.2 x = true := List.find?_some hf
        have hne : x.rowid ≠ r0.rowid := by
          intro hid
          have := rowidsAsc_eq_of_rowid hi.tbl.asc hx hr0 hid
          subst this
          rw [rf_keyMatch_sameKey] at hk0 hkx
          rw [rf_sameKey_trans (rf_sameKey_symm hk0) hkx] at hk
          cases hk
        simp [updF, hne]
  | none =>
    simp only
    rw [rf_look_append, hold]
    have hkn : keyMatch k'.1 k'.2 (newRow t K.1 K.2 now c) = sameKey K k' := rfl
    rw [hkn]
    cases hk : sameKey K k' with
    | true =>
      have : rf_view s k' = none := by
        rw [← rf_view_sameKey hk]
        unfold rf_view rf_look
        unfold selKey at hs
        rw [hs]; rfl
      rw [this]
      simp only [Option.none_or, if_true]
      congr 1
      apply he <;> rfl
    | false => simp

/-- the table after INSERT-or-UPDATE has unique keys -/
theorem rf_setRows_unique {t : Cache} (hi : TableInv t) (dbk : SqlVal) (raw : Bool) (now : Int)
    (c : Cols) (hnn : dbk ≠ .null) : KeysUnique (setRows dbk raw now c t) ∧
    RowidsAsc (setRows dbk raw now c t) := by
  unfold setRows
  cases hs : t.selKey dbk raw with
  | some r0 =>
    have := updRow_inv r0.rowid now c hi
    exact ⟨this.tbl.uniq, this.tbl.asc⟩
  | none =>
    have := insRow_inv dbk raw now c hi hs hnn
    exact ⟨this.tbl.uniq, this.tbl.asc⟩

/-- `_cull` with policy `none`: only expired rows leave, nothing else changes -/
theorem rf_cull_tail (t : Cache) (now : Int) (hasc : RowidsAsc t.rows) (hp : t.cfg.policy = .none) :
    (∀ r ∈ (t.cullW now).1.rows, r ∈ t.rows) ∧
    (∀ r ∈ t.rows, r ∉ (t.cullW now).1.rows → expired now r = true) ∧
    (t.cullW now).1.files = t.files ∧ (t.cullW now).1.cfg = t.cfg := by
  obtain ⟨hc, hsub⟩ := cullW_core t now
  refine ⟨hsub, ?_, congrArg Core.files hc, congrArg Core.cfg hc⟩
  intro r hr hnot
  cases hex : expired now r with
  | true => rfl
  | false => exact absurd hp (cullW_removed t now hasc r hr hnot hex).1

/-- `_cull` with any policy: the facts of `cullW_loss`, nothing else changes -/
theorem rf_cull_tail_gen (t : Cache) (now : Int) (hi : TableInv t) :
    CullFacts t.cfg t.env now t.rows (t.cullW now).1 ∧
    (t.cullW now).1.files = t.files ∧ (t.cullW now).1.cfg = t.cfg := by
  obtain ⟨hc, -⟩ := cullW_core t now
  exact ⟨cullW_facts t now hi, congrArg Core.files hc, congrArg Core.cfg hc⟩

/-- the table after INSERT-or-UPDATE has no NULL key -/
theorem rf_setRows_nonnull {t : Cache} (hi : TableInv t) (dbk : SqlVal) (raw : Bool) (now : Int)
    (c : Cols) (hnn : dbk ≠ .null) : ∀ r ∈ setRows dbk raw now c t, r.key ≠ .null := by
  unfold setRows
  cases hs : t.selKey dbk raw with
  | some r0 => exact (updRow_inv r0.rowid now c hi).tbl.nonnull
  | none => exact (insRow_inv dbk raw now c hi hs hnn).tbl.nonnull

/-- the rows of the other keys are rows of the table after INSERT-or-UPDATE -/
theorem rf_setRows_keep {t : Cache} (hi : TableInv t) (K : Key) (now : Int) (c : Cols) :
    ∀ r ∈ t.rows, keyMatch K.1 K.2 r = false → r ∈ setRows K.1 K.2 now c t := by
  intro r hr hk
  unfold setRows
  cases hs : t.selKey K.1 K.2 with
  | some r0 =>
    simp only
    have hne : r.rowid ≠ r0.rowid := by
      intro hid
      have := rowidsAsc_eq_of_rowid hi.tbl.asc hr (selKey_mem hs) hid
      subst this
      have : keyMatch K.1 K.2 r = true := List.find?_some hs
      rw [hk] at this; cases this
    exact List.mem_map.2 ⟨r, hr, by simp [updF, hne]⟩
  | none => exact List.mem_append_left _ hr

/-- the view after a write that stored `e` under `K` and then culled: the keys of the evicted
rows `L` are gone, expired entries may be gone, everything else is as after the write -/
def rf_Wrote (s c' : Cache) (K : Key) (now : Int) (e : Entry) : Prop :=
  ∃ L, rf_Lossy now (L.map rowKey) (rf_at K (some e) (rf_view s)) (rf_view c') ∧ Loss s c' K now L ∧
    (∀ r ∈ L, ∃ e', rf_at K (some e) (rf_view s) (rowKey r) = some e' ∧ EntOf r e') ∧
    c'.size + sumSizes L ≤ s.size + entrySize e

theorem rf_rowSize_nonneg (rows : List Row) (id : Nat) : 0 ≤ rowSize rows id := by
  unfold rowSize
  split
  · exact Int.natCast_nonneg _
  · exact Int.le_refl _

/-- the table after INSERT-or-UPDATE is at most the new value larger than the table before -/
theorem rf_setRows_size_le {t : Cache} (hi : TableInv t) (dbk : SqlVal) (raw : Bool) (now : Int)
    (c : Cols) (hnn : dbk ≠ .null) : sumSizes (setRows dbk raw now c t) ≤ t.size + c.size := by
  unfold setRows
  cases hs : t.selKey dbk raw with
  | some r0 =>
    have h := (updRow_inv r0.rowid now c hi).tbl.size
    have h0 := rf_rowSize_nonneg t.rows r0.rowid
    show sumSizes (t.updRow r0.rowid now c).rows ≤ _
    rw [← h]
    show (if t.rows.any (·.rowid == r0.rowid) then t.size + c.size - rowSize t.rows r0.rowid else t.size) ≤ _
    split <;> omega
  | none =>
    have h := (insRow_inv dbk raw now c hi hs hnn).tbl.size
    show sumSizes (t.insRow dbk raw now c).rows ≤ _
    rw [← h]
    exact Int.le_refl _

/-- the size column `Disk.store` produces is the size of the value file -/
theorem rf_store_size {s s1 : Cache} {E : Externals} {v : PyVal} {read : Bool} {c : Cols} {p : Placement}
    (hst : s.store E v read = .ok (s1, c))
    (hpl : place E s.cfg.disk s.cfg.minFileSize v read = .ok p) (e : Option Int) (t : SqlVal) :
    (c.size : Int) = entrySize (entryOf p e t) := by
  unfold store at hst
  rw [hpl] at hst
  cases p with
  | inline mode sv =>
    simp only [Except.ok.injEq, Prod.mk.injEq] at hst
    rw [← hst.2]; rfl
  | file mode ct =>
    simp only [Except.ok.injEq, Prod.mk.injEq] at hst
    rw [← hst.2]; rfl

/-- without an eviction policy nothing is evicted -/
theorem rf_Wrote_none {s c' : Cache} {K : Key} {now : Int} {e : Entry} (h : rf_Wrote s c' K now e)
    (hp : s.cfg.policy = .none) :
    rf_Culled now (rf_at K (some e) (rf_view s)) (rf_view c') := by
  obtain ⟨L, h1, h2, -⟩ := h
  have := h2.polNone hp
  subst this
  exact rf_Lossy_nil.1 h1

end DC.Cache

namespace DC.Cache
open DC.Spec

/-! ### `set` -/

theorem rf_setBody_ok_gen (t : Cache) (dbk : SqlVal) (raw : Bool) (now : Int) (c : Cols)
    (hi : TableInv t) (hnn : dbk ≠ .null)
    (hb : bindable dbk = true) (hcb : c.bindable = true) :
    (setBody dbk raw now c t).ok = true ∧ (setBody dbk raw now c t).out = .bool true ∧
    CullFacts t.cfg t.env now (setRows dbk raw now c t) (setBody dbk raw now c t).s ∧
    (setBody dbk raw now c t).s.files = t.files ∧ (setBody dbk raw now c t).s.cfg = t.cfg := by
  unfold setBody setRows
  simp only [hb, hcb, Bool.not_true, Bool.false_eq_true, if_false]
  cases hs : t.selKey dbk raw with
  | some r0 =>
    simp only
    obtain ⟨h1, h3, h4⟩ := rf_cull_tail_gen ((t.logSql "selKey").updRow r0.rowid now c) now
      (updRow_inv r0.rowid now c (logSql_inv _ hi))
    exact ⟨trivial, trivial, h1, h3, h4⟩
  | none =>
    simp only
    obtain ⟨h1, h3, h4⟩ := rf_cull_tail_gen ((t.logSql "selKey").insRow dbk raw now c) now
      (insRow_inv dbk raw now c (logSql_inv _ hi) hs hnn)
    exact ⟨trivial, trivial, h1, h3, h4⟩

theorem rf_setBody_ok (t : Cache) (dbk : SqlVal) (raw : Bool) (now : Int) (c : Cols)
    (hi : TableInv t) (hp : t.cfg.policy = .none) (hnn : dbk ≠ .null)
    (hb : bindable dbk = true) (hcb : c.bindable = true) :
    (setBody dbk raw now c t).ok = true ∧ (setBody dbk raw now c t).out = .bool true ∧
    (∀ r ∈ (setBody dbk raw now c t).s.rows, r ∈ setRows dbk raw now c t) ∧
    (∀ r ∈ setRows dbk raw now c t, r ∉ (setBody dbk raw now c t).s.rows → expired now r = true) ∧
    (setBody dbk raw now c t).s.files = t.files ∧ (setBody dbk raw now c t).s.cfg = t.cfg := by
  obtain ⟨h1, h2, hf, h3, h4⟩ := rf_setBody_ok_gen t dbk raw now c hi hnn hb hcb
  refine ⟨h1, h2, hf.sub, ?_, h3, h4⟩
  intro r hr hnot
  cases hex : expired now r with
  | true => rfl
  | false =>
    have := mem_lostRows.2 ⟨hr, hex, hnot⟩
    rw [hf.polNone hp] at this; cases this

theorem rf_setBody_fail (t : Cache) (dbk : SqlVal) (raw : Bool) (now : Int) (c : Cols)
    (h : ¬ (bindable dbk = true ∧ c.bindable = true)) :
    (setBody dbk raw now c t).ok = false ∧ (setBody dbk raw now c t).out = .exc "UnicodeEncodeError" ∧
    (setBody dbk raw now c t).s.files = t.files ∧ (setBody dbk raw now c t).s.cfg = t.cfg := by
  unfold setBody
  by_cases hb : bindable dbk = true
  · have hcb : c.bindable = false := by
      cases hc : c.bindable with
      | true => exact absurd ⟨hb, hc⟩ h
      | false => rfl
    simp only [hb, hcb, Bool.not_true, Bool.false_eq_true, if_false, Bool.not_false, if_true]
    exact ⟨trivial, trivial, rfl, rfl⟩
  · have hb : bindable dbk = false := by simpa using hb
    simp only [hb, Bool.not_false, if_true]
    exact ⟨trivial, trivial, rfl, rfl⟩

theorem rf_entryOf_tag (p : Placement) (e : Option Int) (t : SqlVal) : (entryOf p e t).tag = t := by
  cases p <;> rfl
theorem rf_entryOf_val (p : Placement) (e e' : Option Int) (t t' : SqlVal) :
    (entryOf p e t).val = (entryOf p e' t').val := by
  cases p <;> rfl

theorem rf_set_view_gen (s : Cache) (E : Externals) (now : Int) (k v : PyVal) (ttl : Option Int)
    (read : Bool) (tag : SqlVal) (hg : Good s) :
    match place E s.cfg.disk s.cfg.minFileSize v read with
    | .error _ => s.set E now k v ttl read tag = (s, .exc "UnicodeEncodeError")
    | .ok p =>
      if bindable (keyOf E s.cfg k).1 && bindable (entryOf p (ttl.map (now + ·)) tag).tag &&
          bindable (entryOf p (ttl.map (now + ·)) tag).val then
        (s.set E now k v ttl read tag).2 = .bool true ∧
        rf_Wrote s (s.set E now k v ttl read tag).1 (keyOf E s.cfg k) now
          (entryOf p (ttl.map (now + ·)) tag)
      else
        (s.set E now k v ttl read tag).2 = .exc "UnicodeEncodeError" ∧
        ∀ k', rf_view (s.set E now k v ttl read tag).1 k' = rf_view s k' := by
  have hst := rf_store s E v read hg.pi
  have hg' := set_good s E now k v ttl read tag hg
  cases hpl : place E s.cfg.disk s.cfg.minFileSize v read with
  | error e =>
    rw [hpl] at hst
    simp only at hst ⊢
    rw [set_eq, hst]
  | ok p =>
    rw [hpl] at hst
    obtain ⟨s1, c, hst, hrows, hcfg, hP1, hfsub, hexp, htag, hval, hent1⟩ := hst
    simp only
    have hS : s.set E now k v ttl read tag =
        s1.transact (fresh := c.file) (setBody (keyOf E s.cfg k).1 (keyOf E s.cfg k).2 now
          { c with expT := ttl.map (now + ·), tag := tag }) := by
      rw [set_eq, hst]; rfl
    rw [hS] at hg' ⊢
    have hd1 : s1.depth = 0 := hP1.depth
    obtain ⟨hR, hF, -, hO⟩ := rf_transact s1 (setBody (keyOf E s.cfg k).1 (keyOf E s.cfg k).2 now
          { c with expT := ttl.map (now + ·), tag := tag }) c.file hd1
    have hentS : ∀ r ∈ s.rows, rf_ent s1 r = rf_ent s r :=
      fun r hr => (rf_ent_mono hfsub hP1.nodup (rf_good_ref hg hr)).symm
    have hi1 : TableInv (s1.log .begin) := log_inv _ (store_inv hst hg.tinv).1
    have hnn : (keyOf E s.cfg k).1 ≠ .null := put_ne_null_fl E s.cfg.disk k
    rw [rf_entryOf_tag, rf_entryOf_val p _ none _ .null, ← hval]
    by_cases hb : (bindable (keyOf E s.cfg k).1 && bindable tag && bindable c.val) = true
    · rw [if_pos hb]
      simp only [Bool.and_eq_true] at hb
      obtain ⟨hok, hout, hfacts, hfiles, -⟩ := rf_setBody_ok_gen (s1.log .begin) (keyOf E s.cfg k).1
        (keyOf E s.cfg k).2 now { c with expT := ttl.map (now + ·), tag := tag } hi1 hnn hb.1.1
        (by simp only [Cols.bindable, Bool.and_eq_true]; exact ⟨hb.1.2, hb.2⟩)
      have hsz := rf_transact_size s1 (setBody (keyOf E s.cfg k).1 (keyOf E s.cfg k).2 now
          { c with expT := ttl.map (now + ·), tag := tag }) c.file hd1 hok
      rw [hok] at hR
      simp only [if_true] at hR
      refine ⟨hO.trans hout, ?_⟩
      have hu := (rf_setRows_unique hi1 (keyOf E s.cfg k).1 (keyOf E s.cfg k).2 now
        { c with expT := ttl.map (now + ·), tag := tag } hnn).1
      have hfacts' := hfacts
      rw [show (s1.log .begin).cfg = s.cfg from hcfg,
        show (s1.log .begin).env = s.env from (store_env hst : s1.env = s.env)] at hfacts'
      exact rf_lossy_finish (b := s1) hg hg' hfacts' hR hsz hu
        (rf_setRows_nonnull hi1 _ _ _ _ hnn)
        (by intro q hq; have := hF q hq; rw [hfiles] at this; exact this) hP1.nodup
        (rf_look_setRows (s := s) (s1 := s1) (t := s1.log .begin) hg.tinv hrows hentS
          (keyOf E s.cfg k) now { c with expT := ttl.map (now + ·), tag := tag }
          (entryOf p (ttl.map (now + ·)) tag)
          (by
            intro r h1 h2 h3 h4 h5
            simp only at h1 h2 h3 h4 h5
            rw [hent1 r h1 h2 h3, h4, h5]))
        (by
          have := rf_setRows_keep hi1 (keyOf E s.cfg k) now { c with expT := ttl.map (now + ·), tag := tag }
          rw [show (s1.log .begin).rows = s.rows from hrows] at this
          exact this)
        (by
          have h := rf_setRows_size_le hi1 (keyOf E s.cfg k).1 (keyOf E s.cfg k).2 now
            { c with expT := ttl.map (now + ·), tag := tag } hnn
          rw [show (s1.log .begin).size = s.size from (store_keep hst).2.2.2.1] at h
          rw [← rf_store_size hst hpl (ttl.map (now + ·)) tag]
          exact h)
    · rw [if_neg hb]
      obtain ⟨hok, hout, hfiles, -⟩ := rf_setBody_fail (s1.log .begin) (keyOf E s.cfg k).1
        (keyOf E s.cfg k).2 now { c with expT := ttl.map (now + ·), tag := tag }
        (by
          intro hc
          apply hb
          have h2 := hc.2
          simp only [Cols.bindable, Bool.and_eq_true] at h2
          simp only [Bool.and_eq_true]
          exact ⟨⟨hc.1, h2.1⟩, h2.2⟩)
      rw [hok] at hR
      simp only [Bool.false_eq_true, if_false] at hR
      refine ⟨hO.trans hout, ?_⟩
      intro k'
      rw [rf_same hg' (b := s1) (by intro q hq; have := hF q hq; rw [hfiles] at this; exact this)
        hP1.nodup, hR, hrows]
      exact rf_look_congr hentS k'

theorem rf_set_view (s : Cache) (E : Externals) (now : Int) (k v : PyVal) (ttl : Option Int)
    (read : Bool) (tag : SqlVal) (hg : Good s) (hp : s.cfg.policy = .none) :
    match place E s.cfg.disk s.cfg.minFileSize v read with
    | .error _ => s.set E now k v ttl read tag = (s, .exc "UnicodeEncodeError")
    | .ok p =>
      if bindable (keyOf E s.cfg k).1 && bindable (entryOf p (ttl.map (now + ·)) tag).tag &&
          bindable (entryOf p (ttl.map (now + ·)) tag).val then
        (s.set E now k v ttl read tag).2 = .bool true ∧
        rf_Culled now (rf_at (keyOf E s.cfg k) (some (entryOf p (ttl.map (now + ·)) tag)) (rf_view s))
          (rf_view (s.set E now k v ttl read tag).1)
      else
        (s.set E now k v ttl read tag).2 = .exc "UnicodeEncodeError" ∧
        ∀ k', rf_view (s.set E now k v ttl read tag).1 k' = rf_view s k' := by
  have h := rf_set_view_gen s E now k v ttl read tag hg
  cases hpl : place E s.cfg.disk s.cfg.minFileSize v read with
  | error e => rw [hpl] at h; exact h
  | ok p =>
    rw [hpl] at h
    simp only at h ⊢
    split
    · rename_i hb
      rw [if_pos hb] at h
      exact ⟨h.1, rf_Wrote_none h.2 hp⟩
    · rename_i hb
      rw [if_neg hb] at h
      exact h

end DC.Cache

namespace DC.Cache
open DC.Spec

/-! ### UPDATE of one row in place (`touch`, the increment of `incr`) -/

theorem rf_look_upd {s : Cache} (hi : TableInv s) (b : Cache) {r0 : Row} (hr0 : r0 ∈ s.rows) {K : Key}
    (hk : keyMatch K.1 K.2 r0 = true) (f : Row → Row)
    (hf : ∀ r, (f r).key = r.key ∧ (f r).raw = r.raw) (k' : Key) :
    rf_look (s.rows.map (fun r => if r.rowid == r0.rowid then f r else r)) b k' =
      rf_at K (some (rf_ent b (f r0))) (rf_look s.rows b) k' := by
  have hu := hi.tbl.uniq
  rw [rf_look_map _ _ _ (by intro r; split; exact hf r; exact ⟨rfl, rfl⟩)]
  unfold rf_at
  cases hkk : sameKey K k' with
  | true =>
    have hk0' : keyMatch k'.1 k'.2 r0 = true := by rw [← rf_keyMatch_congr hkk]; exact hk
    rw [rf_find_of_mem hu hr0 hk0']
    simp
  | false =>
    simp only [Bool.false_eq_true, if_false]
    unfold rf_look
    cases hfd : s.rows.find? (keyMatch k'.1 k'.2) with
    | none => rfl
    | some x =>
      have hx := List.mem_of_find?_eq_some hfd
      have hkx : keyMatch k'.1 k'.2 x = true := List.find?_some hfd
      have hne : x.rowid ≠ r0.rowid := by
        intro hid
        have := rowidsAsc_eq_of_rowid hi.tbl.asc hx hr0 hid
        subst this
        rw [rf_keyMatch_sameKey] at hk hkx
        rw [rf_sameKey_trans (rf_sameKey_symm hk) hkx] at hkk
        cases hkk
      simp [hne]

/-- the row of a key, in terms of the view -/
theorem rf_selKey_cases {s : Cache} (_hi : TableInv s) (K : Key) :
    (∃ r, s.selKey K.1 K.2 = some r ∧ r ∈ s.rows ∧ keyMatch K.1 K.2 r = true ∧
      rf_view s K = some (rf_ent s r)) ∨
    (s.selKey K.1 K.2 = none ∧ rf_view s K = none) := by
  cases hsel : s.selKey K.1 K.2 with
  | some r =>
    left
    refine ⟨r, rfl, selKey_mem hsel, List.find?_some hsel, ?_⟩
    unfold rf_view rf_look
    unfold selKey at hsel
    rw [hsel]; rfl
  | none =>
    right
    refine ⟨rfl, ?_⟩
    unfold rf_view rf_look
    unfold selKey at hsel
    rw [hsel]; rfl

/-! ### `touch` -/

/-- give a live entry a new expiry time -/
def rf_touchU (now : Int) (ne : Option Int) (v : Option Entry) : Option Entry :=
  match v with
  | some e => if e.live now then some { e with expT := ne } else some e
  | none => none

/-- the transaction body of `touch` -/
def rf_touchBody (dbk : SqlVal) (raw : Bool) (now : Int) (ttl : Option Int) (s : Cache) : Body :=
  let old := s.selKey dbk raw
  let s := s.logSql "selKey"
  match old with
  | some r => if live now r then { s := s.updExp r.rowid (ttl.map (now + ·)), out := .bool true }
              else { s := s, out := .bool false }
  | none => { s := s, out := .bool false }

theorem rf_touch_eq (s : Cache) (E : Externals) (now : Int) (k : PyVal) (ttl : Option Int) :
    s.touch E now k ttl = s.transact (rf_touchBody (keyOf E s.cfg k).1 (keyOf E s.cfg k).2 now ttl) := rfl

theorem rf_touch_view (s : Cache) (E : Externals) (now : Int) (k : PyVal) (ttl : Option Int)
    (hg : Good s) :
    (s.touch E now k ttl).2 = .bool (rf_has now (rf_view s (keyOf E s.cfg k))) ∧
    ∀ k', rf_view (s.touch E now k ttl).1 k' =
      rf_at (keyOf E s.cfg k) (rf_touchU now (ttl.map (now + ·)) (rf_view s (keyOf E s.cfg k)))
        (rf_view s) k' := by
  have hg' := touch_good s E now k ttl hg
  rw [rf_touch_eq] at hg' ⊢
  obtain ⟨hR, hF, -, hO⟩ := rf_transact s (rf_touchBody (keyOf E s.cfg k).1 (keyOf E s.cfg k).2 now ttl)
    none hg.depth
  have hsame : ∀ k', rf_at (keyOf E s.cfg k) (rf_view s (keyOf E s.cfg k)) (rf_view s) k' = rf_view s k' :=
    rf_at_self (fun k'' h => rf_view_sameKey h s)
  rcases rf_selKey_cases hg.tinv (keyOf E s.cfg k) with ⟨r, hsel, hr, hk, hv⟩ | ⟨hsel, hv⟩
  · have hsel' : (s.log .begin).selKey (keyOf E s.cfg k).1 (keyOf E s.cfg k).2 = some r := hsel
    cases hl : live now r with
    | true =>
      have hb : rf_touchBody (keyOf E s.cfg k).1 (keyOf E s.cfg k).2 now ttl (s.log .begin) =
          { s := ((s.log .begin).logSql "selKey").updExp r.rowid (ttl.map (now + ·)), out := .bool true } := by
        unfold rf_touchBody; simp only [hsel', hl, if_true]
      rw [hb] at hR hF hO
      simp only [if_true] at hR
      refine ⟨by rw [hO, hv]; simp [rf_has, rf_ent_live, hl], ?_⟩
      intro k'
      rw [rf_same hg' (b := s) hF hg.finv.nodup, hR]
      show rf_look (s.rows.map (fun (x : Row) => if x.rowid == r.rowid then { x with expT := ttl.map (now + ·) } else x)) s k' = _
      rw [rf_look_upd hg.tinv s hr hk (fun x => { x with expT := ttl.map (now + ·) }) (fun _ => ⟨rfl, rfl⟩), hv]
      simp only [rf_touchU, rf_ent_live, hl, if_true]
      rfl
    | false =>
      have hb : rf_touchBody (keyOf E s.cfg k).1 (keyOf E s.cfg k).2 now ttl (s.log .begin) =
          { s := (s.log .begin).logSql "selKey", out := .bool false } := by
        unfold rf_touchBody; simp only [hsel', hl, Bool.false_eq_true, if_false]
      rw [hb] at hR hF hO
      simp only [if_true] at hR
      refine ⟨by rw [hO, hv]; simp [rf_has, rf_ent_live, hl], ?_⟩
      intro k'
      rw [rf_same hg' (b := s) hF hg.finv.nodup, hR]
      have : rf_touchU now (ttl.map (now + ·)) (rf_view s (keyOf E s.cfg k)) = rf_view s (keyOf E s.cfg k) := by
        rw [hv]; simp [rf_touchU, rf_ent_live, hl]
      rw [this, hsame]
      rfl
  · have hsel' : (s.log .begin).selKey (keyOf E s.cfg k).1 (keyOf E s.cfg k).2 = none := hsel
    have hb : rf_touchBody (keyOf E s.cfg k).1 (keyOf E s.cfg k).2 now ttl (s.log .begin) =
        { s := (s.log .begin).logSql "selKey", out := .bool false } := by
      unfold rf_touchBody; simp only [hsel']
    rw [hb] at hR hF hO
    simp only [if_true] at hR
    refine ⟨by rw [hO, hv]; rfl, ?_⟩
    intro k'
    rw [rf_same hg' (b := s) hF hg.finv.nodup, hR]
    have : rf_touchU now (ttl.map (now + ·)) (rf_view s (keyOf E s.cfg k)) = rf_view s (keyOf E s.cfg k) := by
      rw [hv]; rfl
    rw [this, hsame]
    rfl

theorem rf_touchU_rel {v d : Option Entry} {now : Int} (ne : Option Int) (h : rf_VRel v d now) :
    rf_VRel (rf_touchU now ne v) (rf_touchU now ne d) now := by
  rcases rf_VRel_cases h with h1 | ⟨h1, e, hd, he, hl⟩
  · rw [h1]; exact rf_VRel_refl _ _
  · rw [h1, hd]
    simp only [rf_touchU, hl, Bool.false_eq_true, if_false]
    exact .inr ⟨rfl, he⟩

end DC.Cache

namespace DC.Cache
open DC.Spec

/-! ### `add` -/

/-- the transaction body of `add` -/
def rf_addBody (dbk : SqlVal) (raw : Bool) (now : Int) (c : Cols) (s : Cache) : Body :=
  if !bindable dbk then { s := s.log (.sqlFail "selKey"), out := .exc "UnicodeEncodeError", ok := false } else
  let old := s.selKey dbk raw
  let s := s.logSql "selKey"
  match old with
  | some r =>
    if live now r then { s := s, out := .bool false, cleanup := [c.file] }
    else if !c.bindable then
      { s := s.log (.sqlFail "updRow"), out := .exc "UnicodeEncodeError", ok := false }
    else
      let s := s.updRow r.rowid now c
      let (s, cl2) := s.cullW now
      { s := s, out := .bool true, cleanup := [r.file] ++ cl2 }
  | none =>
    if !c.bindable then
      { s := s.log (.sqlFail "insRow"), out := .exc "UnicodeEncodeError", ok := false }
    else
    let s := s.insRow dbk raw now c
    let (s, cl2) := s.cullW now
    { s := s, out := .bool true, cleanup := cl2 }

theorem rf_add_eq (s : Cache) (E : Externals) (now : Int) (k v : PyVal) (ttl : Option Int) (read : Bool)
    (tag : SqlVal) :
    s.add E now k v ttl read tag =
      match s.store E v read with
      | .error _ => (s, .exc "UnicodeEncodeError")
      | .ok (s1, c) =>
        s1.transact (fresh := c.file) (rf_addBody (keyOf E s.cfg k).1 (keyOf E s.cfg k).2 now
          { c with expT := ttl.map (now + ·), tag := tag }) := rfl

theorem rf_addBody_unbindable (t : Cache) (dbk : SqlVal) (raw : Bool) (now : Int) (c : Cols)
    (hb : bindable dbk = false) :
    (rf_addBody dbk raw now c t).ok = false ∧ (rf_addBody dbk raw now c t).out = .exc "UnicodeEncodeError" ∧
    (rf_addBody dbk raw now c t).s.files = t.files := by
  unfold rf_addBody
  simp only [hb, Bool.not_false, if_true]
  exact ⟨trivial, trivial, rfl⟩

theorem rf_addBody_live (t : Cache) (dbk : SqlVal) (raw : Bool) (now : Int) (c : Cols)
    (hb : bindable dbk = true) {r : Row} (hs : t.selKey dbk raw = some r) (hl : live now r = true) :
    (rf_addBody dbk raw now c t).ok = true ∧ (rf_addBody dbk raw now c t).out = .bool false ∧
    (rf_addBody dbk raw now c t).s.rows = t.rows ∧ (rf_addBody dbk raw now c t).s.files = t.files := by
  unfold rf_addBody
  simp only [hb, hs, hl, Bool.not_true, Bool.false_eq_true, if_false, if_true]
  exact ⟨trivial, trivial, rfl, rfl⟩

theorem rf_addBody_colfail (t : Cache) (dbk : SqlVal) (raw : Bool) (now : Int) (c : Cols)
    (hb : bindable dbk = true) (hnl : ∀ r, t.selKey dbk raw = some r → live now r = false)
    (hcb : c.bindable = false) :
    (rf_addBody dbk raw now c t).ok = false ∧ (rf_addBody dbk raw now c t).out = .exc "UnicodeEncodeError" ∧
    (rf_addBody dbk raw now c t).s.files = t.files := by
  unfold rf_addBody
  cases hs : t.selKey dbk raw with
  | some r =>
    simp only [hb, hnl r hs, hcb, Bool.not_true, Bool.not_false, Bool.false_eq_true, if_false, if_true]
    exact ⟨trivial, trivial, rfl⟩
  | none =>
    simp only [hb, hcb, Bool.not_true, Bool.not_false, Bool.false_eq_true, if_false, if_true]
    exact ⟨trivial, trivial, rfl⟩

theorem rf_addBody_store (t : Cache) (dbk : SqlVal) (raw : Bool) (now : Int) (c : Cols)
    (hb : bindable dbk = true) (hnl : ∀ r, t.selKey dbk raw = some r → live now r = false)
    (hcb : c.bindable = true) :
    (rf_addBody dbk raw now c t).ok = (setBody dbk raw now c t).ok ∧
    (rf_addBody dbk raw now c t).out = (setBody dbk raw now c t).out ∧
    (rf_addBody dbk raw now c t).s = (setBody dbk raw now c t).s := by
  unfold rf_addBody setBody
  cases hs : t.selKey dbk raw with
  | some r =>
    simp only [hb, hnl r hs, hcb, Bool.not_true, Bool.false_eq_true, if_false]
    exact ⟨trivial, trivial, trivial⟩
  | none =>
    simp only [hb, hcb, Bool.not_true, Bool.false_eq_true, if_false]
    exact ⟨trivial, trivial, trivial⟩

theorem rf_add_view_gen (s : Cache) (E : Externals) (now : Int) (k v : PyVal) (ttl : Option Int)
    (read : Bool) (tag : SqlVal) (hg : Good s) :
    match place E s.cfg.disk s.cfg.minFileSize v read with
    | .error _ => s.add E now k v ttl read tag = (s, .exc "UnicodeEncodeError")
    | .ok p =>
      if !bindable (keyOf E s.cfg k).1 then
        (s.add E now k v ttl read tag).2 = .exc "UnicodeEncodeError" ∧
        ∀ k', rf_view (s.add E now k v ttl read tag).1 k' = rf_view s k'
      else if rf_has now (rf_view s (keyOf E s.cfg k)) then
        (s.add E now k v ttl read tag).2 = .bool false ∧
        ∀ k', rf_view (s.add E now k v ttl read tag).1 k' = rf_view s k'
      else if bindable (entryOf p (ttl.map (now + ·)) tag).tag &&
          bindable (entryOf p (ttl.map (now + ·)) tag).val then
        (s.add E now k v ttl read tag).2 = .bool true ∧
        rf_Wrote s (s.add E now k v ttl read tag).1 (keyOf E s.cfg k) now
          (entryOf p (ttl.map (now + ·)) tag)
      else
        (s.add E now k v ttl read tag).2 = .exc "UnicodeEncodeError" ∧
        ∀ k', rf_view (s.add E now k v ttl read tag).1 k' = rf_view s k' := by
  have hst := rf_store s E v read hg.pi
  have hg' := add_good s E now k v ttl read tag hg
  cases hpl : place E s.cfg.disk s.cfg.minFileSize v read with
  | error e =>
    rw [hpl] at hst
    simp only at hst ⊢
    rw [rf_add_eq, hst]
  | ok p =>
    rw [hpl] at hst
    obtain ⟨s1, c, hst, hrows, hcfg, hP1, hfsub, hexp, htag, hval, hent1⟩ := hst
    simp only
    have hS : s.add E now k v ttl read tag =
        s1.transact (fresh := c.file) (rf_addBody (keyOf E s.cfg k).1 (keyOf E s.cfg k).2 now
          { c with expT := ttl.map (now + ·), tag := tag }) := by
      rw [rf_add_eq, hst]
    rw [hS] at hg' ⊢
    have hd1 : s1.depth = 0 := hP1.depth
    obtain ⟨hR, hF, -, hO⟩ := rf_transact s1 (rf_addBody (keyOf E s.cfg k).1 (keyOf E s.cfg k).2 now
          { c with expT := ttl.map (now + ·), tag := tag }) c.file hd1
    have hentS : ∀ r ∈ s.rows, rf_ent s1 r = rf_ent s r :=
      fun r hr => (rf_ent_mono hfsub hP1.nodup (rf_good_ref hg hr)).symm
    have hi1 : TableInv (s1.log .begin) := log_inv _ (store_inv hst hg.tinv).1
    have hnn : (keyOf E s.cfg k).1 ≠ .null := put_ne_null_fl E s.cfg.disk k
    -- the three ways nothing changes
    have hsame : ∀ (hfiles : (rf_addBody (keyOf E s.cfg k).1 (keyOf E s.cfg k).2 now
          { c with expT := ttl.map (now + ·), tag := tag } (s1.log .begin)).s.files = s1.files)
        (hrw : (s1.transact (rf_addBody (keyOf E s.cfg k).1 (keyOf E s.cfg k).2 now
          { c with expT := ttl.map (now + ·), tag := tag }) c.file).1.rows = s1.rows),
        ∀ k', rf_view (s1.transact (rf_addBody (keyOf E s.cfg k).1 (keyOf E s.cfg k).2 now
          { c with expT := ttl.map (now + ·), tag := tag }) c.file).1 k' = rf_view s k' := by
      intro hfiles hrw k'
      rw [rf_same hg' (b := s1) (by intro q hq; have := hF q hq; rw [hfiles] at this; exact this)
        hP1.nodup, hrw, hrows]
      exact rf_look_congr hentS k'
    rw [rf_entryOf_tag, rf_entryOf_val p _ none _ .null, ← hval]
    cases hb : bindable (keyOf E s.cfg k).1 with
    | false =>
      simp only [Bool.not_false, if_true]
      obtain ⟨hok, hout, hfiles⟩ := rf_addBody_unbindable (s1.log .begin) (keyOf E s.cfg k).1
        (keyOf E s.cfg k).2 now { c with expT := ttl.map (now + ·), tag := tag } hb
      rw [hok] at hR
      exact ⟨hO.trans hout, hsame hfiles hR⟩
    | true =>
      simp only [Bool.not_true, Bool.false_eq_true, if_false]
      have hselc := rf_selKey_cases hg.tinv (keyOf E s.cfg k)
      have hsel1 : (s1.log .begin).selKey (keyOf E s.cfg k).1 (keyOf E s.cfg k).2 =
          s.selKey (keyOf E s.cfg k).1 (keyOf E s.cfg k).2 := selKey_congr hrows _ _
      cases hh : rf_has now (rf_view s (keyOf E s.cfg k)) with
      | true =>
        simp only [if_true]
        rcases hselc with ⟨r, hsel, -, -, hv⟩ | ⟨-, hv⟩
        · rw [hv] at hh
          obtain ⟨hok, hout, hrw, hfiles⟩ := rf_addBody_live (s1.log .begin) (keyOf E s.cfg k).1
            (keyOf E s.cfg k).2 now { c with expT := ttl.map (now + ·), tag := tag } hb
            (hsel1.trans hsel) hh
          rw [hok] at hR
          exact ⟨hO.trans hout, hsame hfiles (hR.trans hrw)⟩
        · rw [hv] at hh; cases hh
      | false =>
        simp only [Bool.false_eq_true, if_false]
        have hnl : ∀ r, (s1.log .begin).selKey (keyOf E s.cfg k).1 (keyOf E s.cfg k).2 = some r →
            live now r = false := by
          intro r hr
          rw [hsel1] at hr
          rcases hselc with ⟨r', hsel, -, -, hv⟩ | ⟨hsel, -⟩
          · rw [hsel] at hr; cases hr
            rw [hv] at hh; exact hh
          · rw [hsel] at hr; cases hr
        cases hcb : (bindable tag && bindable c.val) with
        | false =>
          simp only [Bool.false_eq_true, if_false]
          obtain ⟨hok, hout, hfiles⟩ := rf_addBody_colfail (s1.log .begin) (keyOf E s.cfg k).1
            (keyOf E s.cfg k).2 now { c with expT := ttl.map (now + ·), tag := tag } hb hnl hcb
          rw [hok] at hR
          exact ⟨hO.trans hout, hsame hfiles hR⟩
        | true =>
          simp only [if_true]
          obtain ⟨e1, e2, e3⟩ := rf_addBody_store (s1.log .begin) (keyOf E s.cfg k).1
            (keyOf E s.cfg k).2 now { c with expT := ttl.map (now + ·), tag := tag } hb hnl hcb
          obtain ⟨hok, hout, hfacts, hfiles, -⟩ := rf_setBody_ok_gen (s1.log .begin) (keyOf E s.cfg k).1
            (keyOf E s.cfg k).2 now { c with expT := ttl.map (now + ·), tag := tag } hi1 hnn hb hcb
          have hsz := rf_transact_size s1 (rf_addBody (keyOf E s.cfg k).1 (keyOf E s.cfg k).2 now
            { c with expT := ttl.map (now + ·), tag := tag }) c.file hd1 (e1.trans hok)
          rw [e3] at hsz
          rw [e1, e3, hok] at hR
          rw [e3] at hF
          rw [e2] at hO
          simp only [if_true] at hR
          refine ⟨hO.trans hout, ?_⟩
          have hu := (rf_setRows_unique hi1 (keyOf E s.cfg k).1 (keyOf E s.cfg k).2 now
            { c with expT := ttl.map (now + ·), tag := tag } hnn).1
          have hfacts' := hfacts
          rw [show (s1.log .begin).cfg = s.cfg from hcfg,
            show (s1.log .begin).env = s.env from (store_env hst : s1.env = s.env)] at hfacts'
          exact rf_lossy_finish (b := s1) hg hg' hfacts' hR hsz hu
            (rf_setRows_nonnull hi1 _ _ _ _ hnn)
            (by intro q hq; have := hF q hq; rw [hfiles] at this; exact this) hP1.nodup
            (rf_look_setRows (s := s) (s1 := s1) (t := s1.log .begin) hg.tinv hrows hentS
              (keyOf E s.cfg k) now { c with expT := ttl.map (now + ·), tag := tag }
              (entryOf p (ttl.map (now + ·)) tag)
              (by
                intro r h1 h2 h3 h4 h5
                simp only at h1 h2 h3 h4 h5
                rw [hent1 r h1 h2 h3, h4, h5]))
            (by
              have := rf_setRows_keep hi1 (keyOf E s.cfg k) now { c with expT := ttl.map (now + ·), tag := tag }
              rw [show (s1.log .begin).rows = s.rows from hrows] at this
              exact this)
            (by
              have h := rf_setRows_size_le hi1 (keyOf E s.cfg k).1 (keyOf E s.cfg k).2 now
                { c with expT := ttl.map (now + ·), tag := tag } hnn
              rw [show (s1.log .begin).size = s.size from (store_keep hst).2.2.2.1] at h
              rw [← rf_store_size hst hpl (ttl.map (now + ·)) tag]
              exact h)

theorem rf_add_view (s : Cache) (E : Externals) (now : Int) (k v : PyVal) (ttl : Option Int)
    (read : Bool) (tag : SqlVal) (hg : Good s) (hp : s.cfg.policy = .none) :
    match place E s.cfg.disk s.cfg.minFileSize v read with
    | .error _ => s.add E now k v ttl read tag = (s, .exc "UnicodeEncodeError")
    | .ok p =>
      if !bindable (keyOf E s.cfg k).1 then
        (s.add E now k v ttl read tag).2 = .exc "UnicodeEncodeError" ∧
        ∀ k', rf_view (s.add E now k v ttl read tag).1 k' = rf_view s k'
      else if rf_has now (rf_view s (keyOf E s.cfg k)) then
        (s.add E now k v ttl read tag).2 = .bool false ∧
        ∀ k', rf_view (s.add E now k v ttl read tag).1 k' = rf_view s k'
      else if bindable (entryOf p (ttl.map (now + ·)) tag).tag &&
          bindable (entryOf p (ttl.map (now + ·)) tag).val then
        (s.add E now k v ttl read tag).2 = .bool true ∧
        rf_Culled now (rf_at (keyOf E s.cfg k) (some (entryOf p (ttl.map (now + ·)) tag)) (rf_view s))
          (rf_view (s.add E now k v ttl read tag).1)
      else
        (s.add E now k v ttl read tag).2 = .exc "UnicodeEncodeError" ∧
        ∀ k', rf_view (s.add E now k v ttl read tag).1 k' = rf_view s k' := by
  have h := rf_add_view_gen s E now k v ttl read tag hg
  cases hpl : place E s.cfg.disk s.cfg.minFileSize v read with
  | error e => rw [hpl] at h; exact h
  | ok p =>
    rw [hpl] at h
    simp only at h ⊢
    split
    · rename_i hb; rw [if_pos hb] at h; exact h
    · rename_i hb
      rw [if_neg hb] at h
      split
      · rename_i hh; rw [if_pos hh] at h; exact h
      · rename_i hh
        rw [if_neg hh] at h
        split
        · rename_i hcb
          rw [if_pos hcb] at h
          exact ⟨h.1, rf_Wrote_none h.2 hp⟩
        · rename_i hcb
          rw [if_neg hcb] at h
          exact h

end DC.Cache
