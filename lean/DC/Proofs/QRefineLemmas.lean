/-
Helper lemmas for C10_Refine, part 1:
 * the list functions of DC/Model/QSpec.lean (`endOf`, `dropEnd`, `trimBy`) and `List.map`;
 * queue keys (`isQueueKey`) and the queue filters of DC/Proofs/Queue.lean;
 * `Shrunk c c' f`: "`c'` is `c` with the rows outside `f` (and their files) removed" — what it
   means for the queues, the entries, the view of the ordinary keys and the invariant `QOk`.
-/
import DC.Proofs.QRefineDefs

namespace DC.QSpec

theorem endOf_map {α β} (f : α → β) (front : Bool) (l : List α) :
    endOf front (l.map f) = (endOf front l).map f := by
  unfold endOf; cases front <;> simp

theorem dropEnd_map {α β} (f : α → β) (front : Bool) (l : List α) :
    dropEnd front (l.map f) = (dropEnd front l).map f := by
  unfold dropEnd; cases front <;> simp

theorem trimBy_map {α β} (dead : β → Bool) (f : α → β) (front : Bool) (l : List α) :
    trimBy dead front (l.map f) = (trimBy (dead ∘ f) front l).map f := by
  unfold trimBy
  cases front with
  | true => simp only [if_true, List.dropWhile_map]
  | false => simp only [Bool.false_eq_true, if_false, ← List.map_reverse, List.dropWhile_map]

theorem trimBy_congr {α} {d1 d2 : α → Bool} (front : Bool) (l : List α) (h : ∀ a ∈ l, d1 a = d2 a) :
    trimBy d1 front l = trimBy d2 front l := by
  have key : ∀ l : List α, (∀ a ∈ l, d1 a = d2 a) → l.dropWhile d1 = l.dropWhile d2 := by
    intro l
    induction l with
    | nil => intro _; rfl
    | cons a t ih =>
      intro h
      simp only [List.dropWhile_cons, h a List.mem_cons_self]
      rw [ih (fun b hb => h b (List.mem_cons_of_mem _ hb))]
  unfold trimBy
  cases front with
  | true => simp only [if_true]; exact key l h
  | false =>
    simp only [Bool.false_eq_true, if_false]
    rw [key l.reverse (fun a ha => h a (List.mem_reverse.1 ha))]

theorem trimBy_sub {α} (dead : α → Bool) (front : Bool) (l : List α) : ∀ a ∈ trimBy dead front l, a ∈ l := by
  intro a ha
  unfold trimBy at ha
  cases front with
  | true => exact (List.dropWhile_sublist _).subset ha
  | false =>
    simp only [Bool.false_eq_true, if_false] at ha
    exact List.mem_reverse.1 ((List.dropWhile_sublist _).subset (List.mem_reverse.1 ha))

theorem trimBy_nil {α} (dead : α → Bool) (front : Bool) : trimBy dead front [] = [] := by
  unfold trimBy; cases front <;> rfl

theorem endOf_nil {α} (front : Bool) : endOf front ([] : List α) = none := by
  unfold endOf; cases front <;> rfl

theorem endOf_none {α} {front : Bool} {l : List α} (h : endOf front l = none) : l = [] := by
  unfold endOf at h; cases front <;> simpa using h

theorem endOf_mem {α} {front : Bool} {l : List α} {a : α} (h : endOf front l = some a) : a ∈ l := by
  unfold endOf at h
  cases front with
  | true => exact List.mem_of_head? h
  | false => exact List.mem_of_getLast? h

/-- a list with an end element is that element put back on the rest -/
theorem end_shape {α} {front : Bool} {l : List α} {a : α} (h : endOf front l = some a) :
    l = (if front then a :: dropEnd front l else dropEnd front l ++ [a]) := by
  unfold endOf at h
  unfold dropEnd
  cases front with
  | true =>
    simp only [if_true] at h ⊢
    cases l with
    | nil => cases h
    | cons x t => simp at h; rw [h]; rfl
  | false =>
    simp only [Bool.false_eq_true, if_false] at h ⊢
    rcases List.eq_nil_or_concat l with rfl | ⟨t, x, rfl⟩
    · cases h
    · simp at h; simp [h]

theorem dropEnd_length {α} {front : Bool} {l : List α} {a : α} (h : endOf front l = some a) :
    (dropEnd front l).length + 1 = l.length := by
  have := congrArg List.length (end_shape h)
  cases front <;> simp at this <;> omega

theorem dropEnd_sub {α} (front : Bool) (l : List α) : ∀ a ∈ dropEnd front l, a ∈ l := by
  intro a ha
  unfold dropEnd at ha
  cases front with
  | true => exact List.mem_of_mem_tail ha
  | false => exact (List.dropLast_sublist l).subset ha

/-- one step of `trimBy`: a dead end element goes, a live one stops the trimming -/
theorem trimBy_step {α} (dead : α → Bool) {front : Bool} {l : List α} {a : α}
    (h : endOf front l = some a) :
    trimBy dead front l = if dead a then trimBy dead front (dropEnd front l) else l := by
  have hs := end_shape h
  cases front with
  | true =>
    simp only [if_true] at hs
    generalize dropEnd true l = t at hs ⊢
    subst hs
    unfold trimBy
    simp only [if_true, List.dropWhile_cons]
  | false =>
    simp only [Bool.false_eq_true, if_false] at hs
    generalize dropEnd false l = t at hs ⊢
    subst hs
    unfold trimBy
    simp only [Bool.false_eq_true, if_false, List.reverse_append, List.reverse_cons, List.reverse_nil,
      List.nil_append, List.singleton_append, List.dropWhile_cons]
    split
    · rfl
    · simp

/-- the end element of a trimmed list is not dead -/
theorem trimBy_end_live {α} (dead : α → Bool) (front : Bool) :
    ∀ (n : Nat) (l : List α), l.length = n → ∀ a, endOf front (trimBy dead front l) = some a → dead a = false := by
  intro n
  induction n with
  | zero =>
    intro l hl a ha
    have : l = [] := List.length_eq_zero_iff.1 hl
    subst this
    rw [trimBy_nil, endOf_nil] at ha; cases ha
  | succ n ih =>
    intro l hl a ha
    cases he : endOf front l with
    | none => rw [endOf_none he, trimBy_nil, endOf_nil] at ha; cases ha
    | some b =>
      rw [trimBy_step dead he] at ha
      cases hd : dead b with
      | true =>
        rw [hd] at ha
        simp only [if_true] at ha
        exact ih _ (by have := dropEnd_length he; omega) a ha
      | false =>
        rw [hd] at ha
        simp only [Bool.false_eq_true, if_false] at ha
        rw [he] at ha; cases ha; exact hd

/-! ### the finite map of queues -/

theorem get_put (qs : Queues) (p p' : Option Str) (l : List Item) :
    (qs.put p l).get p' = if p = p' then l else qs.get p' := by
  unfold Queues.put Queues.get
  by_cases h : p = p'
  · subst h; simp
  · simp only [h, if_false]
    rw [List.find?_cons]
    have h1 : ((p, l).1 == p') = false := by simpa using h
    simp only [h1]
    rw [List.find?_filter]
    congr 1
    apply DC.Cache.rf_find_congr
    intro x _
    by_cases hx : x.1 = p'
    · have h2 : (x.1 == p) = false := by rw [hx]; simpa using (fun e => h e.symm)
      have h3 : (x.1 == p') = true := by simpa using hx
      simp only [h2, h3]
      rfl
    · have h3 : (x.1 == p') = false := by simpa using hx
      simp only [h3]
      simp

theorem get_keep (qs : Queues) (keep : Spec.Entry → Bool) (p : Option Str) :
    (qs.keep keep).get p = (qs.get p).filter (fun it => keep it.ent) := by
  unfold Queues.keep Queues.get
  rw [List.find?_map]
  have : ((fun x : Option Str × List Item => x.1 == p) ∘
      fun x : Option Str × List Item => (x.1, x.2.filter (fun it => keep it.ent))) =
      (fun x => x.1 == p) := rfl
  rw [this]
  cases List.find? (fun x : Option Str × List Item => x.1 == p) qs <;> rfl

end DC.QSpec

namespace DC.Cache
open DC.Spec DC.QSpec

/-! ### queue keys -/

theorem inQueue_eq (p : Option Str) (k : SqlVal) : inQueue p k = kfilter p k := rfl

/-- a key in the range of a queue is a queue key -/
theorem isQueueKey_of_kfilter {p : Option Str} {k : SqlVal} (h : kfilter p k = true) :
    isQueueKey (k, true) = true := by
  have hq : qfilter p { (default : Row) with key := k, raw := true } = true := qfilter_iff.2 ⟨h, rfl⟩
  unfold isQueueKey
  simp only [Bool.true_and]
  cases p with
  | none =>
    have hc := qfilter_none hq
    simp only at hc
    cases k with
    | text cs => cases hc
    | null => cases hc
    | blob b => cases hc
    | int i => exact h
    | real b => exact h
  | some p =>
    obtain ⟨rest, hr, hl⟩ := qfilter_text hq
    simp only at hr
    subst hr
    simp only [List.length_append, hl, Nat.add_sub_cancel, List.take_left', Bool.and_eq_true,
      decide_eq_true_eq]
    exact ⟨by omega, h⟩

/-- a queue key lies in the range of a queue -/
theorem kfilter_of_isQueueKey {k : Spec.Key} (h : isQueueKey k = true) :
    ∃ p, kfilter p k.1 = true ∧ k.2 = true := by
  unfold isQueueKey at h
  simp only [Bool.and_eq_true] at h
  obtain ⟨h1, h2⟩ := h
  split at h2
  · simp only [Bool.and_eq_true] at h2
    exact ⟨_, h2.2, h1⟩
  · exact ⟨none, h2, h1⟩

theorem isQueueKey_sameKey {a b : Spec.Key} (h : sameKey a b = true) : isQueueKey a = isQueueKey b := by
  simp only [sameKey, Bool.and_eq_true, beq_iff_eq] at h
  obtain ⟨he, hr⟩ := h
  have key : ∀ a b : Spec.Key, a.1.eqv b.1 = true → a.2 = b.2 → isQueueKey a = true → isQueueKey b = true := by
    intro a b he hr ha
    obtain ⟨p, hp, h2⟩ := kfilter_of_isQueueKey ha
    have := isQueueKey_of_kfilter (kfilter_eqv (SqlVal.eqv_symm _ _ he) hp)
    have hb : b = (b.1, true) := by rw [← hr.symm.trans h2]
    rw [hb]; exact this
  cases h1 : isQueueKey a <;> cases h2 : isQueueKey b <;> try rfl
  · rw [key b a (SqlVal.eqv_symm _ _ he) hr.symm h2] at h1; cases h1
  · rw [key a b he hr h1] at h2; cases h2

/-- a queue row does not match an ordinary key -/
theorem keyMatch_ordinary {k : Spec.Key} (hk : isQueueKey k = false) {p : Option Str} {r : Row}
    (hr : qfilter p r = true) : keyMatch k.1 k.2 r = false := by
  cases h : keyMatch k.1 k.2 r with
  | false => rfl
  | true =>
    obtain ⟨h1, h2⟩ := qfilter_iff.1 hr
    have hs : sameKey (r.key, r.raw) k = true := h
    have := isQueueKey_sameKey hs
    rw [hk, h2, isQueueKey_of_kfilter h1] at this
    cases this

/-! ### removing rows -/

/-- `c'` is `c` with the rows outside `f` removed: nothing else in the table changes, the
configuration is the same, no file appears, and `c'` is quiescent and consistent -/
structure Shrunk (c c' : Cache) (f : Row → Bool) : Prop where
  good : Good c'
  rows : c'.rows = c.rows.filter f
  cfg : c'.cfg = c.cfg
  files : ∀ p ∈ c'.files, p ∈ c.files

theorem Shrunk.refl {c : Cache} (hg : Good c) : Shrunk c c (fun _ => true) :=
  ⟨hg, (filter_true' _).symm, rfl, fun _ h => h⟩

theorem Shrunk.of_core {c c' : Cache} (hg' : Good c') (h : core c' = core c) : Shrunk c c' (fun _ => true) := by
  refine ⟨hg', ?_, congrArg Core.cfg h, ?_⟩
  · rw [filter_true']; exact congrArg Core.rows h
  · intro p hp
    have : c'.files = c.files := congrArg Core.files h
    rw [← this]; exact hp

theorem Shrunk.trans {a b c : Cache} {f g : Row → Bool} (h1 : Shrunk a b f) (h2 : Shrunk b c g) :
    Shrunk a c (fun x => f x && g x) := by
  refine ⟨h2.good, ?_, h2.cfg.trans h1.cfg, fun p hp => h1.files p (h2.files p hp)⟩
  rw [h2.rows, h1.rows, List.filter_filter]
  apply List.filter_congr
  intro x _
  exact Bool.and_comm _ _

theorem Shrunk.sub {c c' : Cache} {f : Row → Bool} (h : Shrunk c c' f) : ∀ r ∈ c'.rows, r ∈ c.rows := by
  intro r hr; rw [h.rows] at hr; exact (List.mem_filter.1 hr).1

theorem Shrunk.ent {c c' : Cache} {f : Row → Bool} (hg : Good c) (h : Shrunk c c' f) :
    ∀ r ∈ c'.rows, rf_ent c' r = rf_ent c r :=
  fun _ hr => rf_ent_mono h.files hg.finv.nodup (rf_good_ref h.good hr)

theorem Shrunk.qrows {c c' : Cache} {f : Row → Bool} (hg : Good c) (h : Shrunk c c' f)
    (p : Option Str) : c'.queueRows p = (c.queueRows p).filter f := by
  rw [queueRows_eq, queueRows_eq, h.rows, qrows_filter hg.tinv.tbl.uniq hg.tinv.tbl.nonnull]

theorem Shrunk.queue_sub {c c' : Cache} {f : Row → Bool} (hg : Good c) (h : Shrunk c c' f)
    (p : Option Str) : ∀ r ∈ c'.queueRows p, r ∈ c.queueRows p := by
  intro r hr
  rw [h.qrows hg] at hr
  exact (List.mem_filter.1 hr).1

theorem Shrunk.item {c c' : Cache} {f : Row → Bool} (hg : Good c) (h : Shrunk c c' f)
    {r : Row} (hr : r ∈ c'.rows) : itemOfRow c' r = itemOfRow c r := by
  unfold itemOfRow
  rw [entryOfRow_eq, entryOfRow_eq, h.ent hg r hr]

/-- the queues of the smaller state, as items -/
theorem Shrunk.absQ {c c' : Cache} {f : Row → Bool} (hg : Good c) (h : Shrunk c c' f)
    (p : Option Str) : absQueue c' p = ((c.queueRows p).filter f).map (itemOfRow c) := by
  unfold absQueue
  rw [← h.qrows hg]
  apply List.map_congr_left
  intro r hr
  rw [queueRows_eq] at hr
  exact h.item hg (mem_qrows.1 hr).1

/-- a queue none of whose rows is removed is unchanged -/
theorem Shrunk.absQ_same {c c' : Cache} {f : Row → Bool} (hg : Good c) (h : Shrunk c c' f)
    (p : Option Str) (hf : ∀ r ∈ c.queueRows p, f r = true) : absQueue c' p = absQueue c p := by
  rw [h.absQ hg, List.filter_eq_self.2 hf]; rfl

/-- the view of a key whose row (if there is one) is not removed -/
theorem Shrunk.view {c c' : Cache} {f : Row → Bool} (hg : Good c) (h : Shrunk c c' f) (k : Spec.Key)
    (hf : ∀ r ∈ c.rows, keyMatch k.1 k.2 r = true → f r = true) : rf_view c' k = rf_view c k := by
  rw [rf_same h.good h.files hg.finv.nodup, h.rows, rf_look_filter hg.tinv.tbl.uniq]
  unfold rf_view rf_look
  cases hfd : c.rows.find? (keyMatch k.1 k.2) with
  | none => rfl
  | some x =>
    have := hf x (List.mem_of_find?_eq_some hfd) (List.find?_some hfd)
    simp [Option.filter, this]

/-- the view of a key in general: gone if its row is removed -/
theorem Shrunk.view_filter {c c' : Cache} {f : Row → Bool} (hg : Good c) (h : Shrunk c c' f) (k : Spec.Key) :
    rf_view c' k = ((c.rows.find? (keyMatch k.1 k.2)).filter f).map (rf_ent c) := by
  rw [rf_same h.good h.files hg.finv.nodup, h.rows, rf_look_filter hg.tinv.tbl.uniq]

/-- the invariant survives the removal of rows -/
theorem QOk.shrunk {c c' : Cache} {f : Row → Bool} {n : Nat} (hok : QOk c n) (h : Shrunk c c' f) :
    QOk c' n := by
  have hq := h.queue_sub hok.good
  refine ⟨h.good, by rw [h.cfg]; exact hok.pol, by rw [h.cfg]; exact hok.page,
    fun p r hr => hok.qok p r (hq p r hr), fun p r hr => hok.room p r (hq p r hr), ?_,
    by rw [h.cfg]; exact hok.originN, ?_, ?_⟩
  · unfold OriginOk; rw [h.cfg]; exact hok.origin
  · intro p r hr
    have hr' : r ∈ c'.rows := by rw [queueRows_eq] at hr; exact (mem_qrows.1 hr).1
    rw [entryOfRow_eq, h.ent hok.good r hr']
    exact hok.readable p r (hq p r hr)
  · rw [h.cfg]
    rcases hok.quiet with h0 | h0
    · exact .inl h0
    · exact .inr (fun p r hr => h0 p r (hq p r hr))

theorem QOk.mono {c : Cache} {n : Nat} (h : QOk c (n + 1)) : QOk c n :=
  { h with
    room := fun p r hr k hk => by
      have := h.room p r hr k hk
      constructor <;> omega
    originN := by
      have := h.originN
      constructor <;> omega }

theorem QOkL.shrunk {c c' : Cache} {f : Row → Bool} {n : Nat} (hok : QOkL c n) (h : Shrunk c c' f) :
    QOkL c' n := by
  have hq := h.queue_sub hok.good
  refine ⟨h.good, by rw [h.cfg]; exact hok.pol, by rw [h.cfg]; exact hok.page,
    fun p r hr => hok.qok p r (hq p r hr), fun p r hr => hok.room p r (hq p r hr), ?_,
    by rw [h.cfg]; exact hok.originN, ?_⟩
  · unfold OriginOk; rw [h.cfg]; exact hok.origin
  · intro p r hr
    have hr' : r ∈ c'.rows := by rw [queueRows_eq] at hr; exact (mem_qrows.1 hr).1
    rw [entryOfRow_eq, h.ent hok.good r hr']
    exact hok.readable p r (hq p r hr)

theorem QOkL.mono {c : Cache} {n : Nat} (h : QOkL c (n + 1)) : QOkL c n :=
  { h with
    room := fun p r hr k hk => by
      have := h.room p r hr k hk
      constructor <;> omega
    originN := by
      have := h.originN
      constructor <;> omega }

/-- the relation survives the removal of rows when the specification's queues are filtered
alike and no row of an ordinary key is removed -/
theorem QRefines.shrunk_dict {c c' : Cache} {f : Row → Bool} {q : QSpec.State} {clock now : Int}
    (hg : Good c) (hr : QRefines c q clock) (hn : clock ≤ now) (h : Shrunk c c' f)
    (hf : ∀ r ∈ c.rows, (∀ p, r ∉ c.queueRows p) → f r = true) :
    ∀ k : Spec.Key, isQueueKey k = false → HoldsKey c' k (q.dict.get k) now := by
  intro k hk
  rw [holdsKey_iff]
  have h0 := (holdsKey_iff _ _ _ _).1 (hr.dict k hk)
  rw [h.view hg k]
  · exact rf_VRel_mono h0 hn
  · intro r hr' hm
    apply hf r hr'
    intro p hp
    rw [queueRows_eq] at hp
    have := keyMatch_ordinary hk (mem_qrows.1 hp).2
    rw [hm] at this; cases this

end DC.Cache
