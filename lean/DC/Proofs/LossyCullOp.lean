/-
C03_Lossy / C09: the explicit `cull()` under an eviction policy.  After the
expired rows are gone (`expireLoop`), the policy loop (`cullLoop`) removes
batches of rows in the policy's order while the observed volume is above the
limit.  Here: the files that remain are files of the state before, the evicted
rows precede the survivors in the policy order, the loop starts only above the
limit and stops only at an empty table or with the volume within the limit.
-/
import DC.Proofs.LossyOps

namespace DC.Cache
open DC.Spec

/-! ### one transaction whose body cannot fail -/

theorem rf_transact_okbody (s : Cache) (body : Cache → Body) (hok : ∀ t, (body t).ok = true) :
    ∃ t, t.files = s.files ∧ t.env = s.env ∧ t.cfg = s.cfg ∧
      (∀ p ∈ (s.transact body).1.files, p ∈ (body t).s.files) ∧
      (s.transact body).1.env = (body t).s.env := by
  unfold transact
  by_cases hd : s.depth > 0
  · refine ⟨s, rfl, rfl, rfl, ?_⟩
    simp only [hd, if_true, hok]
    exact ⟨fun p hp => hp, trivial⟩
  · refine ⟨s.log .begin, rfl, rfl, rfl, ?_⟩
    simp only [hd, if_false, hok, if_true]
    refine ⟨fun p hp => ?_, ?_⟩
    · exact mem_of_fremoveAll (s := (body (s.log .begin)).s.log .commit) hp
    · exact (fremoveAll_size_env _ _).2

theorem cullStep_files_env (s : Cache) (rows : List Row) :
    (∀ p ∈ (cullStep s rows).files, p ∈ s.files) ∧ (cullStep s rows).env = s.env := by
  obtain ⟨t, h1, h2, -, h4, h5⟩ := rf_transact_okbody s (fun s =>
    { s := ((s.logSql "selPolicy").delIn (rows.map (·.rowid))).logSql "delPolicy", out := .none,
      cleanup := rows.map (·.file) }) (fun _ => rfl)
  refine ⟨fun p hp => ?_, ?_⟩
  · have := h4 p hp
    simp only [logSql_files, (delIn_keep _ _).2.1] at this
    rw [h1] at this; exact this
  · show (s.transact _).1.env = _
    rw [h5]
    simp only [logSql_env, delIn_env]
    exact h2

theorem cullEmpty_files_env (s : Cache) :
    (∀ p ∈ (cullEmpty s).files, p ∈ s.files) ∧ (cullEmpty s).env = s.env := by
  obtain ⟨t, h1, h2, -, h4, h5⟩ := rf_transact_okbody s (fun s =>
    { s := s.logSql "selPolicy", out := .none }) (fun _ => rfl)
  refine ⟨fun p hp => ?_, ?_⟩
  · have := h4 p hp
    simp only [logSql_files] at this
    rw [h1] at this; exact this
  · show (s.transact _).1.env = _
    rw [h5]
    simp only [logSql_env]
    exact h2

theorem volume_files (s : Cache) : s.volume.1.files = s.files := congrArg Core.files (core_volume s)

theorem volume_env_tail (s : Cache) : s.volume.1.env = s.env.tail := by
  unfold volume
  simp only [logSql_env]
  cases s.env <;> rfl

theorem volume_snd_nil (s : Cache) (h : s.env = []) : s.volume.2 = s.size := by
  unfold volume; simp only [logSql_env, h]; rfl

/-! ### the policy loop -/

theorem cullLoop_files : ∀ (fuel : Nat) (s : Cache) (n : Nat),
    ∀ p ∈ (cullLoop fuel s n).1.files, p ∈ s.files := by
  intro fuel
  induction fuel with
  | zero => intro s n p hp; exact hp
  | succ fuel ih =>
    intro s n p hp
    rw [cullLoop_succ] at hp
    split at hp
    · rw [volume_files] at hp; exact hp
    · split at hp
      · have := (cullEmpty_files_env s.volume.1).1 p hp
        rw [volume_files] at this; exact this
      · have := (cullStep_files_env s.volume.1 _).1 p (ih _ _ p hp)
        rw [volume_files] at this; exact this

/-- every row the loop removes precedes (weakly) every row it leaves, in the policy's order -/
theorem cullLoop_order : ∀ (fuel : Nat) (s : Cache) (n : Nat), RowidsAsc s.rows →
    ∀ x ∈ s.rows, x ∉ (cullLoop fuel s n).1.rows → ∀ w ∈ (cullLoop fuel s n).1.rows,
      policyLt s.cfg.policy w x = false := by
  intro fuel
  induction fuel with
  | zero => intro s n _ x hx hnot; exact absurd hx hnot
  | succ fuel ih =>
    intro s n hasc x hx hnot w hw
    rw [cullLoop_succ] at hnot hw
    split at hnot
    · rw [volume_rows] at hnot; exact absurd hx hnot
    · rename_i h1
      rw [if_neg h1] at hw
      split at hnot
      · rw [cullEmpty_rows, volume_rows] at hnot; exact absurd hx hnot
      · rename_i h2
        rw [if_neg h2] at hw
        have hasc0 : RowidsAsc s.volume.1.rows := by rw [volume_rows]; exact hasc
        have hrows := cullStep_rows_sub s.volume.1 hasc0 s.volume.1.cfg.batch
        have hcfg : (cullStep s.volume.1 (s.volume.1.selPolicy s.volume.1.cfg.batch)).cfg = s.cfg := by
          rw [cullStep_cfg, volume_cfg]
        have hasc2 : RowidsAsc (cullStep s.volume.1 (s.volume.1.selPolicy s.volume.1.cfg.batch)).rows := by
          rw [hrows]; exact hasc0.filter _
        have hsub := (cullLoop_inv fuel _ (n + (s.volume.1.selPolicy s.volume.1.cfg.batch).length) hasc2).1
        have hw2 := hsub.subset hw
        rw [hrows] at hw2
        obtain ⟨hw3, hw4⟩ := List.mem_filter.1 hw2
        have hw4 : w ∉ s.volume.1.selPolicy s.volume.1.cfg.batch := by simpa using hw4
        by_cases hxb : x ∈ s.volume.1.selPolicy s.volume.1.cfg.batch
        · unfold selPolicy at hxb hw4
          rw [volume_rows, volume_cfg] at hxb hw4
          rw [volume_rows] at hw3
          exact isort_take_le (policyLt_strictWeak _) s.rows _ hxb hw3 hw4
        · have hx2 : x ∈ (cullStep s.volume.1 (s.volume.1.selPolicy s.volume.1.cfg.batch)).rows := by
            rw [hrows]
            exact List.mem_filter.2 ⟨by rw [volume_rows]; exact hx, by simpa using hxb⟩
          have := ih _ _ hasc2 x hx2 hnot w hw
          rw [hcfg] at this
          exact this

/-- the loop removes something only if the first observed volume is above the limit -/
theorem cullLoop_started (fuel : Nat) (s : Cache) (n : Nat)
    (hne : (cullLoop fuel s n).1.rows ≠ s.rows) :
    ∀ pb rest, s.env = pb :: rest → aboveLimit s.cfg ((pb : Int) + s.size) = true := by
  intro pb rest henv
  cases fuel with
  | zero => exact absurd rfl hne
  | succ fuel =>
    rw [cullLoop_succ] at hne
    split at hne
    · rw [volume_rows] at hne; exact absurd rfl hne
    · rename_i h1
      rw [volume_cfg, volume_snd_cons s pb rest henv] at h1
      simpa using h1

/-- with a positive batch size and enough fuel the loop stops at an empty table or with the
last observed volume not above the limit -/
theorem cullLoop_stopped : ∀ (fuel : Nat) (s : Cache) (n : Nat), RowidsAsc s.rows → 0 < s.cfg.batch →
    s.rows.length < fuel →
    (cullLoop fuel s n).1.rows = [] ∨
    ∃ pb : Nat, (pb = 0 ∨ pb ∈ s.env) ∧
      aboveLimit s.cfg ((pb : Int) + (cullLoop fuel s n).1.size) = false := by
  intro fuel
  induction fuel with
  | zero => intro s n _ _ h; omega
  | succ fuel ih =>
    intro s n hasc hb hlen
    rw [cullLoop_succ]
    split
    · rename_i h1
      right
      rw [volume_cfg] at h1
      simp only [volume_size]
      cases henv : s.env with
      | nil =>
        rw [volume_snd_nil s henv] at h1
        exact ⟨0, .inl rfl, by simpa using h1⟩
      | cons pb rest =>
        rw [volume_snd_cons s pb rest henv] at h1
        exact ⟨pb, .inr (by simp), by simpa using h1⟩
    · split
      · rename_i h2
        left
        rw [cullEmpty_rows, volume_rows]
        have h3 : (s.volume.1.selPolicy s.volume.1.cfg.batch) = [] := List.isEmpty_iff.1 h2
        unfold selPolicy at h3
        rw [volume_rows, volume_cfg] at h3
        have h4 := congrArg List.length h3
        rw [List.length_take, length_isort_ec] at h4
        simp only [List.length_nil] at h4
        exact List.eq_nil_of_length_eq_zero (by omega)
      · rename_i h1 h2
        have hasc0 : RowidsAsc s.volume.1.rows := by rw [volume_rows]; exact hasc
        have hrows := cullStep_rows_sub s.volume.1 hasc0 s.volume.1.cfg.batch
        have hl := length_filter_not_mem hasc0.nodup (selPolicy_nodup hasc0 s.volume.1.cfg.batch)
          (fun x hx => selPolicy_mem hx)
        have hpos : 0 < (s.volume.1.selPolicy s.volume.1.cfg.batch).length := by
          cases hsel : s.volume.1.selPolicy s.volume.1.cfg.batch with
          | nil => rw [hsel] at h2; simp at h2
          | cons a t => simp
        have hcfg : (cullStep s.volume.1 (s.volume.1.selPolicy s.volume.1.cfg.batch)).cfg = s.cfg := by
          rw [cullStep_cfg, volume_cfg]
        rw [volume_rows] at hl
        have := ih (cullStep s.volume.1 (s.volume.1.selPolicy s.volume.1.cfg.batch))
          (n + (s.volume.1.selPolicy s.volume.1.cfg.batch).length)
          (by rw [hrows]; exact hasc0.filter _) (by rw [hcfg]; exact hb)
          (by rw [hrows]; rw [volume_rows]; omega)
        rcases this with h | ⟨pb, hpb, h⟩
        · exact .inl h
        · right
          refine ⟨pb, ?_, by rw [hcfg] at h; exact h⟩
          rcases hpb with h0 | hm
          · exact .inl h0
          · right
            rw [(cullStep_files_env _ _).2, volume_env_tail] at hm
            exact List.mem_of_mem_tail hm

/-- what is left of a table without expired rows, and what is missing from it -/
theorem lost_partition {now : Int} {X Y : List Row} (h : Y.Sublist X) (hn : X.Nodup)
    (hX : ∀ r ∈ X, expired now r = false) :
    sumSizes Y + sumSizes (lostRows now X Y) = sumSizes X ∧
    Y.length + (lostRows now X Y).length = X.length := by
  have hL : lostRows now X Y = X.filter (fun r => !decide (r ∈ Y)) := by
    unfold lostRows
    apply List.filter_congr
    intro r hr
    simp [hX r hr]
  have hY := filter_mem_sublist h hn
  rw [hL]
  refine ⟨?_, ?_⟩
  · have := sumSizes_filter_add (fun r => decide (r ∈ Y)) X
    rw [hY] at this; exact this
  · have := length_filter_add_not (fun r => decide (r ∈ Y)) X
    rw [hY] at this; exact this

/-! ### the explicit `cull()` -/

theorem deletePage_env (s : Cache) (page : List Row) (sel : String) :
    (s.deletePage page sel).env = s.env := by
  rw [deletePage_eq]
  obtain ⟨t, -, h2, -, -, h5⟩ := rf_transact_okbody s (pageBody page sel) (pageBody_ok page sel)
  rw [h5]
  unfold pageBody
  simp only
  split
  · exact h2
  · simp only [logSql_env, delIn_env]; exact h2

theorem expireLoop_env (now : Int) : ∀ (fuel : Nat) (s : Cache) (lo : Option Int) (n : Nat),
    (expireLoop now fuel s lo n).1.env = s.env := by
  intro fuel
  induction fuel with
  | zero => intro s lo n; rfl
  | succ f ih =>
    intro s lo n
    unfold expireLoop
    simp only
    split
    · exact deletePage_env _ _ _
    · rw [ih]; exact deletePage_env _ _ _

/-- the state after `cull()`: a part of the unexpired rows, files of the state before, and the
facts of `CullLoss` about the missing (evicted) rows -/
theorem rf_cull_lossy (c : Cache) (now : Int) (hg : Good c) (hpg : 0 < c.cfg.page) :
    (c.cull now).1.rows.Sublist (c.rows.filter (fun r => !(expired now r))) ∧
    (∀ p ∈ (c.cull now).1.files, p ∈ c.files) ∧
    CullLoss c (c.cull now).1 (c.cull now).2 now
      (lostRows now (c.rows.filter (fun r => !(expired now r))) (c.cull now).1.rows) := by
  have hasc := hg.tinv.tbl.asc
  have hspec := cull_spec c now hasc hpg
  have hcount := cull_count c now hasc hpg
  have hti' := cull_inv c now hg.tinv
  obtain ⟨e1, -, e3⟩ := expire_spec c now hasc hpg
  have hti1 := expireLoop_inv now (c.rows.length + 1) (s := c) none 0 hg.tinv
  have henv1 := expireLoop_env now (c.rows.length + 1) c none 0
  have hfiles1 := rf_expireLoop_files now (c.rows.length + 1) c none 0
  have hXe : ∀ r ∈ c.rows.filter (fun r => !(expired now r)), expired now r = false := by
    intro r hr; simpa using (List.mem_filter.1 hr).2
  have hXasc : RowidsAsc (c.rows.filter (fun r => !(expired now r))) := hasc.filter _
  have hXu : KeysUnique (c.rows.filter (fun r => !(expired now r))) :=
    List.Pairwise.sublist List.filter_sublist hg.tinv.tbl.uniq
  have hXnn : ∀ r ∈ c.rows.filter (fun r => !(expired now r)), r.key ≠ .null :=
    fun r hr => hg.tinv.tbl.nonnull r (List.mem_filter.1 hr).1
  obtain ⟨-, f2, f3, f4⟩ := rf_lost_facts (b := c) (now := now) hXu hXnn (fun r hr => hspec.1.subset hr)
  obtain ⟨p1, p2⟩ := lost_partition hspec.1 hXasc.nodup hXe
  have hlen := length_filter_add_not (expired now) c.rows
  have hcounted : (c.cull now).2 = .int (((c.rows.filter (expired now)).length +
      (lostRows now (c.rows.filter (fun r => !(expired now r))) (c.cull now).1.rows).length : Nat) : Int) := by
    rw [hcount]
    congr 1
    omega
  refine ⟨hspec.1, ?_, ?_, ?_, ?_, ?_, hcounted, f2, f3, f4⟩
  · -- files
    rw [cull_eq]
    split
    · exact hfiles1
    · intro p hp
      exact hfiles1 p (cullLoop_files _ _ _ p hp)
  · -- policy none
    intro hp
    rw [(cull_none c now hasc hpg hp).1]
    exact lostRows_eq_nil (fun r hr hn => absurd hr hn)
  · -- started
    intro hne pb rest henv
    have hrows : (c.cull now).1.rows ≠ c.rows.filter (fun r => !(expired now r)) := by
      intro hc
      rw [hc] at hne
      exact hne (lostRows_eq_nil (fun r hr hn => absurd hr hn))
    have hsz : (c.cull now).1.size + sumSizes (lostRows now (c.rows.filter (fun r => !(expired now r)))
        (c.cull now).1.rows) = (expireLoop now (c.rows.length + 1) c none 0).1.size := by
      rw [hti'.tbl.size, hti1.tbl.size, e1]; exact p1
    rw [Int.add_assoc, hsz]
    rw [cull_eq] at hrows
    split at hrows
    · exact absurd e1 hrows
    · rw [← e1] at hrows
      have := cullLoop_started _ _ _ hrows pb rest (henv1.trans henv)
      rw [e3] at this
      exact this
  · -- order
    intro r hr w hw
    obtain ⟨hrX, -, hrY⟩ := mem_lostRows.1 hr
    rw [cull_eq] at hrY hw
    split at hrY
    · rw [e1] at hrY; exact absurd hrX hrY
    · rename_i hpol
      rw [if_neg hpol] at hw
      rw [← e1] at hrX
      have := cullLoop_order _ _ _ (by rw [e1]; exact hXasc) r hrX hrY w hw
      rw [e3] at this
      revert this
      cases c.cfg.policy <;> simp [policyLt, policyKey]
  · -- stopped
    intro hpol hb
    rw [cull_eq]
    have hpol' : ((expireLoop now (c.rows.length + 1) c none 0).1.cfg.policy == Policy.none) = false := by
      rw [e3]; simpa using hpol
    simp only [hpol', Bool.false_eq_true, if_false]
    have := cullLoop_stopped ((expireLoop now (c.rows.length + 1) c none 0).1.rows.length + 1)
      (expireLoop now (c.rows.length + 1) c none 0).1 (expireLoop now (c.rows.length + 1) c none 0).2
      (by rw [e1]; exact hXasc) (by rw [e3]; exact hb) (Nat.lt_succ_self _)
    rw [e3, henv1] at this
    exact this

/-- the view after `cull()`: the unexpired entries, minus the keys of the evicted rows -/
theorem rf_cull_view (c : Cache) (now : Int) (hg : Good c) (hpg : 0 < c.cfg.page) :
    rf_Lossy now ((lostRows now (c.rows.filter (fun r => !(expired now r))) (c.cull now).1.rows).map rowKey)
      (fun k => (rf_view c k).filter (fun e => !e.expired now)) (rf_view (c.cull now).1) := by
  obtain ⟨h1, h2, -⟩ := rf_cull_lossy c now hg hpg
  have hXu : KeysUnique (c.rows.filter (fun r => !(expired now r))) :=
    List.Pairwise.sublist List.filter_sublist hg.tinv.tbl.uniq
  have := rf_lossy (b := c) (now := now) (cull_good c now hg) hXu (fun r hr => h1.subset hr) h2
    hg.finv.nodup
  have hv : rf_look (c.rows.filter (fun r => !(expired now r))) c =
      fun k => (rf_view c k).filter (fun e => !e.expired now) := by
    funext k
    rw [rf_look_filter hg.tinv.tbl.uniq]
    unfold rf_view rf_look
    cases c.rows.find? (keyMatch k.1 k.2) with
    | none => rfl
    | some x =>
      cases h : expired now x <;> simp [Option.filter, rf_ent_expired, h]
  rw [hv] at this
  exact this

/-! ### the configuration is never changed -/

theorem cullEmpty_cfg (s : Cache) : (cullEmpty s).cfg = s.cfg := by
  unfold cullEmpty transact
  by_cases hd : s.depth > 0
  · simp [hd]
  · simp [hd]

theorem cullLoop_cfg : ∀ (fuel : Nat) (s : Cache) (n : Nat), (cullLoop fuel s n).1.cfg = s.cfg := by
  intro fuel
  induction fuel with
  | zero => intro s n; rfl
  | succ fuel ih =>
    intro s n
    rw [cullLoop_succ]
    split
    · exact volume_cfg s
    · split
      · rw [cullEmpty_cfg, volume_cfg]
      · rw [ih, cullStep_cfg, volume_cfg]

theorem rf_cull_cfg_gen (s : Cache) (now : Int) : (s.cull now).1.cfg = s.cfg := by
  rw [cull_eq]
  have := rf_expireLoop_cfg now (s.rows.length + 1) s none 0
  split
  · exact this
  · rw [cullLoop_cfg]; exact this

/-- no call of the specification changes the configuration, whatever the eviction policy -/
theorem rf_step_cfg_gen (c : Cache) (op : Op) (hk : Keyed op = true) : (c.step op).1.cfg = c.cfg := by
  cases op <;> simp only [Keyed, Bool.false_eq_true] at hk <;> simp only [step]
  · exact rf_set_cfg ..
  · exact rf_add_cfg ..
  · exact rf_touch_cfg ..
  · exact rf_incr_cfg ..
  · exact rf_get_cfg ..
  · exact rf_contains_cfg ..
  · exact rf_pop_cfg ..
  · exact rf_delitem_cfg ..
  · exact rf_delete_cfg ..
  · exact rf_clear_cfg ..
  · exact rf_evict_cfg ..
  · exact rf_expire_cfg ..
  · exact rf_cull_cfg_gen ..

end DC.Cache
